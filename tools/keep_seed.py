#!/usr/bin/env python3
"""keep_seed.py <src-dir> <seed-id> <property> <detected-by> <demo-dest> <demo-cmd> -- copies a confirmed seeded change into /verif/seeded/<seed-id>/ with meta.json"""
import sys, os, shutil, json, re
src, sid, prop, detected, dest, cmd = sys.argv[1:7]
confirm = sys.argv[7] if len(sys.argv) > 7 else ""
d = f"/verif/seeded/{sid}"
os.makedirs(d, exist_ok=True)
for f in os.listdir(src):
    shutil.copy(os.path.join(src, f), d)
notes = open(os.path.join(src, "notes.md")).read() if os.path.exists(os.path.join(src, "notes.md")) else ""
needs = ""
m = re.search(r"(?is)(needs?[^\n]*manifest[^\n]*\n.*?)(\n#|\Z)", notes)
if m: needs = m.group(1).strip()[:1200]
meta = {
  "seed_id": sid, "breaks_property": prop,
  "what_it_needs_to_manifest": needs or "see notes.md",
  "demo": {"place_in": dest, "run": cmd},
  "confirmed": confirm,
  "what_i_ran": [
    "tools/confirm_seed.sh (scratch worktree of /repo HEAD): patch applies, go build ./..., existing tests of touched packages + root pass with the patch, demo passes clean and fails with the patch",
    "tools/try_seed.sh patch.diff <prop>: git -C /repo apply, bin/check <prop> quick, git checkout -- .",
  ],
  "detected_by": detected,
}
json.dump(meta, open(os.path.join(d, "meta.json"), "w"), indent=1)
print("kept", d)
