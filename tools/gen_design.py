#!/usr/bin/env python3
"""Regenerates the generated regions of /verif/DESIGN.md (between <!-- BEGIN GENERATED:x --> / <!-- END GENERATED:x -->)
from evidence/*.json (run the thorough tier first so that the controls are present), seeded/*/meta.json and
known_findings.json."""
import json, glob, os, re, subprocess

V = '/verif'
props = {}
for l in open(f'{V}/properties.jsonl'):
    p = json.loads(l); props[p['id']] = p
man = json.load(open(f'{V}/MANIFEST.json'))
na = {x['property_id']: x['reason'] for x in man.get('not_applicable', [])}
kf = json.load(open(f'{V}/known_findings.json'))['findings']

def esc(s): return str(s).replace('|', '\\|').replace('\n', ' ')

def per_property():
    out = []
    for pid in sorted(props):
        p = props[pid]
        if pid in na:
            out.append(f"### {pid} {p['title']} — **not applicable**\n\n{na[pid]}\n")
            continue
        ev = json.load(open(f'{V}/evidence/{pid}.json'))
        cov = ev['coverage']
        out.append(f"### {pid} {p['title']} — level `{ev['level']}`\n")
        out.append(cov['explanation'] + "\n")
        out.append("| rule | template | what is checked | instances on this tree (min) |\n|---|---|---|---|")
        for r in cov['rules']:
            out.append(f"| {r['id']} | {r['template']} | {esc(r['text'])} | {r['instances']} ({r['min_instances']}) |")
        out.append("")
        out.append(f"Obligations on this tree: {cov['obligations']} ({cov['discharged']} discharged, {cov.get('known_findings') if isinstance(cov.get('known_findings'), int) else len(cov.get('known_findings') or [])} known findings); configurations: {', '.join(cov.get('configurations') or []) if isinstance(cov.get('configurations'), list) else cov.get('configurations')}.")
        if cov.get('trusted_base'):
            tb = cov['trusted_base']
            out.append("\nTrusted base: " + esc('; '.join(tb) if isinstance(tb, list) else tb))
        ctl = cov.get('controls') or []
        if ctl:
            out.append("\nPositive controls (thorough tier; each is a textual mutant of the current sources that must be reported):\n")
            for c in ctl:
                out.append(f"* `{c['name']}` → {c['rule']}: {c['outcome']}" + (f" ({esc(c.get('detected_construct',''))[:140]})" if c.get('detected_construct') else ''))
        seeds = sorted(glob.glob(f'{V}/seeded/{pid}-m*/meta.json') + glob.glob(f'{V}/seeded/{pid}r2-m*/meta.json'))
        if seeds:
            out.append("\nSeeded breaking changes (made by sub-agents that saw only the property text; each compiles, passes the existing tests, and has a demonstration that fails with it):\n")
            for s in seeds:
                m = json.load(open(s))
                out.append(f"* `{m['seed_id']}` — detected by {esc(m.get('detected_by','?'))}")
        out.append("")
    return "\n".join(out)

def findings():
    out = ["| property | rule | construct | status | what failed |", "|---|---|---|---|---|"]
    for f in kf:
        st = f['status'] + (f" ({f.get('commit')})" if f.get('commit') else '')
        out.append(f"| {f['property']} | {f['rule']} | {esc(f['construct'])[:110]} | {esc(st)[:90]} | {esc(f['what'])[:330]} |")
    return "\n".join(out)

def fixes():
    log = subprocess.run(['git', '-C', '/repo', 'log', '--format=%h %s', '--grep=^fix:'], capture_output=True, text=True).stdout.strip().split('\n')
    return "\n".join(f"* `{l}`" for l in log)

regions = {'per-property': per_property(), 'findings': findings(), 'fix-commits': fixes()}
s = open(f'{V}/DESIGN.md').read()
for k, v in regions.items():
    a, b = f'<!-- BEGIN GENERATED:{k} -->', f'<!-- END GENERATED:{k} -->'
    i, j = s.index(a) + len(a), s.index(b)
    s = s[:i] + "\n" + v + "\n" + s[j:]
open(f'{V}/DESIGN.md', 'w').write(s)
print('DESIGN.md regenerated:', {k: len(v) for k, v in regions.items()})
