#!/bin/sh
# usage: all_on_patch.sh <patch.diff>   — applies the patch to /repo, runs every quick check, reverts; prints non-passing checks.
p=$(realpath "$1")
cd /repo || exit 2
git diff --quiet || { echo "/repo is dirty"; exit 2; }
git apply "$p" || { echo "patch does not apply"; exit 2; }
cd /verif
for id in $(python3 -c "import json;print(' '.join(sorted(json.loads(l)['id'] for l in open('/verif/properties.jsonl'))))"); do
  out=$(bin/check "$id" quick 2>&1); st=$?
  if [ $st -ne 0 ]; then echo "== $id exit=$st"; echo "$out" | grep -E "violated at|UNDECIDED" | cut -c1-300 | head -5; fi
done
git -C /repo checkout -- . ; git -C /repo clean -fdq
echo "done $(basename $(dirname $p))"
