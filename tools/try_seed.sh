#!/bin/sh
# usage: tools/try_seed.sh <patch.diff> <prop> [tier]   — applies a patch to /repo, runs the check, reverts.
set -u
patch=$(realpath "$1"); prop="$2"; tier="${3:-quick}"
cd /repo || exit 2
if ! git diff --quiet; then echo "repo dirty"; exit 2; fi
if ! git apply --check "$patch" 2>/dev/null; then
  echo "PATCH DOES NOT APPLY"; exit 3
fi
git apply "$patch"
/verif/bin/check "$prop" "$tier" | grep -v "^  \[discharged" | cut -c1-600
rc=$?
git -C /repo checkout -q -- . ; git -C /repo clean -fdq
exit 0
