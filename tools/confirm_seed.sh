#!/bin/sh
# usage: confirm_seed.sh <seed-out-dir> <demo-dest-dir-rel> <demo-run-pattern> <pkgs-to-test...>
# Confirms in a scratch worktree of /repo HEAD: patch applies, builds, listed package tests pass with the patch,
# demo fails with the patch and passes without.
set -u
src="$1"; dest="$2"; pat="$3"; shift 3
export GOFLAGS=-mod=mod GOPROXY=off GOSUMDB=off GOTOOLCHAIN=local
wt=/tmp/wt-confirm-$$
git -C /repo worktree add -q "$wt" HEAD || exit 2
cd "$wt"
res=""
demo=$(ls "$src" | grep -E '_test\.go$' | head -1)
mkdir -p "$dest"; cp "$src/$demo" "$dest/zz_seed_demo_test.go"
if go test -count=1 -run "$pat" "./$dest/" >/tmp/confirm-clean.log 2>&1; then res="$res demo-passes-clean=yes"; else res="$res demo-passes-clean=NO"; fi
rm "$dest/zz_seed_demo_test.go"
if git apply "$src/patch.diff"; then res="$res applies=yes"; else res="$res applies=NO"; fi
if go build ./... >/tmp/confirm-build.log 2>&1; then res="$res builds=yes"; else res="$res builds=NO"; fi
if go test -count=1 "$@" >/tmp/confirm-tests.log 2>&1; then res="$res suite-passes=yes"; else res="$res suite-passes=NO"; fi
mkdir -p "$dest"; cp "$src/$demo" "$dest/zz_seed_demo_test.go"
if go test -count=1 -run "$pat" "./$dest/" >/tmp/confirm-mut.log 2>&1; then res="$res demo-fails-mutated=NO"; else res="$res demo-fails-mutated=yes"; fi
cd /; git -C /repo worktree remove --force "$wt"
echo "$res"
