#!/bin/sh
cd /verif
for d in seeded/*/; do
  id=$(basename $d)
  [ -f $d/patch.diff ] && [ -f $d/meta.json ] || continue
  prop=$(python3 -c "import json;print(json.load(open('$d/meta.json')).get('breaks_property',''))")
  [ -n "$prop" ] || continue
  cd /repo
  if ! git apply --check /verif/$d/patch.diff 2>/dev/null; then echo "$id NOAPPLY"; cd /verif; continue; fi
  git apply /verif/$d/patch.diff
  cd /verif
  out=$(bin/check $prop quick 2>&1); st=$?
  if [ $st -eq 1 ]; then echo "$id own:$prop $(echo "$out" | grep -o 'rule R[0-9.]*' | sort -u | tr '\n' ' ')";
  else
    hit=""
    for q in C01 C02 C03 C04 C05 C06 C07 C08 C09 C10 C11 C12 C13 C14 C15 C16 C17 C18 C19 C20; do
      [ $q = $prop ] && continue
      o=$(bin/check $q quick 2>&1); s2=$?
      if [ $s2 -eq 1 ]; then hit="$hit $q:$(echo "$o" | grep -o 'rule R[0-9.]*' | sort -u | tr '\n' ',')"; fi
    done
    if [ -n "$hit" ]; then echo "$id other:$hit (own exit=$st)"; else echo "$id MISSED (own exit=$st)"; fi
  fi
  git -C /repo checkout -q -- . ; git -C /repo clean -fdq
done
echo FINISHED
# evidence/*.json now describes seeded trees: put the committed records back (or run tools/regen_all.sh)
git -C /verif checkout -q -- evidence
