#!/bin/sh
# Runs every check in the thorough tier (so that evidence/*.json carries the positive controls), then regenerates
# MANIFEST.json and the generated sections of DESIGN.md. Exit status: 0 iff every check exited 0.
cd /verif || exit 2
rc=0
for p in $(python3 -c "import json;print(' '.join(sorted(json.loads(l)['id'] for l in open('/verif/properties.jsonl'))))"); do
  out=$(bin/check "$p" thorough 2>&1); st=$?
  echo "$out" | tail -1
  [ $st -ne 0 ] && rc=1
done
python3-vt tools/gen_manifest.py | tail -1
python3-vt tools/gen_design.py
exit $rc
