#!/usr/bin/env python3
"""add_finding.py <property> <rule> <status known|fixed> <commit|-> <construct> <what>
Appends an entry to known_findings.json (used while building; the checks never write this file)."""
import json, sys
prop, rule, status, commit, construct, what = sys.argv[1:7]
p = '/verif/known_findings.json'
d = json.load(open(p))
for f in d['findings']:
    if f['property'] == prop and f['rule'] == rule and f['construct'] == construct:
        f.update(what=what, status=status)
        if commit != '-':
            f['commit'] = commit
        break
else:
    e = dict(property=prop, rule=rule, construct=construct, what=what, status=status)
    if commit != '-':
        e['commit'] = commit
    d['findings'].append(e)
json.dump(d, open(p, 'w'), indent=1, ensure_ascii=False)
open(p, 'a').write('\n')
