#!/usr/bin/env python3
"""Regenerates /verif/MANIFEST.json from the table below and validates it
(and any evidence files present) against the schemas in /root/.vp."""
import json, os, sys, glob

ENV = "GOFLAGS=-mod=mod GOPROXY=off GOSUMDB=off GOTOOLCHAIN=local GOWORK=off CGO_ENABLED=0"
SETUP = f"cd /verif/checker && {ENV} go build -o /verif/bin/wzcheck ./cmd/wzcheck"

# id -> (category, text, design_ref, note, technique)
CLAIMED = {
 "C19": ("proof",
   "Sound static proof of the stated theorem for every With… chain, schedule and history: every instruction of the module that may write configuration-owned memory (field-based may-alias analysis over all 3900+ module functions, dynamic calls resolved by VTA∪CHA) writes an object or referent proven fresh and unpublished in the same activation (flow-sensitive freshness dataflow). A configuration once returned is therefore never written again, which is exactly immutability; tests can only sample derivation orders.",
   "DESIGN.md §4 C19",
   "Trusted: go/types, go/ssa, the alias abstraction (checker/core/alias.go) and freshness dataflow (checker/core/fresh.go); functions outside the module do not retain arguments (stdlib writers listed in a table); no reflect/unsafe on configuration structs (checked by R19.4). Embedder-supplied objects referenced by a configuration are out of scope.",
   "static ownership/freshness analysis on go/ssa: field-based may-alias taint + flow-sensitive freshness dataflow"),
 "C17": ("proof",
   "Sound static proof of the wrapper theorem for every call sequence and every flag/rights combination: (1) method-set exhaustiveness – every mutating method of sys.FS/sys.File is declared on the read-only wrapper and never delegates; (2) exhaustive finite-domain evaluation of the wrapper's OpenFile over all 4096 Oflag values shows no write access mode, O_CREAT or O_TRUNC reaches the wrapped FS; (3) the wrapper cannot be bypassed (registration site, result type, embedded-field readers, type assertions, fs.FS adapter reachability, WASI functions reach host mutation only through the mount interfaces). Tests sample flag combinations; this enumerates them.",
   "DESIGN.md §4 C17",
   "Trusted: go/types method sets, the mutating/read-only classification table of the two interfaces, the finite-domain flag interpreter, call-graph over-approximation (VTA∪CHA). Assumes the wrapped FS honours a read-only access mode and POSIX read-only descriptors cannot modify a file; embedder-supplied fs.File values that implement io.Writer are an embedder-granted capability.",
   "static: method-set exhaustiveness (go/types) + finite-domain evaluation of flag dispatch + call-graph capability reachability (go/ssa, VTA)"),
 "C10": ("other",
   "Static decision of five structural necessary conditions of the registry property for every schedule: must-lockset dataflow over all accesses to the registry/engine maps/keep-alive lists (83 obligations), closed words touched only by Load/CompareAndSwap, resource release control-dependent on a won CAS (close-once), every compile/instantiate entry dominated by the runtime-closed check, registry insert dominated by sentinel and name-taken tests. A violation of any of them yields a concrete racing or post-close history that breaks the property; linearizability of whole histories is NOT decided.",
   "DESIGN.md §4 C10",
   "Trusted: frozen table guarded-field → mutex (checker/props/c10.go); closures passed to sort/slices helpers run synchronously; finalizers run on unreachable objects; syntactic paths (no infeasible-path pruning).",
   "static: must-lockset dataflow + dominance (must-pass-through) checks on go/ssa"),
 "C07": ("other",
   "The structural clause of the property is decided completely for every guest program and both engines: each of the only three cycle-forming opcodes (loop, return_call, return_call_indirect) lowers to code that contains the termination check under exactly the close-on-context-done flag, placed inside the cycle; the Go side of the check panics with FailIfClosed's exit error; both call entries pre-check ctx.Done(), start the watcher under the flag and defer its cancel; the watcher maps both context errors to their exit codes. Breaking any obligation yields a guest (a loop shape or a tail-call cycle) that cannot be stopped. Promptness and watcher scheduling are not decided.",
   "DESIGN.md §4 C07",
   "Trusted: completeness argument for the cycle-forming opcode list (stated in the evidence), boundedness of the call stack, anchors derived by data flow from Engine.CompileModule's ensureTermination parameter; the emitted machine code of the check is not inspected.",
   "static: must-pass-through / placement rules over the lowering dispatchers' syntax trees with anchors resolved by SSA data flow"),
 "C08": ("other",
   "Static decision of the representation discipline of the Go-side marshalling for every value: per reflect.Kind arm the stored slot has the representation of its wasm type (32-bit results zero-extended), float32 never takes a float64 round trip, slot counts (v128 = 2) are the only stack-sizing source in the engines, signature kinds = marshalling arms, api.Encode*/Decode* are bit-preserving (SSA conversion chains). Each violated obligation gives a value that does not arrive bit for bit. The generated trampolines/preambles are not inspected.",
   "DESIGN.md §4 C08",
   "Trusted: reflect's documented truncation of SetInt/SetUint to the kind's width and bit-preserving Convert between float32 kinds (Go ≥ 1.15); idioms recognised are the switch-over-reflect.Kind forms used by the repository, anything else is undecided, not a pass.",
   "static: representation/width lint over typed syntax (go/types) and SSA conversion chains"),
 "C14": ("other",
   "Static decision of the structural clauses for every offset, size and limit: 64-bit width discipline on buffer indices/length (finds the 4GiB-boundary defects), exact-width bounds check dominating every host accessor, Grow's lock/overflow/notify discipline and the identical failure value at every engine call site, non-interference of the capacity flag on min/max over all syntactic paths of the sizer, and exhaustive evaluation of the reload-after-call guard over all flag assignments. Four genuine 4GiB-boundary defects that cannot be repaired without editing pinned tests or public API are listed as known findings. Contents after growth and emitted machine code are not decided.",
   "DESIGN.md §4 C14",
   "Trusted: idioms recognised (hasSize guard form, switch/if forms) – anything else is undecided; name anchors for the frontend's buffer-length offset constant; syntactic paths.",
   "static: width/representation lint on typed syntax, must-pass-through guards, path-enumerating non-interference, finite-domain guard evaluation"),
 "C12": ("other",
   "Static decision of the structural clauses behind configuration independence: module identity covers every compile input (SSA value identity at the call sites, forward slices of every AssignModuleID parameter into the hash, per-function listener presence inside the loop), compile paths never read configuration-dependent non-identity fields, a cache-restored module is fully re-bound (field-set inclusion compile path ⊆ hit path ∪ deserialiser), the sizer's limits and acceptance are flag-independent (path enumeration), and a custom allocator owns every buffer change. Each violated obligation yields two configurations documented as equivalent that behave differently. Trace equality across the lattice is not decided.",
   "DESIGN.md §4 C12",
   "Trusted: the list of configuration-dependent module fields (Memory.Cap, CustomSections, DWARFLines) read off the decoder; syntactic paths; host modules get their identity at construction.",
   "static: SSA value identity and forward slicing, field-set inclusion between sibling paths, path-enumerating non-interference, dominance guards"),
 "C16": ("other",
   "Only structural necessary conditions are decided; the sequence behaviour against a POSIX-style model is NOT. Five clauses, each of which yields a concrete deviating sequence when broken: closed entries leave the descriptor table (incl. renumber onto itself), the 64-bit cookie reaches the dirent cache unnarrowed, descriptor allocation scans from word 0 (lowest-free), fd_readdir's bufused depends on the truncation indicator, cached dirents are returned only after the need-more test. Three of the five rules were added after seeded changes showed what the original single clause missed.",
   "DESIGN.md §4 C16",
   "Trusted: SSA dominance/forward-path search on syntactic paths; anchors by API (descriptor.Table methods, DirentCache.Read, the WASI function that calls it). Everything else of C16 (offsets, append, truncate, directory contents) is not decided by this check.",
   "static: typestate/must-pass-through on go/ssa (dominance, forward path search), data/control dependence"),
 "C18": ("proof",
   "Sound static proof of the reachability clause for every guest and argument value: a capability worklist over the over-approximated call graph (static calls, VTA∪CHA for dynamic ones, function values taken) from all WASI host functions shows that no ambient-authority function or package variable of the standard library is reachable except through the listed injection points; the same analysis from every default binding (what is installed when an option is nil) reaches none either, keeps its state per constructor call, the default ModuleConfig sets no capability and hands nil through unmodified, and no map iteration (randomised order) occurs in the region. Tests can only observe particular traces; this covers every path.",
   "DESIGN.md §4 C18",
   "Trusted: the sink/pure classification table of standard-library packages, call-graph over-approximation (no reflect.Call / unsafe function pointers / linkname in the region – reflect.Call is itself a sink), injection-point list. Trace equality across engines is not decided.",
   "static: capability reachability (worklist over go/ssa with VTA∪CHA call resolution) + ownership rules on the default bindings"),
 "C11": ("other",
   "Sound static decision of the ownership clause for every pair of instances: a field-based may-alias analysis over all module functions shows that nothing reachable from the run-time region (instantiate, call engines, api.* method sets, WASI functions) writes memory owned by the objects that instances share by construction (decoded module graph, compiled-module objects, configuration values) or an alias of it, except three lazily initialised caches whose synchronisation is re-verified on every run; per-instance mutable containers are allocated per instantiation; no package-level variable is written at run time. A violation is a concrete channel between two unlinked instances. Isolation inside generated machine code is not decided.",
   "DESIGN.md §4 C11",
   "Trusted: alias abstraction (checker/core/alias.go), the per-instance/shared type split, exemption table (3 symbols, each re-verified: sync.Once-only, receiver mutex dominates writes, idempotent memo), stdlib functions do not retain arguments.",
   "static: who-may-write over a field-based may-alias analysis (go/ssa, VTA∪CHA) restricted to the run-time call-graph region"),
 "C15": ("other",
   "Static decision of six structural necessary conditions for every argument value of every WASI function: memory only through the bounds-checked accessors, no use of a failed Memory.Read, wrap-prone 32-bit length arithmetic guarded or consistently wrapped (relative to every loop of the function), no guest-sized allocation before a bounds-checked access, total errno mapping, no feasible failure after removing a descriptor-table entry (callee failure conditions excluded by dominating checks). One genuine defect (fd_renumber table growth) is a known finding. Absence of all Go run-time errors is not decided.",
   "DESIGN.md §4 C15",
   "Trusted: SSA dominance on syntactic paths; 'guest-derived' = computed from the []uint64 parameter slice or integer parameters of helpers; recognised guard idioms (comparison with a constant that returns).",
   "static: taint/width lint and dominance-based error-discipline rules on go/ssa"),
 "C13": ("other",
   "The crash-safety clause is decided completely by a typestate rule over every filecache.Cache.Add implementation (unique temp → copy → Sync → Close → Rename, every error checked before the rename, temp removed on error, no other creator of final names): with POSIX rename atomicity a crash at any statement boundary leaves no entry or a complete one. The load protocol (every read checked for error and length, magic/version first, executable installed only after the CRC test, stale entries deleted, errors become misses), writer/reader layout agreement, a determinism lint of the compile path (all map iterations classified, no clock/randomness) and ownership of the serialised bytes are decided as necessary conditions. Byte-equality of two compilations is not decided.",
   "DESIGN.md §4 C13",
   "Trusted: POSIX rename atomicity, os.CreateTemp uniqueness; recognised statement idioms of the repository (anything else is reported, not passed); the classification table of map ranges (6 symbols with reasons, the 'sorted afterwards' ones re-verified).",
   "static: typestate / must-pass-through on typed syntax and go/ssa dominance; sibling layout comparison; determinism lint"),
 "C03": ("other",
   "Static decision of structural necessary conditions for every byte string: the validator's accepted opcode set (exhaustive finite-domain evaluation of its dispatch over 256 byte values plus all named prefixed opcodes: 509 opcodes) is included in the arm sets of every opcode dispatcher of both engines; every constant-expression global.get acceptance consults mutability, type and import range; every input-sized decoder allocation is capped by the remaining input (one known finding: locals); program-counter advances use decoder sizes only; every function body reaches the validator; the if-without-else check compares types. Termination/allocation bounds in general and full type soundness are not decided.",
   "DESIGN.md §4 C03",
   "Trusted: constant evaluation by go/types; the validator's dispatch is an if/else-if chain over the opcode (anything else is undecided); opcode classes by the exported constant names of internal/wasm.",
   "static: exhaustiveness (finite-domain evaluation + case-label set inclusion), consult/taint rules on typed syntax"),
 "C04": ("other",
   "Static decision of structural necessary conditions for every import graph: import slots receive the exporter's very object (SSA value identity), each extern kind's link-time check consults every component of the type under an error-returning condition (incl. memory sharedness), direct readers of the captured global value are the listed packages only, table importers/exporters are recorded for keep-alive, index spaces are not mixed (import section, imported-function index – the latter found a genuine defect that was fixed), all mutable globals are re-read after calls, Go-side builtins act on the calling instance. Visibility through generated code and failed-instantiation states are not decided.",
   "DESIGN.md §4 C04",
   "Trusted: anchors by exported spec-level names (ExternType*, ModuleInstance fields), SSA dominance on syntactic paths.",
   "static: SSA value identity, consult rules on typed syntax, index-space discipline, sibling-arm comparison"),
 "C06": ("other",
   "Static decision of structural necessary conditions for every failing call: every ExitCode constant has an arm in the Go-side loop and non-resuming arms panic with a wasmruntime error; the exit code is reset before every re-entry into native code and on every path of the deferred recover that leaves with an error; the interpreter's recover path truncates value and frame stacks; panic values are of documented kinds and both engines raise the same set of wasmruntime errors; stack ceilings are compared before growth; closed-word transitions keep the exit code in the high half (abstract bit-half evaluation on SSA). Native unwinding, stack-pointer adjustment and general later-call behaviour are not decided.",
   "DESIGN.md §4 C06",
   "Trusted: anchors by type (wazevoapi.ExitCode, wasmruntime vars, ModuleInstance.Closed), callee name prefix afterGoFunctionCallEntrypoint as the only re-entry.",
   "static: exhaustiveness over typed constants, must-precede on statement lists, SSA bit-half abstract evaluation, sibling set agreement"),
 "C09": ("other",
   "Static decision of structural necessary conditions for every close/drop/collect history: code is unmapped only inside registered finalizers which are never called directly; every mapping site reaches the owner's finalizer registration on all normal paths (interprocedural mapper summaries with bool/nil result correlation); finalizer-carrying owners are never copied by value; keep-alive links (table involvement list, GlobalInstance.Me, memory owner, engine parents, function-record lists) are never written on paths reachable from a Close/Delete entry point (VTA call graph) and list-typed ones only grow; every address converted to an integer that outlives the statement has a collector-visible keeper; allocator buffers are freed by the owner only; every arm storing a guest-provided reference into a table must register a keep-alive (none does: the hazard named in the property text, demonstrated on the real code and recorded as 8 known findings, one per arm). Run-time value flows and references held in globals are not decided.",
   "DESIGN.md §4 C09",
   "Trusted: table of keep-alive links (17 fields, each with a reason), the list of Close/Delete entry-point names, three named exemptions for keepers outside the function, VTA call graph soundness for wazero's own functions.",
   "static: who-may-call, must-pass-through on SSA CFG with summaries, no-copy typing rule, close-path reachability x who-writes, address-escape/keeper analysis on SSA"),
 "C20": ("other",
   "Static decision of structural necessary conditions for every program: before-trampoline emitted at function entry under the listener flag; every emitted jump whose target is not freshly allocated is ReturnBlock-checked with the after-trampoline call on that branch; every emitted Return is covered (tail-call fallbacks listed as implementation-defined); Go-side brackets ordered Before < call < After and unconditional (4 compiler arms, 2 trampoline arms, 2 interpreter wrappers); interpreter body runner reached only through the listener-consulting dispatcher; both recover paths notify Abort for every collected frame after the error is built and no frame walk is cut at a constant depth (genuine defect found and fixed); listener tables not written on close paths; the stack iterator re-walks the stack on every reset. The native return-address walk, nesting under unwinding and cross-engine stream equality are not decided.",
   "DESIGN.md §4 C20",
   "Trusted: trampoline helper names callListenerBefore/After as anchors of the emission, AllocateBasicBlock results as the only never-return-block targets, table of listener fields.",
   "static: SSA value-origin classification of jump targets, dominance-based must-precede, statement-order typestate on arms, who-calls, close-path reachability x who-writes"),
 "C02": ("other",
   "Static decision of structural necessary conditions for every program, address, offset and memory size: every frontend arm of a load/store/SIMD/atomic instruction takes its address from the bounds-checking helper with exactly the access width its mnemonic dictates (114 arms, evaluated per opcode label by a small interpreter of the arm; oracle: the mnemonic in the wasm.Opcode constant name); bulk arms range-check each operand; the memory reload helper clears the elision cache's absolute addresses on every path and memory.grow reloads; folded constant extends keep their signedness in both backends (genuine amd64 defect found and fixed earlier); amd64 memory-operand emitters access exactly the width of their type/opcode/lane arm; Ireduce zero-extends because address folding uses raw registers of zero-extended values; the interpreter's lowering and execution arms use operations/accessors of the mnemonic's width (111 + 26 arms). The machine-code correctness of the emitted check, elision-cache soundness over arbitrary CFGs and the hasSize arithmetic (C14) are not decided here.",
   "DESIGN.md §4 C02",
   "Trusted: helper names memOpSetup/atomicMemOpSetup/boundsCheckInMemory as the only bounds-checking entry points, emitter-width table of the amd64 backend, wasm.Opcode constant names follow the spec mnemonics.",
   "static: per-label abstract evaluation of dispatcher arms against a spec-width oracle, must-pass-through on SSA CFG, signedness agreement lint, emitter-width agreement"),
 "C01": ("other",
   "Static decision of structural necessary conditions (breaking one makes some valid program diverge, crash or be rejected by one engine only): validator-accepted opcodes have arms in both engines' dispatchers (509 opcodes); all 157 interpreter operation kinds have execution arms or a listed reason to rely on the pc-advancing default; all 145 emittable SSA opcodes have side-effect/return-type entries and arms in the amd64 and arm64 lowering; 32-bit tagged interpreter arms push zero-extended values; every indirect call emission is preceded by the caller-module-context store (helper summaries see through wrappers, comparison-atom path exploration for correlated branches); amd64 and->TEST fusion only with the zero on the right (genuine defect found and fixed); both engines access the number of bytes the mnemonic dictates. Semantic equivalence of the pipelines, register allocation and encodings are not decided; a suspected arm64 ANDS-fusion defect is described in DESIGN.md but cannot be demonstrated without arm64 hardware.",
   "DESIGN.md §4 C01",
   "Trusted: the validator as the oracle of accepted opcodes, wasm.Opcode constant names follow the spec mnemonics, the table of six default-relying kinds and three source-tagged kinds (one line of reason each).",
   "static: exhaustiveness over typed constants and tables, representation lint on typed syntax, must-pass-through on SSA CFG with summaries, per-label abstract evaluation of dispatcher arms"),
 "C05": ("other",
   "The numerical result of no instruction is decided (that quantifies over operand values; neither the interpreter's Go arithmetic nor the emitted machine code is evaluated). Decided statically are four structural necessary conditions of clauses the statement names: shift/rotate counts are reduced modulo the operand or lane width in the interpreter (scalar and vector arms) and masked with lane-bits-1 in the amd64 vector-shift lowerings; integer division and trapping float-to-int truncation raise the same set of trap kinds in the interpreter, amd64 and arm64 (pseudo-instructions followed to their post-regalloc expanders); the interpreter's float min/max/ceil/floor/trunc/nearest arms compute through the moremath.WasmCompat helper of their width and never through math.Min/Max/Ceil/Floor/Round*.",
   "DESIGN.md §4 C05, §5",
   "Trusted: operation-kind and shape/lane constant names, Go's shift semantics (count not wrapped), math/bits.RotateLeft reduces the count.",
   "static: width agreement on typed syntax, sibling agreement of trap-kind sets across three implementations, who-may-call"),
}

NOT_APPLICABLE = {
}

PENDING = "static rules for this property are designed (DESIGN.md §4) but not yet built in this revision; not claimed until the checker exists and is validated both ways"

def main():
    props = [json.loads(l) for l in open("/verif/properties.jsonl")]
    checks, na = [], []
    for p in props:
        pid = p["id"]
        if pid in CLAIMED:
            cat, text, ref, note, tech = CLAIMED[pid]
            checks.append({
                "property_id": pid,
                "quick_cmd": f"bin/check {pid} quick",
                "thorough_cmd": f"bin/check {pid} thorough",
                "evidence_file": f"/verif/evidence/{pid}.json",
                "replay_cmd_template": "bin/wzcheck -replay {path}",
                "engine": "wzcheck",
                "level_claimed": {"category": cat, "text": text, "design_ref": ref},
                "level_note": note,
                "technique": tech,
            })
        else:
            na.append({"property_id": pid, "reason": NOT_APPLICABLE.get(pid, PENDING)})
    m = {
        "version": 1,
        "setup_cmd": SETUP,
        "hooks": {
            "guard": "verif",
            "enable": "none needed: the checks are static analyses of the source; no hook code exists in /repo",
            "baseline_off_cmd": "cd /repo && for m in . ./internal/integration_test/fuzz; do (cd /repo/$m && GOFLAGS=-mod=mod go test -vet=off -count=1 -timeout 25m ./...); done",
            "source_commits": [],
            "add_only": True,
        },
        "engines": [{
            "name": "wzcheck", "path": "/verif/checker",
            "serves_properties": sorted(CLAIMED),
            "kind_free_text": "repository-specific static analyser (go/packages + go/types + go/ssa + go/cfg + VTA/CHA call graph, x/tools v0.29.0); one rule set per property, obligations keyed by rule+semantic construct; thorough tier adds the GOOS/GOARCH matrix and overlay-mutant positive controls",
        }],
        "checks": checks,
        "not_applicable": na,
        "notes": "All checks are static: nothing in /repo is executed. Exit 0 = every obligation discharged (or listed in known_findings.json and printed as KNOWN-FINDING); exit 1 + VIOLATION line = an unlisted violated obligation; exit 2 + UNDECIDED = the tree could not be analysed (type errors, anchor missing).",
    }
    json.dump(m, open("/verif/MANIFEST.json", "w"), indent=1)
    try:
        import jsonschema
    except ImportError:
        print("jsonschema not importable; skipped validation"); return
    jsonschema.validate(m, json.load(open("/root/.vp/MANIFEST.schema.json")))
    es = json.load(open("/root/.vp/EVIDENCE.schema.json"))
    for f in sorted(glob.glob("/verif/evidence/*.json")):
        jsonschema.validate(json.load(open(f)), es)
    print("MANIFEST ok:", len(checks), "claimed,", len(na), "not applicable; evidence files valid:", len(glob.glob('/verif/evidence/*.json')))

main()
