package core

import (
	"go/ast"
	"go/token"
	"go/types"

	"golang.org/x/tools/go/packages"
	"golang.org/x/tools/go/ssa"
)

// ClauseRef is one case clause of a switch, with its context.
type ClauseRef struct {
	Pkg    *packages.Package
	Fn     *ast.FuncDecl
	Switch *ast.SwitchStmt
	Clause *ast.CaseClause
}

// FindCaseClauses returns the case clauses of p whose label list uses the constant obj.
func FindCaseClauses(p *packages.Package, obj types.Object) []ClauseRef {
	var out []ClauseRef
	if p == nil || obj == nil {
		return nil
	}
	AllFuncDecls(p, func(fd *ast.FuncDecl) {
		ast.Inspect(fd.Body, func(n ast.Node) bool {
			sw, ok := n.(*ast.SwitchStmt)
			if !ok {
				return true
			}
			for _, s := range sw.Body.List {
				cc := s.(*ast.CaseClause)
				for _, e := range cc.List {
					if UsesObj(p.TypesInfo, e, obj) {
						out = append(out, ClauseRef{p, fd, sw, cc})
						break
					}
				}
			}
			return true
		})
	})
	return out
}

// UsesObj reports whether expression e is (a possibly qualified/parenthesised) use of obj.
func UsesObj(info *types.Info, e ast.Expr, obj types.Object) bool {
	switch x := ast.Unparen(e).(type) {
	case *ast.Ident:
		return info.Uses[x] == obj
	case *ast.SelectorExpr:
		return info.Uses[x.Sel] == obj
	}
	return false
}

// RefsAny reports whether node n contains an identifier that uses one of objs.
func RefsAny(info *types.Info, n ast.Node, objs map[types.Object]bool) bool {
	found := false
	if n == nil {
		return false
	}
	ast.Inspect(n, func(x ast.Node) bool {
		if found {
			return false
		}
		if id, ok := x.(*ast.Ident); ok && objs[info.Uses[id]] {
			found = true
		}
		return true
	})
	return found
}

// CallsAny reports whether n contains a call whose static callee is in fns.
func CallsAny(info *types.Info, n ast.Node, fns map[*types.Func]bool) *ast.CallExpr {
	var hit *ast.CallExpr
	if n == nil {
		return nil
	}
	ast.Inspect(n, func(x ast.Node) bool {
		if hit != nil {
			return false
		}
		if c, ok := x.(*ast.CallExpr); ok {
			if f := Callee(info, c); f != nil && fns[f.Origin()] {
				hit = c
			}
		}
		return true
	})
	return hit
}

// ListPos is a statement list and the index of the statement in it that contains the target.
type ListPos struct {
	List  []ast.Stmt
	Index int
	Owner ast.Node // the block / clause owning the list
}

// EnclosingLists returns, innermost first, the statement lists inside root that contain target.
func EnclosingLists(root ast.Node, target ast.Node) []ListPos {
	var out []ListPos
	var walk func(n ast.Node) bool
	contains := func(n ast.Node) bool { return n.Pos() <= target.Pos() && target.End() <= n.End() }
	walk = func(n ast.Node) bool {
		if n == nil || !contains(n) {
			return false
		}
		var list []ast.Stmt
		switch x := n.(type) {
		case *ast.BlockStmt:
			list = x.List
		case *ast.CaseClause:
			list = x.Body
		case *ast.CommClause:
			list = x.Body
		}
		if list != nil {
			for i, s := range list {
				if contains(s) {
					out = append([]ListPos{{list, i, n}}, out...)
					break
				}
			}
		}
		ast.Inspect(n, func(c ast.Node) bool {
			if c == nil || c == n {
				return c == n
			}
			if contains(c) {
				walk(c)
			}
			return false
		})
		return true
	}
	walk(root)
	return out
}

// IsJump reports whether s is an unconditional jump statement (return, break, continue, goto, panic call).
func IsJump(info *types.Info, s ast.Stmt) bool {
	switch x := s.(type) {
	case *ast.ReturnStmt:
		return true
	case *ast.BranchStmt:
		return x.Tok != token.FALLTHROUGH
	case *ast.ExprStmt:
		if c, ok := x.X.(*ast.CallExpr); ok && IsBuiltin(info, c, "panic") {
			return true
		}
	}
	return false
}

// ParamFlowFields returns the struct fields into which the value of parameter #idx of fn may be stored,
// following static calls (module functions with bodies), phis and conversions.
func ParamFlowFields(fn *ssa.Function, idx int) map[*types.Var]bool {
	out := map[*types.Var]bool{}
	if fn == nil || idx >= len(fn.Params) {
		return out
	}
	seen := map[ssa.Value]bool{}
	var follow func(v ssa.Value, depth int)
	follow = func(v ssa.Value, depth int) {
		if v == nil || seen[v] || depth > 10 || v.Referrers() == nil {
			return
		}
		seen[v] = true
		for _, u := range *v.Referrers() {
			switch x := u.(type) {
			case *ssa.Store:
				if x.Val != v {
					continue
				}
				switch a := x.Addr.(type) {
				case *ssa.FieldAddr:
					if st, _ := derefStruct(a.X.Type()).Underlying().(*types.Struct); st != nil {
						out[st.Field(a.Field)] = true
					}
				case *ssa.Alloc:
					// local variable: follow its loads
					for _, r := range *a.Referrers() {
						if ld, ok := r.(*ssa.UnOp); ok && ld.Op == token.MUL {
							follow(ld, depth+1)
						}
					}
				}
			case *ssa.Phi:
				follow(x, depth+1)
			case *ssa.ChangeType:
				follow(x, depth+1)
			case *ssa.Convert:
				follow(x, depth+1)
			case *ssa.MakeClosure:
				if f, ok := x.Fn.(*ssa.Function); ok {
					for i, b := range x.Bindings {
						if b == v && i < len(f.FreeVars) {
							follow(f.FreeVars[i], depth+1)
						}
					}
				}
			case ssa.CallInstruction:
				callee := x.Common().StaticCallee()
				if callee == nil || callee.Blocks == nil || !inModule(callee) {
					continue
				}
				for i, a := range x.Common().Args {
					if a == v && i < len(callee.Params) {
						follow(callee.Params[i], depth+1)
					}
				}
			}
		}
	}
	follow(fn.Params[idx], 0)
	return out
}

// ImplMethod returns the concrete method (as *types.Func) that named type (pointer receiver allowed) uses to
// implement the interface method name, or nil.
func ImplMethod(pkg *types.Package, named *types.Named, name string) *types.Func {
	o, _, _ := types.LookupFieldOrMethod(types.NewPointer(named), true, pkg, name)
	f, _ := o.(*types.Func)
	return f
}

// RecvNameOf returns the receiver's named type name of a method object ("" for functions).
func RecvNameOf(f *types.Func) string {
	sig, _ := f.Type().(*types.Signature)
	if sig == nil || sig.Recv() == nil {
		return ""
	}
	if n := NamedOf(sig.Recv().Type()); n != nil {
		return n.Obj().Name()
	}
	return ""
}

// FindCaseClausesIn returns the case clauses inside fd whose label list uses obj.
func FindCaseClausesIn(p *packages.Package, fd *ast.FuncDecl, obj types.Object) []ClauseRef {
	var out []ClauseRef
	for _, r := range FindCaseClauses(p, obj) {
		if r.Fn == fd {
			out = append(out, r)
		}
	}
	return out
}
