package core

// Flow-sensitive freshness analysis (T-OWN).  Within one function it tracks the
// objects of "seed" struct types that were created in this activation (an
// allocation, or the result of a callee whose summary says it returns a fresh
// object) and, per such object, the set of reference-typed fields whose
// referent is also fresh (allocated in this activation or in the callee, not
// shared with any pre-existing object).  A write through memory owned by a seed
// type is safe iff it goes to a fresh object / fresh referent that has not been
// published yet.

import (
	"go/token"
	"go/types"

	"golang.org/x/tools/go/ssa"
)

type freshState map[ssa.Value]uint64 // tracked object → bitset of fresh fields

func (s freshState) clone() freshState {
	n := make(freshState, len(s))
	for k, v := range s {
		n[k] = v
	}
	return n
}

func meet(a, b freshState) freshState {
	out := freshState{}
	for k, v := range a {
		if w, ok := b[k]; ok {
			out[k] = v & w
		}
	}
	return out
}

func equalState(a, b freshState) bool {
	if len(a) != len(b) {
		return false
	}
	for k, v := range a {
		if w, ok := b[k]; !ok || v != w {
			return false
		}
	}
	return true
}

// FreshSummary describes what a function returns.
type FreshSummary struct {
	Fresh  bool   // every return yields a fresh object of a seed type (pointer or value)
	Fields uint64 // fields whose referent is fresh on every return
}

type Fresh struct {
	IsSeed    func(t types.Type) bool // t is a (non-pointer) seed struct type
	summaries map[*ssa.Function]*FreshSummary
	valSumm   map[*ssa.Function]int // 0 unknown, 1 fresh, 2 not: plain reference results
	busy      map[*ssa.Function]bool
	results   map[*ssa.Function]*FreshResult
}

func NewFresh(isSeed func(types.Type) bool) *Fresh {
	return &Fresh{IsSeed: isSeed, summaries: map[*ssa.Function]*FreshSummary{}, valSumm: map[*ssa.Function]int{}, busy: map[*ssa.Function]bool{}, results: map[*ssa.Function]*FreshResult{}}
}

// FreshResult holds the per-instruction facts of one function.
type FreshResult struct {
	f        *Fresh
	fn       *ssa.Function
	escaped  map[ssa.Value]bool
	at       map[ssa.Instruction]freshState // state before the instruction
	loadedOK map[ssa.Value]bool             // loads of fields of tracked objects that were fresh at load time
	retState []freshState
	rets     []*ssa.Return
}

func (f *Fresh) seedPtr(t types.Type) bool {
	p, ok := t.Underlying().(*types.Pointer)
	return ok && f.IsSeed(p.Elem())
}

func allFields(t types.Type) uint64 {
	st, ok := t.Underlying().(*types.Struct)
	if !ok {
		return 0
	}
	if st.NumFields() >= 64 {
		return ^uint64(0)
	}
	return (uint64(1) << uint(st.NumFields())) - 1
}

// Summary returns the freshness summary of a function returning a seed object.
func (f *Fresh) Summary(fn *ssa.Function) *FreshSummary {
	if s, ok := f.summaries[fn]; ok {
		return s
	}
	if f.busy[fn] || fn.Blocks == nil {
		return &FreshSummary{}
	}
	res := f.Analyze(fn)
	s := &FreshSummary{}
	sig := fn.Signature
	if sig.Results().Len() >= 1 && len(res.rets) > 0 {
		rt := sig.Results().At(0).Type()
		if f.seedPtr(rt) || f.IsSeed(rt) {
			s.Fresh = true
			s.Fields = ^uint64(0)
			for i, r := range res.rets {
				v := r.Results[0]
				st := res.retState[i]
				obj := res.objectOf(v)
				if obj == nil {
					s.Fresh = false
					s.Fields = 0
					break
				}
				bits, ok := st[obj]
				if !ok {
					s.Fresh = false
					s.Fields = 0
					break
				}
				s.Fields &= bits
			}
		}
	}
	f.summaries[fn] = s
	return s
}

// objectOf maps a returned value to the tracked object it denotes: the pointer itself, or for a
// struct value the alloc it was loaded from, or a call with a value summary.
func (r *FreshResult) objectOf(v ssa.Value) ssa.Value {
	switch x := v.(type) {
	case *ssa.UnOp:
		if x.Op == token.MUL {
			if a, ok := x.X.(*ssa.Alloc); ok {
				return a
			}
		}
	case *ssa.MakeInterface:
		return r.objectOf(x.X)
	case *ssa.ChangeInterface:
		return r.objectOf(x.X)
	}
	return v
}

// Analyze runs the dataflow on fn.
func (f *Fresh) Analyze(fn *ssa.Function) *FreshResult {
	if r, ok := f.results[fn]; ok {
		return r
	}
	f.busy[fn] = true
	defer delete(f.busy, fn)
	res := &FreshResult{f: f, fn: fn, escaped: map[ssa.Value]bool{}, at: map[ssa.Instruction]freshState{}, loadedOK: map[ssa.Value]bool{}}
	f.results[fn] = res
	if fn.Blocks == nil {
		return res
	}
	in := map[*ssa.BasicBlock]freshState{}
	visited := map[*ssa.BasicBlock]bool{}
	in[fn.Blocks[0]] = freshState{}
	visited[fn.Blocks[0]] = true
	work := []*ssa.BasicBlock{fn.Blocks[0]}
	out := map[*ssa.BasicBlock]freshState{}
	for iter := 0; len(work) > 0 && iter < 10000; iter++ {
		b := work[0]
		work = work[1:]
		st := in[b].clone()
		for _, ins := range b.Instrs {
			res.transfer(ins, st, false)
		}
		if o, ok := out[b]; ok && equalState(o, st) {
			continue
		}
		out[b] = st
		for _, s := range b.Succs {
			if !visited[s] {
				visited[s] = true
				in[s] = st.clone()
				work = append(work, s)
			} else {
				m := meet(in[s], st)
				if !equalState(m, in[s]) {
					in[s] = m
					work = append(work, s)
				}
			}
		}
	}
	// final pass recording facts
	for _, b := range fn.Blocks {
		if !visited[b] {
			continue
		}
		st := in[b].clone()
		for _, ins := range b.Instrs {
			res.at[ins] = st.clone()
			res.transfer(ins, st, true)
			if r, ok := ins.(*ssa.Return); ok {
				res.rets = append(res.rets, r)
				res.retState = append(res.retState, st.clone())
			}
		}
	}
	return res
}

func (r *FreshResult) candidate(v ssa.Value) bool {
	switch x := v.(type) {
	case *ssa.Alloc:
		return r.f.IsSeed(derefStruct(x.Type()))
	case *ssa.Call:
		if fn := x.Common().StaticCallee(); fn != nil && fn.Signature.Results().Len() == 1 {
			return r.f.seedPtr(x.Type())
		}
	}
	return false
}

// allowedUse: field addressing, loading, storing into it, returning it (possibly as an
// interface) do not publish the object.
func (r *FreshResult) allowedUse(u ssa.Instruction, v ssa.Value) bool {
	switch x := u.(type) {
	case *ssa.FieldAddr:
		return x.X == v
	case *ssa.UnOp:
		return true
	case *ssa.Store:
		return x.Val != v // storing the pointer itself somewhere publishes it
	case *ssa.Return, *ssa.DebugRef:
		return true
	case *ssa.MakeInterface:
		for _, uu := range *x.Referrers() {
			switch uu.(type) {
			case *ssa.Return, *ssa.DebugRef:
			default:
				return false
			}
		}
		return true
	}
	return false
}

func (r *FreshResult) transfer(ins ssa.Instruction, st freshState, record bool) {
	// publication: any use of a tracked object other than field addressing, loading, storing
	// into it or returning it ends its freshness from here on.
	if len(st) > 0 {
		var ops [12]*ssa.Value
		for _, op := range ins.Operands(ops[:0]) {
			if op == nil || *op == nil {
				continue
			}
			if _, ok := st[*op]; ok && !r.allowedUse(ins, *op) {
				delete(st, *op)
			}
		}
	}
	switch x := ins.(type) {
	case *ssa.Alloc:
		if r.candidate(x) && !r.escaped[x] {
			st[x] = allFields(derefStruct(x.Type()))
		}
	case *ssa.Call:
		if r.candidate(x) && !r.escaped[x] {
			s := r.f.Summary(x.Common().StaticCallee())
			if s.Fresh {
				st[x] = s.Fields & allFields(derefStruct(x.Type()))
			}
		}
	case *ssa.UnOp:
		if x.Op == token.MUL && record {
			if fa, ok := x.X.(*ssa.FieldAddr); ok {
				if bits, ok := st[fa.X]; ok && bits&(1<<uint(fa.Field)) != 0 {
					r.loadedOK[x] = true
				}
			}
		}
	case *ssa.Store:
		switch addr := x.Addr.(type) {
		case *ssa.Alloc:
			if _, ok := st[addr]; ok {
				// whole-struct store into a tracked object
				st[addr] = r.structValueFresh(x.Val, st)
			}
		case *ssa.FieldAddr:
			if bits, ok := st[addr.X]; ok {
				if r.isFresh(x.Val, st, 0) {
					bits |= 1 << uint(addr.Field)
				} else {
					bits &^= 1 << uint(addr.Field)
				}
				st[addr.X] = bits
			}
		}
	}
}

// structValueFresh: which fields of a struct value have fresh referents.
func (r *FreshResult) structValueFresh(v ssa.Value, st freshState) uint64 {
	switch x := v.(type) {
	case *ssa.Call:
		if fn := x.Common().StaticCallee(); fn != nil && r.f.IsSeed(x.Type()) {
			s := r.f.Summary(fn)
			if s.Fresh {
				return s.Fields & allFields(x.Type())
			}
		}
	case *ssa.UnOp:
		if x.Op == token.MUL {
			if a, ok := x.X.(*ssa.Alloc); ok {
				if bits, ok := st[a]; ok {
					_ = bits
					// copying a fresh object shares referents between the two copies: not fresh
				}
			}
		}
	case *ssa.Const:
		return allFields(x.Type())
	}
	return 0
}

// IsFreshAt reports whether reference value v denotes memory allocated in this activation,
// judged with the state before instruction at.
func (r *FreshResult) IsFreshAt(v ssa.Value, at ssa.Instruction) bool {
	st := r.at[at]
	if st == nil {
		st = freshState{}
	}
	return r.isFresh(v, st, 0)
}

// TrackedAt reports whether pointer v is a fresh, unpublished seed object before instruction at.
func (r *FreshResult) TrackedAt(v ssa.Value, at ssa.Instruction) bool {
	st := r.at[at]
	if st == nil {
		return false
	}
	_, ok := st[v]
	return ok
}

func (r *FreshResult) isFresh(v ssa.Value, st freshState, depth int) bool {
	if depth > 12 {
		return false
	}
	switch x := v.(type) {
	case *ssa.Const:
		return x.IsNil()
	case *ssa.MakeSlice, *ssa.MakeMap:
		return true
	case *ssa.Alloc:
		// a new object; if it is itself a tracked seed object it is fresh as long as tracked
		if r.candidate(x) {
			_, ok := st[x]
			return ok
		}
		return true
	case *ssa.Convert:
		return isString(x.X.Type()) && !isString(x.Type())
	case *ssa.ChangeType:
		return r.isFresh(x.X, st, depth+1)
	case *ssa.Slice:
		return !isString(x.X.Type()) && r.isFresh(x.X, st, depth+1)
	case *ssa.Phi:
		for _, e := range x.Edges {
			if e == v {
				continue
			}
			if _, isPhi := e.(*ssa.Phi); isPhi && depth > 4 {
				continue // optimistic on phi cycles (greatest fixpoint)
			}
			if !r.isFresh(e, st, depth+1) {
				return false
			}
		}
		return true
	case *ssa.UnOp:
		if x.Op == token.MUL {
			if r.loadedOK[x] {
				return true
			}
			if fa, ok := x.X.(*ssa.FieldAddr); ok {
				// during the fixpoint pass loads are judged with the current state
				if bits, ok := st[fa.X]; ok && bits&(1<<uint(fa.Field)) != 0 {
					return true
				}
			}
		}
		return false
	case *ssa.Call:
		cc := x.Common()
		if b, ok := cc.Value.(*ssa.Builtin); ok {
			if b.Name() == "append" {
				return r.isFresh(cc.Args[0], st, depth+1)
			}
			return false
		}
		if _, ok := st[x]; ok {
			return true
		}
		if fn := cc.StaticCallee(); fn != nil && inModule(fn) {
			return r.f.returnsFreshRef(fn)
		}
		return false
	}
	return false
}

// returnsFreshRef: a helper returning a plain reference (slice, map, pointer to a non-seed)
// that is fresh on every return path.
func (f *Fresh) returnsFreshRef(fn *ssa.Function) bool {
	switch f.valSumm[fn] {
	case 1:
		return true
	case 2:
		return false
	}
	if f.busy[fn] || fn.Blocks == nil || fn.Signature.Results().Len() != 1 {
		return false
	}
	res := f.Analyze(fn)
	ok := len(res.rets) > 0
	for i, r := range res.rets {
		if !res.isFresh(r.Results[0], res.retState[i], 0) {
			ok = false
		}
	}
	if ok {
		f.valSumm[fn] = 1
	} else {
		f.valSumm[fn] = 2
	}
	return ok
}

// FieldsFreshAt reports whether pointer v is a tracked (fresh, unpublished) seed object before instruction at, and the
// fields whose referents are fresh.
func (r *FreshResult) FieldsFreshAt(v ssa.Value, at ssa.Instruction) (uint64, bool) {
	st := r.at[at]
	if st == nil {
		return 0, false
	}
	bits, ok := st[v]
	return bits, ok
}
