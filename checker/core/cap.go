package core

// T-CAP: capability reachability.  Worklist over functions of the module
// starting at the roots.  At every call instruction:
//   - static callee in the module            → traverse;
//   - static callee outside the module       → classified by the client as a sink
//     (violation), pure utility (ignored) or unclassified (undecided);
//   - dynamic callee (interface invoke, function value) → cut if the client says
//     it is an injection point, otherwise resolved with VTA ∪ CHA and each
//     callee treated as above;
//   - functions whose value is taken in a reachable function (closures, method
//     values, function-typed operands) are reachable.
// The graph is an over-approximation; reflection/unsafe/linkname uses in the
// reached region are reported to the client.

import (
	"go/token"
	"go/types"
	"sort"
	"strings"

	"golang.org/x/tools/go/ssa"
)

type CapHit struct {
	Callee string
	Class  string
	Site   token.Pos
	In     *ssa.Function
}

type Cap struct {
	C           *Ctx
	Roots       []*ssa.Function
	ClassifyExt func(fn *ssa.Function) string // "sink:..." | "pure" | ""
	// ClassifySite, when set and returning non-empty, overrides ClassifyExt for one call site.
	ClassifySite func(site ssa.Instruction, fn *ssa.Function) string
	Cut          func(site ssa.CallInstruction, in *ssa.Function) string // non-empty = injection point name
	// ClassifyGlobal classifies a read of a package-level variable outside the module ("sink:..." or "pure").
	ClassifyGlobal func(g *ssa.Global) string
	// StopAt: module functions that are not entered (with the reason), e.g. documented opt-in APIs.
	StopAt func(fn *ssa.Function) string

	Reached      map[*ssa.Function]*ssa.Function // function → parent (nil for roots)
	Sinks        []CapHit
	Unclassified []CapHit
	Cuts         map[string]int
	Stops        map[string]int
	Special      []CapHit // reflect calls, unsafe pointer conversions in the reached region
	al           *Alias
}

func (k *Cap) Run() {
	k.Reached = map[*ssa.Function]*ssa.Function{}
	k.Cuts = map[string]int{}
	k.Stops = map[string]int{}
	k.al = k.C.aliasForCalls()
	var work []*ssa.Function
	push := func(fn, parent *ssa.Function) {
		if fn == nil {
			return
		}
		if _, ok := k.Reached[fn]; ok {
			return
		}
		if k.StopAt != nil {
			if why := k.StopAt(fn); why != "" {
				k.Stops[SSAFuncName(fn)+": "+why]++
				return
			}
		}
		k.Reached[fn] = parent
		work = append(work, fn)
	}
	for _, r := range k.Roots {
		push(r, nil)
	}
	seenHit := map[string]bool{}
	handleCallee := func(f *ssa.Function, site ssa.Instruction, in *ssa.Function) {
		if f == nil {
			return
		}
		if inModule(f) {
			if f.Blocks != nil || f.Synthetic != "" {
				push(f, in)
			}
			return
		}
		cl := ""
		if k.ClassifySite != nil {
			cl = k.ClassifySite(site, f)
		}
		if cl == "" && k.ClassifyExt != nil {
			cl = k.ClassifyExt(f)
		}
		hk := f.String() + "@" + k.C.Pos(site.Pos())
		if seenHit[hk] {
			return
		}
		seenHit[hk] = true
		switch {
		case strings.HasPrefix(cl, "sink"):
			k.Sinks = append(k.Sinks, CapHit{Callee: f.String(), Class: cl, Site: site.Pos(), In: in})
		case cl == "pure":
		default:
			k.Unclassified = append(k.Unclassified, CapHit{Callee: f.String(), Class: cl, Site: site.Pos(), In: in})
		}
	}
	for len(work) > 0 {
		fn := work[len(work)-1]
		work = work[:len(work)-1]
		for _, b := range fn.Blocks {
			for _, in := range b.Instrs {
				// function values taken here are reachable
				var ops [16]*ssa.Value
				for _, op := range in.Operands(ops[:0]) {
					if op == nil || *op == nil {
						continue
					}
					switch v := (*op).(type) {
					case *ssa.Global:
						if k.ClassifyGlobal != nil && v.Pkg != nil && !strings.HasPrefix(v.Pkg.Pkg.Path(), Module) {
							if cl := k.ClassifyGlobal(v); strings.HasPrefix(cl, "sink") {
								hk := "global:" + v.String() + "@" + k.C.Pos(in.Pos())
								if !seenHit[hk] {
									seenHit[hk] = true
									k.Sinks = append(k.Sinks, CapHit{Callee: "variable " + v.String(), Class: cl, Site: in.Pos(), In: fn})
								}
							}
						}
					case *ssa.Function:
						if ci, ok := in.(ssa.CallInstruction); ok && ci.Common().Value == v {
							continue // direct call, handled below
						}
						handleCallee(v, in, fn)
					case *ssa.MakeClosure:
						if f, ok := v.Fn.(*ssa.Function); ok {
							handleCallee(f, in, fn)
						}
					}
				}
				if mc, ok := in.(*ssa.MakeClosure); ok {
					if f, ok := mc.Fn.(*ssa.Function); ok {
						handleCallee(f, in, fn)
					}
				}
				if cv, ok := in.(*ssa.Convert); ok {
					if b, ok := cv.Type().Underlying().(*types.Basic); ok && b.Kind() == types.UnsafePointer {
						k.Special = append(k.Special, CapHit{Callee: "unsafe.Pointer conversion", Site: in.Pos(), In: fn})
					}
				}
				ci, ok := in.(ssa.CallInstruction)
				if !ok {
					continue
				}
				cc := ci.Common()
				if _, isB := cc.Value.(*ssa.Builtin); isB {
					continue
				}
				if f := cc.StaticCallee(); f != nil {
					handleCallee(f, in, fn)
					continue
				}
				if k.Cut != nil {
					if name := k.Cut(ci, fn); name != "" {
						k.Cuts[name]++
						continue
					}
				}
				for _, f := range k.al.Callees(ci) {
					handleCallee(f, in, fn)
				}
			}
		}
	}
	sort.Slice(k.Sinks, func(i, j int) bool { return k.Sinks[i].Site < k.Sinks[j].Site })
	sort.Slice(k.Unclassified, func(i, j int) bool { return k.Unclassified[i].Site < k.Unclassified[j].Site })
}

// Path renders the chain of callers from a root to fn.
func (k *Cap) Path(fn *ssa.Function) string {
	var parts []string
	seen := map[*ssa.Function]bool{}
	for fn != nil && !seen[fn] {
		seen[fn] = true
		parts = append([]string{SSAFuncName(fn)}, parts...)
		fn = k.Reached[fn]
	}
	return strings.Join(parts, " → ")
}

// aliasForCalls returns a shared Alias (used only for call resolution here).
func (c *Ctx) aliasForCalls() *Alias {
	if c.sharedAlias == nil {
		c.sharedAlias = newCallResolver(c)
	}
	return c.sharedAlias
}

// ExtPkg returns the package path of a function outside the module ("" if unknown).
func ExtPkg(f *ssa.Function) string {
	if f.Pkg != nil {
		return f.Pkg.Pkg.Path()
	}
	if o := f.Object(); o != nil && o.Pkg() != nil {
		return o.Pkg().Path()
	}
	if f.Origin() != nil {
		return ExtPkg(f.Origin())
	}
	if f.Parent() != nil {
		return ExtPkg(f.Parent())
	}
	// synthetic wrappers/bounds: take the receiver's package
	if f.Signature != nil && f.Signature.Recv() != nil {
		if n := NamedOf(f.Signature.Recv().Type()); n != nil && n.Obj().Pkg() != nil {
			return n.Obj().Pkg().Path()
		}
	}
	return ""
}
