package core

import (
	"encoding/json"
	"fmt"
	"go/constant"
	"go/types"
	"os"
	"os/exec"
	"path/filepath"
	"runtime/debug"
	"sort"
	"strconv"
	"strings"
	"sync"
	"time"
)

func constInt(tv types.TypeAndValue) (int64, bool) {
	if tv.Value == nil {
		return 0, false
	}
	v := constant.ToInt(tv.Value)
	if v.Kind() != constant.Int {
		return 0, false
	}
	if i, ok := constant.Int64Val(v); ok {
		return i, true
	}
	if u, ok := constant.Uint64Val(v); ok {
		return int64(u), true
	}
	return 0, false
}

// SubResult is what a sub-process (extra configuration or control) reports.
type SubResult struct {
	Config      string         `json:"config"`
	Control     string         `json:"control,omitempty"`
	Error       string         `json:"error,omitempty"`
	Skipped     string         `json:"skipped,omitempty"`
	Obligations []*Obligation  `json:"obligations"`
	Counters    map[string]int `json:"counters"`
	Notes       []string       `json:"notes"`
	Wall        float64        `json:"wall_s"`
}

// runOne analyses one configuration (optionally with a control overlay) in this process.
func runOne(p *Property, tier string, cfg BuildCfg, control *Control) (res *SubResult) {
	t0 := time.Now()
	res = &SubResult{Config: cfg.String()}
	defer func() {
		if r := recover(); r != nil {
			res.Error = fmt.Sprintf("panic in checker: %v\n%s", r, debug.Stack())
		}
		res.Wall = time.Since(t0).Seconds()
	}()
	var overlay map[string][]byte
	if control != nil {
		res.Control = control.Name
		path := filepath.Join(RepoDir, control.File)
		src, err := os.ReadFile(path)
		if err != nil {
			res.Skipped = "control file missing: " + err.Error()
			return
		}
		s := string(src)
		idx := -1
		from := 0
		for n := 0; n <= control.Nth; n++ {
			i := strings.Index(s[from:], control.Old)
			if i < 0 {
				idx = -1
				break
			}
			idx = from + i
			from = idx + len(control.Old)
		}
		if idx < 0 {
			res.Skipped = "control patch does not apply (text not found)"
			return
		}
		s = s[:idx] + control.New + s[idx+len(control.Old):]
		if control.Old2 != "" {
			if !strings.Contains(s, control.Old2) {
				res.Skipped = "control patch does not apply (second text not found)"
				return
			}
			s = strings.Replace(s, control.Old2, control.New2, 1)
		}
		overlay = map[string][]byte{path: []byte(s)}
	}
	c, err := Load(cfg, overlay)
	if err != nil {
		if control != nil {
			res.Skipped = "control mutant does not type-check: " + err.Error()
			return
		}
		res.Error = err.Error()
		return
	}
	c.Prop = p
	c.Tier = tier
	p.Run(c)
	res.Obligations = c.Obligations
	res.Counters = c.Counters
	res.Notes = c.Notes
	return
}

// Options of a run.
type Options struct {
	Prop    string
	Tier    string
	Config  string // sub-process: analyse only this configuration
	Control string // sub-process: apply this control
	SubOut  string // sub-process: write SubResult here
	Replay  string
	Verbose bool
}

// Main is the entry point used by cmd/wzcheck. It returns the exit code.
func Main(o Options) int {
	if o.Replay != "" {
		return replay(o)
	}
	p := Registry[o.Prop]
	if p == nil {
		fmt.Printf("UNDECIDED property=%s reason=no checker registered\n", o.Prop)
		return 2
	}
	if o.Tier != "thorough" {
		o.Tier = "quick"
	}
	if o.SubOut != "" {
		cfg := ParseCfg(o.Config)
		var ctl *Control
		if o.Control != "" {
			for i := range p.Controls {
				if p.Controls[i].Name == o.Control {
					ctl = &p.Controls[i]
				}
			}
			if ctl == nil {
				fmt.Println("unknown control", o.Control)
				return 2
			}
		}
		res := runOne(p, o.Tier, cfg, ctl)
		b, _ := json.Marshal(res)
		if err := os.WriteFile(o.SubOut, b, 0o644); err != nil {
			fmt.Println(err)
			return 2
		}
		return 0
	}
	return runProperty(p, o)
}

func runProperty(p *Property, o Options) int {
	t0 := time.Now()
	seed := 0
	if s := os.Getenv("VERIF_SEED"); s != "" {
		if v, err := strconv.Atoi(s); err == nil {
			seed = v
		}
	}
	outDir := filepath.Join(VerifDir, "out", p.ID)
	os.RemoveAll(outDir)
	os.MkdirAll(outDir, 0o755)
	os.MkdirAll(filepath.Join(VerifDir, "evidence"), 0o755)

	base := BuildCfg{"linux", "amd64", ""}
	var results []*SubResult
	var controls []*SubResult

	if o.Tier == "quick" {
		results = append(results, runOne(p, o.Tier, base, nil))
	} else {
		type job struct {
			cfg  BuildCfg
			ctl  *Control
			file string
		}
		var jobs []job
		jobs = append(jobs, job{cfg: base})
		for _, c := range p.Configs {
			jobs = append(jobs, job{cfg: c})
		}
		for i := range p.Controls {
			jobs = append(jobs, job{cfg: base, ctl: &p.Controls[i]})
		}
		out := make([]*SubResult, len(jobs))
		sem := make(chan struct{}, 4)
		var wg sync.WaitGroup
		self, _ := os.Executable()
		for i, j := range jobs {
			wg.Add(1)
			go func(i int, j job) {
				defer wg.Done()
				sem <- struct{}{}
				defer func() { <-sem }()
				f := filepath.Join(outDir, fmt.Sprintf("sub-%d.json", i))
				args := []string{"-prop", p.ID, "-tier", o.Tier, "-config", j.cfg.String(), "-sub", f}
				if j.ctl != nil {
					args = append(args, "-control", j.ctl.Name)
				}
				cmd := exec.Command(self, args...)
				cmd.Env = os.Environ()
				ob, err := cmd.CombinedOutput()
				r := &SubResult{Config: j.cfg.String()}
				if j.ctl != nil {
					r.Control = j.ctl.Name
				}
				if b, rerr := os.ReadFile(f); rerr == nil {
					if jerr := json.Unmarshal(b, r); jerr != nil {
						r.Error = "bad sub result: " + jerr.Error()
					}
				} else {
					r.Error = fmt.Sprintf("sub-process failed: %v: %s", err, string(ob))
				}
				os.Remove(f)
				out[i] = r
			}(i, j)
		}
		wg.Wait()
		for i, j := range jobs {
			if j.ctl != nil {
				controls = append(controls, out[i])
			} else {
				results = append(results, out[i])
			}
		}
	}

	findings, ferr := LoadFindings()
	var undecided []string
	if ferr != nil {
		undecided = append(undecided, "known_findings.json unreadable: "+ferr.Error())
	}
	known := map[string]Finding{}
	for _, f := range findings {
		if f.Property == p.ID && f.Status == "known" {
			known[f.Rule+"|"+f.Construct] = f
		}
	}

	// merge obligations over configurations: key → worst status
	merged := map[string]*Obligation{}
	var order []string
	counters := map[string]int{}
	var notes []string
	var cfgNames []string
	perRule := map[string]int{}
	for ri, r := range results {
		cfgNames = append(cfgNames, r.Config)
		if r.Error != "" {
			undecided = append(undecided, fmt.Sprintf("[%s] %s", r.Config, r.Error))
			continue
		}
		for _, ob := range r.Obligations {
			k := ob.Key()
			if m, ok := merged[k]; ok {
				if rank(ob.Status) > rank(m.Status) {
					*m = *ob
				}
			} else {
				cp := *ob
				merged[k] = &cp
				order = append(order, k)
			}
		}
		if ri == 0 {
			for k, v := range r.Counters {
				counters[k] = v
			}
			notes = append(notes, r.Notes...)
		} else {
			for _, n := range r.Notes {
				notes = append(notes, "["+r.Config+"] "+n)
			}
		}
	}
	sort.Strings(order)
	nObl, nDis, nViol, nKnown := 0, 0, 0, 0
	var violations []*Obligation
	var knownHit []*Obligation
	for _, k := range order {
		ob := merged[k]
		if ob.Status == Note {
			continue
		}
		nObl++
		perRule[ob.Rule]++
		switch ob.Status {
		case Discharged:
			nDis++
		case Violated:
			if f, ok := known[k]; ok {
				ob.Status = Known
				ob.Detail = f.What + " — " + ob.Detail
				nKnown++
				knownHit = append(knownHit, ob)
			} else {
				nViol++
				violations = append(violations, ob)
			}
		case Undecided:
			undecided = append(undecided, fmt.Sprintf("%s %s: %s (%s)", ob.Rule, ob.Construct, ob.Detail, ob.Pos))
		}
	}
	// minimum instance counts (only meaningful when the base configuration was analysed)
	for _, r := range p.Rules {
		if r.Min > 0 && perRule[r.ID] < r.Min {
			undecided = append(undecided, fmt.Sprintf("rule %s matched %d instances, fewer than the %d confirmed by hand — the rule would pass vacuously", r.ID, perRule[r.ID], r.Min))
		}
	}

	// controls
	type ctlOut struct {
		Name     string `json:"name"`
		Rule     string `json:"rule"`
		Outcome  string `json:"outcome"`
		Detail   string `json:"detail,omitempty"`
		Detected string `json:"detected_construct,omitempty"`
	}
	var ctlReport []ctlOut
	ctlFailed := 0
	baseViol := map[string]bool{}
	if len(results) > 0 {
		for _, ob := range results[0].Obligations {
			if ob.Status == Violated {
				baseViol[ob.Key()] = true
			}
		}
	}
	for _, r := range controls {
		var ctl *Control
		for i := range p.Controls {
			if p.Controls[i].Name == r.Control {
				ctl = &p.Controls[i]
			}
		}
		co := ctlOut{Name: r.Control, Rule: ctl.Rule}
		switch {
		case r.Skipped != "":
			co.Outcome = "control-skipped"
			co.Detail = r.Skipped
		case r.Error != "":
			co.Outcome = "control-error"
			co.Detail = r.Error
			ctlFailed++
		default:
			hit := false
			for _, ob := range r.Obligations {
				if (ob.Status == Violated || ob.Status == Undecided) && ob.Rule == ctl.Rule && strings.Contains(ob.Construct, ctl.Substr) && !baseViol[ob.Key()] {
					hit = true
					co.Detected = ob.Construct + " @ " + ob.Pos
					if ob.Status == Undecided {
						co.Detail = "reported as undecided: " + ob.Detail
					}
					break
				}
			}
			if hit {
				co.Outcome = "detected"
			} else {
				co.Outcome = "MISSED"
				ctlFailed++
			}
		}
		ctlReport = append(ctlReport, co)
	}
	if ctlFailed > 0 {
		for _, co := range ctlReport {
			if co.Outcome == "MISSED" || co.Outcome == "control-error" {
				undecided = append(undecided, fmt.Sprintf("positive control %q (rule %s) %s %s — the checker is broken", co.Name, co.Rule, co.Outcome, co.Detail))
			}
		}
	}

	// replay files + output lines
	for _, ob := range knownHit {
		fmt.Printf("KNOWN-FINDING: property=%s %s [%s %s @ %s]\n", p.ID, known[ob.Key()].What, ob.Rule, ob.Construct, ob.Pos)
	}
	for i, ob := range violations {
		rf := filepath.Join(outDir, fmt.Sprintf("violation-%d.json", i+1))
		b, _ := json.MarshalIndent(map[string]any{
			"property": p.ID, "rule": ob.Rule, "construct": ob.Construct, "pos": ob.Pos,
			"detail": ob.Detail, "config": ob.Config, "rule_text": ruleText(p, ob.Rule),
		}, "", " ")
		os.WriteFile(rf, b, 0o644)
		fmt.Printf("  %s: rule %s violated at %s: %s — %s\n", p.ID, ob.Rule, ob.Pos, ob.Construct, ob.Detail)
		fmt.Printf("VIOLATION property=%s replay=%s\n", p.ID, rf)
	}
	for _, u := range undecided {
		fmt.Printf("UNDECIDED property=%s reason=%s\n", p.ID, u)
	}

	// evidence
	samples := []any{}
	perRuleSample := map[string]int{}
	for _, k := range order {
		ob := merged[k]
		if perRuleSample[ob.Rule] < 3 || ob.Status != Discharged {
			perRuleSample[ob.Rule]++
			samples = append(samples, ob)
		}
	}
	type ruleOut struct {
		Rule
		Instances int `json:"instances"`
	}
	var rulesOut []ruleOut
	for _, r := range p.Rules {
		rulesOut = append(rulesOut, ruleOut{r, perRule[r.ID]})
	}
	self, _ := os.Executable()
	coverage := map[string]any{
		"explanation":         p.Explanation,
		"obligations":         nObl,
		"discharged":          nDis,
		"known_findings":      nKnown,
		"violated":            nViol,
		"undecided":           len(undecided),
		"samples":             samples,
		"rules":               rulesOut,
		"configurations":      cfgNames,
		"counters":            counters,
		"notes":               notes,
		"exhaustive":          true,
		"rule":                "obligations are enumerated from the type-checked program of /repo's working tree; one obligation per rule instance (rule id + semantic construct), all instances enumerated",
		"evaluations":         nObl,
		"distinct_nontrivial": len(order),
		"controls":            ctlReport,
		"undecided_reasons":   undecided,
		"checker_cmd":         fmt.Sprintf("%s -prop %s -tier %s", self, p.ID, o.Tier),
		"trusted_base":        append([]string{"go/types type checking and method sets", "golang.org/x/tools v0.29.0 go/ssa, go/cfg, callgraph (cha, vta)"}, p.TrustedBase...),
	}
	level := p.Level
	if nKnown > 0 && level == "proof" {
		// a proof-level claim requires every obligation discharged
		level = "other"
	}
	assumptions := append([]string{"paths are syntactic (no infeasible-path pruning); reflection, unsafe and linkname are outside the analysed semantics unless a rule says otherwise"}, p.Assumptions...)
	ev := map[string]any{
		"property_id": p.ID,
		"tier":        o.Tier,
		"seed":        seed,
		"level":       level,
		"coverage":    coverage,
		"assumptions": assumptions,
		"wall_s":      time.Since(t0).Seconds(),
		"violations":  nViol,
	}
	b, _ := json.MarshalIndent(ev, "", " ")
	if err := os.WriteFile(filepath.Join(VerifDir, "evidence", p.ID+".json"), b, 0o644); err != nil {
		fmt.Println("cannot write evidence:", err)
		return 2
	}
	fmt.Printf("%s tier=%s configs=%d obligations=%d discharged=%d known=%d violated=%d undecided=%d controls=%d wall=%.1fs\n",
		p.ID, o.Tier, len(cfgNames), nObl, nDis, nKnown, nViol, len(undecided), len(ctlReport), time.Since(t0).Seconds())
	if o.Verbose {
		for _, k := range order {
			ob := merged[k]
			fmt.Printf("  [%s] %s %s @ %s %s\n", ob.Status, ob.Rule, ob.Construct, ob.Pos, ob.Detail)
		}
		for _, n := range notes {
			fmt.Println("  note:", n)
		}
		for _, co := range ctlReport {
			fmt.Printf("  control %s (%s): %s %s %s\n", co.Name, co.Rule, co.Outcome, co.Detected, co.Detail)
		}
	}
	if nViol > 0 {
		return 1
	}
	if len(undecided) > 0 {
		return 2
	}
	return 0
}

func ruleText(p *Property, id string) string {
	for _, r := range p.Rules {
		if r.ID == id {
			return r.Template + ": " + r.Text
		}
	}
	return ""
}

func replay(o Options) int {
	b, err := os.ReadFile(o.Replay)
	if err != nil {
		fmt.Println(err)
		return 2
	}
	var v struct {
		Property, Rule, Construct, Config string
	}
	if err := json.Unmarshal(b, &v); err != nil {
		fmt.Println(err)
		return 2
	}
	p := Registry[v.Property]
	if p == nil {
		fmt.Println("unknown property", v.Property)
		return 2
	}
	res := runOne(p, "quick", ParseCfg(v.Config), nil)
	if res.Error != "" {
		fmt.Printf("UNDECIDED property=%s reason=%s\n", p.ID, res.Error)
		return 2
	}
	for _, ob := range res.Obligations {
		if ob.Rule == v.Rule && ob.Construct == v.Construct {
			fmt.Printf("%s %s %s @ %s: %s\nrule: %s\n", ob.Status, ob.Rule, ob.Construct, ob.Pos, ob.Detail, ruleText(p, ob.Rule))
			if ob.Status == Violated {
				fmt.Printf("VIOLATION property=%s replay=%s\n", p.ID, o.Replay)
				return 1
			}
			return 0
		}
	}
	fmt.Printf("obligation %s %s no longer exists on this tree\n", v.Rule, v.Construct)
	return 0
}
