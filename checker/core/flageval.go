package core

// Finite-domain evaluation of flag-dispatch code (T-EXHAUST / T-CONSULT).
// A small abstract interpreter over the statements of one function: one integer
// parameter ("the flag") has a concrete value, every condition that depends only
// on the flag and constants is decided, every other condition is explored both
// ways.  It records the flag-argument value of every "delegate" call reached.
// Running it for every value of the (finite) flag domain gives the exact set of
// flag values that can reach the delegate on some syntactic path.

import (
	"fmt"
	"go/ast"
	"go/constant"
	"go/token"
	"go/types"
	"sort"
	"strings"
)

type FlagEval struct {
	Info *types.Info
	Flag types.Object // the flag parameter (may be nil)
	// Atoms maps boolean variables/fields to a bit of the flag value: a use of the atom evaluates to that bit.
	Atoms map[types.Object]uint
	// Delegate reports whether call is a delegate call and which argument carries the flag.
	Delegate func(call *ast.CallExpr) (arg ast.Expr, ok bool)

	// results of one Run
	Reached   map[uint64]bool // known flag values passed to the delegate
	Unknown   []token.Pos     // delegate calls whose flag argument could not be evaluated
	Unsupport []string        // constructs the interpreter cannot follow
	steps     int
	ids       map[types.Object]int
}

type fenv struct {
	val   uint64
	known bool
	// loc encodes the known values of local variables derived from the flag ("<id>=<value>;" sorted by id): a
	// comparable string so that states can be de-duplicated
	loc string
}

type foutcome int

const (
	oFall foutcome = iota
	oReturn
	oBreak
)

type fstate struct {
	env fenv
	out foutcome
}

// Run interprets body with flag = v.
func (e *FlagEval) Run(body *ast.BlockStmt, v uint64) {
	if e.Reached == nil {
		e.Reached = map[uint64]bool{}
	}
	e.steps = 0
	e.execList(body.List, fenv{val: v, known: true})
}

func (e *FlagEval) execList(list []ast.Stmt, env fenv) []fstate {
	states := []fstate{{env, oFall}}
	for _, s := range list {
		var next []fstate
		for _, st := range states {
			if st.out != oFall {
				next = append(next, st)
				continue
			}
			next = append(next, e.exec(s, st.env)...)
		}
		states = dedup(next)
	}
	return states
}

func dedup(in []fstate) []fstate {
	seen := map[fstate]bool{}
	var out []fstate
	for _, s := range in {
		if !seen[s] {
			seen[s] = true
			out = append(out, s)
		}
	}
	return out
}

func (e *FlagEval) unsupported(n ast.Node, what string) {
	e.Unsupport = append(e.Unsupport, fmt.Sprintf("%s at %v", what, n.Pos()))
}

// scan looks for delegate calls inside an expression/statement evaluated under env.
func (e *FlagEval) scan(n ast.Node, env fenv) {
	if n == nil {
		return
	}
	ast.Inspect(n, func(x ast.Node) bool {
		switch c := x.(type) {
		case *ast.FuncLit:
			found := false
			ast.Inspect(c.Body, func(y ast.Node) bool {
				if cc, ok := y.(*ast.CallExpr); ok {
					if _, ok := e.Delegate(cc); ok {
						found = true
					}
				}
				return true
			})
			if found {
				e.unsupported(c, "delegate call inside a function literal")
			}
			return false
		case *ast.CallExpr:
			if arg, ok := e.Delegate(c); ok {
				if arg == nil {
					if env.known {
						e.Reached[env.val] = true
					} else {
						e.Unknown = append(e.Unknown, c.Pos())
					}
				} else if v, ok := e.eval(arg, env); ok {
					e.Reached[v] = true
				} else {
					e.Unknown = append(e.Unknown, c.Pos())
				}
			}
		}
		return true
	})
}

func (e *FlagEval) assignsFlag(n ast.Node) bool {
	if e.Flag == nil || n == nil {
		return false
	}
	found := false
	ast.Inspect(n, func(x ast.Node) bool {
		switch s := x.(type) {
		case *ast.AssignStmt:
			for _, l := range s.Lhs {
				if id, ok := l.(*ast.Ident); ok && (e.Info.Uses[id] == e.Flag || e.Info.Defs[id] == e.Flag) {
					found = true
				}
			}
		case *ast.IncDecStmt:
			if id, ok := s.X.(*ast.Ident); ok && e.Info.Uses[id] == e.Flag {
				found = true
			}
		case *ast.UnaryExpr:
			if s.Op == token.AND {
				if id, ok := s.X.(*ast.Ident); ok && e.Info.Uses[id] == e.Flag {
					found = true
				}
			}
		}
		return true
	})
	return found
}

func (e *FlagEval) exec(s ast.Stmt, env fenv) []fstate {
	e.steps++
	if e.steps > 200000 {
		e.Unsupport = append(e.Unsupport, "step budget exceeded")
		return nil
	}
	switch x := s.(type) {
	case nil:
		return []fstate{{env, oFall}}
	case *ast.BlockStmt:
		return e.execList(x.List, env)
	case *ast.ExprStmt:
		e.scan(x.X, env)
		return []fstate{{env, oFall}}
	case *ast.DeclStmt, *ast.EmptyStmt:
		e.scan(x, env)
		return []fstate{{env, oFall}}
	case *ast.IncDecStmt:
		if e.assignsFlag(x) {
			env.known = false
		}
		return []fstate{{env, oFall}}
	case *ast.DeferStmt:
		e.scan(x.Call, env)
		return []fstate{{env, oFall}}
	case *ast.GoStmt:
		e.scan(x.Call, env)
		return []fstate{{env, oFall}}
	case *ast.AssignStmt:
		for _, r := range x.Rhs {
			e.scan(r, env)
		}
		// locals derived from the flag: `mode := flag & mask` keeps its value for later conditions
		if len(x.Lhs) == len(x.Rhs) && (x.Tok == token.DEFINE || x.Tok == token.ASSIGN) {
			for i, l := range x.Lhs {
				id, ok := l.(*ast.Ident)
				if !ok {
					continue
				}
				o := e.Info.Defs[id]
				if o == nil {
					o = e.Info.Uses[id]
				}
				if o == nil || o == e.Flag {
					continue
				}
				if _, isVar := o.(*types.Var); !isVar {
					continue
				}
				if rv, rok := e.eval(x.Rhs[i], env); rok {
					env.loc = setLoc(env.loc, e.objID(o), rv)
				} else {
					env.loc = delLoc(env.loc, e.objID(o))
				}
			}
		} else {
			for _, l := range x.Lhs {
				if id, ok := l.(*ast.Ident); ok {
					if o := e.Info.Uses[id]; o != nil && o != e.Flag {
						env.loc = delLoc(env.loc, e.objID(o))
					}
				}
			}
		}
		for i, l := range x.Lhs {
			id, ok := l.(*ast.Ident)
			if !ok || e.Flag == nil || (e.Info.Uses[id] != e.Flag && e.Info.Defs[id] != e.Flag) {
				continue
			}
			if len(x.Lhs) != len(x.Rhs) {
				env.known = false
				continue
			}
			rv, rok := e.eval(x.Rhs[i], env)
			switch x.Tok {
			case token.ASSIGN, token.DEFINE:
				env = fenv{rv, rok, env.loc}
			case token.AND_NOT_ASSIGN:
				env = fenv{env.val &^ rv, rok && env.known, env.loc}
			case token.AND_ASSIGN:
				env = fenv{env.val & rv, rok && env.known, env.loc}
			case token.OR_ASSIGN:
				env = fenv{env.val | rv, rok && env.known, env.loc}
			case token.XOR_ASSIGN:
				env = fenv{env.val ^ rv, rok && env.known, env.loc}
			default:
				env.known = false
			}
		}
		return []fstate{{env, oFall}}
	case *ast.ReturnStmt:
		for _, r := range x.Results {
			e.scan(r, env)
		}
		return []fstate{{env, oReturn}}
	case *ast.IfStmt:
		var out []fstate
		pre := []fstate{{env, oFall}}
		if x.Init != nil {
			pre = e.exec(x.Init, env)
		}
		for _, p := range pre {
			if p.out != oFall {
				out = append(out, p)
				continue
			}
			e.scan(x.Cond, p.env)
			cv, ok := e.eval(x.Cond, p.env)
			if !ok || cv != 0 {
				out = append(out, e.exec(x.Body, p.env)...)
			}
			if !ok || cv == 0 {
				if x.Else != nil {
					out = append(out, e.exec(x.Else, p.env)...)
				} else {
					out = append(out, fstate{p.env, oFall})
				}
			}
		}
		return dedup(out)
	case *ast.SwitchStmt:
		var out []fstate
		pre := []fstate{{env, oFall}}
		if x.Init != nil {
			pre = e.exec(x.Init, env)
		}
		for _, p := range pre {
			if p.out != oFall {
				out = append(out, p)
				continue
			}
			out = append(out, e.execSwitch(x, p.env)...)
		}
		return dedup(out)
	case *ast.BranchStmt:
		if x.Tok == token.BREAK && x.Label == nil {
			return []fstate{{env, oBreak}}
		}
		e.unsupported(x, "branch statement "+x.Tok.String())
		return []fstate{{env, oFall}}
	case *ast.LabeledStmt:
		return e.exec(x.Stmt, env)
	default:
		// loops, select, type switches: not followed. They are harmless when they neither call the
		// delegate nor assign the flag.
		bad := e.assignsFlag(s)
		ast.Inspect(s, func(y ast.Node) bool {
			if cc, ok := y.(*ast.CallExpr); ok {
				if _, ok := e.Delegate(cc); ok {
					bad = true
				}
			}
			return true
		})
		if bad {
			e.unsupported(s, fmt.Sprintf("%T containing a delegate call or an assignment to the flag", s))
		}
		return []fstate{{env, oFall}, {env, oReturn}}
	}
}

func (e *FlagEval) execSwitch(x *ast.SwitchStmt, env fenv) []fstate {
	var tagV uint64
	tagOK := false
	if x.Tag != nil {
		e.scan(x.Tag, env)
		tagV, tagOK = e.eval(x.Tag, env)
	}
	var out []fstate
	var deflt *ast.CaseClause
	matchedDefinitely := false
	runBody := func(cc *ast.CaseClause, idx int) {
		body := cc.Body
		res := e.execList(body, env)
		for _, r := range res {
			if r.out == oBreak {
				r.out = oFall
			}
			// fallthrough statements are not used in the anchored code
			out = append(out, r)
		}
	}
	for i, cs := range x.Body.List {
		cc := cs.(*ast.CaseClause)
		if cc.List == nil {
			deflt = cc
			continue
		}
		if len(cc.Body) > 0 {
			if br, ok := cc.Body[len(cc.Body)-1].(*ast.BranchStmt); ok && br.Tok == token.FALLTHROUGH {
				e.unsupported(br, "fallthrough")
			}
		}
		may, must := false, false
		for _, ce := range cc.List {
			e.scan(ce, env)
			cv, ok := e.eval(ce, env)
			switch {
			case x.Tag == nil:
				if !ok {
					may = true
				} else if cv != 0 {
					must = true
				}
			case ok && tagOK:
				if cv == tagV {
					must = true
				}
			default:
				may = true
			}
			if must {
				break
			}
		}
		if must {
			runBody(cc, i)
			matchedDefinitely = true
			break
		}
		if may {
			runBody(cc, i)
		}
	}
	if !matchedDefinitely {
		if deflt != nil {
			runBody(deflt, -1)
		} else {
			out = append(out, fstate{env, oFall})
		}
	}
	return out
}

// eval evaluates an integer/boolean expression over the flag and constants.
func (e *FlagEval) eval(x ast.Expr, env fenv) (uint64, bool) {
	if tv, ok := e.Info.Types[x]; ok && tv.Value != nil {
		switch tv.Value.Kind() {
		case constant.Int:
			if u, ok := constant.Uint64Val(tv.Value); ok {
				return u, true
			}
			if i, ok := constant.Int64Val(tv.Value); ok {
				return uint64(i), true
			}
		case constant.Bool:
			if constant.BoolVal(tv.Value) {
				return 1, true
			}
			return 0, true
		}
		return 0, false
	}
	switch n := x.(type) {
	case *ast.ParenExpr:
		return e.eval(n.X, env)
	case *ast.Ident:
		if e.Flag != nil && e.Info.Uses[n] == e.Flag {
			return env.val, env.known
		}
		if bit, ok := e.Atoms[e.Info.Uses[n]]; ok && env.known {
			return (env.val >> bit) & 1, true
		}
		if o := e.Info.Uses[n]; o != nil {
			if v, ok := getLoc(env.loc, e.objID(o)); ok {
				return v, true
			}
		}
		return 0, false
	case *ast.SelectorExpr:
		if bit, ok := e.Atoms[e.Info.Uses[n.Sel]]; ok && env.known {
			return (env.val >> bit) & 1, true
		}
		return 0, false
	case *ast.CallExpr:
		// type conversion of an evaluable operand
		if len(n.Args) == 1 {
			if tv, ok := e.Info.Types[n.Fun]; ok && tv.IsType() {
				if b, ok := tv.Type.Underlying().(*types.Basic); ok && b.Info()&types.IsInteger != 0 {
					v, ok := e.eval(n.Args[0], env)
					if !ok {
						return 0, false
					}
					switch b.Kind() {
					case types.Uint8, types.Int8:
						v &= 0xff
					case types.Uint16, types.Int16:
						v &= 0xffff
					case types.Uint32, types.Int32:
						v &= 0xffffffff
					}
					return v, true
				}
			}
		}
		return 0, false
	case *ast.UnaryExpr:
		v, ok := e.eval(n.X, env)
		if !ok {
			return 0, false
		}
		switch n.Op {
		case token.NOT:
			if v == 0 {
				return 1, true
			}
			return 0, true
		case token.XOR:
			return ^v, true
		case token.SUB:
			return -v, true
		case token.ADD:
			return v, true
		}
		return 0, false
	case *ast.BinaryExpr:
		l, lok := e.eval(n.X, env)
		r, rok := e.eval(n.Y, env)
		b := func(c bool) (uint64, bool) {
			if c {
				return 1, true
			}
			return 0, true
		}
		switch n.Op {
		case token.LAND:
			if (lok && l == 0) || (rok && r == 0) {
				return 0, true
			}
			if lok && rok {
				return 1, true
			}
			return 0, false
		case token.LOR:
			if (lok && l != 0) || (rok && r != 0) {
				return 1, true
			}
			if lok && rok {
				return 0, true
			}
			return 0, false
		case token.AND:
			// x & 0 == 0 even when x is unknown
			if (lok && l == 0) || (rok && r == 0) {
				return 0, true
			}
		}
		if !lok || !rok {
			return 0, false
		}
		switch n.Op {
		case token.AND:
			return l & r, true
		case token.OR:
			return l | r, true
		case token.XOR:
			return l ^ r, true
		case token.AND_NOT:
			return l &^ r, true
		case token.ADD:
			return l + r, true
		case token.SUB:
			return l - r, true
		case token.SHL:
			return l << r, true
		case token.SHR:
			return l >> r, true
		case token.EQL:
			return b(l == r)
		case token.NEQ:
			return b(l != r)
		case token.LSS:
			return b(l < r)
		case token.LEQ:
			return b(l <= r)
		case token.GTR:
			return b(l > r)
		case token.GEQ:
			return b(l >= r)
		}
	}
	return 0, false
}

// EvalExpr evaluates x with the flag set to v (ok=false when x depends on anything else).
func (e *FlagEval) EvalExpr(x ast.Expr, v uint64) (uint64, bool) {
	return e.eval(x, fenv{val: v, known: true})
}

// ---- locals derived from the flag ----

func (e *FlagEval) objID(o types.Object) int {
	if e.ids == nil {
		e.ids = map[types.Object]int{}
	}
	if id, ok := e.ids[o]; ok {
		return id
	}
	e.ids[o] = len(e.ids) + 1
	return e.ids[o]
}

func parseLoc(loc string) map[int]uint64 {
	m := map[int]uint64{}
	for _, kv := range strings.Split(loc, ";") {
		if kv == "" {
			continue
		}
		var k int
		var v uint64
		if _, err := fmt.Sscanf(kv, "%d=%d", &k, &v); err == nil {
			m[k] = v
		}
	}
	return m
}

func encodeLoc(m map[int]uint64) string {
	keys := make([]int, 0, len(m))
	for k := range m {
		keys = append(keys, k)
	}
	sort.Ints(keys)
	var sb strings.Builder
	for _, k := range keys {
		fmt.Fprintf(&sb, "%d=%d;", k, m[k])
	}
	return sb.String()
}

func getLoc(loc string, id int) (uint64, bool) {
	if loc == "" {
		return 0, false
	}
	v, ok := parseLoc(loc)[id]
	return v, ok
}

func setLoc(loc string, id int, v uint64) string {
	m := parseLoc(loc)
	m[id] = v
	return encodeLoc(m)
}

func delLoc(loc string, id int) string {
	if loc == "" {
		return loc
	}
	m := parseLoc(loc)
	delete(m, id)
	return encodeLoc(m)
}
