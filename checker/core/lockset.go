package core

// T-LOCKSET: must-lockset analysis on go/ssa.  For each function a forward
// dataflow computes, per mutex field (types.Var of a sync.Mutex/RWMutex
// struct field), the weakest mode in which it is certainly held at each
// instruction (0 none, 1 read, 2 write).  `defer mu.Unlock()` keeps the lock
// held to the end of the function; an explicit Unlock releases it.  Functions
// that access guarded fields without locking are given an entry lockset: the
// meet of the locksets at all their static call sites (helpers that must be
// called with the lock held); address-taken functions and functions without
// callers start empty.

import (
	"go/types"
	"sort"

	"golang.org/x/tools/go/ssa"
)

type LockMode int

type lockState map[*types.Var]LockMode

func (s lockState) clone() lockState {
	n := make(lockState, len(s))
	for k, v := range s {
		n[k] = v
	}
	return n
}

func meetLock(a, b lockState) lockState {
	out := lockState{}
	for k, v := range a {
		if w, ok := b[k]; ok {
			if w < v {
				v = w
			}
			if v > 0 {
				out[k] = v
			}
		}
	}
	return out
}

func eqLock(a, b lockState) bool {
	if len(a) != len(b) {
		return false
	}
	for k, v := range a {
		if b[k] != v {
			return false
		}
	}
	return true
}

// GuardedAccess is one access to a guarded field.
type GuardedAccess struct {
	Fn    *ssa.Function
	Instr ssa.Instruction
	Field *types.Var
	Write bool
	Held  LockMode // mode of the guarding mutex at the access
	Fresh bool     // the object was allocated in this function (constructor)
}

type Lockset struct {
	C *Ctx
	// Guard maps a guarded field to the mutex field that protects it.
	Guard map[*types.Var]*types.Var
	Fns   []*ssa.Function

	entry    map[*ssa.Function]lockState
	Accesses []GuardedAccess
	at       map[ssa.Instruction]lockState
}

func mutexOp(call *ssa.CallCommon) (field *types.Var, op string) {
	f := call.StaticCallee()
	if f == nil || f.Signature.Recv() == nil {
		return nil, ""
	}
	n := NamedOf(f.Signature.Recv().Type())
	if n == nil || n.Obj().Pkg() == nil || n.Obj().Pkg().Path() != "sync" {
		return nil, ""
	}
	if n.Obj().Name() != "Mutex" && n.Obj().Name() != "RWMutex" {
		return nil, ""
	}
	if len(call.Args) == 0 {
		return nil, ""
	}
	fa, ok := call.Args[0].(*ssa.FieldAddr)
	if !ok {
		return nil, ""
	}
	st, _ := derefStruct(fa.X.Type()).Underlying().(*types.Struct)
	if st == nil {
		return nil, ""
	}
	return st.Field(fa.Field), f.Name()
}

func (l *Lockset) transfer(in ssa.Instruction, st lockState) {
	switch x := in.(type) {
	case *ssa.Call:
		if fld, op := mutexOp(x.Common()); fld != nil {
			switch op {
			case "Lock":
				st[fld] = 2
			case "RLock":
				if st[fld] < 1 {
					st[fld] = 1
				}
			case "Unlock", "RUnlock":
				delete(st, fld)
			case "TryLock", "TryRLock":
				// result-dependent: not tracked
			}
		}
	case *ssa.Defer:
		// deferred unlocks keep the lock until return: nothing to do
	}
}

// Run analyses all functions.
func (l *Lockset) Run() {
	l.entry = map[*ssa.Function]lockState{}
	l.at = map[ssa.Instruction]lockState{}
	inSet := map[*ssa.Function]bool{}
	for _, f := range l.Fns {
		inSet[f] = true
	}
	// static call sites per callee
	type site struct {
		caller *ssa.Function
		in     ssa.Instruction
	}
	callers := map[*ssa.Function][]site{}
	addrTaken := map[*ssa.Function]bool{}
	for _, f := range l.Fns {
		for _, b := range f.Blocks {
			for _, in := range b.Instrs {
				if ci, ok := in.(ssa.CallInstruction); ok {
					if callee := ci.Common().StaticCallee(); callee != nil && inSet[callee] {
						if _, isGo := in.(*ssa.Go); isGo {
							addrTaken[callee] = true // runs concurrently: no lock inherited
						} else if _, isDefer := in.(*ssa.Defer); isDefer {
							addrTaken[callee] = true // runs at exit, after deferred unlocks may have run
						} else {
							callers[callee] = append(callers[callee], site{f, in})
						}
					}
				}
				var ops [16]*ssa.Value
				for _, op := range in.Operands(ops[:0]) {
					if op == nil || *op == nil {
						continue
					}
					if fv, ok := (*op).(*ssa.Function); ok {
						if ci, ok := in.(ssa.CallInstruction); ok && ci.Common().Value == fv {
							continue
						}
						addrTaken[fv] = true
					}
					if mc, ok := (*op).(*ssa.MakeClosure); ok {
						if fv, ok := mc.Fn.(*ssa.Function); ok {
							addrTaken[fv] = true
						}
					}
				}
				if mc, ok := in.(*ssa.MakeClosure); ok {
					if fv, ok := mc.Fn.(*ssa.Function); ok {
						addrTaken[fv] = true
					}
				}
			}
		}
	}
	// Synchronous closures: a function literal whose only use is as an argument of a plain call to a
	// non-retaining standard-library helper (sort.Search, slices.*Func, ...) or that is invoked right away
	// runs inside the caller's critical section: it inherits the lockset at that call.
	for _, f := range l.Fns {
		for _, b := range f.Blocks {
			for _, in := range b.Instrs {
				mc, ok := in.(*ssa.MakeClosure)
				if !ok {
					continue
				}
				fv, ok := mc.Fn.(*ssa.Function)
				if !ok || !inSet[fv] || mc.Referrers() == nil {
					continue
				}
				sync := true
				var sites []site
				for _, u := range *mc.Referrers() {
					switch x := u.(type) {
					case *ssa.Call:
						if x.Common().Value == mc {
							sites = append(sites, site{f, x}) // invoked right away
							continue
						}
						callee := x.Common().StaticCallee()
						if callee == nil || inModule(callee) {
							sync = false
							continue
						}
						switch ExtPkg(callee) {
						case "sort", "slices", "strings", "bytes":
							sites = append(sites, site{f, x})
						default:
							sync = false
						}
					case *ssa.DebugRef:
					default:
						sync = false
					}
				}
				if sync && len(sites) > 0 {
					delete(addrTaken, fv)
					callers[fv] = append(callers[fv], sites...)
				}
			}
		}
	}
	analyse := func(f *ssa.Function) {
		if f.Blocks == nil {
			return
		}
		in := map[*ssa.BasicBlock]lockState{}
		visited := map[*ssa.BasicBlock]bool{f.Blocks[0]: true}
		e := l.entry[f]
		if e == nil {
			e = lockState{}
		}
		in[f.Blocks[0]] = e.clone()
		work := []*ssa.BasicBlock{f.Blocks[0]}
		for len(work) > 0 {
			b := work[0]
			work = work[1:]
			st := in[b].clone()
			for _, ins := range b.Instrs {
				l.at[ins] = st.clone()
				l.transfer(ins, st)
			}
			for _, s := range b.Succs {
				if !visited[s] {
					visited[s] = true
					in[s] = st.clone()
					work = append(work, s)
				} else {
					m := meetLock(in[s], st)
					if !eqLock(m, in[s]) {
						in[s] = m
						work = append(work, s)
					}
				}
			}
		}
	}
	for round := 0; round < 4; round++ {
		for _, f := range l.Fns {
			analyse(f)
		}
		changed := false
		for _, f := range l.Fns {
			var e lockState
			if addrTaken[f] || len(callers[f]) == 0 {
				e = lockState{}
			} else {
				for i, s := range callers[f] {
					st := l.at[s.in]
					if st == nil {
						st = lockState{}
					}
					if i == 0 {
						e = st.clone()
					} else {
						e = meetLock(e, st)
					}
				}
			}
			// anonymous functions called immediately inherit through callers as well (handled above)
			if !eqLock(e, l.entry[f]) && !(len(e) == 0 && l.entry[f] == nil) {
				l.entry[f] = e
				changed = true
			}
		}
		if !changed {
			break
		}
	}
	// collect accesses
	l.Accesses = nil
	for _, f := range l.Fns {
		for _, b := range f.Blocks {
			for _, in := range b.Instrs {
				fa, ok := in.(*ssa.FieldAddr)
				if !ok {
					continue
				}
				st, _ := derefStruct(fa.X.Type()).Underlying().(*types.Struct)
				if st == nil {
					continue
				}
				fld := st.Field(fa.Field)
				mu, guarded := l.Guard[fld]
				if !guarded {
					continue
				}
				_, fresh := fa.X.(*ssa.Alloc)
				reads, writes := classifyFieldUses(fa)
				for _, u := range reads {
					l.Accesses = append(l.Accesses, GuardedAccess{Fn: f, Instr: u, Field: fld, Write: false, Held: l.at[u][mu], Fresh: fresh})
				}
				for _, u := range writes {
					l.Accesses = append(l.Accesses, GuardedAccess{Fn: f, Instr: u, Field: fld, Write: true, Held: l.at[u][mu], Fresh: fresh})
				}
			}
		}
	}
	sort.Slice(l.Accesses, func(i, j int) bool { return l.Accesses[i].Instr.Pos() < l.Accesses[j].Instr.Pos() })
}

// classifyFieldUses splits the uses of a field address into reads and writes
// (a write is a store to the field, or an update of the map / append target loaded from it is NOT a write to the
// field itself but to its referent: map updates and deletes count as writes because the map is the guarded state).
func classifyFieldUses(fa *ssa.FieldAddr) (reads, writes []ssa.Instruction) {
	for _, u := range *fa.Referrers() {
		switch x := u.(type) {
		case *ssa.Store:
			if x.Addr == fa {
				writes = append(writes, u)
			}
		case *ssa.UnOp:
			isWrite := false
			if x.Referrers() != nil {
				for _, uu := range *x.Referrers() {
					switch y := uu.(type) {
					case *ssa.MapUpdate:
						if y.Map == x {
							writes = append(writes, uu)
							isWrite = true
						}
					case *ssa.Call:
						if b, ok := y.Common().Value.(*ssa.Builtin); ok && (b.Name() == "delete" || b.Name() == "clear") && len(y.Common().Args) > 0 && y.Common().Args[0] == x {
							writes = append(writes, uu)
							isWrite = true
						}
					case *ssa.Store:
						// element store through IndexAddr is handled below
					case *ssa.IndexAddr:
						if y.X == x && y.Referrers() != nil {
							for _, uuu := range *y.Referrers() {
								if st, ok := uuu.(*ssa.Store); ok && st.Addr == y {
									writes = append(writes, uuu)
									isWrite = true
								}
							}
						}
					}
				}
			}
			_ = isWrite
			reads = append(reads, u)
		case *ssa.DebugRef:
		default:
			// address escapes (e.g. passed to atomic or a helper): treat as a write access at that point
			writes = append(writes, u)
		}
	}
	return
}
