package core

// T-NONINTERF: a non-semantic flag must not influence selected results of a
// small, loop-free pure function.  All syntactic paths of the body are
// enumerated with a symbolic environment (straight-line assignments are
// substituted textually); two paths that take the flag differently and are not
// contradictory on any other condition they both evaluate must return
// syntactically equal expressions in the selected result positions.

import (
	"fmt"
	"go/ast"
	"go/token"
	"go/types"
	"sort"
	"strings"
)

type niPath struct {
	conds   map[string]bool // condition text → polarity
	flag    int             // 0 not consulted, 1 true, -1 false
	results []string
	pos     token.Pos
}

type NonInterf struct {
	Info        *types.Info
	Flag        types.Object
	ResultNames []types.Object // named results (may be nil)
	Unsupported []string
	paths       []niPath
}

type niEnv struct {
	sub   map[types.Object]string
	conds map[string]bool
	flag  int
}

func (e niEnv) clone() niEnv {
	n := niEnv{sub: map[types.Object]string{}, conds: map[string]bool{}, flag: e.flag}
	for k, v := range e.sub {
		n.sub[k] = v
	}
	for k, v := range e.conds {
		n.conds[k] = v
	}
	return n
}

// render prints e with substituted identifiers.
func (n *NonInterf) render(e ast.Expr, env niEnv) string {
	switch x := e.(type) {
	case *ast.Ident:
		if o := n.Info.Uses[x]; o != nil {
			if s, ok := env.sub[o]; ok {
				if strings.ContainsAny(s, " +-*/<>=&|!") && !(strings.HasPrefix(s, "(") && strings.HasSuffix(s, ")")) {
					return "(" + s + ")"
				}
				return s
			}
		}
		return x.Name
	case *ast.ParenExpr:
		return n.render(x.X, env)
	case *ast.BinaryExpr:
		return "(" + n.render(x.X, env) + " " + x.Op.String() + " " + n.render(x.Y, env) + ")"
	case *ast.UnaryExpr:
		return x.Op.String() + n.render(x.X, env)
	case *ast.StarExpr:
		return "*" + n.render(x.X, env)
	case *ast.SelectorExpr:
		return n.render(x.X, env) + "." + x.Sel.Name
	case *ast.CallExpr:
		var args []string
		for _, a := range x.Args {
			args = append(args, n.render(a, env))
		}
		return n.render(x.Fun, env) + "(" + strings.Join(args, ", ") + ")"
	case *ast.BasicLit:
		return x.Value
	case *ast.IndexExpr:
		return n.render(x.X, env) + "[" + n.render(x.Index, env) + "]"
	}
	return types.ExprString(e)
}

func (n *NonInterf) isFlag(e ast.Expr) (bool, bool) { // (isFlagCond, negated)
	switch x := ast.Unparen(e).(type) {
	case *ast.Ident:
		return n.Info.Uses[x] == n.Flag, false
	case *ast.SelectorExpr:
		// the flag kept in a field of the receiver (s.capacityFromMax)
		return n.Info.Uses[x.Sel] == n.Flag, false
	case *ast.UnaryExpr:
		if x.Op == token.NOT {
			if ok, neg := n.isFlag(x.X); ok {
				return true, !neg
			}
		}
	}
	return false, false
}

func (n *NonInterf) mentionsFlag(e ast.Expr) bool {
	found := false
	ast.Inspect(e, func(x ast.Node) bool {
		if id, ok := x.(*ast.Ident); ok && n.Info.Uses[id] == n.Flag {
			found = true
		}
		return true
	})
	return found
}

// Run enumerates the paths of body.
func (n *NonInterf) Run(body *ast.BlockStmt) {
	n.paths = nil
	n.exec(body.List, niEnv{sub: map[types.Object]string{}, conds: map[string]bool{}}, nil)
}

// exec runs list then the continuation k (remaining statements of the enclosing lists).
func (n *NonInterf) exec(list []ast.Stmt, env niEnv, k [][]ast.Stmt) {
	if len(n.paths) > 4096 {
		n.Unsupported = append(n.Unsupported, "too many paths")
		return
	}
	if len(list) == 0 {
		if len(k) == 0 {
			// fell off the end: bare return of named results
			n.finish(nil, env, token.NoPos)
			return
		}
		n.exec(k[len(k)-1], env, k[:len(k)-1])
		return
	}
	s, rest := list[0], list[1:]
	switch x := s.(type) {
	case *ast.ReturnStmt:
		n.finish(x.Results, env, x.Pos())
	case *ast.AssignStmt:
		if len(x.Lhs) == len(x.Rhs) && (x.Tok == token.ASSIGN || x.Tok == token.DEFINE) {
			vals := make([]string, len(x.Rhs))
			for i, r := range x.Rhs {
				vals[i] = n.render(r, env)
			}
			env = env.clone()
			for i, l := range x.Lhs {
				if id, ok := l.(*ast.Ident); ok {
					o := n.Info.Defs[id]
					if o == nil {
						o = n.Info.Uses[id]
					}
					if o != nil {
						env.sub[o] = vals[i]
					}
				} else {
					n.Unsupported = append(n.Unsupported, fmt.Sprintf("assignment to non-identifier at %v", x.Pos()))
				}
			}
		} else {
			n.Unsupported = append(n.Unsupported, fmt.Sprintf("assignment form %s at %v", x.Tok, x.Pos()))
		}
		n.exec(rest, env, k)
	case *ast.DeclStmt, *ast.EmptyStmt:
		n.exec(rest, env, k)
	case *ast.ExprStmt:
		n.exec(rest, env, k)
	case *ast.BlockStmt:
		n.exec(x.List, env, append(k, rest))
	case *ast.IfStmt:
		if x.Init != nil {
			n.Unsupported = append(n.Unsupported, fmt.Sprintf("if with init at %v", x.Pos()))
		}
		isF, neg := n.isFlag(x.Cond)
		branch := func(pol bool, body []ast.Stmt) {
			e2 := env.clone()
			if isF {
				v := pol != neg
				if v {
					e2.flag = 1
				} else {
					e2.flag = -1
				}
			} else {
				txt := n.render(x.Cond, env)
				if old, seen := e2.conds[txt]; seen && old != pol {
					return // contradictory path
				}
				e2.conds[txt] = pol
			}
			n.exec(body, e2, append(k, rest))
		}
		if !isF && n.mentionsFlag(x.Cond) {
			n.Unsupported = append(n.Unsupported, fmt.Sprintf("flag used inside a compound condition at %v", x.Pos()))
		}
		branch(true, x.Body.List)
		switch el := x.Else.(type) {
		case nil:
			branch(false, nil)
		case *ast.BlockStmt:
			branch(false, el.List)
		case *ast.IfStmt:
			branch(false, []ast.Stmt{el})
		}
	default:
		n.Unsupported = append(n.Unsupported, fmt.Sprintf("%T at %v", s, s.Pos()))
		n.exec(rest, env, k)
	}
}

func (n *NonInterf) finish(results []ast.Expr, env niEnv, pos token.Pos) {
	p := niPath{conds: env.conds, flag: env.flag, pos: pos}
	if len(results) == 0 {
		for _, o := range n.ResultNames {
			if s, ok := env.sub[o]; ok {
				p.results = append(p.results, s)
			} else {
				p.results = append(p.results, o.Name()+"(zero)")
			}
		}
	} else {
		for _, r := range results {
			p.results = append(p.results, n.render(r, env))
		}
	}
	n.paths = append(n.paths, p)
}

// Conflicts returns descriptions of path pairs that differ in the flag, are compatible otherwise, and
// return different expressions at one of the result positions idx.
func (n *NonInterf) Conflicts(idx []int, names []string) []string {
	var out []string
	seen := map[string]bool{}
	for i := range n.paths {
		for j := range n.paths {
			a, b := n.paths[i], n.paths[j]
			if a.flag != 1 || b.flag == 1 {
				continue
			}
			compatible := true
			for c, pol := range a.conds {
				if p2, ok := b.conds[c]; ok && p2 != pol {
					compatible = false
				}
			}
			if !compatible {
				continue
			}
			for k, ix := range idx {
				if ix >= len(a.results) || ix >= len(b.results) {
					continue
				}
				if a.results[ix] != b.results[ix] {
					var cs []string
					for c, pol := range a.conds {
						cs = append(cs, fmt.Sprintf("%s=%v", c, pol))
					}
					for c, pol := range b.conds {
						if _, ok := a.conds[c]; !ok {
							cs = append(cs, fmt.Sprintf("%s=%v", c, pol))
						}
					}
					sort.Strings(cs)
					msg := fmt.Sprintf("%s is `%s` with the flag set but `%s` without it when %s", names[k], a.results[ix], b.results[ix], strings.Join(cs, " ∧ "))
					if !seen[msg] {
						seen[msg] = true
						out = append(out, msg)
					}
				}
			}
		}
	}
	sort.Strings(out)
	return out
}

func (n *NonInterf) PathCount() int { return len(n.paths) }

// NotAmong returns descriptions of paths on which result idx is syntactically none of the results in among.
func (n *NonInterf) NotAmong(idx int, among []int, names []string) []string {
	var out []string
	seen := map[string]bool{}
	for _, p := range n.paths {
		if idx >= len(p.results) {
			continue
		}
		ok := false
		for _, a := range among {
			if a < len(p.results) && p.results[a] == p.results[idx] {
				ok = true
			}
		}
		if !ok {
			msg := fmt.Sprintf("%s is `%s`, which is neither %s", names[0], p.results[idx], strings.Join(names[1:], " nor "))
			if !seen[msg] {
				seen[msg] = true
				out = append(out, msg)
			}
		}
	}
	sort.Strings(out)
	return out
}
