package core

// Field-based, flow-insensitive may-alias engine over go/ssa (no go/pointer is
// available in this sandbox).  It answers "may this reference value refer to
// memory owned by one of the seed roots / seed types?" and enumerates every
// instruction that writes *through* a reference (field store, element store,
// store through a pointer, map update/delete, append into spare capacity,
// copy destination, clear).
//
// Abstraction
//   - a Root denotes the memory that references flowing out of it refer to:
//     Field(T.f) (all objects of T merged), Site(allocation), Param(fn,i),
//     Free(fn,i), Ret(fn,i), Global(g);
//   - "elem:"+r denotes the memory referred to by references stored *inside*
//     the memory r denotes (slice/map elements, pointees' contents), nested to
//     depth 3;
//   - flow edges f→t (assignment, argument passing, return, capture) mean t
//     denotes a superset of f; the inside of two linked roots is the same
//     memory, so elem-levels are linked in both directions;
//   - dynamic calls are resolved with VTA seeded by CHA, CHA where VTA has no edge;
//   - functions outside the module are assumed not to retain their arguments;
//     their results may alias any argument; a small table lists those that
//     write through an argument.
// This over-approximates aliasing (sound for may-alias questions) except for
// reflection, unsafe and linkname, which callers enumerate separately.

import (
	"fmt"
	"go/token"
	"go/types"
	"sort"
	"strings"

	"golang.org/x/tools/go/ssa"
)

type Root string

const elemPfx = "elem:"
const maxElemDepth = 3

// Elem returns the root denoting what is stored inside r.
func Elem(r Root) Root {
	if strings.Count(string(r), elemPfx) >= maxElemDepth && strings.HasPrefix(string(r), elemPfx) {
		n := 0
		s := string(r)
		for strings.HasPrefix(s, elemPfx) {
			s = s[len(elemPfx):]
			n++
		}
		if n >= maxElemDepth {
			return r
		}
	}
	return Root(elemPfx + string(r))
}

func splitElem(r Root) (Root, int) {
	s := string(r)
	k := 0
	for strings.HasPrefix(s, elemPfx) {
		s = s[len(elemPfx):]
		k++
	}
	return Root(s), k
}

func withElem(r Root, k int) Root {
	for i := 0; i < k; i++ {
		r = Elem(r)
	}
	return r
}

// WriteSite is one instruction that writes through a reference.
type WriteSite struct {
	Fn    *ssa.Function
	Instr ssa.Instruction
	Base  ssa.Value  // the reference written through (pointer, slice, map)
	Kind  string     // "field-store", "elem-store", "ptr-store", "global-store", "map-update", "append", "copy-dst", "delete", "clear", "ext-write"
	Field *types.Var // for field-store: the field written
	Pos   token.Pos
}

type Alias struct {
	C        *Ctx
	Fns      []*ssa.Function
	callees  map[ssa.CallInstruction][]*ssa.Function
	provMemo map[ssa.Value][]Root
	inProg   map[ssa.Value]bool
	fwd      map[Root][]Root
	bwd      map[Root][]Root
	Tainted  map[Root]string // root → why (first reason)
	Writes   []WriteSite
	// OwnedType reports whether objects of this struct type are owned memory.
	OwnedType func(*types.Named) bool
	built     bool
}

func inModule(fn *ssa.Function) bool {
	if fn == nil {
		return false
	}
	if fn.Parent() != nil {
		return inModule(fn.Parent())
	}
	p := fn.Package()
	if p == nil && fn.Origin() != nil {
		p = fn.Origin().Package()
	}
	if p == nil {
		if o := fn.Object(); o != nil && o.Pkg() != nil {
			return strings.HasPrefix(o.Pkg().Path(), Module)
		}
		return false
	}
	return strings.HasPrefix(p.Pkg.Path(), Module)
}

// InModule reports whether fn belongs to the wazero module.
func InModule(fn *ssa.Function) bool { return inModule(fn) }

// NewAlias prepares the engine over all module functions.
func NewAlias(c *Ctx) *Alias {
	a := newCallResolver(c)
	a.collect()
	return a
}

// newCallResolver builds only the call-resolution part (VTA ∪ CHA) of the engine.
func newCallResolver(c *Ctx) *Alias {
	a := &Alias{C: c, callees: map[ssa.CallInstruction][]*ssa.Function{}, provMemo: map[ssa.Value][]Root{}, inProg: map[ssa.Value]bool{},
		Tainted: map[Root]string{}, fwd: map[Root][]Root{}, bwd: map[Root][]Root{}}
	for fn := range c.AllFunctions() {
		if inModule(fn) && fn.Blocks != nil {
			a.Fns = append(a.Fns, fn)
		}
	}
	sort.Slice(a.Fns, func(i, j int) bool { return fnKey(a.Fns[i]) < fnKey(a.Fns[j]) })
	cg := c.VTA()
	for _, fn := range a.Fns {
		n := cg.Nodes[fn]
		if n == nil {
			continue
		}
		for _, e := range n.Out {
			if e.Site != nil {
				a.callees[e.Site] = append(a.callees[e.Site], e.Callee.Func)
			}
		}
	}
	cha := c.CHA()
	had := map[ssa.CallInstruction]bool{}
	for site := range a.callees {
		had[site] = true
	}
	for _, fn := range a.Fns {
		n := cha.Nodes[fn]
		if n == nil {
			continue
		}
		for _, e := range n.Out {
			if e.Site == nil || had[e.Site] {
				continue
			}
			a.callees[e.Site] = append(a.callees[e.Site], e.Callee.Func)
		}
	}
	return a
}

func fnKey(fn *ssa.Function) string {
	return fn.String() + "@" + fmt.Sprint(int(fn.Pos()))
}

// Callees returns the possible callees of a call instruction.
func (a *Alias) Callees(site ssa.CallInstruction) []*ssa.Function {
	if f := site.Common().StaticCallee(); f != nil {
		return []*ssa.Function{f}
	}
	return a.callees[site]
}

func fieldRoot(structT types.Type, idx int) Root {
	st, _ := structT.Underlying().(*types.Struct)
	name := "?"
	if st != nil && idx < st.NumFields() {
		name = st.Field(idx).Name()
	}
	return Root("field:" + types.TypeString(structT, nil) + "." + name)
}

// FieldRoot builds the root key of a field of a struct type.
func FieldRoot(structT types.Type, idx int) Root { return fieldRoot(structT, idx) }

func derefStruct(t types.Type) types.Type {
	if p, ok := t.Underlying().(*types.Pointer); ok {
		return p.Elem()
	}
	return t
}

func paramRoot(fn *ssa.Function, i int) Root { return Root(fmt.Sprintf("param:%s#%d", fnKey(fn), i)) }
func freeRoot(fn *ssa.Function, i int) Root  { return Root(fmt.Sprintf("free:%s#%d", fnKey(fn), i)) }
func retRoot(fn *ssa.Function, i int) Root   { return Root(fmt.Sprintf("ret:%s#%d", fnKey(fn), i)) }
func (a *Alias) siteRoot(v ssa.Value) Root {
	fn := ""
	if in, ok := v.(ssa.Instruction); ok && in.Parent() != nil {
		fn = fnKey(in.Parent())
	}
	return Root(fmt.Sprintf("site:%s:%s", fn, v.Name()))
}

// carries reports whether a value of type t can hold a reference to mutable memory.
func carries(t types.Type) bool {
	switch u := t.Underlying().(type) {
	case *types.Basic:
		return u.Kind() == types.UnsafePointer
	case *types.Struct:
		for i := 0; i < u.NumFields(); i++ {
			if carries(u.Field(i).Type()) {
				return true
			}
		}
		return false
	case *types.Array:
		return carries(u.Elem())
	}
	return true
}

func isString(t types.Type) bool {
	b, ok := t.Underlying().(*types.Basic)
	return ok && b.Info()&types.IsString != 0
}

func elems(rs []Root) []Root {
	out := make([]Root, len(rs))
	for i, r := range rs {
		out[i] = Elem(r)
	}
	return out
}

// Prov returns the roots a reference value may derive from (the memory it may refer to).
func (a *Alias) Prov(v ssa.Value) []Root {
	if v == nil {
		return nil
	}
	if r, ok := a.provMemo[v]; ok {
		return r
	}
	if a.inProg[v] {
		return nil
	}
	a.inProg[v] = true
	set := map[Root]bool{}
	add := func(rs []Root) {
		for _, r := range rs {
			set[r] = true
		}
	}
	switch x := v.(type) {
	case *ssa.Alloc, *ssa.MakeSlice, *ssa.MakeMap, *ssa.MakeChan:
		set[a.siteRoot(v)] = true
	case *ssa.MakeClosure:
		set[a.siteRoot(v)] = true
	case *ssa.Parameter:
		for i, p := range x.Parent().Params {
			if p == x {
				set[paramRoot(x.Parent(), i)] = true
			}
		}
	case *ssa.FreeVar:
		for i, p := range x.Parent().FreeVars {
			if p == x {
				set[freeRoot(x.Parent(), i)] = true
			}
		}
	case *ssa.Global:
		set[Root("global:"+x.String())] = true
	case *ssa.Const, *ssa.Function, *ssa.Builtin:
	case *ssa.FieldAddr:
		// pointer into the object: same memory as the object (struct fields are conflated with it
		// for pointer purposes); what is stored in the field is reached by loading.
		add(a.Prov(x.X))
	case *ssa.IndexAddr:
		add(a.Prov(x.X))
	case *ssa.Field:
		// value of a field of a struct value
		if carries(x.Type()) {
			set[fieldRoot(x.X.Type(), x.Field)] = true
		}
	case *ssa.Index:
		if !isString(x.X.Type()) {
			add(elems(a.Prov(x.X)))
		}
	case *ssa.Lookup:
		if !isString(x.X.Type()) {
			add(elems(a.Prov(x.X)))
		}
	case *ssa.Slice:
		if !isString(x.X.Type()) {
			add(a.Prov(x.X))
		}
	case *ssa.Phi:
		for _, e := range x.Edges {
			add(a.Prov(e))
		}
	case *ssa.ChangeType:
		add(a.Prov(x.X))
	case *ssa.ChangeInterface:
		add(a.Prov(x.X))
	case *ssa.MakeInterface:
		if carries(x.X.Type()) {
			add(a.Prov(x.X))
		}
	case *ssa.TypeAssert:
		add(a.Prov(x.X))
	case *ssa.SliceToArrayPointer:
		add(a.Prov(x.X))
	case *ssa.Convert:
		if isString(x.X.Type()) && !isString(x.Type()) {
			set[a.siteRoot(v)] = true // []byte(s) copies
		} else if carries(x.X.Type()) {
			add(a.Prov(x.X))
		}
	case *ssa.Extract:
		if call, ok := x.Tuple.(*ssa.Call); ok {
			add(a.callProv(call, x.Index))
		} else {
			add(a.Prov(x.Tuple))
		}
	case *ssa.Next:
		add(a.Prov(x.Iter))
	case *ssa.Range:
		if !isString(x.X.Type()) {
			add(elems(a.Prov(x.X)))
		}
	case *ssa.Select:
		for _, st := range x.States {
			add(elems(a.Prov(st.Chan)))
		}
	case *ssa.UnOp:
		switch x.Op {
		case token.MUL: // load
			if !carries(x.Type()) {
				break
			}
			switch addr := x.X.(type) {
			case *ssa.FieldAddr:
				set[fieldRoot(derefStruct(addr.X.Type()), addr.Field)] = true
			case *ssa.IndexAddr:
				add(elems(a.Prov(addr.X)))
			case *ssa.Global:
				set[Elem(Root("global:"+addr.String()))] = true
			case *ssa.Alloc:
				for _, ref := range *addr.Referrers() {
					if st, ok := ref.(*ssa.Store); ok && st.Addr == addr {
						add(a.Prov(st.Val))
					}
				}
				set[Elem(a.siteRoot(addr))] = true
			default:
				add(elems(a.Prov(x.X)))
			}
		case token.ARROW:
			add(elems(a.Prov(x.X)))
		}
	case *ssa.Call:
		add(a.callProv(x, 0))
	}
	delete(a.inProg, v)
	out := make([]Root, 0, len(set))
	for r := range set {
		out = append(out, r)
	}
	sort.Slice(out, func(i, j int) bool { return out[i] < out[j] })
	a.provMemo[v] = out
	return out
}

func (a *Alias) callProv(call *ssa.Call, idx int) []Root {
	var out []Root
	cc := call.Common()
	if b, ok := cc.Value.(*ssa.Builtin); ok {
		if b.Name() == "append" {
			out = append(out, a.Prov(cc.Args[0])...)
			out = append(out, a.siteRoot(call))
		}
		return out
	}
	callees := a.Callees(call)
	ext := len(callees) == 0
	for _, f := range callees {
		if inModule(f) && f.Blocks != nil {
			out = append(out, retRoot(f, idx))
		} else {
			ext = true
		}
	}
	if ext {
		for _, arg := range cc.Args {
			if carries(arg.Type()) {
				out = append(out, a.Prov(arg)...)
			}
		}
		if cc.IsInvoke() {
			out = append(out, a.Prov(cc.Value)...)
		}
		out = append(out, a.siteRoot(call))
	}
	return out
}

// extWriters: functions outside the module that write through argument #i
// (receiver of an invoke counted as argument 0).
var extWriters = map[string][]int{
	"sort.Slice": {0}, "sort.SliceStable": {0}, "sort.Sort": {0}, "sort.Stable": {0}, "sort.Strings": {0}, "sort.Ints": {0},
	"slices.Sort": {0}, "slices.SortFunc": {0}, "slices.SortStableFunc": {0}, "slices.Reverse": {0}, "slices.Insert": {0}, "slices.Delete": {0},
	"slices.Compact": {0}, "slices.CompactFunc": {0},
	"io.ReadFull": {1}, "io.ReadAtLeast": {1}, "(io.Reader).Read": {1},
	"encoding/binary.Read":                     {2},
	"(encoding/binary.littleEndian).PutUint16": {1}, "(encoding/binary.littleEndian).PutUint32": {1}, "(encoding/binary.littleEndian).PutUint64": {1},
	"maps.Copy": {0}, "maps.DeleteFunc": {0},
	"crypto/rand.Read": {0},
}

func (a *Alias) edge(from []Root, to Root) {
	for _, f := range from {
		if f == to {
			continue
		}
		a.fwd[f] = append(a.fwd[f], to)
		a.bwd[to] = append(a.bwd[to], f)
	}
}

// collect gathers write sites and flow edges once.
func (a *Alias) collect() {
	for _, fn := range a.Fns {
		for _, b := range fn.Blocks {
			for _, in := range b.Instrs {
				switch x := in.(type) {
				case *ssa.Store:
					switch addr := x.Addr.(type) {
					case *ssa.FieldAddr:
						st, _ := derefStruct(addr.X.Type()).Underlying().(*types.Struct)
						var fv *types.Var
						if st != nil {
							fv = st.Field(addr.Field)
						}
						a.Writes = append(a.Writes, WriteSite{Fn: fn, Instr: in, Base: addr.X, Kind: "field-store", Field: fv, Pos: x.Pos()})
						if carries(x.Val.Type()) {
							a.edge(a.Prov(x.Val), fieldRoot(derefStruct(addr.X.Type()), addr.Field))
						}
					case *ssa.IndexAddr:
						a.Writes = append(a.Writes, WriteSite{Fn: fn, Instr: in, Base: addr.X, Kind: "elem-store", Pos: x.Pos()})
						if carries(x.Val.Type()) {
							for _, r := range a.Prov(addr.X) {
								a.edge(a.Prov(x.Val), Elem(r))
							}
						}
					case *ssa.Alloc:
						if carries(x.Val.Type()) {
							a.edge(a.Prov(x.Val), Elem(a.siteRoot(addr)))
						}
					case *ssa.Global:
						a.Writes = append(a.Writes, WriteSite{Fn: fn, Instr: in, Base: addr, Kind: "global-store", Pos: x.Pos()})
						if carries(x.Val.Type()) {
							a.edge(a.Prov(x.Val), Elem(Root("global:"+addr.String())))
						}
					default:
						a.Writes = append(a.Writes, WriteSite{Fn: fn, Instr: in, Base: x.Addr, Kind: "ptr-store", Pos: x.Pos()})
						if carries(x.Val.Type()) {
							for _, r := range a.Prov(x.Addr) {
								a.edge(a.Prov(x.Val), Elem(r))
							}
						}
					}
				case *ssa.MapUpdate:
					a.Writes = append(a.Writes, WriteSite{Fn: fn, Instr: in, Base: x.Map, Kind: "map-update", Pos: x.Pos()})
					for _, r := range a.Prov(x.Map) {
						if carries(x.Value.Type()) {
							a.edge(a.Prov(x.Value), Elem(r))
						}
						if carries(x.Key.Type()) {
							a.edge(a.Prov(x.Key), Elem(r))
						}
					}
				case *ssa.Send:
					if carries(x.X.Type()) {
						for _, r := range a.Prov(x.Chan) {
							a.edge(a.Prov(x.X), Elem(r))
						}
					}
				case *ssa.Return:
					for i, r := range x.Results {
						if carries(r.Type()) {
							a.edge(a.Prov(r), retRoot(fn, i))
						}
					}
				case *ssa.MakeClosure:
					if f, ok := x.Fn.(*ssa.Function); ok {
						for i, bnd := range x.Bindings {
							a.edge(a.Prov(bnd), freeRoot(f, i))
						}
					}
				case ssa.CallInstruction:
					cc := x.Common()
					if b, ok := cc.Value.(*ssa.Builtin); ok {
						switch b.Name() {
						case "append":
							a.Writes = append(a.Writes, WriteSite{Fn: fn, Instr: in, Base: cc.Args[0], Kind: "append", Pos: in.Pos()})
							if len(cc.Args) > 1 && !isString(cc.Args[1].Type()) {
								if sl, ok := cc.Args[0].Type().Underlying().(*types.Slice); ok && carries(sl.Elem()) {
									dst := append([]Root{}, a.Prov(cc.Args[0])...)
									if v, ok := in.(ssa.Value); ok {
										dst = append(dst, a.siteRoot(v))
									}
									for _, d := range dst {
										a.edge(elems(a.Prov(cc.Args[1])), Elem(d))
									}
								}
							}
						case "copy":
							a.Writes = append(a.Writes, WriteSite{Fn: fn, Instr: in, Base: cc.Args[0], Kind: "copy-dst", Pos: in.Pos()})
							if sl, ok := cc.Args[0].Type().Underlying().(*types.Slice); ok && carries(sl.Elem()) && !isString(cc.Args[1].Type()) {
								for _, d := range a.Prov(cc.Args[0]) {
									a.edge(elems(a.Prov(cc.Args[1])), Elem(d))
								}
							}
						case "delete":
							a.Writes = append(a.Writes, WriteSite{Fn: fn, Instr: in, Base: cc.Args[0], Kind: "delete", Pos: in.Pos()})
						case "clear":
							a.Writes = append(a.Writes, WriteSite{Fn: fn, Instr: in, Base: cc.Args[0], Kind: "clear", Pos: in.Pos()})
						}
						continue
					}
					var name string
					if f := cc.StaticCallee(); f != nil && !inModule(f) {
						name = f.String()
					} else if cc.IsInvoke() {
						name = "(" + types.TypeString(cc.Value.Type(), nil) + ")." + cc.Method.Name()
					}
					// methods of standard-library container/synchronisation types that mutate their pointer receiver
					if f := cc.StaticCallee(); f != nil && !inModule(f) && f.Signature.Recv() != nil && len(cc.Args) > 0 {
						if _, isPtr := f.Signature.Recv().Type().(*types.Pointer); isPtr {
							switch ExtPkg(f) {
							case "sync", "sync/atomic", "container/list", "container/heap", "container/ring", "bytes", "strings":
								mname := f.Name()
								if f.Origin() != nil {
									mname = f.Origin().Name()
								}
								switch mname {
								case "Store", "LoadOrStore", "LoadAndDelete", "Delete", "Swap", "CompareAndSwap", "CompareAndDelete", "Add", "And", "Or", "Clear",
									"Write", "WriteByte", "WriteString", "WriteRune", "Reset", "Grow", "Truncate", "PushBack", "PushFront", "Remove", "MoveToFront", "MoveToBack", "Init", "Put":
									a.Writes = append(a.Writes, WriteSite{Fn: fn, Instr: in, Base: cc.Args[0], Kind: "ext-write", Pos: in.Pos()})
								}
							}
						}
					}
					if idxs, ok := extWriters[name]; ok {
						args := cc.Args
						if cc.IsInvoke() {
							args = append([]ssa.Value{cc.Value}, cc.Args...)
						}
						for _, i := range idxs {
							if i < len(args) {
								a.Writes = append(a.Writes, WriteSite{Fn: fn, Instr: in, Base: args[i], Kind: "ext-write", Pos: in.Pos()})
							}
						}
					}
					for _, f := range a.Callees(x) {
						if !inModule(f) || f.Blocks == nil {
							continue
						}
						off := 0
						if cc.IsInvoke() {
							off = 1
							if len(f.Params) > 0 {
								a.edge(a.Prov(cc.Value), paramRoot(f, 0))
							}
						}
						for i, arg := range cc.Args {
							if i+off >= len(f.Params) {
								break
							}
							if carries(arg.Type()) {
								a.edge(a.Prov(arg), paramRoot(f, i+off))
							}
						}
					}
				}
			}
		}
	}
}

func (a *Alias) anyTainted(rs []Root) (Root, bool) {
	for _, r := range rs {
		if _, ok := a.Tainted[r]; ok {
			return r, true
		}
	}
	return "", false
}

// MayAliasOwned reports whether reference v may refer to owned memory, with the root that says so.
func (a *Alias) MayAliasOwned(v ssa.Value) (Root, bool) {
	// a pointer into an object (field / element address) is owned when the enclosing object is
	switch x := v.(type) {
	case *ssa.FieldAddr:
		if r, ok := a.MayAliasOwned(x.X); ok {
			return r, true
		}
	case *ssa.IndexAddr:
		if _, isPtr := x.X.Type().Underlying().(*types.Pointer); isPtr {
			if r, ok := a.MayAliasOwned(x.X); ok {
				return r, true
			}
		}
	}
	if a.OwnedType != nil {
		if pt, isPtr := v.Type().Underlying().(*types.Pointer); isPtr {
			if n, _ := types.Unalias(pt.Elem()).(*types.Named); n != nil && a.OwnedType(n) {
				return Root("type:" + n.String()), true
			}
		}
	}
	return a.anyTainted(a.Prov(v))
}

// Why explains how a root became tainted.
func (a *Alias) Why(r Root) string {
	var chain []string
	seen := map[Root]bool{}
	for i := 0; i < 8 && r != "" && !seen[r]; i++ {
		seen[r] = true
		w := a.Tainted[r]
		chain = append(chain, string(r))
		if !strings.HasPrefix(w, "<-") {
			chain = append(chain, "("+w+")")
			break
		}
		r = Root(strings.TrimPrefix(w, "<-"))
	}
	return strings.Join(chain, " ← ")
}

// Propagate runs the taint fixpoint from the given seed roots.
func (a *Alias) Propagate(seeds map[Root]string) {
	var work []Root
	taint := func(r Root, why string) {
		if _, ok := a.Tainted[r]; ok {
			return
		}
		a.Tainted[r] = why
		work = append(work, r)
	}
	var sk []Root
	for r := range seeds {
		sk = append(sk, r)
	}
	sort.Slice(sk, func(i, j int) bool { return sk[i] < sk[j] })
	for _, r := range sk {
		taint(r, seeds[r])
	}
	for len(work) > 0 {
		r := work[len(work)-1]
		work = work[:len(work)-1]
		// direct edges on the full key (covers edges whose endpoints are elem roots)
		for _, t := range a.fwd[r] {
			taint(t, "<-"+string(r))
		}
		base, k := splitElem(r)
		for j := 1; j <= k; j++ {
			// r = elem^j(inner) where inner = elem^(k-j)(base): inside of linked roots is shared
			inner := withElem(base, k-j)
			for _, t := range a.fwd[inner] {
				taint(withElem(t, j), "<-"+string(r))
			}
			for _, f := range a.bwd[inner] {
				taint(withElem(f, j), "<-"+string(r))
			}
		}
	}
}

// SSAFuncName renders a stable, module-relative name for an SSA function:
// pkg.(Recv).Name, closures as parent$N.
func SSAFuncName(fn *ssa.Function) string {
	if fn.Parent() != nil {
		return SSAFuncName(fn.Parent()) + "$" + strings.TrimPrefix(fn.Name(), fn.Parent().Name()+"$")
	}
	if o, ok := fn.Object().(*types.Func); ok && o != nil {
		return ShortFuncName(o)
	}
	s := fn.String()
	s = strings.ReplaceAll(s, Module+"/", "")
	return strings.ReplaceAll(s, Module, "wazero")
}

// ShortFuncName renders pkg.(Recv).Name with the module prefix removed ("wazero" for the root).
func ShortFuncName(o *types.Func) string {
	s := FullName(o)
	if strings.HasPrefix(s, Module+"/") {
		return strings.TrimPrefix(s, Module+"/")
	}
	if strings.HasPrefix(s, Module+".") {
		return "wazero" + strings.TrimPrefix(s, Module)
	}
	return s
}
