// Package core holds the plumbing shared by all property checkers: loading the
// current working tree of /repo (type-checked syntax, SSA, call graph),
// obligations, known findings, evidence files and the exit protocol.
package core

import (
	"encoding/json"
	"fmt"
	"go/ast"
	"go/token"
	"go/types"
	"os"
	"path/filepath"
	"sort"
	"strings"
	"time"

	"golang.org/x/tools/go/callgraph"
	"golang.org/x/tools/go/callgraph/cha"
	"golang.org/x/tools/go/callgraph/vta"
	"golang.org/x/tools/go/packages"
	"golang.org/x/tools/go/ssa"
	"golang.org/x/tools/go/ssa/ssautil"
)

const Module = "github.com/tetratelabs/wazero"

var (
	RepoDir  = envOr("WZ_REPO", "/repo")
	VerifDir = envOr("WZ_VERIF", "/verif")
)

func envOr(k, d string) string {
	if v := os.Getenv(k); v != "" {
		return v
	}
	return d
}

// BuildCfg is one build configuration of the matrix.
type BuildCfg struct {
	GOOS, GOARCH string
	Tags         string
}

func (b BuildCfg) String() string {
	s := b.GOOS + "/" + b.GOARCH
	if b.Tags != "" {
		s += "+" + b.Tags
	}
	return s
}

func ParseCfg(s string) BuildCfg {
	tags := ""
	if i := strings.Index(s, "+"); i >= 0 {
		tags = s[i+1:]
		s = s[:i]
	}
	p := strings.SplitN(s, "/", 2)
	if len(p) != 2 {
		return BuildCfg{"linux", "amd64", tags}
	}
	return BuildCfg{p[0], p[1], tags}
}

// Status of an obligation.
const (
	Discharged = "discharged"
	Violated   = "violated"
	Undecided  = "undecided"
	Known      = "known-finding"
	Note       = "note"
)

// Obligation is one rule instance, keyed by rule id + semantic construct.
type Obligation struct {
	Rule      string `json:"rule"`
	Construct string `json:"construct"`
	Status    string `json:"status"`
	Pos       string `json:"pos,omitempty"`
	Detail    string `json:"detail,omitempty"`
	Config    string `json:"config,omitempty"`
}

func (o *Obligation) Key() string { return o.Rule + "|" + o.Construct }

// Rule describes a rule for the evidence file.
type Rule struct {
	ID       string `json:"id"`
	Template string `json:"template"`
	Text     string `json:"text"`
	Min      int    `json:"min_instances"`
}

// Control is a positive control: a textual mutant of the current source,
// applied as an in-memory overlay, that must make the named rule fire.
type Control struct {
	Name   string
	File   string // relative to the repository root
	Old    string
	New    string
	Nth    int    // which occurrence of Old (0 = first)
	Old2   string // optional second replacement in the same file (e.g. an import)
	New2   string
	Rule   string // rule expected to fire
	Substr string // substring expected in the violated construct (may be empty)
}

// Property is the registration record of one property checker.
type Property struct {
	ID          string
	Level       string // "proof" | "other"
	Explanation string // what is decided and what is not
	Assumptions []string
	TrustedBase []string
	Rules       []Rule
	Run         func(c *Ctx)
	Controls    []Control
	// Configs lists the additional build configurations analysed in the
	// thorough tier (the quick tier uses linux/amd64 only).
	Configs []BuildCfg
	// NeedSSA asks the loader to build SSA eagerly.
	NeedSSA bool
}

var Registry = map[string]*Property{}

func Register(p *Property) { Registry[p.ID] = p }

// Ctx is the analysis context of one property in one build configuration.
type Ctx struct {
	Prop  *Property
	Tier  string
	Cfg   BuildCfg
	Fset  *token.FileSet
	Roots []*packages.Package
	All   map[string]*packages.Package

	prog        *ssa.Program
	ssaPkgs     []*ssa.Package
	cg          *callgraph.Graph
	chaCG       *callgraph.Graph
	allFns      map[*ssa.Function]bool
	sharedAlias *Alias

	Obligations []*Obligation
	Counters    map[string]int
	Notes       []string
	seen        map[string]bool
	LoadWall    float64
}

// Load parses and type-checks the working tree.
func Load(cfg BuildCfg, overlay map[string][]byte) (*Ctx, error) {
	t0 := time.Now()
	env := append(os.Environ(),
		"GOOS="+cfg.GOOS, "GOARCH="+cfg.GOARCH,
		"GOFLAGS=-mod=mod", "GOPROXY=off", "GOSUMDB=off", "GOWORK=off", "GOTOOLCHAIN=local", "CGO_ENABLED=0")
	pc := &packages.Config{
		Mode:    packages.LoadAllSyntax,
		Dir:     RepoDir,
		Env:     env,
		Tests:   false,
		Overlay: overlay,
	}
	if cfg.Tags != "" {
		pc.BuildFlags = []string{"-tags=" + cfg.Tags}
	}
	pkgs, err := packages.Load(pc, "./...")
	if err != nil {
		return nil, fmt.Errorf("packages.Load: %w", err)
	}
	if len(pkgs) == 0 {
		return nil, fmt.Errorf("no packages loaded from %s", RepoDir)
	}
	c := &Ctx{Cfg: cfg, Roots: pkgs, All: map[string]*packages.Package{}, Counters: map[string]int{}, seen: map[string]bool{}}
	var errs []string
	packages.Visit(pkgs, nil, func(p *packages.Package) {
		c.All[p.PkgPath] = p
		if strings.HasPrefix(p.PkgPath, Module) {
			for _, e := range p.Errors {
				errs = append(errs, e.Error())
			}
		}
		if c.Fset == nil && p.Fset != nil {
			c.Fset = p.Fset
		}
	})
	if len(errs) > 0 {
		if len(errs) > 5 {
			errs = errs[:5]
		}
		return nil, fmt.Errorf("type/parse errors in the tree: %s", strings.Join(errs, "; "))
	}
	n := 0
	for _, p := range pkgs {
		if strings.HasPrefix(p.PkgPath, Module) {
			n++
		}
	}
	if n < 20 {
		return nil, fmt.Errorf("only %d wazero packages loaded", n)
	}
	c.LoadWall = time.Since(t0).Seconds()
	return c, nil
}

// Pkg returns the wazero package with the given path relative to the module
// root ("" = root package), or nil.
func (c *Ctx) Pkg(rel string) *packages.Package {
	p := Module
	if rel != "" {
		p += "/" + rel
	}
	return c.All[p]
}

// WazeroPkgs returns all loaded packages of the module (non-test), sorted.
func (c *Ctx) WazeroPkgs() []*packages.Package {
	var out []*packages.Package
	for path, p := range c.All {
		if path == Module || strings.HasPrefix(path, Module+"/") {
			out = append(out, p)
		}
	}
	sort.Slice(out, func(i, j int) bool { return out[i].PkgPath < out[j].PkgPath })
	return out
}

// Rel returns the module-relative path of a package path.
func Rel(pkgPath string) string {
	if pkgPath == Module {
		return "."
	}
	return strings.TrimPrefix(pkgPath, Module+"/")
}

// Pos renders a position relative to the repository root.
func (c *Ctx) Pos(p token.Pos) string {
	if !p.IsValid() {
		return ""
	}
	ps := c.Fset.Position(p)
	f := ps.Filename
	if r, err := filepath.Rel(RepoDir, f); err == nil && !strings.HasPrefix(r, "..") {
		f = r
	}
	return fmt.Sprintf("%s:%d:%d", f, ps.Line, ps.Column)
}

// SSA builds (once) the SSA form of the whole program.
func (c *Ctx) SSA() *ssa.Program {
	if c.prog == nil {
		prog, pkgs := ssautil.AllPackages(c.Roots, ssa.InstantiateGenerics)
		prog.Build()
		c.prog = prog
		c.ssaPkgs = pkgs
	}
	return c.prog
}

func (c *Ctx) SSAPkg(rel string) *ssa.Package {
	p := c.Pkg(rel)
	if p == nil {
		return nil
	}
	return c.SSA().Package(p.Types)
}

func (c *Ctx) AllFunctions() map[*ssa.Function]bool {
	if c.allFns == nil {
		c.allFns = ssautil.AllFunctions(c.SSA())
	}
	return c.allFns
}

// CHA returns the class-hierarchy call graph.
func (c *Ctx) CHA() *callgraph.Graph {
	if c.chaCG == nil {
		c.chaCG = cha.CallGraph(c.SSA())
	}
	return c.chaCG
}

// VTA returns the VTA call graph seeded by CHA.
func (c *Ctx) VTA() *callgraph.Graph {
	if c.cg == nil {
		c.cg = vta.CallGraph(c.AllFunctions(), c.CHA())
	}
	return c.cg
}

// ---- obligations ----

func (c *Ctx) add(o *Obligation) {
	o.Config = c.Cfg.String()
	k := o.Key()
	if c.seen[k] {
		// keep the worst status for a duplicated key
		for _, p := range c.Obligations {
			if p.Key() == k {
				if rank(o.Status) > rank(p.Status) {
					*p = *o
				}
				return
			}
		}
	}
	c.seen[k] = true
	c.Obligations = append(c.Obligations, o)
}

func rank(s string) int {
	switch s {
	case Violated:
		return 3
	case Undecided:
		return 2
	case Discharged:
		return 1
	}
	return 0
}

func (c *Ctx) Discharge(rule, construct string, pos token.Pos, detail string) {
	if rule == "" {
		return // a shared analysis run for another property: this part of it is not claimed there
	}
	c.add(&Obligation{Rule: rule, Construct: construct, Status: Discharged, Pos: c.Pos(pos), Detail: detail})
}

func (c *Ctx) Violate(rule, construct string, pos token.Pos, detail string) {
	if rule == "" {
		return // a shared analysis run for another property: this part of it is not claimed there
	}
	c.add(&Obligation{Rule: rule, Construct: construct, Status: Violated, Pos: c.Pos(pos), Detail: detail})
}

func (c *Ctx) Undecided(rule, construct string, pos token.Pos, reason string) {
	if rule == "" {
		return // a shared analysis run for another property: this part of it is not claimed there
	}
	c.add(&Obligation{Rule: rule, Construct: construct, Status: Undecided, Pos: c.Pos(pos), Detail: reason})
}

// Check records a discharged or violated obligation depending on ok.
func (c *Ctx) Check(ok bool, rule, construct string, pos token.Pos, okDetail, badDetail string) {
	if ok {
		c.Discharge(rule, construct, pos, okDetail)
	} else {
		c.Violate(rule, construct, pos, badDetail)
	}
}

func (c *Ctx) Notef(format string, a ...any) { c.Notes = append(c.Notes, fmt.Sprintf(format, a...)) }

func (c *Ctx) Count(key string, n int) { c.Counters[key] += n }

// ---- known findings ----

type Finding struct {
	Property  string `json:"property"`
	Rule      string `json:"rule"`
	Construct string `json:"construct"`
	What      string `json:"what"`
	Status    string `json:"status"` // "known" | "fixed"
	Commit    string `json:"commit,omitempty"`
}

func LoadFindings() ([]Finding, error) {
	b, err := os.ReadFile(filepath.Join(VerifDir, "known_findings.json"))
	if err != nil {
		if os.IsNotExist(err) {
			return nil, nil
		}
		return nil, err
	}
	var f struct {
		Findings []Finding `json:"findings"`
	}
	if err := json.Unmarshal(b, &f); err != nil {
		return nil, err
	}
	return f.Findings, nil
}

// ---- small AST helpers used everywhere ----

// FuncDecl finds a function or method declaration. recv is the receiver's
// named type ("" for functions); pointer-ness is ignored.
func FuncDecl(p *packages.Package, recv, name string) *ast.FuncDecl {
	if p == nil {
		return nil
	}
	for _, f := range p.Syntax {
		for _, d := range f.Decls {
			fd, ok := d.(*ast.FuncDecl)
			if !ok || fd.Name.Name != name {
				continue
			}
			if RecvName(fd) == recv {
				return fd
			}
		}
	}
	return nil
}

// RecvName returns the receiver's type name of a method declaration ("" for a function).
func RecvName(fd *ast.FuncDecl) string {
	if fd.Recv == nil || len(fd.Recv.List) == 0 {
		return ""
	}
	t := fd.Recv.List[0].Type
	for {
		switch x := t.(type) {
		case *ast.StarExpr:
			t = x.X
		case *ast.ParenExpr:
			t = x.X
		case *ast.IndexExpr:
			t = x.X
		case *ast.IndexListExpr:
			t = x.X
		case *ast.Ident:
			return x.Name
		default:
			return ""
		}
	}
}

// FuncName renders pkg.(recv).name for a declaration.
func FuncName(p *packages.Package, fd *ast.FuncDecl) string {
	r := RecvName(fd)
	if r != "" {
		return Rel(p.PkgPath) + ".(" + r + ")." + fd.Name.Name
	}
	return Rel(p.PkgPath) + "." + fd.Name.Name
}

// AllFuncDecls iterates over every function declaration with a body in a package.
func AllFuncDecls(p *packages.Package, f func(fd *ast.FuncDecl)) {
	if p == nil {
		return
	}
	for _, file := range p.Syntax {
		for _, d := range file.Decls {
			if fd, ok := d.(*ast.FuncDecl); ok && fd.Body != nil {
				f(fd)
			}
		}
	}
}

// Callee resolves the called function or method object of a call (nil for
// dynamic calls through function values, conversions and builtins).
func Callee(info *types.Info, call *ast.CallExpr) *types.Func {
	fun := ast.Unparen(call.Fun)
	switch f := fun.(type) {
	case *ast.IndexExpr:
		fun = f.X
	case *ast.IndexListExpr:
		fun = f.X
	}
	var obj types.Object
	switch f := fun.(type) {
	case *ast.Ident:
		obj = info.Uses[f]
	case *ast.SelectorExpr:
		if sel, ok := info.Selections[f]; ok {
			obj = sel.Obj()
		} else {
			obj = info.Uses[f.Sel]
		}
	}
	if fn, ok := obj.(*types.Func); ok {
		return fn
	}
	return nil
}

// IsBuiltin reports whether the call is to the named builtin.
func IsBuiltin(info *types.Info, call *ast.CallExpr, name string) bool {
	id, ok := ast.Unparen(call.Fun).(*ast.Ident)
	if !ok || id.Name != name {
		return false
	}
	_, ok = info.Uses[id].(*types.Builtin)
	return ok
}

// FullName gives a stable name of a function object: path.(Recv).Name
func FullName(fn *types.Func) string {
	if fn == nil {
		return ""
	}
	sig, _ := fn.Type().(*types.Signature)
	pk := ""
	if fn.Pkg() != nil {
		pk = fn.Pkg().Path()
	}
	if sig != nil && sig.Recv() != nil {
		t := sig.Recv().Type()
		if p, ok := t.(*types.Pointer); ok {
			t = p.Elem()
		}
		if n, ok := t.(*types.Named); ok {
			return pk + ".(" + n.Obj().Name() + ")." + fn.Name()
		}
		return pk + ".(?)." + fn.Name()
	}
	return pk + "." + fn.Name()
}

// NamedOf strips pointers and returns the named type, or nil.
func NamedOf(t types.Type) *types.Named {
	for {
		switch x := t.(type) {
		case *types.Pointer:
			t = x.Elem()
		case *types.Named:
			return x
		case *types.Alias:
			t = types.Unalias(x)
		default:
			return nil
		}
	}
}

// IsNamed reports whether t (modulo pointers) is the named type pkgPath.name.
func IsNamed(t types.Type, pkgPath, name string) bool {
	n := NamedOf(t)
	if n == nil || n.Obj().Name() != name {
		return false
	}
	if n.Obj().Pkg() == nil {
		return pkgPath == ""
	}
	return n.Obj().Pkg().Path() == pkgPath
}

// FieldOf resolves a selector expression to the struct field it selects, or nil.
func FieldOf(info *types.Info, e ast.Expr) *types.Var {
	se, ok := ast.Unparen(e).(*ast.SelectorExpr)
	if !ok {
		return nil
	}
	if sel, ok := info.Selections[se]; ok && sel.Kind() == types.FieldVal {
		if v, ok := sel.Obj().(*types.Var); ok {
			return v
		}
	}
	return nil
}

// ExprStr renders an expression (for messages only, never for decisions).
func ExprStr(e ast.Expr) string { return types.ExprString(e) }

// ConstVal returns the constant value of an expression as int64 if it has one.
func ConstVal(info *types.Info, e ast.Expr) (int64, bool) {
	tv, ok := info.Types[e]
	if !ok || tv.Value == nil {
		return 0, false
	}
	return constInt(tv)
}

// ConstOf returns the integer value of a constant object.
func ConstOf(k *types.Const) (int64, bool) {
	return constInt(types.TypeAndValue{Value: k.Val()})
}
