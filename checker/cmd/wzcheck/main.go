// wzcheck decides the properties of /verif/properties.jsonl for the working
// tree of /repo by static analysis. See /verif/DESIGN.md.
package main

import (
	"flag"
	"fmt"
	"os"
	"sort"

	"verif/checker/core"
	_ "verif/checker/props"
)

func main() {
	var o core.Options
	flag.StringVar(&o.Prop, "prop", "", "property id (C01..C20)")
	flag.StringVar(&o.Tier, "tier", os.Getenv("VERIF_TIER"), "quick|thorough")
	flag.StringVar(&o.Config, "config", "linux/amd64", "build configuration (sub-process)")
	flag.StringVar(&o.Control, "control", "", "positive control to apply (sub-process)")
	flag.StringVar(&o.SubOut, "sub", "", "write the raw result here (sub-process)")
	flag.StringVar(&o.Replay, "replay", "", "replay a violation file")
	flag.BoolVar(&o.Verbose, "v", false, "list every obligation")
	list := flag.Bool("list", false, "list registered properties")
	flag.Parse()
	if *list {
		var ids []string
		for id := range core.Registry {
			ids = append(ids, id)
		}
		sort.Strings(ids)
		for _, id := range ids {
			fmt.Println(id, core.Registry[id].Level, len(core.Registry[id].Rules), "rules", len(core.Registry[id].Controls), "controls")
		}
		return
	}
	os.Exit(core.Main(o))
}
