package props

import (
	"fmt"
	"go/ast"
	"go/token"
	"go/types"
	"sort"
	"strings"

	"golang.org/x/tools/go/ssa"

	"verif/checker/core"
)

// C12 Non-semantic configuration does not change guest behaviour (structural clauses).

func init() {
	core.Register(&core.Property{
		ID:    "C12",
		Level: "other",
		Explanation: "Decided (necessary conditions): (R12.1) module identity covers every compile input – at each Engine.CompileModule call site the listener and close-on-context-done arguments are the very values given to AssignModuleID, every AssignModuleID parameter flows into the hash, and listener presence is hashed per function inside the loop over the listeners; " +
			"(R12.2) the compile paths of both engines read no module field that depends on a non-semantic option and is not part of the identity (Memory.Cap, CustomSections); DWARFLines, which decides whether a source map is recorded, is read only because its presence is hashed into the identity (genuine defect found and fixed: it was not); " +
			"(R12.3) a module restored from the cache is fully re-bound: every compiledModule field assigned on the fresh-compile path is assigned on the cache-hit path or by deserialisation; (R12.4) the memory sizer's limits do not depend on the capacity flag; " +
			"(R12.6) with a custom memory allocator every change of the buffer goes through the allocator (no buffer change outside the allocator branch unless guarded by expBuffer == nil). (R12.8) in the compiler's host-call arms, results written by the host function are never masked by the parameter types – the listener variants included, so attaching a listener does not change the values the guest receives; (R12.7) the interpreter indexes the source-offset table of a (possibly cache-shared) compiled function only under a length test of that same table, so a runtime with debug info can use an entry compiled without. NOT decided: equality of traces across the configuration lattice.",
		Rules: []core.Rule{
			{ID: "R12.9", Template: "T-NONINTERF", Text: "an engine shared through a CompilationCache does not apply the first runtime's features to modules of another (genuine defect found and fixed: interpreter)", Min: 1},
			{ID: "R12.8", Template: "T-SIBLING", Text: "attaching a listener to a host function does not change what happens to its result slots (same analysis as C08 R08.10)", Min: 4},
			{ID: "R12.7", Template: "T-CONSULT", Text: "the interpreter indexes a cached function's source-offset table only under a length test of that table", Min: 1},
			{ID: "R12.1", Template: "T-SIBLING", Text: "identity covers every compile input (call-site agreement, every parameter hashed, per-function listener presence)", Min: 4},
			{ID: "R12.10", Template: "T-SIBLING", Text: "identity inputs are kept apart: no two unshifted 0/1 flags are merged into one hashed byte", Min: 1},
			{ID: "R12.11", Template: "T-SIBLING", Text: "compile path and cache-hit path derive \"compiled with listeners\" the same way for the module context layout", Min: 1},
			{ID: "R12.2", Template: "T-WHOCALLS", Text: "no read of a configuration-dependent, non-identity module field in the compile paths", Min: 2},
			{ID: "R12.3", Template: "T-SIBLING", Text: "fields assigned on the compile path ⊆ fields assigned on the cache-hit path ∪ deserialisation", Min: 1},
			{ID: "R12.4", Template: "T-NONINTERF", Text: "memory sizer: min/max independent of the capacity flag", Min: 1},
			{ID: "R12.6", Template: "T-MUSTPASS", Text: "every buffer change in Grow is inside the allocator branch or guarded by expBuffer == nil", Min: 3},
		},
		Run: runC12,
		Controls: []core.Control{
			{Name: "interpreter-engine-applies-first-runtimes-features", File: "internal/engine/interpreter/interpreter.go", Old: "newCompiler(e.enabledFeatures|api.CoreFeaturesV2, callFrameStackSize", New: "newCompiler(e.enabledFeatures, callFrameStackSize", Rule: "R12.9", Substr: "feature"},
			{Name: "identity-ignores-debug-info", File: "internal/wasm/module.go", Old: "\tm.ID[0] = boolToByte(m.DWARFLines != nil)\n\th.Write(m.ID[:1])\n", New: "", Rule: "R12.2", Substr: "DWARFLines"},
			{Name: "listener-arm-masks-host-results", File: "internal/engine/wazevo/call_engine.go", Old: "\t\t\t\tf.Call(ctx, callerModule, s)\n\t\t\t}()\n\t\t\tclearUpper32Bits(s, def.ResultTypes())\n", New: "\t\t\t\tf.Call(ctx, callerModule, s)\n\t\t\t}()\n\t\t\tclearUpper32Bits(s, def.ParamTypes())\n\t\t\tclearUpper32Bits(s, def.ResultTypes())\n", Rule: "R12.8", Substr: "GoModuleFunctionWithListener"},
			{Name: "offset-table-guarded-by-instance-flag", File: "internal/engine/interpreter/interpreter.go", Old: "\t\tif parent := frame.f.parent; parent.body != nil && len(parent.offsetsInWasmBinary) > 0 {\n\t\t\tsources = parent.source.DWARFLines.Line(parent.offsetsInWasmBinary[frame.pc])", New: "\t\tif dw := f.moduleInstance.Source.DWARFLines; dw != nil && f.parent.body != nil {\n\t\t\tsources = dw.Line(f.parent.offsetsInWasmBinary[frame.pc])", Rule: "R12.7", Substr: "source-offset"},
			{Name: "id-flags-merged", File: "internal/wasm/module.go", Old: "\tm.ID[0] = boolToByte(withEnsureTermination)\n\th.Write(m.ID[:1])\n", New: "", Old2: "\tm.ID[0] = boolToByte(m.DWARFLines != nil)\n", New2: "\tm.ID[0] = boolToByte(withEnsureTermination) | boolToByte(m.DWARFLines != nil)\n", Rule: "R12.10", Substr: "kept apart"},
			{Name: "compile-path-counts-non-nil-listeners", File: "internal/engine/wazevo/engine.go", Old: "\twithListener := len(listeners) > 0\n", New: "\twithListener := false\n\tfor _, l := range listeners {\n\t\tif l != nil {\n\t\t\twithListener = true\n\t\t}\n\t}\n", Rule: "R12.11", Substr: "agree"},
			{Name: "id-without-termination-flag", File: "runtime.go", Old: "internal.AssignModuleID(binary, listeners, r.ensureTermination)", New: "internal.AssignModuleID(binary, listeners, false)", Rule: "R12.1", Substr: "call-site"},
			{Name: "id-drops-termination-param", File: "internal/wasm/module.go", Old: "\tm.ID[0] = boolToByte(withEnsureTermination)\n\th.Write(m.ID[:1])\n", New: "\t_ = withEnsureTermination\n", Rule: "R12.1", Substr: "withEnsureTermination"},
			{Name: "id-listener-count-only", File: "internal/wasm/module.go", Old: "\tfor i, l := range listeners {\n\t\tbinary.LittleEndian.PutUint32(m.ID[:], uint32(i))\n\t\tm.ID[4] = boolToByte(l != nil)\n\t\th.Write(m.ID[:5])\n\t}", New: "\tn := 0\n\tfor _, l := range listeners {\n\t\tif l != nil {\n\t\t\tn++\n\t\t}\n\t}\n\tbinary.LittleEndian.PutUint32(m.ID[:], uint32(n))\n\th.Write(m.ID[:4])", Rule: "R12.1", Substr: "per-function"},
			{Name: "frontend-reads-cap", File: "internal/engine/wazevo/frontend/frontend.go", Old: "\t\tc.memoryShared = c.m.MemorySection.IsShared\n", New: "\t\tc.memoryShared = c.m.MemorySection.IsShared || c.m.MemorySection.Cap == c.m.MemorySection.Max\n", Rule: "R12.2", Substr: "Cap"},
			{Name: "cache-hit-misses-field", File: "internal/engine/wazevo/engine_cache.go", Old: "\t\tcm.ensureTermination = ensureTermination\n", New: "", Rule: "R12.3", Substr: "ensureTermination"},
			{Name: "grow-fast-path-bypasses-allocator", File: "internal/wasm/memory.go", Old: "\tnewPages := currentPages + delta\n\tif newPages > m.Max || int32(delta) < 0 {\n\t\treturn 0, false\n\t} else if m.expBuffer != nil {", New: "\tnewPages := currentPages + delta\n\tif newPages > m.Max || int32(delta) < 0 {\n\t\treturn 0, false\n\t} else if !m.Shared && newPages <= m.Cap {\n\t\tm.Buffer = m.Buffer[:MemoryPagesToBytesNum(newPages)]\n\t\tm.ownerModuleEngine.MemoryGrown()\n\t\treturn currentPages, true\n\t} else if m.expBuffer != nil {", Rule: "R12.6", Substr: "Grow"},
		},
	})
}

func runC12(c *core.Ctx) {
	checkSharedEngineFeatures(c)
	checkOffsetTableGuard(c)
	checkSlotNormalisation(c, "", "R12.8")
	wp := c.Pkg("internal/wasm")
	prog := c.SSA()
	modNamed, _ := wp.Types.Scope().Lookup("Module").Type().(*types.Named)
	assignID := core.ImplMethod(wp.Types, modNamed, "AssignModuleID")
	if assignID == nil {
		c.Undecided("R12.1", "AssignModuleID", 0, "wasm.Module.AssignModuleID not found")
		return
	}
	assignFn := prog.FuncValue(assignID)

	// ---- R12.1 (a) call-site agreement in the public package
	nSites := 0
	for _, fn := range moduleFns(c, "") {
		var compiles []ssa.CallInstruction
		var assigns []ssa.CallInstruction
		for _, b := range fn.Blocks {
			for _, in := range b.Instrs {
				ci, ok := in.(ssa.CallInstruction)
				if !ok {
					continue
				}
				cc := ci.Common()
				if cc.IsInvoke() && cc.Method.Name() == "CompileModule" && core.IsNamed(cc.Value.Type(), core.Module+"/internal/wasm", "Engine") {
					compiles = append(compiles, ci)
				}
				if cc.StaticCallee() == assignFn {
					assigns = append(assigns, ci)
				}
			}
		}
		for _, cm := range compiles {
			nSites++
			args := cm.Common().Args // ctx, module, listeners, ensureTermination
			key := "call-site agreement in " + core.SSAFuncName(fn)
			if len(args) != 4 {
				c.Undecided("R12.1", key, cm.Pos(), "unexpected CompileModule arity")
				continue
			}
			var match ssa.CallInstruction
			for _, a := range assigns {
				if a.Common().Args[0] == args[1] { // same module value (receiver)
					match = a
				}
			}
			if match == nil {
				// host modules get their identity when they are built (NewHostModule); they are compiled with constant
				// arguments: listeners as given, ensureTermination=false
				if k, ok := args[3].(*ssa.Const); ok && !boolConst(k) {
					c.Discharge("R12.1", key, cm.Pos(), "no AssignModuleID here (identity assigned at construction); compiled with the constant ensureTermination=false")
				} else {
					c.Violate("R12.1", key, cm.Pos(), "CompileModule is called with a non-constant close-on-context-done flag but the module's identity is not assigned from the same values in this function")
				}
				continue
			}
			ma := match.Common().Args // recv, wasm, listeners, ensure
			bad := ""
			if !sameSSA(ma[2], args[2]) {
				bad += "the listeners passed to CompileModule are not the value passed to AssignModuleID; "
			}
			if !sameSSA(ma[3], args[3]) {
				bad += "the close-on-context-done flag passed to CompileModule is not the value passed to AssignModuleID; "
			}
			c.Check(bad == "", "R12.1", key, cm.Pos(), "listeners and flag are the same values in AssignModuleID and CompileModule", bad+"two compilations that differ in that input share one cache key")
		}
	}
	if nSites == 0 {
		c.Undecided("R12.1", "call sites", 0, "no Engine.CompileModule call site in the public package")
	}

	// ---- R12.1 (b) every parameter flows into the hash; listeners per element inside the loop
	if assignFn != nil && assignFn.Blocks != nil {
		checkIDHash(c, assignFn)
		checkIDFlagsInjective(c, assignFn)
	}

	// ---- R12.2 configuration-dependent fields
	memNamed, _ := wp.Types.Scope().Lookup("Memory").Type().(*types.Named)
	type cfgField struct {
		owner *types.Named
		name  string
		why   string
	}
	cfgs := []cfgField{
		{memNamed, "Cap", "set from WithMemoryCapacityFromMax (performance option), not part of the module identity"},
		{modNamed, "CustomSections", "kept or dropped by WithCustomSections / debug info, not part of the module identity"},
	}
	compilePkgs := []string{"internal/engine/interpreter", "internal/engine/wazevo", "internal/engine/wazevo/frontend", "internal/engine/wazevo/ssa", "internal/engine/wazevo/backend",
		"internal/engine/wazevo/backend/regalloc", "internal/engine/wazevo/backend/isa/amd64", "internal/engine/wazevo/backend/isa/arm64"}
	for _, cf := range cfgs {
		if cf.owner == nil {
			continue
		}
		var sites []string
		for _, fn := range moduleFns(c, compilePkgs...) {
			for _, b := range fn.Blocks {
				for _, in := range b.Instrs {
					var st *types.Struct
					var idx int
					switch x := in.(type) {
					case *ssa.FieldAddr:
						if core.NamedOf(x.X.Type()) == cf.owner {
							st, _ = derefStructT(x.X.Type()).Underlying().(*types.Struct)
							idx = x.Field
						}
					case *ssa.Field:
						if core.NamedOf(x.X.Type()) == cf.owner {
							st, _ = x.X.Type().Underlying().(*types.Struct)
							idx = x.Field
						}
					}
					if st != nil && st.Field(idx).Name() == cf.name {
						sites = append(sites, fmt.Sprintf("%s at %s", core.SSAFuncName(fn), c.Pos(in.Pos())))
					}
				}
			}
		}
		sort.Strings(sites)
		c.Check(len(sites) == 0, "R12.2", cf.owner.Obj().Name()+"."+cf.name+" not read on compile paths", 0, "no access in the engines' compile packages",
			cf.owner.Obj().Name()+"."+cf.name+" ("+cf.why+") is read while compiling: "+strings.Join(sites, "; ")+" — compiled code would differ between runtimes that share a cache key")
	}
	// Module.DWARFLines depends on WithDebugInfoEnabled and IS read while compiling (it decides whether the source map is
	// recorded, which the cached entry and the error messages contain): that is only sound if its presence is part of the
	// identity. (An earlier version of this rule exempted the read as harmless – that hid a genuine defect.)
	{
		reads := 0
		for _, fn := range moduleFns(c, compilePkgs...) {
			top := fn
			for top.Parent() != nil {
				top = top.Parent()
			}
			if !strings.Contains(strings.ToLower(top.Name()), "compile") {
				continue
			}
			for _, b := range fn.Blocks {
				for _, in := range b.Instrs {
					if x, ok := in.(*ssa.FieldAddr); ok && core.NamedOf(x.X.Type()) == modNamed {
						if st, _ := derefStructT(x.X.Type()).Underlying().(*types.Struct); st != nil && st.Field(x.Field).Name() == "DWARFLines" {
							reads++
						}
					}
				}
			}
		}
		inIdentity := false
		for _, fn := range moduleFns(c, "internal/wasm") {
			if fn.Name() != "AssignModuleID" {
				continue
			}
			for _, b := range fn.Blocks {
				for _, in := range b.Instrs {
					if x, ok := in.(*ssa.FieldAddr); ok && core.NamedOf(x.X.Type()) == modNamed {
						if st, _ := derefStructT(x.X.Type()).Underlying().(*types.Struct); st != nil && st.Field(x.Field).Name() == "DWARFLines" {
							inIdentity = true
						}
					}
				}
			}
		}
		c.Check(reads == 0 || inIdentity, "R12.2", "Module.DWARFLines is read while compiling only if its presence is part of the identity", 0,
			fmt.Sprintf("%d reads in compile functions; AssignModuleID consults DWARFLines", reads),
			fmt.Sprintf("Module.DWARFLines (set or not by WithDebugInfoEnabled) is read in %d places while compiling – it decides whether the source map is recorded – but AssignModuleID does not consult it: runtimes that differ in that option share cache entries and in-memory compiled modules, and the one with debug info loses the source lines of its stack traces", reads))
	}
	// positive self-test of the matcher: Memory.Cap is read somewhere in internal/wasm
	{
		n := 0
		for _, fn := range moduleFns(c, "internal/wasm") {
			for _, b := range fn.Blocks {
				for _, in := range b.Instrs {
					if x, ok := in.(*ssa.FieldAddr); ok && core.NamedOf(x.X.Type()) == memNamed {
						if st, _ := derefStructT(x.X.Type()).Underlying().(*types.Struct); st != nil && st.Field(x.Field).Name() == "Cap" {
							n++
						}
					}
				}
			}
		}
		if n == 0 {
			c.Undecided("R12.2", "matcher self-test", 0, "the field-read matcher found no use of Memory.Cap in internal/wasm")
		}
	}

	checkListenerPresenceAgrees(c)

	// ---- R12.3 cache hit re-binds everything
	checkCacheRebind(c)

	// ---- R12.4 sizer
	{
		sub := &core.Ctx{}
		_ = sub
		before := len(c.Obligations)
		checkSizer(c)
		// re-label the sizer obligations for this property
		for _, ob := range c.Obligations[before:] {
			ob.Rule = "R12.4"
		}
	}

	// ---- R12.6 allocator owns buffer changes
	checkAllocatorOwnsBuffer(c, "R12.6")
}

func boolConst(k *ssa.Const) bool {
	if k.Value == nil {
		return false
	}
	return k.Value.String() == "true"
}

func sameSSA(a, b ssa.Value) bool {
	if a == b {
		return true
	}
	return sameValue(a, b)
}

// checkIDHash: every parameter of AssignModuleID reaches a hash Write; listener presence is hashed per element.
func checkIDHash(c *core.Ctx, fn *ssa.Function) {
	// writes: invoke Write on a hash value
	var writes []*ssa.Call
	for _, b := range fn.Blocks {
		for _, in := range b.Instrs {
			if call, ok := in.(*ssa.Call); ok && call.Common().IsInvoke() && call.Common().Method.Name() == "Write" {
				writes = append(writes, call)
			}
		}
	}
	if len(writes) == 0 {
		c.Violate("R12.1", "identity hash", fn.Pos(), "AssignModuleID never writes to a hash")
		return
	}
	// forward slice per parameter; memory model: stores into the receiver's ID array taint "the ID buffer", which the
	// Write arguments (slices of it) read.
	for i, p := range fn.Params {
		if i == 0 {
			continue // receiver
		}
		reached := valueReachesHashWrite(fn, p, 0)
		c.Check(reached, "R12.1", "identity hashes parameter "+p.Name(), p.Pos(), "the parameter flows into a hash Write", "parameter "+p.Name()+" of AssignModuleID does not influence the module ID: modules compiled with different values share one cache entry")
	}
	checkIDListenersPerElement(c, fn)
}

// valueReachesHashWrite: the value p of fn flows into a hash Write – directly, through the ID scratch buffer, or through a
// local closure / helper of the package that is given it (followed to depth 2).
func valueReachesHashWrite(fn *ssa.Function, p ssa.Value, depth int) bool {
	var writes []*ssa.Call
	for _, b := range fn.Blocks {
		for _, in := range b.Instrs {
			if call, ok := in.(*ssa.Call); ok && call.Common().IsInvoke() && call.Common().Method.Name() == "Write" {
				writes = append(writes, call)
			}
		}
	}
	{
		tainted := map[ssa.Value]bool{}
		bufTaintBlocks := map[*ssa.BasicBlock]bool{}
		var work []ssa.Value
		add := func(v ssa.Value) {
			if v != nil && !tainted[v] {
				tainted[v] = true
				work = append(work, v)
			}
		}
		add(p)
		reached := false
		for len(work) > 0 {
			v := work[len(work)-1]
			work = work[:len(work)-1]
			if v.Referrers() == nil {
				continue
			}
			for _, u := range *v.Referrers() {
				switch x := u.(type) {
				case *ssa.Store:
					if x.Val == v {
						bufTaintBlocks[x.Block()] = true
					}
				case *ssa.Call:
					if x.Common().IsInvoke() && x.Common().Method.Name() == "Write" {
						reached = true
					}
					// handed to a closure or helper which hashes it
					var callee *ssa.Function
					if mc, ok := x.Common().Value.(*ssa.MakeClosure); ok {
						callee, _ = mc.Fn.(*ssa.Function)
					} else if f := x.Common().StaticCallee(); f != nil && f.Pkg == fn.Pkg {
						callee = f
					}
					if callee != nil && callee.Blocks != nil && depth < 2 {
						for ai, a := range x.Common().Args {
							if a == v && ai < len(callee.Params) && valueReachesHashWrite(callee, callee.Params[ai], depth+1) {
								reached = true
							}
						}
					}
					add(x)
				case ssa.Value:
					add(x)
				case *ssa.If:
					// control dependence: values defined under this branch depend on v (e.g. a counter); over-approximate by
					// tainting stores in blocks dominated by the branch
					for _, s := range x.Block().Succs {
						for _, bb := range fn.Blocks {
							if s.Dominates(bb) {
								for _, in := range bb.Instrs {
									if st, ok := in.(*ssa.Store); ok {
										bufTaintBlocks[st.Block()] = true
									}
									if val, ok := in.(ssa.Value); ok {
										if _, isBin := in.(*ssa.BinOp); isBin {
											add(val)
										}
									}
								}
							}
						}
					}
				}
			}
		}
		// a Write that can execute after a tainted store (same block later or reachable block) absorbs the buffer
		if !reached {
			for _, w := range writes {
				for b := range bufTaintBlocks {
					if b == w.Block() || blockReaches(b, w.Block()) {
						reached = true
					}
				}
			}
		}
		return reached
	}
}

func checkIDListenersPerElement(c *core.Ctx, fn *ssa.Function) {
	// per-element hashing of listeners: a Write inside the loop that ranges over the listeners parameter, whose iteration
	// stores a value derived from the element's nil test and one derived from the index
	var lp *ssa.Parameter
	for _, p := range fn.Params {
		if _, ok := p.Type().Underlying().(*types.Slice); ok && strings.Contains(p.Type().String(), "FunctionListener") {
			lp = p
		}
	}
	if lp == nil {
		c.Undecided("R12.1", "per-function listener presence", fn.Pos(), "listeners parameter not found")
		return
	}
	loopBlocks := map[*ssa.BasicBlock]bool{}
	for _, b := range fn.Blocks {
		if blockReaches(b, b) {
			loopBlocks[b] = true
		}
	}
	writeInLoop, nilDep, idxDep := false, false, false
	for b := range loopBlocks {
		for _, in := range b.Instrs {
			switch x := in.(type) {
			case *ssa.Call:
				if x.Common().IsInvoke() && x.Common().Method.Name() == "Write" {
					writeInLoop = true
				}
			case *ssa.BinOp:
				if x.Op == token.NEQ || x.Op == token.EQL {
					if k, ok := x.Y.(*ssa.Const); ok && k.IsNil() {
						nilDep = true
					}
				}
			case *ssa.Convert:
				// uint32(i): the loop index converted for PutUint32
				if _, ok := x.X.(*ssa.Phi); ok {
					idxDep = true
				}
				if bo, ok := x.X.(*ssa.BinOp); ok && bo.Op == token.ADD {
					idxDep = true
				}
			}
		}
	}
	c.Check(writeInLoop && nilDep && idxDep, "R12.1", "per-function listener presence hashed", fn.Pos(),
		"inside the loop over the listeners the hash absorbs the index and the element's nil-ness",
		fmt.Sprintf("listener presence is not hashed per function inside the loop over the listeners (write in loop=%v, depends on nil-ness=%v, depends on index=%v): two listener sets of the same size attached to different functions share one cache key although their code differs", writeInLoop, nilDep, idxDep))
}

func blockReaches(a, b *ssa.BasicBlock) bool {
	seen := map[*ssa.BasicBlock]bool{}
	work := append([]*ssa.BasicBlock{}, a.Succs...)
	for len(work) > 0 {
		x := work[len(work)-1]
		work = work[:len(work)-1]
		if seen[x] {
			continue
		}
		seen[x] = true
		if x == b {
			return true
		}
		work = append(work, x.Succs...)
	}
	return false
}

// fieldsStored returns the fields of the named struct type stored in fn and in module functions it calls statically
// (bounded depth), keyed by field name.
func fieldsStored(c *core.Ctx, fn *ssa.Function, named *types.Named, depth int, seen map[*ssa.Function]bool, out map[string]string) {
	if fn == nil || fn.Blocks == nil || seen[fn] || depth > 4 {
		return
	}
	seen[fn] = true
	for _, b := range fn.Blocks {
		for _, in := range b.Instrs {
			switch x := in.(type) {
			case *ssa.Store:
				if fa, ok := x.Addr.(*ssa.FieldAddr); ok && core.NamedOf(fa.X.Type()) == named {
					st := derefStructT(fa.X.Type()).Underlying().(*types.Struct)
					if _, have := out[st.Field(fa.Field).Name()]; !have {
						out[st.Field(fa.Field).Name()] = core.SSAFuncName(fn) + " at " + c.Pos(x.Pos())
					}
				}
			case ssa.CallInstruction:
				if callee := x.Common().StaticCallee(); callee != nil && core.InModule(callee) {
					fieldsStored(c, callee, named, depth+1, seen, out)
				}
			}
		}
	}
	for _, anon := range fn.AnonFuncs {
		fieldsStored(c, anon, named, depth+1, seen, out)
	}
}

func checkCacheRebind(c *core.Ctx) {
	ep := c.Pkg("internal/engine/wazevo")
	if ep == nil {
		return
	}
	cmNamed, _ := ep.Types.Scope().Lookup("compiledModule").Type().(*types.Named)
	impl := engineImpl(c, "internal/engine/wazevo")
	if cmNamed == nil || impl == nil {
		c.Undecided("R12.3", "anchors", 0, "wazevo.compiledModule / engine not found")
		return
	}
	// compile path: the function returning (*compiledModule, error) that calls the frontend; hit path: the function that
	// calls filecache.Cache.Get (transitively) and returns (cm, ok, err)
	var compileFn, hitFn *ssa.Function
	var compileFns []*ssa.Function
	for _, fn := range moduleFns(c, "internal/engine/wazevo") {
		if fn.Parent() != nil || fn.Signature.Recv() == nil || core.NamedOf(fn.Signature.Recv().Type()) != impl {
			continue
		}
		res := fn.Signature.Results()
		if res.Len() >= 1 && core.NamedOf(res.At(0).Type()) == cmNamed {
			callsFrontend, callsCacheGet := false, false
			var walk func(f *ssa.Function, d int, seen map[*ssa.Function]bool)
			walk = func(f *ssa.Function, d int, seen map[*ssa.Function]bool) {
				if f == nil || f.Blocks == nil || seen[f] || d > 3 {
					return
				}
				seen[f] = true
				for _, b := range f.Blocks {
					for _, in := range b.Instrs {
						if ci, ok := in.(ssa.CallInstruction); ok {
							cc := ci.Common()
							if cc.IsInvoke() && cc.Method.Name() == "Get" && strings.Contains(cc.Value.Type().String(), "filecache") {
								callsCacheGet = true
							}
							if callee := cc.StaticCallee(); callee != nil {
								if callee.Pkg != nil && strings.HasSuffix(callee.Pkg.Pkg.Path(), "/wazevo/frontend") {
									callsFrontend = true
								}
								if core.InModule(callee) && callee.Pkg == fn.Pkg {
									walk(callee, d+1, seen)
								}
							}
						}
					}
				}
			}
			walk(fn, 0, map[*ssa.Function]bool{})
			if callsFrontend && !callsCacheGet && res.Len() == 2 {
				compileFn = fn
				compileFns = append(compileFns, fn)
			}
			if callsCacheGet && res.Len() == 3 && len(fn.Params) >= 3 {
				hitFn = fn
			}
		}
	}
	if compileFn == nil || hitFn == nil {
		c.Undecided("R12.3", "compile/hit functions", 0, fmt.Sprintf("compile path found=%v, cache-hit path found=%v", compileFn != nil, hitFn != nil))
		return
	}
	compiled, hit := map[string]string{}, map[string]string{}
	for _, f := range compileFns {
		fieldsStored(c, f, cmNamed, 0, map[*ssa.Function]bool{}, compiled)
	}
	fieldsStored(c, hitFn, cmNamed, 0, map[*ssa.Function]bool{}, hit)
	// the caller of the compile path may assign further fields right after (e.g. listeners trampolines): include the
	// function implementing Engine.CompileModule
	if cm := c.SSA().FuncValue(core.ImplMethod(ep.Types, impl, "CompileModule")); cm != nil {
		extra := map[string]string{}
		fieldsStoredLocal(c, cm, cmNamed, extra)
		for k, v := range extra {
			if _, ok := compiled[k]; !ok {
				compiled[k] = v
			}
		}
	}
	var names []string
	for f := range compiled {
		names = append(names, f)
	}
	sort.Strings(names)
	for _, f := range names {
		_, ok := hit[f]
		c.Check(ok, "R12.3", "cache-hit re-binds compiledModule."+f, 0, "assigned on the compile path ("+compiled[f]+") and on the cache-hit path ("+hit[f]+")",
			"compiledModule."+f+" is assigned when compiling ("+compiled[f]+") but neither on the cache-hit path nor by deserialisation: a module loaded from the file cache runs with the zero value")
	}
	c.Count("compile_path_fields", len(compiled))
	c.Count("cache_hit_fields", len(hit))
}

func fieldsStoredLocal(c *core.Ctx, fn *ssa.Function, named *types.Named, out map[string]string) {
	for _, b := range fn.Blocks {
		for _, in := range b.Instrs {
			if x, ok := in.(*ssa.Store); ok {
				if fa, ok := x.Addr.(*ssa.FieldAddr); ok && core.NamedOf(fa.X.Type()) == named {
					st := derefStructT(fa.X.Type()).Underlying().(*types.Struct)
					out[st.Field(fa.Field).Name()] = core.SSAFuncName(fn) + " at " + c.Pos(x.Pos())
				}
			}
		}
	}
}

func checkAllocatorOwnsBuffer(c *core.Ctx, rule string) {
	wp := c.Pkg("internal/wasm")
	memNamed, _ := wp.Types.Scope().Lookup("MemoryInstance").Type().(*types.Named)
	bufField := structField(c, "internal/wasm", "MemoryInstance", "Buffer")
	expField := structField(c, "internal/wasm", "MemoryInstance", "expBuffer")
	if memNamed == nil || bufField == nil || expField == nil {
		c.Undecided(rule, "anchors", 0, "MemoryInstance.Buffer / expBuffer not found")
		return
	}
	fn := c.SSA().FuncValue(core.ImplMethod(wp.Types, memNamed, "Grow"))
	if fn == nil {
		c.Undecided(rule, "Grow", 0, "MemoryInstance.Grow not found")
		return
	}
	isField := func(v ssa.Value, f *types.Var) bool {
		fa, ok := v.(*ssa.FieldAddr)
		if !ok {
			return false
		}
		st, _ := derefStructT(fa.X.Type()).Underlying().(*types.Struct)
		return st != nil && st.Field(fa.Field) == f
	}
	expTest := func(cond ssa.Value) int {
		bo, ok := cond.(*ssa.BinOp)
		if !ok || (bo.Op != token.NEQ && bo.Op != token.EQL) {
			return 0
		}
		var other ssa.Value
		if k, ok := bo.Y.(*ssa.Const); ok && k.IsNil() {
			other = bo.X
		} else if k, ok := bo.X.(*ssa.Const); ok && k.IsNil() {
			other = bo.Y
		}
		if other == nil {
			return 0
		}
		if u, ok := other.(*ssa.UnOp); ok && u.Op == token.MUL && isField(u.X, expField) {
			if bo.Op == token.NEQ {
				return 1
			}
			return -1
		}
		return 0
	}
	n := 0
	for _, b := range fn.Blocks {
		for _, in := range b.Instrs {
			mut := false
			switch x := in.(type) {
			case *ssa.Store:
				mut = isField(x.Addr, bufField)
			case *ssa.Call:
				if callee := x.Common().StaticCallee(); callee != nil && strings.HasPrefix(callee.Name(), "atomicStoreLength") {
					mut = true
				}
			}
			if !mut {
				continue
			}
			n++
			inAlloc := guardedBy(b, expTest)
			notAlloc := guardedBy(b, func(cond ssa.Value) int { return -expTest(cond) })
			c.Check(inAlloc || notAlloc, rule, fmt.Sprintf("Grow buffer change #%d", n), in.Pos(),
				"inside the allocator branch or guarded by expBuffer == nil",
				"the memory buffer is changed at "+c.Pos(in.Pos())+" on a path that has not tested expBuffer: with a custom memory allocator the buffer grows without LinearMemory.Reallocate (new pages are not the allocator's, may be non-zero)")
		}
	}
	if n == 0 {
		c.Undecided(rule, "Grow", fn.Pos(), "no buffer change found in Grow")
	}
	_ = ast.Inspect
}

// ---- R12.7 debug-info tables of a cached compiled function are indexed only under a length test of that table ----

func checkOffsetTableGuard(c *core.Ctx) {
	p := c.Pkg("internal/engine/interpreter")
	if p == nil {
		return
	}
	info := p.TypesInfo
	tbl := structField(c, "internal/engine/interpreter", "compiledFunction", "offsetsInWasmBinary")
	if tbl == nil {
		c.Undecided("R12.7", "anchor", 0, "compiledFunction.offsetsInWasmBinary not found")
		return
	}
	n := 0
	core.AllFuncDecls(p, func(fd *ast.FuncDecl) {
		var stack []ast.Node
		ast.Inspect(fd.Body, func(x ast.Node) bool {
			if x == nil {
				stack = stack[:len(stack)-1]
				return true
			}
			stack = append(stack, x)
			ix, ok := x.(*ast.IndexExpr)
			if !ok || core.FieldOf(info, ix.X) != tbl {
				return true
			}
			// writes (building the table) are not reads
			if len(stack) >= 2 {
				if as, ok := stack[len(stack)-2].(*ast.AssignStmt); ok {
					for _, l := range as.Lhs {
						if l == ast.Expr(ix) {
							return true
						}
					}
				}
			}
			n++
			guarded := false
			for i := len(stack) - 1; i >= 0; i-- {
				if is, ok := stack[i].(*ast.IfStmt); ok {
					ast.Inspect(is.Cond, func(y ast.Node) bool {
						if call, ok := y.(*ast.CallExpr); ok && core.IsBuiltin(info, call, "len") && len(call.Args) == 1 && core.FieldOf(info, call.Args[0]) == tbl {
							guarded = true
						}
						return true
					})
				}
			}
			c.Check(guarded, "R12.7", "source-offset table indexed under its own length test in "+core.FuncName(p, fd), ix.Pos(), "guarded by len(offsetsInWasmBinary)",
				"the table is indexed at `"+core.ExprStr(ix)+"` without testing its length: a compiled function taken from a cache shared with a runtime that compiled it without debug info has an empty table, so the trap handler panics (index out of range) and the guest's trap escapes as a Go panic – the debug-info flag changes the outcome of the call")
			return true
		})
	})
	if n == 0 {
		c.Discharge("R12.7", "the source-offset table is never indexed", 0, "nothing to guard")
	}
}
