package props

import (
	"fmt"
	"go/ast"
	"go/token"
	"go/types"
	"sort"
	"strings"

	"golang.org/x/tools/go/ssa"

	"verif/checker/core"
)

// C10 Module lifecycle and name registry are linearizable (structural clauses).

func init() {
	core.Register(&core.Property{
		ID:    "C10",
		Level: "other",
		Explanation: "Decided (necessary conditions, for every schedule): (R10.1) every access to the registry state (Store.moduleList/nameToModule/nameToModuleCap/typeIDs, ModuleInstance.prev/next), to the engines' compiled-module maps and to a table's keep-alive list happens with the guarding mutex held in a sufficient mode (must-lockset dataflow on SSA, helpers checked at all call sites); " +
			"(R10.2) the two closed words are atomic values only ever read with Load or changed with CompareAndSwap; (R10.3) every call that releases an instance's resources is control-dependent on a successful CAS of its closed word (close-once, notification-once); " +
			"(R10.4) every call that reaches Engine.CompileModule or Store.Instantiate from the public API is dominated by a passed runtime-closed check; (R10.5) the registry insert is dominated by the closed-store sentinel test and the name-taken test, delete unlinks and clears both list pointers, closing the store nils list and map. " +
			"(R10.6) the head of the module list is replaced by m.next only under the test that m is the head, so closing an instance that was never linked (failed registration) leaves the list intact. (R10.7) every insert into a map that a close path sets to nil is dominated by a nil test of that map, so a request that overlaps the close fails with an error instead of panicking (genuine compiler defect found and fixed); (R10.8) the exit path of a call completes an asynchronous close also on the branch taken after a panic (genuine compiler defect found and fixed). (R10.9) the fields the resource-release function reads are assigned before the instance is registered (known findings: the close notifier and the code closer are assigned after Store.Instantiate returned). NOT decided: linearizability of histories as such (ordering of effects across the several critical sections).",
		Assumptions: []string{"table of guarded fields → guarding mutex is frozen in checker/props/c10.go from the declarations' comments and confirmed by reading all 60+ access sites"},
		Rules: []core.Rule{
			{ID: "R10.6", Template: "T-CONSULT", Text: "the module-list head is moved only for the instance that is the head", Min: 1},
			{ID: "R10.7", Template: "T-MUSTPASS", Text: "every insert into a map that a close path nils is dominated by a nil test of it (genuine defect found and fixed: wazevo compile overlapping Close panicked)", Min: 3},
			{ID: "R10.8", Template: "T-SIBLING", Text: "the exit path of a call completes an asynchronous close on every branch, also when the call ended in a panic (genuine compiler defect found and fixed)", Min: 2},
			{ID: "R10.9", Template: "T-ORDER", Text: "the inputs of the close path (close notifier, code closer, …) are set before the instance is registered (known findings: both are set afterwards)", Min: 1},
			{ID: "R10.1", Template: "T-LOCKSET", Text: "every read of a guarded field holds its mutex (read or write mode), every write holds it in write mode; constructors writing a freshly allocated object are exempt", Min: 40},
			{ID: "R10.2", Template: "T-WHOCALLS", Text: "closed words have an atomic type and are only accessed through Load and CompareAndSwap", Min: 2},
			{ID: "R10.3", Template: "T-MUSTPASS", Text: "every call of the resource-release function is dominated by the success branch of a CAS on the instance's closed word (directly or through a wrapper that returns the CAS result)", Min: 3},
			{ID: "R10.4", Template: "T-MUSTPASS", Text: "every call of Engine.CompileModule / Store.Instantiate in the public package is dominated by the pass branch of the runtime-closed check", Min: 3},
			{ID: "R10.5", Template: "T-CONSULT", Text: "registry insert (name map, module list, type ids) is dominated by the closed-sentinel test and the name-taken test; the name is released only by its owner and on the field's current map; delete clears prev/next; store close nils the registry", Min: 7},
		},
		Run: runC10,
		Controls: []core.Control{
			{Name: "compiler-overflow-path-skips-close", File: "internal/engine/wazevo/call_engine.go", Old: "\t\t\t\t// As after a panic: an asynchronous close is completed by this call, whichever way it ends.\n\t\t\t\t_ = c.parent.module.FailIfClosed()\n", New: "", Rule: "R10.8", Substr: "stack overflow"},
			{Name: "compiled-module-insert-unguarded", File: "internal/engine/wazevo/engine_cache.go", Old: "\tif e.compiledModules == nil { // Close was called, possibly while this module was being compiled.\n\t\treturn errors.New(\"engine is already closed\")\n\t}\n", New: "\t_ = errors.New\n", Rule: "R10.7", Substr: "compiledModules"},
			{Name: "compiler-panic-path-skips-close", File: "internal/engine/wazevo/call_engine.go", Old: "\t\t\t_ = c.parent.module.FailIfClosed()\n", New: "", Rule: "R10.8", Substr: "compiler"},
			{Name: "head-moved-for-unlinked-instance", File: "internal/wasm/store_module_list.go", Old: "\tif m.prev != nil {\n\t\tm.prev.next = m.next\n\t}\n\tif m.next != nil {\n\t\tm.next.prev = m.prev\n\t}\n\tif s.moduleList == m {\n\t\ts.moduleList = m.next\n\t}\n", New: "\tif m.prev != nil {\n\t\tm.prev.next = m.next\n\t} else {\n\t\ts.moduleList = m.next\n\t}\n\tif m.next != nil {\n\t\tm.next.prev = m.prev\n\t}\n", Rule: "R10.6", Substr: "list head"},
			{Name: "interp-close-unlocked", File: "internal/engine/interpreter/interpreter.go", Old: "func (e *engine) Close() (err error) {\n\te.mux.Lock()\n\tdefer e.mux.Unlock()\n", New: "func (e *engine) Close() (err error) {\n", Rule: "R10.1", Substr: "compiledFunctions"},
			{Name: "register-reads-before-lock", File: "internal/wasm/store_module_list.go", Old: "func (s *Store) registerModule(m *ModuleInstance) error {\n\ts.mux.Lock()\n\tdefer s.mux.Unlock()\n\n\tif s.nameToModule == nil {\n\t\treturn errors.New(\"already closed\")\n\t}\n", New: "func (s *Store) registerModule(m *ModuleInstance) error {\n\tif s.nameToModule == nil {\n\t\treturn errors.New(\"already closed\")\n\t}\n\ts.mux.Lock()\n\tdefer s.mux.Unlock()\n", Rule: "R10.1", Substr: "nameToModule"},
			{Name: "module-lookup-writes-under-rlock", File: "internal/wasm/store_module_list.go", Old: "\tm, ok := s.nameToModule[moduleName]\n\tif !ok {", New: "\tm, ok := s.nameToModule[moduleName]\n\tif ok && m.Closed.Load() != 0 {\n\t\tdelete(s.nameToModule, moduleName)\n\t\tok = false\n\t}\n\tif !ok {", Rule: "R10.1", Substr: "nameToModule"},
			{Name: "hostmodule-compile-unchecked", File: "builder.go", Old: "\tif err := b.r.failIfClosed(); err != nil {\n\t\treturn nil, err\n\t}\n\n\tmodule, err", New: "\tmodule, err", Rule: "R10.4", Substr: "Compile"},
			{Name: "failifclosed-unguarded-release", File: "internal/wasm/module_instance.go", Old: "\t\t\tif m.Closed.CompareAndSwap(closed, (closed&^exitCodeFlagMask)|exitCodeFlagResourceClosed) {\n\t\t\t\t_ = m.ensureResourcesClosed(context.Background())\n\t\t\t}", New: "\t\t\t_ = m.ensureResourcesClosed(context.Background())", Rule: "R10.3", Substr: "FailIfClosed"},
			{Name: "closed-word-plain-store", File: "internal/wasm/module_instance.go", Old: "\treturn m.Closed.CompareAndSwap(0, closed)", New: "\tif m.Closed.Load() != 0 {\n\t\treturn false\n\t}\n\tm.Closed.Store(closed)\n\treturn true", Rule: "R10.2", Substr: "Closed"},
			{Name: "register-skips-name-check", File: "internal/wasm/store_module_list.go", Old: "\t\tif _, ok := s.nameToModule[m.ModuleName]; ok {\n\t\t\treturn fmt.Errorf(\"module[%s] has already been instantiated\", m.ModuleName)\n\t\t}\n", New: "", Rule: "R10.5", Substr: "name-taken"},
			{Name: "delete-keeps-next", File: "internal/wasm/store_module_list.go", Old: "\tm.prev = nil\n\tm.next = nil\n", New: "\tm.prev = nil\n", Rule: "R10.5", Substr: "unlink"},
		},
		Configs: []core.BuildCfg{{GOOS: "linux", GOARCH: "arm64"}, {GOOS: "windows", GOARCH: "amd64"}},
	})
}

// locksetExempt: functions that touch guarded state without the lock for a stated reason (one symbol each).
var locksetExempt = map[string]string{
	"internal/engine/wazevo.sharedFunctionsFinalizer": "runs as a finalizer of the sharedFunctions object: it is unreachable, nothing can access it concurrently",
}

func structField(c *core.Ctx, rel, typ, field string) *types.Var {
	p := c.Pkg(rel)
	if p == nil {
		return nil
	}
	o := p.Types.Scope().Lookup(typ)
	if o == nil {
		return nil
	}
	st, ok := o.Type().Underlying().(*types.Struct)
	if !ok {
		return nil
	}
	for i := 0; i < st.NumFields(); i++ {
		if st.Field(i).Name() == field {
			return st.Field(i)
		}
	}
	return nil
}

// guardedFieldTypes: the type (package qualifiers dropped) of the guarded fields whose type is unique in their struct, so that
// a renamed field is still found.
var guardedFieldTypes = map[string]string{
	"Store.moduleList":                       "*ModuleInstance",
	"Store.nameToModule":                     "map[string]*ModuleInstance",
	"Store.typeIDs":                          "map[string]FunctionTypeID",
	"TableInstance.involvingModuleInstances": "[]*ModuleInstance",
	"engine.compiledFunctions":               "map[[32]byte][]compiledFunction",
	"engine.compiledFunctionsRefs":           "map[[32]byte]int",
	"engine.compiledModules":                 "map[[32]byte]*compiledModule",
	"engine.sortedCompiledModules":           "[]*compiledModule",
}

func uniqueFieldOfType(c *core.Ctx, rel, typ, hint string) *types.Var {
	p := c.Pkg(rel)
	if p == nil {
		return nil
	}
	o := p.Types.Scope().Lookup(typ)
	if o == nil {
		return nil
	}
	st, ok := o.Type().Underlying().(*types.Struct)
	if !ok {
		return nil
	}
	var found *types.Var
	for i := 0; i < st.NumFields(); i++ {
		ts := types.TypeString(st.Field(i).Type(), func(*types.Package) string { return "" })
		if ts == hint || strings.ReplaceAll(ts, "wasm.", "") == hint {
			if found != nil {
				return nil
			}
			found = st.Field(i)
		}
	}
	return found
}

// mutexField finds the mutex of a struct: the field of that name, or – when it was renamed – the only sync.Mutex /
// sync.RWMutex field of the struct, or among several the one whose name shares the longest prefix with hint (≥ 4 chars).
func mutexField(c *core.Ctx, rel, typ, name, hint string) *types.Var {
	if f := structField(c, rel, typ, name); f != nil {
		return f
	}
	p := c.Pkg(rel)
	if p == nil {
		return nil
	}
	o := p.Types.Scope().Lookup(typ)
	if o == nil {
		return nil
	}
	st, ok := o.Type().Underlying().(*types.Struct)
	if !ok {
		return nil
	}
	var mus []*types.Var
	for i := 0; i < st.NumFields(); i++ {
		if t := st.Field(i).Type(); core.IsNamed(t, "sync", "Mutex") || core.IsNamed(t, "sync", "RWMutex") {
			mus = append(mus, st.Field(i))
		}
	}
	if len(mus) == 1 {
		return mus[0]
	}
	var best *types.Var
	bestN := 3
	for _, m := range mus {
		n := 0
		for n < len(m.Name()) && n < len(hint) && m.Name()[n] == hint[n] {
			n++
		}
		if n > bestN {
			best, bestN = m, n
		}
	}
	return best
}

// everyCallerGuarded: fn is an extracted step; every static call of it among fns (at least one) stands in a block guarded
// by the predicate built for the object it is called on (the first argument).
func everyCallerGuarded(fns []*ssa.Function, fn *ssa.Function, mk func(base ssa.Value) func(cond ssa.Value) int) bool {
	sites := 0
	for _, caller := range fns {
		for _, b := range caller.Blocks {
			for _, in := range b.Instrs {
				call, ok := in.(*ssa.Call)
				if !ok || call.Common().StaticCallee() != fn || caller == fn {
					continue
				}
				sites++
				var base ssa.Value
				if len(call.Common().Args) > 0 {
					base = call.Common().Args[0]
				}
				if !guardedBy(b, mk(base)) {
					return false
				}
			}
		}
	}
	return sites > 0
}

func isAtomicU64(t types.Type) bool {
	return core.IsNamed(t, "sync/atomic", "Uint64")
}

// moduleFns returns the SSA functions (with bodies) of the given module-relative packages, including closures.
func moduleFns(c *core.Ctx, rels ...string) []*ssa.Function {
	want := map[*ssa.Package]bool{}
	for _, r := range rels {
		if p := c.SSAPkg(r); p != nil {
			want[p] = true
		}
	}
	var out []*ssa.Function
	for fn := range c.AllFunctions() {
		if fn.Blocks == nil {
			continue
		}
		top := fn
		for top.Parent() != nil {
			top = top.Parent()
		}
		p := top.Package()
		if p == nil && top.Origin() != nil {
			p = top.Origin().Package()
		}
		if want[p] {
			out = append(out, fn)
		}
	}
	sort.Slice(out, func(i, j int) bool {
		if out[i].Pos() != out[j].Pos() {
			return out[i].Pos() < out[j].Pos()
		}
		return out[i].String() < out[j].String()
	})
	return out
}

func runC10(c *core.Ctx) {
	c.SSA()
	checkClosedSentinelMaps(c)
	checkExitPathCompletesClose(c)
	checkCloseInputsSetBeforePublication(c)
	// ---------- R10.1 lockset
	type g struct{ rel, typ, field, muRel, muTyp, mu string }
	table := []g{
		{"internal/wasm", "Store", "moduleList", "internal/wasm", "Store", "mux"},
		{"internal/wasm", "Store", "nameToModule", "internal/wasm", "Store", "mux"},
		{"internal/wasm", "Store", "nameToModuleCap", "internal/wasm", "Store", "mux"},
		{"internal/wasm", "Store", "typeIDs", "internal/wasm", "Store", "mux"},
		{"internal/wasm", "ModuleInstance", "prev", "internal/wasm", "Store", "mux"},
		{"internal/wasm", "ModuleInstance", "next", "internal/wasm", "Store", "mux"},
		{"internal/wasm", "TableInstance", "involvingModuleInstances", "internal/wasm", "TableInstance", "involvingModuleInstancesMutex"},
		{"internal/engine/interpreter", "engine", "compiledFunctions", "internal/engine/interpreter", "engine", "mux"},
		{"internal/engine/wazevo", "engine", "compiledModules", "internal/engine/wazevo", "engine", "mux"},
		{"internal/engine/wazevo", "compiledModule", "refCount", "internal/engine/wazevo", "engine", "mux"},
		{"internal/engine/interpreter", "engine", "compiledFunctionsRefs", "internal/engine/interpreter", "engine", "mux"},
		{"internal/engine/wazevo", "engine", "sortedCompiledModules", "internal/engine/wazevo", "engine", "mux"},
		{"internal/engine/wazevo", "sharedFunctions", "listenerBeforeTrampolines", "internal/engine/wazevo", "engine", "mux"},
		{"internal/engine/wazevo", "sharedFunctions", "listenerAfterTrampolines", "internal/engine/wazevo", "engine", "mux"},
	}
	guard := map[*types.Var]*types.Var{}
	for _, e := range table {
		if c.Pkg(e.rel) == nil {
			continue // package not built in this configuration (e.g. wazevo on unsupported platforms)
		}
		f := structField(c, e.rel, e.typ, e.field)
		if f == nil {
			// renamed: the only field of the struct with the type this entry is known to have
			if hint, ok := guardedFieldTypes[e.typ+"."+e.field]; ok {
				f = uniqueFieldOfType(c, e.rel, e.typ, hint)
			}
		}
		mu := mutexField(c, e.muRel, e.muTyp, e.mu, e.field)
		if f == nil || mu == nil {
			c.Undecided("R10.1", "guard-table:"+e.typ+"."+e.field, 0, "guarded field or its mutex not found (renamed?): update the table in checker/props/c10.go")
			continue
		}
		guard[f] = mu
	}
	ls := &core.Lockset{C: c, Guard: guard, Fns: moduleFns(c, "internal/wasm", "internal/engine/interpreter", "internal/engine/wazevo", "")}
	ls.Run()
	c.Count("lockset_functions", len(ls.Fns))
	c.Count("guarded_accesses", len(ls.Accesses))
	type key struct {
		fn, fld string
		w       bool
	}
	agg := map[key][]core.GuardedAccess{}
	var keys []key
	for _, a := range ls.Accesses {
		k := key{core.SSAFuncName(a.Fn), a.Field.Name(), a.Write}
		if _, ok := agg[k]; !ok {
			keys = append(keys, k)
		}
		agg[k] = append(agg[k], a)
	}
	sort.Slice(keys, func(i, j int) bool {
		if keys[i].fn != keys[j].fn {
			return keys[i].fn < keys[j].fn
		}
		if keys[i].fld != keys[j].fld {
			return keys[i].fld < keys[j].fld
		}
		return !keys[i].w && keys[j].w
	})
	for _, k := range keys {
		mode := "read"
		need := core.LockMode(1)
		if k.w {
			mode = "write"
			need = 2
		}
		var bad []string
		var pos token.Pos
		for _, a := range agg[k] {
			if a.Fresh {
				continue
			}
			if why, ok := locksetExempt[k.fn]; ok {
				c.Notef("R10.1 exemption: %s — %s", k.fn, why)
				continue
			}
			if a.Held < need {
				if pos == 0 {
					pos = a.Instr.Pos()
				}
				held := "not held"
				if a.Held == 1 {
					held = "held for reading only"
				}
				bad = append(bad, fmt.Sprintf("%s of %s at %s with %s %s", mode, a.Field.Name(), c.Pos(a.Instr.Pos()), guard[a.Field].Name(), held))
			}
		}
		construct := fmt.Sprintf("%s %s %s", k.fn, mode, k.fld)
		if len(bad) == 0 {
			c.Discharge("R10.1", construct, agg[k][0].Instr.Pos(), fmt.Sprintf("%d access(es), mutex held", len(agg[k])))
		} else {
			c.Violate("R10.1", construct, pos, strings.Join(bad, "; "))
		}
	}

	// ---------- R10.2 closed words
	closedMI := structField(c, "internal/wasm", "ModuleInstance", "Closed")
	var rtNamed *types.Named
	var closedRT *types.Var
	if _, rtIface := lookupIface(c, "", "Runtime"); rtIface != nil {
		root := c.Pkg("")
		for _, n := range root.Types.Scope().Names() {
			tn, ok := root.Types.Scope().Lookup(n).(*types.TypeName)
			if !ok {
				continue
			}
			named, _ := tn.Type().(*types.Named)
			if named == nil {
				continue
			}
			st, ok := named.Underlying().(*types.Struct)
			if !ok || !types.Implements(types.NewPointer(named), rtIface) {
				continue
			}
			rtNamed = named
			for i := 0; i < st.NumFields(); i++ {
				if isAtomicU64(st.Field(i).Type()) {
					closedRT = st.Field(i)
				}
			}
		}
	}
	checkClosedWord := func(fld *types.Var, label string) {
		if fld == nil {
			c.Violate("R10.2", label, 0, "no field of type sync/atomic.Uint64 holds the closed word (a plain integer cannot be updated atomically)")
			return
		}
		if !isAtomicU64(fld.Type()) {
			c.Violate("R10.2", label, fld.Pos(), "closed word is not a sync/atomic.Uint64")
			return
		}
		var bad []string
		n := 0
		for fn := range c.AllFunctions() {
			if !core.InModule(fn) {
				continue
			}
			for _, b := range fn.Blocks {
				for _, in := range b.Instrs {
					fa, ok := in.(*ssa.FieldAddr)
					if !ok {
						continue
					}
					st, _ := derefStructT(fa.X.Type()).Underlying().(*types.Struct)
					if st == nil || st.Field(fa.Field) != fld {
						continue
					}
					for _, u := range *fa.Referrers() {
						n++
						call, ok := u.(ssa.CallInstruction)
						if !ok {
							if _, dbg := u.(*ssa.DebugRef); dbg {
								n--
								continue
							}
							bad = append(bad, fmt.Sprintf("%s uses the closed word other than through its methods at %s", core.SSAFuncName(fn), c.Pos(u.Pos())))
							continue
						}
						callee := call.Common().StaticCallee()
						if callee == nil || (callee.Name() != "Load" && callee.Name() != "CompareAndSwap") {
							name := "?"
							if callee != nil {
								name = callee.Name()
							}
							bad = append(bad, fmt.Sprintf("%s calls %s on the closed word at %s (only Load and CompareAndSwap keep transitions atomic)", core.SSAFuncName(fn), name, c.Pos(u.Pos())))
						}
					}
				}
			}
		}
		sort.Strings(bad)
		c.Check(len(bad) == 0, "R10.2", label, fld.Pos(), fmt.Sprintf("%d uses, all Load/CompareAndSwap", n), strings.Join(bad, "; "))
	}
	checkClosedWord(closedMI, "ModuleInstance.Closed")
	if rtNamed == nil {
		c.Undecided("R10.2", "runtime.closed", 0, "type implementing wazero.Runtime not found")
	} else {
		checkClosedWord(closedRT, rtNamed.Obj().Name()+".closed-word")
	}

	// ---------- R10.3 close-once
	checkCloseOnce(c, closedMI)

	// ---------- R10.4 closed runtime refuses work
	checkClosedRuntime(c, closedRT)

	// ---------- R10.5 registry bookkeeping
	checkRegistry(c)

	// ---------- R10.6 head update
	checkHeadUpdate(c)
}

func derefStructT(t types.Type) types.Type {
	if p, ok := t.Underlying().(*types.Pointer); ok {
		return p.Elem()
	}
	return t
}

// isCASOn reports whether v is the boolean result of CompareAndSwap on field fld, or of a wrapper whose every
// return yields such a result.
func isCASOn(c *core.Ctx, v ssa.Value, fld *types.Var, depth int) bool {
	call, ok := v.(*ssa.Call)
	if !ok || depth > 3 {
		return false
	}
	callee := call.Common().StaticCallee()
	if callee == nil {
		return false
	}
	if callee.Name() == "CompareAndSwap" && len(call.Common().Args) > 0 {
		if fa, ok := call.Common().Args[0].(*ssa.FieldAddr); ok {
			st, _ := derefStructT(fa.X.Type()).Underlying().(*types.Struct)
			return st != nil && st.Field(fa.Field) == fld
		}
		return false
	}
	if !core.InModule(callee) || callee.Blocks == nil || callee.Signature.Results().Len() != 1 {
		return false
	}
	n := 0
	for _, b := range callee.Blocks {
		for _, in := range b.Instrs {
			if r, ok := in.(*ssa.Return); ok {
				n++
				if !isCASOn(c, r.Results[0], fld, depth+1) {
					return false
				}
			}
		}
	}
	return n > 0
}

// guardedBy reports whether block b is only reachable through the branch of an If on which cond(v) holds, where
// pred decides whether an If condition establishes the fact on its true (returns 1) or false (returns -1) branch.
func guardedBy(b *ssa.BasicBlock, pred func(cond ssa.Value) int) bool {
	fn := b.Parent()
	for _, ib := range fn.Blocks {
		if len(ib.Instrs) == 0 {
			continue
		}
		iff, ok := ib.Instrs[len(ib.Instrs)-1].(*ssa.If)
		if !ok {
			continue
		}
		which := pred(iff.Cond)
		if which == 0 {
			continue
		}
		succ := ib.Succs[0]
		if which < 0 {
			succ = ib.Succs[1]
		}
		if len(succ.Preds) == 1 && succ.Dominates(b) {
			return true
		}
	}
	return false
}

func checkCloseOnce(c *core.Ctx, closedMI *types.Var) {
	if closedMI == nil {
		c.Undecided("R10.3", "anchor", 0, "ModuleInstance.Closed not found")
		return
	}
	// the resource-release function: the ModuleInstance method that invokes CloseNotifier.CloseNotify
	var release *ssa.Function
	for _, fn := range moduleFns(c, "internal/wasm") {
		if fn.Signature.Recv() == nil || !core.IsNamed(fn.Signature.Recv().Type(), core.Module+"/internal/wasm", "ModuleInstance") {
			continue
		}
		for _, b := range fn.Blocks {
			for _, in := range b.Instrs {
				if call, ok := in.(*ssa.Call); ok && call.Common().IsInvoke() && call.Common().Method.Name() == "CloseNotify" {
					release = fn
				}
			}
		}
	}
	if release == nil {
		c.Undecided("R10.3", "anchor", 0, "no ModuleInstance method invokes CloseNotifier.CloseNotify: the resource-release function cannot be located")
		return
	}
	n := 0
	for fn := range c.AllFunctions() {
		if !core.InModule(fn) {
			continue
		}
		for _, b := range fn.Blocks {
			for _, in := range b.Instrs {
				ci, ok := in.(ssa.CallInstruction)
				if !ok || ci.Common().StaticCallee() != release {
					continue
				}
				n++
				ok2 := guardedBy(b, func(cond ssa.Value) int {
					if isCASOn(c, cond, closedMI, 0) {
						return 1
					}
					if u, ok := cond.(*ssa.UnOp); ok && u.Op == token.NOT && isCASOn(c, u.X, closedMI, 0) {
						return -1
					}
					return 0
				})
				if _, isDefer := in.(*ssa.Defer); isDefer {
					ok2 = false
				}
				c.Check(ok2, "R10.3", "release-call in "+core.SSAFuncName(fn), in.Pos(),
					"dominated by the success branch of a CAS on ModuleInstance.Closed",
					"call of "+release.Name()+" is not guarded by a successful CAS on the closed word: two goroutines can both release the resources and fire the close notification")
			}
		}
	}
	c.Count("release_call_sites", n)
}

func checkClosedRuntime(c *core.Ctx, closedRT *types.Var) {
	if closedRT == nil {
		c.Undecided("R10.4", "anchor", 0, "runtime closed word not found")
		return
	}
	// closed-check functions: functions of the root package that Load the closed word and return an error
	checkers := map[*ssa.Function]bool{}
	for _, fn := range moduleFns(c, "") {
		res := fn.Signature.Results()
		if res.Len() != 1 || res.At(0).Type().String() != "error" {
			continue
		}
		for _, b := range fn.Blocks {
			for _, in := range b.Instrs {
				if fa, ok := in.(*ssa.FieldAddr); ok {
					st, _ := derefStructT(fa.X.Type()).Underlying().(*types.Struct)
					if st != nil && st.Field(fa.Field) == closedRT {
						checkers[fn] = true
					}
				}
			}
		}
	}
	isSink := func(ci ssa.CallInstruction) string {
		cc := ci.Common()
		if cc.IsInvoke() && cc.Method.Name() == "CompileModule" && core.IsNamed(cc.Value.Type(), core.Module+"/internal/wasm", "Engine") {
			return "Engine.CompileModule"
		}
		if f := cc.StaticCallee(); f != nil && f.Name() == "Instantiate" && f.Signature.Recv() != nil && core.IsNamed(f.Signature.Recv().Type(), core.Module+"/internal/wasm", "Store") {
			return "Store.Instantiate"
		}
		return ""
	}
	n := 0
	for _, fn := range moduleFns(c, "") {
		for _, b := range fn.Blocks {
			for _, in := range b.Instrs {
				ci, ok := in.(ssa.CallInstruction)
				if !ok {
					continue
				}
				sink := isSink(ci)
				if sink == "" {
					continue
				}
				n++
				ok2 := guardedBy(b, func(cond ssa.Value) int {
					// err != nil  → pass branch is the false one; err == nil → true one
					bo, ok := cond.(*ssa.BinOp)
					if !ok || (bo.Op != token.NEQ && bo.Op != token.EQL) {
						return 0
					}
					var other ssa.Value
					if k, ok := bo.Y.(*ssa.Const); ok && k.IsNil() {
						other = bo.X
					} else if k, ok := bo.X.(*ssa.Const); ok && k.IsNil() {
						other = bo.Y
					} else {
						return 0
					}
					call, ok := other.(*ssa.Call)
					if !ok || !checkers[call.Common().StaticCallee()] {
						return 0
					}
					if bo.Op == token.NEQ {
						return -1
					}
					return 1
				})
				c.Check(ok2, "R10.4", sink+" in "+core.SSAFuncName(fn), in.Pos(),
					"dominated by the pass branch of the runtime-closed check",
					"reaches "+sink+" without a passed runtime-closed check: a closed runtime would compile/instantiate (or crash on released engine state) instead of returning an error")
			}
		}
	}
	c.Count("compile_instantiate_call_sites", n)
	c.Count("closed_check_functions", len(checkers))
}

func checkRegistry(c *core.Ctx) {
	nameMap := structField(c, "internal/wasm", "Store", "nameToModule")
	list := structField(c, "internal/wasm", "Store", "moduleList")
	prev := structField(c, "internal/wasm", "ModuleInstance", "prev")
	next := structField(c, "internal/wasm", "ModuleInstance", "next")
	if nameMap == nil || list == nil || prev == nil || next == nil {
		c.Undecided("R10.5", "anchor", 0, "registry fields not found")
		return
	}
	fieldOf := func(v ssa.Value) *types.Var {
		// v = load(FieldAddr(_, f))
		if u, ok := v.(*ssa.UnOp); ok && u.Op == token.MUL {
			if fa, ok := u.X.(*ssa.FieldAddr); ok {
				if st, _ := derefStructT(fa.X.Type()).Underlying().(*types.Struct); st != nil {
					return st.Field(fa.Field)
				}
			}
		}
		return nil
	}
	// nil-sentinel test on a Store map field: returns the polarity on which the map is known non-nil
	nonNilBranch := func(fld *types.Var) func(cond ssa.Value) int {
		return func(cond ssa.Value) int {
			bo, ok := cond.(*ssa.BinOp)
			if !ok || (bo.Op != token.EQL && bo.Op != token.NEQ) {
				return 0
			}
			var other ssa.Value
			if k, ok := bo.Y.(*ssa.Const); ok && k.IsNil() {
				other = bo.X
			} else if k, ok := bo.X.(*ssa.Const); ok && k.IsNil() {
				other = bo.Y
			}
			if other == nil || fieldOf(other) != fld {
				return 0
			}
			if bo.Op == token.EQL {
				return -1
			}
			return 1
		}
	}
	// the sentinel fields: map fields of Store that the store-closing function sets to nil
	sentinel := map[*types.Var]bool{}
	storeNamed := core.NamedOf(c.Pkg("internal/wasm").Types.Scope().Lookup("Store").Type())
	for _, fn := range moduleFns(c, "internal/wasm") {
		nilsName := false
		var nilled []*types.Var
		for _, b := range fn.Blocks {
			for _, in := range b.Instrs {
				if st, ok := in.(*ssa.Store); ok {
					if fa, ok := st.Addr.(*ssa.FieldAddr); ok && core.NamedOf(fa.X.Type()) == storeNamed {
						if k, ok := st.Val.(*ssa.Const); ok && k.IsNil() {
							f := derefStructT(fa.X.Type()).Underlying().(*types.Struct).Field(fa.Field)
							if _, isMap := f.Type().Underlying().(*types.Map); isMap {
								nilled = append(nilled, f)
								if f == nameMap {
									nilsName = true
								}
							}
						}
					}
				}
			}
		}
		if nilsName {
			for _, f := range nilled {
				sentinel[f] = true
			}
		}
	}
	// reaches: can control flow from instruction a reach instruction b inside one function (block-level, same block by order)
	reaches := func(a, b ssa.Instruction) bool {
		if a.Block() == b.Block() {
			ia, ib := -1, -1
			for i, in := range a.Block().Instrs {
				if in == a {
					ia = i
				}
				if in == b {
					ib = i
				}
			}
			if ia < ib {
				return true
			}
		}
		seen := map[*ssa.BasicBlock]bool{}
		work := append([]*ssa.BasicBlock{}, a.Block().Succs...)
		for len(work) > 0 {
			bb := work[len(work)-1]
			work = work[:len(work)-1]
			if seen[bb] {
				continue
			}
			seen[bb] = true
			if bb == b.Block() {
				return true
			}
			work = append(work, bb.Succs...)
		}
		return false
	}
	// staleAlias: a write through a map value loaded from field fld while the field may have been replaced in between
	staleAlias := func(fn *ssa.Function, mapVal ssa.Value, use ssa.Instruction, fld *types.Var) string {
		ld, ok := mapVal.(*ssa.UnOp)
		if !ok {
			return ""
		}
		for _, b := range fn.Blocks {
			for _, in := range b.Instrs {
				st, ok := in.(*ssa.Store)
				if !ok {
					continue
				}
				fa, ok := st.Addr.(*ssa.FieldAddr)
				if !ok {
					continue
				}
				if s2, _ := derefStructT(fa.X.Type()).Underlying().(*types.Struct); s2 == nil || s2.Field(fa.Field) != fld {
					continue
				}
				if reaches(ld, st) && reaches(st, use) {
					return fmt.Sprintf("the map written at %s was loaded from %s at %s, but the field is replaced at %s in between: the write lands on the discarded map", c.Pos(use.Pos()), fld.Name(), c.Pos(ld.Pos()), c.Pos(st.Pos()))
				}
			}
		}
		return ""
	}
	inserts, deletes, nils := 0, 0, 0
	for _, fn := range moduleFns(c, "internal/wasm") {
		for _, b := range fn.Blocks {
			for _, in := range b.Instrs {
				switch x := in.(type) {
				case *ssa.MapUpdate:
					if f := fieldOf(x.Map); f != nil && sentinel[f] {
						okS := guardedBy(b, nonNilBranch(f))
						if f != nameMap {
							c.Check(okS, "R10.5", "closed-sentinel before insert into "+f.Name()+" in "+core.SSAFuncName(fn), in.Pos(),
								"insert dominated by the not-nil branch of the map's nil test", "insert into Store."+f.Name()+" is not guarded by the closed-store sentinel: after Runtime.Close the map is nil and the insert panics instead of failing with an error")
						}
						if msg := staleAlias(fn, x.Map, in, f); msg != "" {
							c.Violate("R10.5", "current-map write to "+f.Name()+" in "+core.SSAFuncName(fn), in.Pos(), msg)
						}
					}
					if fieldOf(x.Map) != nameMap {
						continue
					}
					// copying into a fresh map (shrink) is not the registry insert: the registry insert stores the function's parameter
					if _, isParam := x.Value.(*ssa.Parameter); !isParam {
						continue
					}
					inserts++
					sentinelPred := func(cond ssa.Value) int {
						bo, ok := cond.(*ssa.BinOp)
						if !ok || (bo.Op != token.EQL && bo.Op != token.NEQ) {
							return 0
						}
						var other ssa.Value
						if k, ok := bo.Y.(*ssa.Const); ok && k.IsNil() {
							other = bo.X
						} else if k, ok := bo.X.(*ssa.Const); ok && k.IsNil() {
							other = bo.Y
						}
						if other == nil || fieldOf(other) != nameMap {
							return 0
						}
						if bo.Op == token.EQL {
							return -1 // map == nil → closed; insert must be on the false branch
						}
						return 1
					}
					// in the function itself, or – when the insert is an extracted step – at every call of it
					sentinel := guardedBy(b, sentinelPred) || everyCallerGuarded(moduleFns(c, "internal/wasm"), fn, func(ssa.Value) func(ssa.Value) int { return sentinelPred })
					taken := guardedBy(b, func(cond ssa.Value) int {
						// ok of a comma-ok lookup on the registry with the same key
						ex, ok := cond.(*ssa.Extract)
						if !ok || ex.Index != 1 {
							return 0
						}
						lk, ok := ex.Tuple.(*ssa.Lookup)
						if !ok || !lk.CommaOk || fieldOf(lk.X) != nameMap {
							return 0
						}
						if !sameValue(lk.Index, x.Key) {
							return 0
						}
						return -1 // found → refuse; insert on the not-found branch
					})
					c.Check(sentinel, "R10.5", "closed-sentinel before insert in "+core.SSAFuncName(fn), in.Pos(),
						"insert dominated by the not-nil branch of the registry-map nil test", "registry insert is not guarded by the closed-store sentinel (nil map): a module can be registered into a closed store (or panic on a nil map)")
					c.Check(taken, "R10.5", "name-taken before insert in "+core.SSAFuncName(fn), in.Pos(),
						"insert dominated by the not-found branch of a lookup of the same name", "registry insert is not guarded by a lookup of the same name: a second open module can take an owned name")
				case *ssa.Call:
					if bi, ok := x.Common().Value.(*ssa.Builtin); ok && bi.Name() == "delete" && fieldOf(x.Common().Args[0]) == nameMap {
						deletes++
						if msg := staleAlias(fn, x.Common().Args[0], in, nameMap); msg != "" {
							c.Violate("R10.5", "current-map write to nameToModule in "+core.SSAFuncName(fn), in.Pos(), msg)
						} else {
							c.Discharge("R10.5", "current-map write to nameToModule in "+core.SSAFuncName(fn), in.Pos(), "the map deleted from is the field's current value")
						}
						owner := guardedBy(b, func(cond ssa.Value) int {
							bo, ok := cond.(*ssa.BinOp)
							if !ok || (bo.Op != token.EQL && bo.Op != token.NEQ) {
								return 0
							}
							for _, pr := range [][2]ssa.Value{{bo.X, bo.Y}, {bo.Y, bo.X}} {
								lk, ok := pr[0].(*ssa.Lookup)
								if !ok || fieldOf(lk.X) != nameMap || !sameValue(lk.Index, x.Common().Args[1]) {
									continue
								}
								if _, isParam := pr[1].(*ssa.Parameter); isParam {
									if bo.Op == token.EQL {
										return 1
									}
									return -1 // `entry != m` → the delete is on the false branch (early-return form)
								}
							}
							return 0
						})
						c.Check(owner, "R10.5", "owner-only name release in "+core.SSAFuncName(fn), in.Pos(),
							"the name is deleted only when the registry entry is the instance being removed",
							"the name is deleted without checking that the registry entry belongs to the instance being removed: closing an instance that failed to register (duplicate name) evicts the live owner, whose name can then be taken by a second open module")
						// same function must store nil to prev and next of the deleted module
						clearedPrev, clearedNext := false, false
						// the function itself and the helpers it calls with the removed instance (extracted unlink step)
						// … and, when the release of the name is itself an extracted step, the function that calls it with the
						// removed instance and the sibling steps that one calls
						scope := []*ssa.Function{fn}
						roots := []*ssa.Function{fn}
						for _, cand := range moduleFns(c, "internal/wasm") {
							for _, bb := range cand.Blocks {
								for _, ii := range bb.Instrs {
									if call, ok := ii.(*ssa.Call); ok && call.Common().StaticCallee() == fn && cand != fn {
										for _, a := range call.Common().Args {
											if _, isParam := a.(*ssa.Parameter); isParam && core.IsNamed(a.Type(), core.Module+"/internal/wasm", "ModuleInstance") {
												roots = append(roots, cand)
												scope = append(scope, cand)
											}
										}
									}
								}
							}
						}
						for _, root := range roots {
							for _, bb := range root.Blocks {
								for _, ii := range bb.Instrs {
									if call, ok := ii.(*ssa.Call); ok {
										if sc := call.Common().StaticCallee(); sc != nil && sc.Blocks != nil && sc.Pkg == fn.Pkg {
											for _, a := range call.Common().Args {
												if _, isParam := a.(*ssa.Parameter); isParam && core.IsNamed(a.Type(), core.Module+"/internal/wasm", "ModuleInstance") {
													scope = append(scope, sc)
												}
											}
										}
									}
								}
							}
						}
						for _, sf := range scope {
							for _, bb := range sf.Blocks {
								for _, ii := range bb.Instrs {
									if st, ok := ii.(*ssa.Store); ok {
										if fa, ok := st.Addr.(*ssa.FieldAddr); ok {
											if k, ok := st.Val.(*ssa.Const); ok && k.IsNil() {
												if _, isParam := fa.X.(*ssa.Parameter); isParam {
													if s, _ := derefStructT(fa.X.Type()).Underlying().(*types.Struct); s != nil {
														if s.Field(fa.Field) == prev {
															clearedPrev = true
														}
														if s.Field(fa.Field) == next {
															clearedNext = true
														}
													}
												}
											}
										}
									}
								}
							}
						}
						c.Check(clearedPrev && clearedNext, "R10.5", "unlink clears prev/next in "+core.SSAFuncName(fn), in.Pos(),
							"the function that removes the name also clears both list pointers of the removed instance",
							fmt.Sprintf("removed instance keeps a list pointer (prev cleared=%v, next cleared=%v): a second delete (idempotent close) would unlink live neighbours", clearedPrev, clearedNext))
					}
				case *ssa.Store:
					if fa, ok := x.Addr.(*ssa.FieldAddr); ok {
						if s, _ := derefStructT(fa.X.Type()).Underlying().(*types.Struct); s != nil && s.Field(fa.Field) == list {
							if _, isParam := x.Val.(*ssa.Parameter); isParam {
								c.Check(guardedBy(b, nonNilBranch(nameMap)), "R10.5", "closed-sentinel before list insert in "+core.SSAFuncName(fn), in.Pos(),
									"linking the instance into the module list is dominated by the closed-store sentinel test",
									"an instance is linked into the module list without the closed-store sentinel test: an (anonymous) module can be registered into a closed store and outlive Runtime.Close")
							}
						}
					}
					if fa, ok := x.Addr.(*ssa.FieldAddr); ok {
						if s, _ := derefStructT(fa.X.Type()).Underlying().(*types.Struct); s != nil && s.Field(fa.Field) == nameMap {
							if k, ok := x.Val.(*ssa.Const); ok && k.IsNil() {
								nils++
								// same function nils the list as well
								listNil := false
								for _, bb := range fn.Blocks {
									for _, ii := range bb.Instrs {
										if st, ok := ii.(*ssa.Store); ok {
											if fa2, ok := st.Addr.(*ssa.FieldAddr); ok {
												if s2, _ := derefStructT(fa2.X.Type()).Underlying().(*types.Struct); s2 != nil && s2.Field(fa2.Field) == list {
													if k2, ok := st.Val.(*ssa.Const); ok && k2.IsNil() {
														listNil = true
													}
												}
											}
										}
									}
								}
								c.Check(listNil, "R10.5", "store close nils list and map in "+core.SSAFuncName(fn), in.Pos(), "both set to nil in the same critical section", "closing the store sets the closed sentinel but keeps the module list")
							}
						}
					}
				}
			}
		}
	}
	if inserts == 0 {
		c.Undecided("R10.5", "registry-insert", 0, "no insert into Store.nameToModule found")
	}
	if deletes == 0 {
		c.Undecided("R10.5", "registry-delete", 0, "no delete from Store.nameToModule found")
	}
	if nils == 0 {
		c.Violate("R10.5", "store-close-sentinel", nameMap.Pos(), "nothing ever sets the registry map to nil: the closed-store sentinel is never raised, so instantiation after Runtime.Close would succeed")
	}
}

func sameValue(a, b ssa.Value) bool {
	if a == b {
		return true
	}
	// two loads of the same field of the same object
	ua, ok1 := a.(*ssa.UnOp)
	ub, ok2 := b.(*ssa.UnOp)
	if ok1 && ok2 && ua.Op == token.MUL && ub.Op == token.MUL {
		fa, ok1 := ua.X.(*ssa.FieldAddr)
		fb, ok2 := ub.X.(*ssa.FieldAddr)
		if ok1 && ok2 && fa.Field == fb.Field && fa.X == fb.X {
			return true
		}
	}
	return false
}

// ---- R10.6 the list head is moved only for the instance that is the head ----

func checkHeadUpdate(c *core.Ctx) {
	list := structField(c, "internal/wasm", "Store", "moduleList")
	next := structField(c, "internal/wasm", "ModuleInstance", "next")
	if list == nil || next == nil {
		c.Undecided("R10.6", "anchor", 0, "Store.moduleList / ModuleInstance.next not found")
		return
	}
	n := 0
	for _, fn := range moduleFns(c, "internal/wasm") {
		for _, b := range fn.Blocks {
			for _, in := range b.Instrs {
				st, ok := in.(*ssa.Store)
				if !ok {
					continue
				}
				fa, ok := st.Addr.(*ssa.FieldAddr)
				if !ok || fieldOfAddr(fa) != list {
					continue
				}
				// only removals: the stored value is `x.next` of some instance x
				u, ok := st.Val.(*ssa.UnOp)
				if !ok {
					continue
				}
				fa2, ok := u.X.(*ssa.FieldAddr)
				if !ok || fieldOfAddr(fa2) != next {
					continue
				}
				removed := fa2.X
				n++
				guarded := guardedBy(b, func(cond ssa.Value) int {
					bo, ok := cond.(*ssa.BinOp)
					if !ok || (bo.Op != token.EQL && bo.Op != token.NEQ) {
						return 0
					}
					isHeadLoad := func(v ssa.Value) bool {
						l, ok := v.(*ssa.UnOp)
						if !ok {
							return false
						}
						f, ok := l.X.(*ssa.FieldAddr)
						return ok && fieldOfAddr(f) == list
					}
					if (isHeadLoad(bo.X) && bo.Y == removed) || (isHeadLoad(bo.Y) && bo.X == removed) {
						if bo.Op == token.EQL {
							return 1
						}
						return -1
					}
					return 0
				})
				c.Check(guarded, "R10.6", "list head moved only for the head in "+core.SSAFuncName(fn), st.Pos(), "`moduleList = m.next` is guarded by `moduleList == m`",
					"the list head is replaced by m.next without testing that m is the head: for an instance that was never linked (registration failed: prev and next are nil) the head becomes nil and every open instance is dropped from the list – Runtime.Close no longer closes them")
			}
		}
	}
	if n == 0 {
		c.Undecided("R10.6", "removal from the module list", 0, "no `moduleList = x.next` store found")
	}
}

// ---------------------------------------------------------------------------------------------------------
// R10.7: a map field that a close path sets to nil (the "closed" sentinel idiom) is tested for nil before every insert:
// an operation that passed the runtime's closed check before Close ran must fail with an error, not panic on a nil map.

func checkClosedSentinelMaps(c *core.Ctx) {
	fns := moduleFns(c, "internal/wasm", wzv, "internal/engine/interpreter", "")
	type key struct {
		named *types.Named
		field int
	}
	fieldOf := func(v ssa.Value) (key, ssa.Value, bool) {
		ld, ok := v.(*ssa.UnOp)
		if !ok || ld.Op != token.MUL {
			return key{}, nil, false
		}
		fa, ok := ld.X.(*ssa.FieldAddr)
		if !ok {
			return key{}, nil, false
		}
		nm := core.NamedOf(fa.X.Type())
		if nm == nil {
			return key{}, nil, false
		}
		return key{nm, fa.Field}, fa.X, true
	}
	// fields nil-ed outside constructors
	nilled := map[key]string{}
	for _, fn := range fns {
		for _, b := range fn.Blocks {
			for _, in := range b.Instrs {
				st, ok := in.(*ssa.Store)
				if !ok {
					continue
				}
				k, isK := st.Val.(*ssa.Const)
				if !isK || !k.IsNil() {
					continue
				}
				if _, isMap := st.Val.Type().Underlying().(*types.Map); !isMap {
					continue
				}
				fa, ok := st.Addr.(*ssa.FieldAddr)
				if !ok {
					continue
				}
				if _, fresh := fa.X.(*ssa.Alloc); fresh {
					continue
				}
				// only close entry points: a finalizer that nils the maps of an unreachable object cannot be followed by an insert
				top := fn
				for top.Parent() != nil {
					top = top.Parent()
				}
				if !closeEntryNames[top.Name()] {
					continue
				}
				if nm := core.NamedOf(fa.X.Type()); nm != nil {
					nilled[key{nm, fa.Field}] = core.SSAFuncName(fn)
				}
			}
		}
	}
	n := 0
	for _, fn := range fns {
		for _, b := range fn.Blocks {
			for _, in := range b.Instrs {
				mu, ok := in.(*ssa.MapUpdate)
				if !ok {
					continue
				}
				k, base, ok := fieldOf(mu.Map)
				if !ok {
					continue
				}
				closer, isSentinel := nilled[k]
				if !isSentinel {
					continue
				}
				n++
				fname := k.named.Obj().Name() + "." + k.named.Underlying().(*types.Struct).Field(k.field).Name()
				mkPred := func(base ssa.Value) func(cond ssa.Value) int {
					return func(cond ssa.Value) int {
						// a one-level predicate method of the same receiver that returns the nil test
						if call, isCall := cond.(*ssa.Call); isCall {
							sc := call.Common().StaticCallee()
							if sc != nil && len(sc.Params) >= 1 && len(call.Common().Args) >= 1 && sameValue(call.Common().Args[0], base) {
								for _, hb := range sc.Blocks {
									for _, hin := range hb.Instrs {
										ret, isRet := hin.(*ssa.Return)
										if !isRet || len(ret.Results) != 1 {
											continue
										}
										hbo, isB := ret.Results[0].(*ssa.BinOp)
										if !isB || (hbo.Op != token.NEQ && hbo.Op != token.EQL) {
											continue
										}
										for _, pair := range [][2]ssa.Value{{hbo.X, hbo.Y}, {hbo.Y, hbo.X}} {
											kk, bb, isF := fieldOf(pair[0])
											cst, isC := pair[1].(*ssa.Const)
											if isF && isC && cst.IsNil() && kk == k && bb == sc.Params[0] {
												if hbo.Op == token.NEQ {
													return 1
												}
												return -1
											}
										}
									}
								}
							}
							return 0
						}
						bo, isB := cond.(*ssa.BinOp)
						if !isB || (bo.Op != token.NEQ && bo.Op != token.EQL) {
							return 0
						}
						for _, pair := range [][2]ssa.Value{{bo.X, bo.Y}, {bo.Y, bo.X}} {
							kk, bb, isF := fieldOf(pair[0])
							cst, isC := pair[1].(*ssa.Const)
							if isF && isC && cst.IsNil() && kk == k && sameValue(bb, base) {
								if bo.Op == token.NEQ {
									return 1
								}
								return -1
							}
						}
						return 0
					}
				}
				ok2 := guardedBy(b, mkPred(base))
				if !ok2 {
					// the insert is an extracted step of a function that made the test: every call of it is guarded, for the
					// object it is called on
					if _, isParam := base.(*ssa.Parameter); isParam && len(fn.Params) > 0 && base == ssa.Value(fn.Params[0]) {
						ok2 = everyCallerGuarded(fns, fn, mkPred)
					}
				}
				c.Check(ok2, "R10.7", "insert into "+fname+" in "+core.SSAFuncName(fn)+" is guarded by the closed-sentinel test", mu.Pos(),
					"dominated by the passed test "+fname+" != nil",
					fname+" is set to nil by "+closer+" (closing), and this insert is not dominated by a nil test of it: a request that passed the runtime's closed check before the close panics with 'assignment to entry in nil map' instead of failing with an error")
			}
		}
	}
	c.Count("sentinel_map_inserts", n)
	if n == 0 {
		c.Undecided("R10.7", "inserts into maps nil-ed on close", 0, "none found")
	}
}

// ---------------------------------------------------------------------------------------------------------
// R10.8: with close-on-context-done the watcher only sets the closed word; releasing the instance's resources (and its
// close notification) is left to the call in flight, whose exit path must therefore complete the close on every branch –
// in particular on the branch taken when the call ended in a panic (trap, host panic).

func checkExitPathCompletesClose(c *core.Ctx) {
	for _, e := range []struct{ name, rel string }{{"interpreter", "internal/engine/interpreter"}, {"compiler", wzv}} {
		p := c.Pkg(e.rel)
		if p == nil {
			continue
		}
		info := p.TypesInfo
		found := false
		core.AllFuncDecls(p, func(fd *ast.FuncDecl) {
			startsWatcher := false
			ast.Inspect(fd.Body, func(x ast.Node) bool {
				if call, ok := x.(*ast.CallExpr); ok {
					if f := core.Callee(info, call); f != nil && f.Name() == "CloseModuleOnCanceledOrTimeout" {
						startsWatcher = true
					}
				}
				return true
			})
			if !startsWatcher {
				return
			}
			for _, s := range fd.Body.List {
				ds, ok := s.(*ast.DeferStmt)
				if !ok {
					continue
				}
				// the deferred exit path: a function literal, or a named function/method of the package
				var flBody *ast.BlockStmt
				if lit, ok := ds.Call.Fun.(*ast.FuncLit); ok {
					flBody = lit.Body
				} else if f := core.Callee(info, ds.Call); f != nil && f.Pkg() == p.Types {
					if hd := declOf(p, f); hd != nil {
						flBody = hd.Body
					}
				}
				if flBody == nil {
					continue
				}
				fl := struct{ Body *ast.BlockStmt }{flBody}
				// the recovered value and the statement testing it
				var recVar types.Object
				var test *ast.IfStmt
				for _, st := range fl.Body.List {
					switch y := st.(type) {
					case *ast.AssignStmt:
						if len(y.Rhs) == 1 {
							if call, ok := y.Rhs[0].(*ast.CallExpr); ok && core.IsBuiltin(info, call, "recover") {
								if id, ok := y.Lhs[0].(*ast.Ident); ok {
									recVar = info.Defs[id]
								}
							}
						}
					case *ast.IfStmt:
						if as, ok := y.Init.(*ast.AssignStmt); ok && len(as.Rhs) == 1 {
							if call, ok := as.Rhs[0].(*ast.CallExpr); ok && core.IsBuiltin(info, call, "recover") {
								test = y
							}
						}
						if be, ok := y.Cond.(*ast.BinaryExpr); ok && be.Op == token.NEQ && test == nil && recVar != nil {
							if id, ok := be.X.(*ast.Ident); ok && info.Uses[id] == recVar {
								if nl, ok := be.Y.(*ast.Ident); ok && nl.Name == "nil" {
									test = y
								}
							}
						}
					}
				}
				if test == nil {
					continue
				}
				found = true
				calls := func(n ast.Node) bool {
					r := false
					if n == nil {
						return false
					}
					ast.Inspect(n, func(x ast.Node) bool {
						if call, ok := x.(*ast.CallExpr); ok {
							if f := core.Callee(info, call); f != nil && f.Name() == "FailIfClosed" {
								r = true
							} else if f != nil && f.Pkg() == p.Types {
								// a helper of the package doing it (one level)
								if hd := declOf(p, f); hd != nil && hd != fd {
									ast.Inspect(hd.Body, func(y ast.Node) bool {
										if hc, ok := y.(*ast.CallExpr); ok {
											if g := core.Callee(info, hc); g != nil && g.Name() == "FailIfClosed" {
												r = true
											}
										}
										return true
									})
								}
							}
						}
						return true
					})
					return r
				}
				before := false
				for _, st := range fl.Body.List {
					if st == ast.Stmt(test) {
						break
					}
					if calls(st) {
						before = true
					}
				}
				// … and where the exit path singles out the stack-overflow error (reported by a plain return on the compiler),
				// that branch completes the close too
				ast.Inspect(fl.Body, func(x ast.Node) bool {
					is, ok := x.(*ast.IfStmt)
					if !ok {
						return true
					}
					be, ok := ast.Unparen(is.Cond).(*ast.BinaryExpr)
					if !ok || (be.Op != token.NEQ && be.Op != token.EQL) || !strings.Contains(core.ExprStr(be), "ErrRuntimeStackOverflow") {
						return true
					}
					var branch ast.Node = is.Body
					if be.Op == token.NEQ {
						branch = is.Else
					}
					okb := before
					if branch != nil {
						okb = okb || calls(branch)
						// one-level helper
						ast.Inspect(branch, func(y ast.Node) bool {
							if call, ok := y.(*ast.CallExpr); ok {
								if f := core.Callee(info, call); f != nil {
									core.AllFuncDecls(p, func(g *ast.FuncDecl) {
										if info.Defs[g.Name] == types.Object(f) && g != fd && calls(g.Body) {
											okb = true
										}
									})
								}
							}
							return true
						})
					}
					c.Check(okb, "R10.8", e.name+": the exit path of "+fd.Name.Name+" completes a pending close also when the call ended in stack overflow", is.Pos(),
						"FailIfClosed is called in the stack-overflow branch",
						"the stack-overflow branch of the exit path does not call FailIfClosed: a module closed asynchronously in the middle of an unbounded recursion stays half closed (no close notification, file system and code closer not released)")
					return true
				})
				c.Check(before || calls(test.Body), "R10.8", e.name+": the exit path of "+fd.Name.Name+" completes a pending close also when the call ended in a panic", test.Pos(),
					"FailIfClosed is called before the recovered value is tested, or in the branch handling it",
					"FailIfClosed is only called when the call returned normally: a module closed asynchronously (close on context done) while its call in flight ends in a trap or host panic keeps the 'resources not closed' state for ever – no close notification, file system and allocator memory never released, Close is a no-op")
			}
		})
		if !found {
			c.Undecided("R10.8", e.name+": deferred exit path of the call entry", 0, "not found")
		}
	}
}

// ---------------------------------------------------------------------------------------------------------
// R10.9: what the close path consumes (the fields read by the resource-release function) is in place before the instance is
// registered: a store to such a field of an instance obtained from the registering call happens after other goroutines can
// already close it (Runtime.Module(name).Close, Runtime.Close), which then miss the notification / code closer.

func checkCloseInputsSetBeforePublication(c *core.Ctx) {
	wp := c.Pkg("internal/wasm")
	miNamed := namedIn(c, "internal/wasm", "ModuleInstance")
	if wp == nil || miNamed == nil {
		return
	}
	st := miNamed.Underlying().(*types.Struct)
	// fields the release function reads
	consumed := map[int]bool{}
	var release *ssa.Function
	for _, fn := range moduleFns(c, "internal/wasm") {
		if fn.Name() == "ensureResourcesClosed" && fn.Parent() == nil {
			release = fn
		}
	}
	if release == nil {
		c.Undecided("R10.9", "resource-release function", 0, "ensureResourcesClosed not found")
		return
	}
	for _, b := range release.Blocks {
		for _, in := range b.Instrs {
			if fa, ok := in.(*ssa.FieldAddr); ok && core.NamedOf(fa.X.Type()) == miNamed && len(release.Params) > 0 && fa.X == release.Params[0] {
				for _, r := range *fa.Referrers() {
					if u, ok := r.(*ssa.UnOp); ok && u.Op == token.MUL {
						consumed[fa.Field] = true
					}
				}
			}
		}
	}
	// the registering calls: functions of internal/wasm that (transitively, depth 2) call registerModule
	registers := map[*ssa.Function]bool{}
	for pass := 0; pass < 2; pass++ {
		for _, fn := range moduleFns(c, "internal/wasm") {
			for _, b := range fn.Blocks {
				for _, in := range b.Instrs {
					if call, ok := in.(*ssa.Call); ok {
						if sc := call.Common().StaticCallee(); sc != nil && (sc.Name() == "registerModule" || registers[sc]) {
							registers[fn] = true
						}
					}
				}
			}
		}
	}
	if len(registers) == 0 {
		c.Undecided("R10.9", "registering calls", 0, "no caller of registerModule found")
		return
	}
	fromRegistering := func(v ssa.Value) bool {
		for d := 0; d < 6 && v != nil; d++ {
			switch x := v.(type) {
			case *ssa.TypeAssert:
				v = x.X
			case *ssa.Extract:
				v = x.Tuple
			case *ssa.ChangeInterface:
				v = x.X
			case *ssa.MakeInterface:
				v = x.X
			case *ssa.Call:
				if sc := x.Common().StaticCallee(); sc != nil && registers[sc] {
					return true
				}
				return false
			default:
				return false
			}
		}
		return false
	}
	n := 0
	for _, fn := range moduleFns(c, "", "internal/wasm") {
		if registers[fn] {
			continue
		}
		for _, b := range fn.Blocks {
			for _, in := range b.Instrs {
				sto, ok := in.(*ssa.Store)
				if !ok {
					continue
				}
				fa, ok := sto.Addr.(*ssa.FieldAddr)
				if !ok || core.NamedOf(fa.X.Type()) != miNamed || !consumed[fa.Field] {
					continue
				}
				if !fromRegistering(fa.X) {
					continue
				}
				n++
				c.Violate("R10.9", "ModuleInstance."+st.Field(fa.Field).Name()+" is set in "+core.SSAFuncName(fn)+" before the instance is registered", sto.Pos(),
					"the field is read by the close path ("+release.Name()+") and is assigned to an instance returned by the registering call, i.e. after Runtime.Module / Runtime.Close can already reach and close it: that close runs without it (no close notification / compiled code not released), and the plain write races with the close path's read")
			}
		}
	}
	c.Count("close_inputs_set_after_publication", n)
	c.Discharge("R10.9", "fields consumed by the close path are otherwise set before registration", release.Pos(), fmt.Sprintf("%d consumed fields, %d registering functions scanned", len(consumed), len(registers)))
}
