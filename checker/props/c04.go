package props

import (
	"fmt"
	"go/ast"
	"go/token"
	"go/types"
	"sort"
	"strings"

	"golang.org/x/tools/go/ssa"

	"verif/checker/core"
)

// C04 Linked modules share state exactly as the specification says (structural clauses).

func init() {
	core.Register(&core.Property{
		ID:    "C04",
		Level: "other",
		Explanation: "Decided (necessary conditions, for every import graph): (R04.1) resolving an import stores the exporter's very object into the importer's slot (SSA value identity for tables, memory and globals; functions are resolved through the engine with the exporter's engine) – no copy; " +
			"(R04.2) each extern kind's link-time check consults every component of the type (table: Type, Min, Max; memory: Min, Max, sharedness; global: Mutable, ValType; function: signature comparison) and each comparison guards an error return; " +
			"(R04.3) the captured value of a global (GlobalInstance.Val/ValHi, stale once an engine owns the global) is read directly only by the accessor methods, the engines and the instantiation-time constant-expression evaluators (sound because C03 R03.2 admits only immutable imported globals there); " +
			"(R04.4) every path that makes a table reachable from another instance records that instance in the table's keep-alive list under its mutex; (R04.5) index spaces are not mixed: the import section is indexed only by its own loop variable, and the index recorded for an imported function is the function-space index its consumers compare against the import count; " +
			"(R04.6) after every lowered call every mutable global is re-read unconditionally; (R04.8) the Go side of instance-relative builtins (memory.grow, table.grow, ref.func, wait/notify, listeners) acts on the calling instance, not on the entry instance. " +
			"(R04.9) the interpreter re-uses the frame for return_call_indirect only within the same instance; (R04.10) a store to an imported global reloads the other imported mutable globals, which may alias it (genuine compiler defect found and fixed); (R04.11) the reference of an imported function is the defining module's function instance (genuine compiler defect found and fixed: LookupFunction resolved to function 0 of the exporter); (R04.14) a method of GlobalInstance reads the captured value only after consulting the owning engine (genuine defect found and fixed: String printed the initial value for ever on the compiler); (R04.15) the i32 result of a constant expression used as a segment offset is converted to an unsigned value before any comparison or widening (genuine defect found and fixed: data segments at offsets ≥ 2^31 were refused); (R04.16) instantiation writes the active element segments before the active data segments (known finding: the order is reversed, so a trapping data segment leaves the element segments unapplied). (R04.12) active element segments write every slot they cover – a `ref.null` initialiser is skipped on this tree (known finding, pinned by an existing unit test). " +
			"(R04.13) every nested call in the interpreter passes the running function's own instance as the calling module. NOT decided: visibility of writes through generated code, state after a failed instantiation.",
		Rules: []core.Rule{
			{ID: "R04.13", Template: "T-SIBLING", Text: "nested calls in the interpreter pass the running function's own instance as the calling module", Min: 1},
			{ID: "R04.9", Template: "T-CONSULT", Text: "interpreter return_call_indirect re-uses the frame only within the same instance", Min: 1},
			{ID: "R04.17", Template: "T-CONSULT", Text: "the host-side table lookup creates the function with the engine of the instance that defines it", Min: 1},
			{ID: "R04.10", Template: "T-MUSTPASS", Text: "a store to an imported global reloads the other imported mutable globals (genuine defect found and fixed)", Min: 1},
			{ID: "R04.11", Template: "T-SIBLING", Text: "wazevo: the reference of an imported function is the defining module's function instance (genuine defect found and fixed)", Min: 1},
			{ID: "R04.12", Template: "T-MUSTPASS", Text: "active element segments write every slot they cover, null initialisers included (known finding)", Min: 1},
			{ID: "R04.14", Template: "T-CONSULT", Text: "GlobalInstance methods read the captured value only after consulting the owner (genuine defect found and fixed: String)", Min: 1},
			{ID: "R04.15", Template: "T-REPR", Text: "i32 constant-expression results (segment offsets) are used as unsigned 32-bit values (genuine defect found and fixed)", Min: 1},
			{ID: "R04.16", Template: "T-ORDER", Text: "instantiation applies active element segments before active data segments (known finding)", Min: 1},
			{ID: "R04.1", Template: "T-WHOWRITES", Text: "import slots receive the exporter's object itself", Min: 3},
			{ID: "R04.2", Template: "T-CONSULT", Text: "per-kind link-time type match is complete", Min: 9},
			{ID: "R04.3", Template: "T-WHOCALLS", Text: "direct readers of GlobalInstance.Val/ValHi are the listed ones", Min: 1},
			{ID: "R04.4", Template: "T-MUSTPASS", Text: "table importers/exporters recorded in the keep-alive list under the mutex", Min: 2},
			{ID: "R04.5", Template: "T-REPR", Text: "index spaces are not mixed (import section; imported function index)", Min: 2},
			{ID: "R04.6", Template: "T-MUSTPASS", Text: "all mutable globals re-read after a call, unconditionally", Min: 1},
			{ID: "R04.8", Template: "T-SIBLING", Text: "Go-side builtins act on the calling instance", Min: 1},
		},
		Run: runC04,
		Controls: []core.Control{
			{Name: "lookup-uses-own-engine", File: "internal/wasm/module_instance_lookup.go", Old: "\t\treturn fm.Engine.NewFunction(index)\n", New: "\t\treturn m.Engine.NewFunction(index)\n", Rule: "R04.17", Substr: "defines it"},
			{Name: "global-string-prints-captured-value", File: "internal/wasm/store.go", Old: "\t\treturn fmt.Sprintf(\"global(%d)\", val)", New: "\t\treturn fmt.Sprintf(\"global(%d)\", g.Val)", Rule: "R04.14", Substr: "String"},
			{Name: "data-offset-signed", File: "internal/wasm/store.go", Old: "\t\t\toffset := uint64(uint32(executeConstExpressionI32(m.Globals, &d.OffsetExpression)))\n\t\t\tif offset+uint64(len(d.Init)) > uint64(len(m.MemoryInstance.Buffer)) {", New: "\t\t\toffset := int(executeConstExpressionI32(m.Globals, &d.OffsetExpression))\n\t\t\tif offset < 0 || offset+len(d.Init) > len(m.MemoryInstance.Buffer) {", Rule: "R04.15", Substr: "offset"},
			{Name: "tail-call-fallback-passes-callers-module", File: "internal/engine/interpreter/interpreter.go", Old: "\t\t\t\t// Revert to a normal call.\n\t\t\t\tce.callFunction(ctx, f.moduleInstance, tf)", New: "\t\t\t\t// Revert to a normal call.\n\t\t\t\tce.callFunction(ctx, m, tf)", Rule: "R04.13", Substr: "calling module"},
			{Name: "tail-call-guard-compares-modules", File: "internal/engine/interpreter/interpreter.go", Old: "if tf.moduleInstance != f.moduleInstance {", New: "if tf.parent.source != f.parent.source {", Rule: "R04.9", Substr: "return_call_indirect"},
			{Name: "aliased-globals-not-reloaded", File: "internal/engine/wazevo/frontend/lower.go", Old: "\t\tfor _, other := range c.mutableGlobalVariablesIndexes {\n\t\t\tif other != index && other < c.m.ImportGlobalCount {\n\t\t\t\t_ = c.getWasmGlobalValue(other, true)\n\t\t\t}\n\t\t}\n", New: "", Rule: "R04.10", Substr: "imported global"},
			{Name: "imported-function-reference-from-own-opaque", File: "internal/engine/wazevo/module_engine.go", Old: "\t\timported := &m.importedFunctions[funcIndex]\n\t\treturn imported.me.FunctionInstanceReference(imported.indexInModule)\n", New: "\t\tbegin, _, _ := m.parent.offsets.ImportedFunctionOffset(funcIndex)\n\t\treturn uintptr(unsafe.Pointer(&m.opaque[begin]))\n", Rule: "R04.11", Substr: "imported function"},
			{Name: "global-copied-on-import", File: "internal/wasm/store.go", Old: "\t\t\t\tm.Globals[i.IndexPerType] = importedGlobal\n", New: "\t\t\t\tcp := *importedGlobal\n\t\t\t\tm.Globals[i.IndexPerType] = &cp\n", Rule: "R04.1", Substr: "Globals"},
			{Name: "table-type-unchecked", File: "internal/wasm/store.go", Old: "\t\t\t\tif expected.Type != importedTable.Type {\n\t\t\t\t\terr = errorInvalidImport(i, fmt.Errorf(\"table type mismatch: %s != %s\",\n\t\t\t\t\t\tRefTypeName(expected.Type), RefTypeName(importedTable.Type)))\n\t\t\t\t\treturn\n\t\t\t\t}\n", New: "", Rule: "R04.2", Substr: "table"},
			{Name: "memory-shared-one-direction", File: "internal/wasm/store.go", Old: "if expected.IsShared != importedMemory.Shared {", New: "if importedMemory.Shared && !expected.IsShared {", Rule: "R04.2", Substr: "sharedness must be equal"},
			{Name: "memory-shared-unchecked", File: "internal/wasm/store.go", Old: "\t\t\t\tif expected.IsShared != importedMemory.Shared {\n\t\t\t\t\terr = errorInvalidImport(i, fmt.Errorf(\"shared mismatch: %t != %t\",\n\t\t\t\t\t\texpected.IsShared, importedMemory.Shared))\n\t\t\t\t\treturn\n\t\t\t\t}\n", New: "", Rule: "R04.2", Substr: "memory"},
			{Name: "global-mutability-unchecked", File: "internal/wasm/store.go", Old: "\t\t\t\tif expected.Mutable != importedGlobal.Type.Mutable {", New: "\t\t\t\tif false {", Rule: "R04.2", Substr: "global"},
			{Name: "import-keepalive-dropped", File: "internal/wasm/store.go", Old: "\t\t\t\timportedTable.involvingModuleInstances = append(importedTable.involvingModuleInstances, m)\n", New: "", Rule: "R04.4", Substr: "import"},
			{Name: "imported-function-local-index", File: "internal/engine/wazevo/module_engine.go", Old: "importedFunction{me: importedME, indexInModule: indexInModule}", New: "importedFunction{me: importedME, indexInModule: indexInImportedModule}", Rule: "R04.5", Substr: "indexInModule", Old2: "\tindexInModule := indexInImportedModule\n", New2: "\tindexInModule := indexInImportedModule\n\t_ = indexInModule\n"},
			{Name: "import-section-by-funcidx", File: "internal/wasm/module.go", Old: "\tif funcIdx < importedFunctionCount {\n", New: "\tif funcIdx < importedFunctionCount {\n\t\tif imp := &m.ImportSection[funcIdx]; imp.Type == ExternTypeFunc && imp.DescFunc < typeSectionLength {\n\t\t\treturn &m.TypeSection[imp.DescFunc]\n\t\t}\n", Rule: "R04.5", Substr: "ImportSection"},
			{Name: "globals-not-reloaded-for-imports", File: "internal/engine/wazevo/frontend/lower.go", Old: "\tfor _, index := range c.mutableGlobalVariablesIndexes {\n\t\t_ = c.getWasmGlobalValue(index, true)", New: "\tfor _, index := range c.mutableGlobalVariablesIndexes {\n\t\tif c.needListener && index >= c.m.ImportGlobalCount {\n\t\t\tcontinue\n\t\t}\n\t\t_ = c.getWasmGlobalValue(index, true)", Rule: "R04.6", Substr: "reload"},
			{Name: "grow-entry-module-memory", File: "internal/engine/wazevo/call_engine.go", Old: "\t\t\tmod := c.callerModuleInstance()\n\t\t\tmem := mod.MemoryInstance\n\t\t\ts := goCallStackView(c.execCtx.stackPointerBeforeGoCall)\n\t\t\targRes := &s[0]", New: "\t\t\tmem := m.MemoryInstance\n\t\t\ts := goCallStackView(c.execCtx.stackPointerBeforeGoCall)\n\t\t\targRes := &s[0]", Rule: "R04.8", Substr: "calling instance"},
		},
		Configs: []core.BuildCfg{{GOOS: "linux", GOARCH: "arm64"}},
	})
}

func runC04(c *core.Ctx) {
	checkSharednessRelation(c, "R04.2")
	checkRound2C04(c)
	checkBaseline3C04(c)
	checkInterpCallerInstance(c, "R04.13")
	checkLookupUsesDefiningEngine(c)
	c.SSA()
	wp := c.Pkg("internal/wasm")
	info := wp.TypesInfo
	resolve := core.FuncDecl(wp, "ModuleInstance", "resolveImports")
	if resolve == nil {
		c.Undecided("R04.1", "resolveImports", 0, "(*ModuleInstance).resolveImports not found")
		return
	}
	externArm := func(name string) *ast.CaseClause {
		k := wp.Types.Scope().Lookup(name)
		for _, r := range core.FindCaseClausesIn(wp, resolve, k) {
			return r.Clause
		}
		return nil
	}
	// ---- R04.2 consult: per arm, fields compared inside a condition that guards an error
	type need struct {
		arm    string
		label  string
		fields map[string][]string // struct type name → fields that must appear in a guarding comparison
		calls  []string            // or calls that must guard
	}
	needs := []need{
		{"ExternTypeTable", "table", map[string][]string{"Table": {"Type", "Min", "Max"}, "TableInstance": {"Type", "Min", "Max"}}, nil},
		{"ExternTypeMemory", "memory", map[string][]string{"Memory": {"Min", "Max", "IsShared"}, "MemoryInstance": {"Max", "Shared"}}, nil},
		{"ExternTypeGlobal", "global", map[string][]string{"GlobalType": {"Mutable", "ValType"}}, nil},
		{"ExternTypeFunc", "function", nil, []string{"EqualsSignature"}},
	}
	for _, nd := range needs {
		arm := externArm(nd.arm)
		if arm == nil {
			c.Undecided("R04.2", nd.label+" arm", resolve.Pos(), "arm for "+nd.arm+" not found in resolveImports")
			continue
		}
		// guarding conditions: conditions of if statements in the arm whose body assigns err / returns
		guarded := map[string]bool{}
		inspectGuards := func(n ast.Node) bool {
			is, ok := n.(*ast.IfStmt)
			if !ok {
				return true
			}
			fails := false
			ast.Inspect(is.Body, func(m ast.Node) bool {
				if _, ok := m.(*ast.ReturnStmt); ok {
					fails = true
				}
				return true
			})
			if !fails {
				return true
			}
			ast.Inspect(is.Cond, func(m ast.Node) bool {
				switch x := m.(type) {
				case *ast.SelectorExpr:
					if f := core.FieldOf(info, x); f != nil {
						if ow := core.NamedOf(info.Types[x.X].Type); ow != nil {
							guarded[ow.Obj().Name()+"."+f.Name()] = true
						}
					}
				case *ast.CallExpr:
					if f := core.Callee(info, x); f != nil {
						guarded["call:"+f.Name()] = true
					}
				}
				return true
			})
			return true
		}
		// the arm, and the helpers of the package which do its checks (one level): their rejecting conditions count
		for _, sn := range armScope(wp, arm) {
			ast.Inspect(sn, inspectGuards)
		}
		var typeNames []string
		for tn := range nd.fields {
			typeNames = append(typeNames, tn)
		}
		sort.Strings(typeNames)
		for _, tn := range typeNames {
			for _, f := range nd.fields[tn] {
				key := fmt.Sprintf("%s import checks %s.%s", nd.label, tn, f)
				c.Check(guarded[tn+"."+f], "R04.2", key, arm.Pos(), "compared in a condition that rejects the import",
					fmt.Sprintf("the %s import is linked without comparing %s.%s: an incompatible export is accepted and both sides disagree about the shared object", nd.label, tn, f))
			}
		}
		for _, cl := range nd.calls {
			c.Check(guarded["call:"+cl], "R04.2", fmt.Sprintf("%s import checks %s", nd.label, cl), arm.Pos(), "guards an error return", "the function import is linked without comparing signatures")
		}
	}

	// ---- R04.1 identity: stores into m.Tables[i] / m.MemoryInstance / m.Globals[i] in resolveImports take the exporter's object
	var resolveSSA *ssa.Function
	miNamed := namedIn(c, "internal/wasm", "ModuleInstance")
	if miNamed != nil {
		resolveSSA = c.SSA().FuncValue(core.ImplMethod(wp.Types, miNamed, "resolveImports"))
	}
	if resolveSSA == nil {
		c.Undecided("R04.1", "resolveImports SSA", 0, "function not built")
	} else {
		// the linker, and the methods of the instance it calls on its own receiver (one level): linkMemory, linkGlobal …
		linkFns := []*ssa.Function{resolveSSA}
		for _, b := range resolveSSA.Blocks {
			for _, in := range b.Instrs {
				if call, ok := in.(*ssa.Call); ok {
					if f := call.Common().StaticCallee(); f != nil && f.Blocks != nil && f.Signature.Recv() != nil && core.NamedOf(f.Signature.Recv().Type()) == miNamed &&
						len(call.Common().Args) > 0 && call.Common().Args[0] == ssa.Value(resolveSSA.Params[0]) && f != resolveSSA {
						linkFns = append(linkFns, f)
					}
				}
			}
		}
		var recvOf *ssa.Parameter
		fromExporter := func(v ssa.Value) bool {
			// load of importedModule.<field>[idx] or importedModule.MemoryInstance where importedModule is not the receiver
			seen := map[ssa.Value]bool{}
			var walk func(v ssa.Value, d int) bool
			walk = func(v ssa.Value, d int) bool {
				if v == nil || seen[v] || d > 8 {
					return false
				}
				seen[v] = true
				switch x := v.(type) {
				case *ssa.UnOp:
					if x.Op == token.MUL {
						return walk(x.X, d+1)
					}
				case *ssa.IndexAddr:
					return walk(x.X, d+1)
				case *ssa.FieldAddr:
					if core.NamedOf(x.X.Type()) == miNamed && x.X != ssa.Value(recvOf) {
						return true
					}
					return walk(x.X, d+1)
				case *ssa.Phi:
					for _, e := range x.Edges {
						if !walk(e, d+1) {
							return false
						}
					}
					return len(x.Edges) > 0
				}
				return false
			}
			return walk(v, 0)
		}
		st := miNamed.Underlying().(*types.Struct)
		found := map[string]bool{}
		for _, lf := range linkFns {
			recvOf = lf.Params[0]
			for _, b := range lf.Blocks {
				for _, in := range b.Instrs {
					s, ok := in.(*ssa.Store)
					if !ok {
						continue
					}
					slot := ""
					switch a := s.Addr.(type) {
					case *ssa.FieldAddr:
						if a.X == ssa.Value(recvOf) {
							slot = st.Field(a.Field).Name()
						}
					case *ssa.IndexAddr:
						if ld, ok := a.X.(*ssa.UnOp); ok {
							if fa, ok := ld.X.(*ssa.FieldAddr); ok && fa.X == ssa.Value(recvOf) {
								slot = st.Field(fa.Field).Name()
							}
						}
					}
					if slot != "Tables" && slot != "Globals" && slot != "MemoryInstance" {
						continue
					}
					found[slot] = true
					c.Check(fromExporter(s.Val), "R04.1", "import slot "+slot+" receives the exporter's object", s.Pos(), "the stored value is loaded from the exporting instance",
						"the importer's "+slot+" slot receives a value that is not the exporter's object itself (a copy): writes through one instance are invisible to the other")
				}
			}
		}
		for _, slot := range []string{"Tables", "Globals", "MemoryInstance"} {
			if !found[slot] {
				c.Undecided("R04.1", "import slot "+slot, resolveSSA.Pos(), "no assignment of the importer's "+slot+" slot found in resolveImports")
			}
		}
	}

	// ---- R04.3 direct readers of GlobalInstance.Val / ValHi
	giNamed := namedIn(c, "internal/wasm", "GlobalInstance")
	if giNamed != nil {
		allowed := map[string]string{
			"internal/wasm":               "accessor methods, instantiation-time constant-expression evaluators and global construction",
			"internal/engine/wazevo":      "the engine that owns compiled globals copies values in/out when it takes ownership",
			"internal/engine/interpreter": "the interpreter never hands globals to an engine-owned slot: Val is the live value",
		}
		readers := map[string]int{}
		var bad []string
		for fn := range c.AllFunctions() {
			if !core.InModule(fn) || fn.Blocks == nil {
				continue
			}
			for _, b := range fn.Blocks {
				for _, in := range b.Instrs {
					fa, ok := in.(*ssa.FieldAddr)
					if !ok || core.NamedOf(fa.X.Type()) != giNamed {
						continue
					}
					fname := giNamed.Underlying().(*types.Struct).Field(fa.Field).Name()
					if fname != "Val" && fname != "ValHi" {
						continue
					}
					top := fn
					for top.Parent() != nil {
						top = top.Parent()
					}
					pkg := ""
					if top.Pkg != nil {
						pkg = core.Rel(top.Pkg.Pkg.Path())
					}
					readers[pkg]++
					if _, ok := allowed[pkg]; !ok {
						bad = append(bad, core.SSAFuncName(fn)+" at "+c.Pos(fa.Pos()))
					}
				}
			}
		}
		sort.Strings(bad)
		var rs []string
		for p, n := range readers {
			rs = append(rs, fmt.Sprintf("%s×%d", p, n))
		}
		sort.Strings(rs)
		c.Check(len(bad) == 0, "R04.3", "direct readers of GlobalInstance.Val/ValHi", giNamed.Obj().Pos(), "only "+strings.Join(rs, ", "),
			"GlobalInstance.Val is read directly (it is stale once an engine owns the global) outside the listed packages: "+strings.Join(bad, "; "))
	}

	// ---- R04.4 keep-alive list
	{
		// import arm: append under lock; export loop in instantiate: append under lock (C10 R10.1 checks the lock; here: existence)
		tableArm := externArm("ExternTypeTable")
		appendIn := func(n ast.Node) bool {
			found := false
			if n == nil {
				return false
			}
			ast.Inspect(n, func(m ast.Node) bool {
				if as, ok := m.(*ast.AssignStmt); ok && len(as.Lhs) == 1 {
					if f := core.FieldOf(info, as.Lhs[0]); f != nil && f.Name() == "involvingModuleInstances" {
						if call, ok := as.Rhs[0].(*ast.CallExpr); ok && core.IsBuiltin(info, call, "append") {
							found = true
						}
					}
				}
				return true
			})
			return found
		}
		importRecords := false
		if tableArm != nil {
			for _, sn := range armScope(wp, tableArm) { // the arm, or the method it hands the linking to
				if appendIn(sn) {
					importRecords = true
				}
			}
		}
		c.Check(importRecords, "R04.4", "table import records the importer", resolve.Pos(), "the importing instance is appended to the table's keep-alive list", "importing a table does not record the importer: references the importer stores in the table can outlive its code")
		inst := core.FuncDecl(wp, "Store", "instantiate")
		ok := false
		if inst != nil {
			// in instantiate itself or in a helper it calls (one level)
			for _, sn := range armScope(wp, inst.Body) {
				ast.Inspect(sn, func(n ast.Node) bool {
					if rs, isR := n.(*ast.RangeStmt); isR && appendIn(rs.Body) {
						ok = true
					}
					return true
				})
			}
		}
		pos := token.NoPos
		if inst != nil {
			pos = inst.Pos()
		}
		c.Check(ok, "R04.4", "table export records the exporter", pos, "every exported table records the exporting instance", "exporting a table does not record the exporter in its keep-alive list")
	}

	// ---- R04.5 index spaces
	{
		var bad []string
		n := 0
		for _, p := range c.WazeroPkgs() {
			core.AllFuncDecls(p, func(fd *ast.FuncDecl) {
				// range / for loop variables over an ImportSection
				loopVars := map[types.Object]bool{}
				ast.Inspect(fd.Body, func(x ast.Node) bool {
					switch r := x.(type) {
					case *ast.RangeStmt:
						if f := core.FieldOf(p.TypesInfo, r.X); f != nil && f.Name() == "ImportSection" {
							if id, ok := r.Key.(*ast.Ident); ok {
								loopVars[p.TypesInfo.Defs[id]] = true
							}
						}
					case *ast.ForStmt:
						if be, ok := r.Cond.(*ast.BinaryExpr); ok {
							refs := false
							ast.Inspect(be.Y, func(m ast.Node) bool {
								if se, ok := m.(*ast.SelectorExpr); ok && se.Sel.Name == "ImportSection" {
									refs = true
								}
								return true
							})
							if id, ok := be.X.(*ast.Ident); ok && refs {
								loopVars[p.TypesInfo.Uses[id]] = true
							}
						}
					}
					return true
				})
				ast.Inspect(fd.Body, func(x ast.Node) bool {
					ix, ok := x.(*ast.IndexExpr)
					if !ok {
						return true
					}
					if f := core.FieldOf(p.TypesInfo, ix.X); f == nil || f.Name() != "ImportSection" || !core.IsNamed(p.TypesInfo.Types[ast.Unparen(ix.X).(*ast.SelectorExpr).X].Type, core.Module+"/internal/wasm", "Module") {
						return true
					}
					n++
					id, isID := ast.Unparen(ix.Index).(*ast.Ident)
					if !isID || !loopVars[p.TypesInfo.Uses[id]] {
						bad = append(bad, fmt.Sprintf("%s indexes ImportSection with `%s` at %s", core.FuncName(p, fd), core.ExprStr(ix.Index), c.Pos(ix.Pos())))
					}
					return true
				})
			})
		}
		sort.Strings(bad)
		if n < 5 {
			c.Undecided("R04.5", "ImportSection indexing", 0, fmt.Sprintf("only %d index sites found", n))
		} else {
			c.Check(len(bad) == 0, "R04.5", "ImportSection indexed only by its own loop variable", 0, fmt.Sprintf("%d index sites", n),
				"the import section (which mixes functions, tables, memories and globals) is indexed by a value of another index space: "+strings.Join(bad, "; "))
		}
	}
	// imported function index (wazevo)
	if ep := c.Pkg("internal/engine/wazevo"); ep != nil {
		ifNamed := namedIn(c, "internal/engine/wazevo", "importedFunction")
		meNamed := namedIn(c, "internal/engine/wazevo", "moduleEngine")
		if ifNamed == nil || meNamed == nil {
			c.Undecided("R04.5", "importedFunction", 0, "wazevo.importedFunction not found")
		} else {
			fn := c.SSA().FuncValue(core.ImplMethod(ep.Types, meNamed, "ResolveImportedFunction"))
			ok, why := false, "no store of importedFunction.indexInModule found"
			if fn != nil {
				for _, b := range fn.Blocks {
					for _, in := range b.Instrs {
						s, isS := in.(*ssa.Store)
						if !isS {
							continue
						}
						fa, isFA := s.Addr.(*ssa.FieldAddr)
						if !isFA || core.NamedOf(fa.X.Type()) != ifNamed || ifNamed.Underlying().(*types.Struct).Field(fa.Field).Name() != "indexInModule" {
							continue
						}
						// the value must be the function's index parameter itself, not the result of a subtraction
						if _, isParam := s.Val.(*ssa.Parameter); isParam {
							ok = true
						} else {
							why = fmt.Sprintf("the index stored at %s is a derived value (%T): consumers compare it with the import count, so it must stay in the function index space", c.Pos(s.Pos()), s.Val)
						}
					}
				}
			}
			c.Check(ok, "R04.5", "importedFunction.indexInModule is a function-space index", token.NoPos, "the stored index is the function-space parameter itself", why+" – a re-exported imported function resolves to another function")
		}
	}

	// ---- R04.6 all mutable globals reloaded after a call
	if fp := c.Pkg("internal/engine/wazevo/frontend"); fp != nil {
		finfo := fp.TypesInfo
		found := false
		// the store of a global has its own, filtered reload (R04.10): it and the helpers it calls are not call reloads
		storeSide := map[*ast.FuncDecl]bool{}
		if setFd := core.FuncDecl(fp, "Compiler", "setWasmGlobalValue"); setFd != nil {
			storeSide[setFd] = true
			ast.Inspect(setFd.Body, func(n ast.Node) bool {
				if call, ok := n.(*ast.CallExpr); ok {
					if f := core.Callee(finfo, call); f != nil && f.Pkg() == fp.Types {
						if hd := declOf(fp, f); hd != nil {
							storeSide[hd] = true
						}
					}
				}
				return true
			})
		}
		core.AllFuncDecls(fp, func(fd *ast.FuncDecl) {
			if storeSide[fd] {
				return
			}
			for _, s := range fd.Body.List {
				rs, ok := s.(*ast.RangeStmt)
				if !ok {
					continue
				}
				f := core.FieldOf(finfo, rs.X)
				if f == nil || !strings.Contains(strings.ToLower(f.Name()), "mutableglobal") {
					continue
				}
				found = true
				// loop body: a single unconditional reload statement
				var bad []string
				ast.Inspect(rs.Body, func(m ast.Node) bool {
					switch m.(type) {
					case *ast.IfStmt, *ast.BranchStmt, *ast.SwitchStmt:
						bad = append(bad, "the loop over the mutable globals skips some of them conditionally at "+c.Pos(m.Pos()))
					}
					return true
				})
				reloads := false
				ast.Inspect(rs.Body, func(m ast.Node) bool {
					if call, ok := m.(*ast.CallExpr); ok && len(call.Args) == 2 {
						if id, ok := call.Args[1].(*ast.Ident); ok && id.Name == "true" {
							reloads = true
						}
					}
					return true
				})
				if !reloads {
					bad = append(bad, "the loop does not force a reload")
				}
				c.Check(len(bad) == 0, "R04.6", "reload of mutable globals in "+fd.Name.Name, rs.Pos(), "every mutable global is re-read after a call, unconditionally",
					strings.Join(bad, "; ")+": a global written by the callee (or by code it re-enters) keeps its stale cached value in the caller")
			}
		})
		if !found {
			c.Undecided("R04.6", "reload of mutable globals", 0, "no loop over the mutable globals found in the frontend")
		}
	}

	// ---- R04.8 Go-side builtins act on the calling instance
	checkBuiltinsActOnCaller(c, "R04.8")
}

// checkBuiltinsActOnCaller: in the arms of the Go-side exit-code loop every access to per-instance state goes through
// the instance returned by callerModuleInstance(), never through the entry instance (the module whose export was called).
func checkBuiltinsActOnCaller(c *core.Ctx, rule string) {
	ep := c.Pkg("internal/engine/wazevo")
	if ep == nil {
		return
	}
	einfo := ep.TypesInfo
	api := c.Pkg("internal/engine/wazevo/wazevoapi")
	var loopFn *ast.FuncDecl
	var sw *ast.SwitchStmt
	if api != nil {
		if ok := api.Types.Scope().Lookup("ExitCodeOK"); ok != nil {
			for _, r := range core.FindCaseClauses(ep, ok) {
				if loopFn == nil || len(r.Switch.Body.List) > len(sw.Body.List) {
					loopFn, sw = r.Fn, r.Switch
				}
			}
		}
	}
	if loopFn == nil {
		c.Undecided(rule, "exit-code loop", 0, "the Go-side exit-code dispatch was not found")
		return
	}
	isCallerCall := func(e ast.Expr) bool {
		call, ok := ast.Unparen(e).(*ast.CallExpr)
		return ok && strings.Contains(core.ExprStr(call.Fun), "callerModuleInstance")
	}
	perInstance := map[string]bool{"MemoryInstance": true, "Tables": true, "Globals": true, "Engine": true, "ElementInstances": true, "DataInstances": true, "Source": true}
	var bad []string
	n := 0
	for _, cs := range sw.Body.List {
		cc := cs.(*ast.CaseClause)
		// identifiers bound to the calling instance inside this arm
		caller := map[types.Object]bool{}
		ast.Inspect(cc, func(m ast.Node) bool {
			if as, ok := m.(*ast.AssignStmt); ok {
				for i, l := range as.Lhs {
					if id, ok := l.(*ast.Ident); ok && i < len(as.Rhs) && isCallerCall(as.Rhs[i]) {
						if o := einfo.Defs[id]; o != nil {
							caller[o] = true
						} else if o := einfo.Uses[id]; o != nil {
							caller[o] = true
						}
					}
				}
			}
			return true
		})
		ast.Inspect(cc, func(m ast.Node) bool {
			se, ok := m.(*ast.SelectorExpr)
			if !ok || !perInstance[se.Sel.Name] {
				return true
			}
			if f := core.FieldOf(einfo, se); f == nil {
				return true
			}
			if !core.IsNamed(einfo.Types[se.X].Type, core.Module+"/internal/wasm", "ModuleInstance") {
				return true
			}
			n++
			okX := isCallerCall(se.X)
			if id, isID := ast.Unparen(se.X).(*ast.Ident); isID && caller[einfo.Uses[id]] {
				okX = true
			}
			if !okX {
				lab := ""
				if len(cc.List) > 0 {
					lab = core.ExprStr(cc.List[0])
				}
				bad = append(bad, fmt.Sprintf("arm %s uses `%s` at %s", lab, core.ExprStr(se), c.Pos(se.Pos())))
			}
			return true
		})
	}
	sort.Strings(bad)
	c.Check(len(bad) == 0 && n >= 5, rule, "builtins act on the calling instance in "+core.FuncName(ep, loopFn), sw.Pos(), fmt.Sprintf("%d per-instance accesses in the exit-code arms, all through callerModuleInstance()", n),
		"a Go-side builtin acts on an instance other than the one executing the instruction – the instance whose export was called from Go, reached through the call engine – and they differ after a cross-module call: "+strings.Join(bad, "; "))
}

// ---- R04.2 (relation) memory sharedness must match exactly ----

func checkSharednessRelation(c *core.Ctx, rule string) {
	p := c.Pkg("internal/wasm")
	info := p.TypesInfo
	found := false
	core.AllFuncDecls(p, func(fd *ast.FuncDecl) {
		ast.Inspect(fd.Body, func(x ast.Node) bool {
			is, ok := x.(*ast.IfStmt)
			if !ok {
				return true
			}
			// a condition that mentions the declared and the actual sharedness
			var decl, act bool
			ast.Inspect(is.Cond, func(y ast.Node) bool {
				if se, ok := y.(*ast.SelectorExpr); ok {
					if f := core.FieldOf(info, se); f != nil {
						switch f.Name() {
						case "IsShared":
							decl = true
						case "Shared":
							act = true
						}
					}
				}
				return true
			})
			if !decl || !act {
				return true
			}
			// only link-time checks: the branch yields an error
			errs := false
			ast.Inspect(is.Body, func(y ast.Node) bool {
				if call, ok := y.(*ast.CallExpr); ok {
					if f := core.Callee(info, call); f != nil && (f.Name() == "Errorf" || strings.Contains(strings.ToLower(f.Name()), "invalidimport")) {
						errs = true
					}
				}
				return true
			})
			if !errs {
				return true
			}
			found = true
			be, isBin := ast.Unparen(is.Cond).(*ast.BinaryExpr)
			exact := false
			if isBin && be.Op == token.NEQ {
				fx, fy := core.FieldOf(info, be.X), core.FieldOf(info, be.Y)
				if fx != nil && fy != nil && ((fx.Name() == "IsShared" && fy.Name() == "Shared") || (fx.Name() == "Shared" && fy.Name() == "IsShared")) {
					exact = true
				}
			}
			c.Check(exact, rule, "memory import: declared and actual sharedness must be equal in "+core.FuncName(p, fd), is.Pos(), "rejected when `declared != actual`",
				"the link-time check is `"+core.ExprStr(is.Cond)+"`, which accepts one direction of the mismatch: a plain (movable) memory linked under a `shared` declaration makes the compiler skip the base reload after calls, so the importer writes through a stale base after the exporter grows")
			return true
		})
	})
	if !found {
		c.Violate(rule, "memory import: declared and actual sharedness must be equal", 0, "no link-time check compares Memory.IsShared with MemoryInstance.Shared")
	}
}

// ---- R04.9 – R04.12 (round 2 and baseline findings) ----

func checkRound2C04(c *core.Ctx) {
	// R04.9 the interpreter re-uses the frame for a tail call only within the same instance
	if p := c.Pkg("internal/engine/interpreter"); p != nil {
		info := p.TypesInfo
		found := false
		core.AllFuncDecls(p, func(fd *ast.FuncDecl) {
			if fd.Name.Name != interpExecLoopName(p) {
				return
			}
			ast.Inspect(fd.Body, func(x ast.Node) bool {
				cc, ok := x.(*ast.CaseClause)
				if !ok || len(cc.List) == 0 || constNameOf(info, cc.List[0]) != "operationKindTailCallReturnCallIndirect" {
					return true
				}
				found = true
				// the guard whose then-branch falls back to a regular call
				ok2 := false
				var cond string
				ast.Inspect(cc, func(y ast.Node) bool {
					is, isIf := y.(*ast.IfStmt)
					if !isIf {
						return true
					}
					regularIn := func(n ast.Node) bool {
						r := false
						if n == nil {
							return false
						}
						ast.Inspect(n, func(z ast.Node) bool {
							if call, ok := z.(*ast.CallExpr); ok {
								if f := core.Callee(info, call); f != nil && f.Name() == "callFunction" {
									r = true
								}
							}
							return true
						})
						return r
					}
					// the regular call is in the branch taken when the instances differ: then-arm of `!=`, else-arm of `==`
					thenReg, elseReg := regularIn(is.Body), is.Else != nil && regularIn(is.Else)
					if !thenReg && !elseReg {
						return true
					}
					cond = core.ExprStr(is.Cond)
					if be, ok := ast.Unparen(is.Cond).(*ast.BinaryExpr); ok && (be.Op == token.NEQ || be.Op == token.EQL) {
						fx, fy := core.FieldOf(info, be.X), core.FieldOf(info, be.Y)
						if fx != nil && fy != nil && fx == fy && strings.Contains(fx.Type().String(), "ModuleInstance") {
							if (be.Op == token.NEQ && thenReg) || (be.Op == token.EQL && elseReg) {
								ok2 = true
							}
						}
					}
					return true
				})
				c.Check(ok2, "R04.9", "interpreter return_call_indirect re-uses the frame only within the same instance", cc.Pos(), "falls back to a regular call when `callee.moduleInstance != current.moduleInstance`",
					"the fallback guard is `"+cond+"`, which does not compare the two functions' instances: a tail call through a shared table into a sibling instance (same module, another instance) runs the callee against the caller's cached memory, globals and tables")
				return false
			})
		})
		if !found {
			c.Undecided("R04.9", "interpreter return_call_indirect arm", 0, "not found")
		}
	}
	// R04.10 a store to an imported global reloads the other imported mutable globals (aliases)
	if p := c.Pkg("internal/engine/wazevo/frontend"); p != nil {
		info := p.TypesInfo
		var set, get *ast.FuncDecl
		core.AllFuncDecls(p, func(fd *ast.FuncDecl) {
			switch fd.Name.Name {
			case "setWasmGlobalValue":
				set = fd
			case "getWasmGlobalValue":
				get = fd
			}
		})
		if set == nil || get == nil {
			c.Undecided("R04.10", "global accessors of the frontend", 0, "setWasmGlobalValue / getWasmGlobalValue not found")
		} else {
			// in the imported branch: a loop that force-loads other globals – inline, or in a helper called there (one level)
			ok := false
			narrowed := ""
			var loops []*ast.RangeStmt
			loopOwner := map[*ast.RangeStmt]*ast.FuncDecl{}
			ast.Inspect(set.Body, func(x ast.Node) bool {
				is, isIf := x.(*ast.IfStmt)
				if !isIf || !exprMentions(info, set.Body, is.Cond, "ImportGlobalCount") {
					return true
				}
				for k, sn := range armScope(p, is.Body) {
					owner := set
					if k > 0 {
						owner = nil
						core.AllFuncDecls(p, func(g *ast.FuncDecl) {
							if g.Body == sn {
								owner = g
							}
						})
						if owner == get {
							continue
						}
					}
					ast.Inspect(sn, func(y ast.Node) bool {
						if rs, isLoop := y.(*ast.RangeStmt); isLoop {
							loops = append(loops, rs)
							loopOwner[rs] = owner
						}
						return true
					})
				}
				return true
			})
			for _, rs := range loops {
				reloadsHere := false
				ast.Inspect(rs.Body, func(z ast.Node) bool {
					if call, isC := z.(*ast.CallExpr); isC && core.Callee(info, call) == info.Defs[get.Name] && len(call.Args) == 2 && core.ExprStr(call.Args[1]) == "true" {
						reloadsHere = true
					}
					return true
				})
				if !reloadsHere {
					continue
				}
				ok = true
				// … and the reload is not narrowed: inside that loop, the conditions (in front of the reload, or of a
				// continue) may only compare the loop variable with the stored index and with the number of imported globals.
				// Which imported globals alias is decided at link time, nothing in the module (import names, types) can
				// exclude a pair. Locals stand for the expressions they are bound to.
				localDef := map[types.Object]ast.Expr{}
				if ow := loopOwner[rs]; ow != nil {
					ast.Inspect(ow.Body, func(n ast.Node) bool {
						if as, isAs := n.(*ast.AssignStmt); isAs && as.Tok == token.DEFINE && len(as.Lhs) == len(as.Rhs) {
							for k, l := range as.Lhs {
								if id, isID := l.(*ast.Ident); isID && info.Defs[id] != nil {
									localDef[info.Defs[id]] = as.Rhs[k]
								}
							}
						}
						return true
					})
				}
				var scan func(e ast.Node, d int)
				scan = func(e ast.Node, d int) {
					ast.Inspect(e, func(z ast.Node) bool {
						switch w := z.(type) {
						case *ast.CallExpr:
							if tv, isConv := info.Types[w.Fun]; isConv && tv.IsType() {
								return true // a conversion
							}
							narrowed = "`" + core.ExprStr(w) + "`"
						case *ast.SelectorExpr:
							if w.Sel.Name != "ImportGlobalCount" && core.ExprStr(w) != "c.m" {
								narrowed = "`" + core.ExprStr(w) + "`"
							}
						case *ast.Ident:
							if def, isLocal := localDef[info.Uses[w]]; isLocal && d < 3 {
								scan(def, d+1)
							}
						}
						return true
					})
				}
				ast.Inspect(rs.Body, func(y ast.Node) bool {
					if is, isIf := y.(*ast.IfStmt); isIf {
						scan(is.Cond, 0)
					}
					return true
				})
			}
			if ok && narrowed != "" {
				c.Violate("R04.10", "the reload of the other imported mutable globals is not narrowed", set.Pos(),
					"the condition in front of the reload also depends on "+narrowed+": which imported globals are the same object is only known at link time (one global can be imported twice, directly and through a re-export under another module name), so any filter beyond 'imported, and not the one just stored' leaves a stale alias")
			} else if ok {
				c.Discharge("R04.10", "the reload of the other imported mutable globals is not narrowed", set.Pos(), "the guard compares only the loop variable, the stored index and ImportGlobalCount")
			}
			c.Check(ok, "R04.10", "a store to an imported global reloads the other imported mutable globals", set.Pos(), "the imported branch force-loads the other imported mutable globals",
				"the frontend keeps one SSA variable per global index and does not refresh the others after a store to an imported global: when the same global instance is imported twice (or exported under two names) `global.get` of the alias returns the stale value")
		}
	}
	// R04.11 a reference to an imported function is the defining module's function instance
	if p := c.Pkg("internal/engine/wazevo"); p != nil {
		info := p.TypesInfo
		fd := core.FuncDecl(p, "moduleEngine", "FunctionInstanceReference")
		if fd == nil {
			c.Undecided("R04.11", "wazevo FunctionInstanceReference", 0, "not found")
		} else {
			ok := false
			var what string
			ast.Inspect(fd.Body, func(x ast.Node) bool {
				is, isIf := x.(*ast.IfStmt)
				if !isIf || !exprMentions(info, fd.Body, is.Cond, "ImportFunctionCount") {
					return true
				}
				ast.Inspect(is.Body, func(y ast.Node) bool {
					if rs, isR := y.(*ast.ReturnStmt); isR && len(rs.Results) == 1 {
						what = core.ExprStr(rs.Results[0])
						if call, isC := rs.Results[0].(*ast.CallExpr); isC {
							if f := core.Callee(info, call); f != nil && f.Name() == "FunctionInstanceReference" {
								ok = true
							}
						}
					}
					return true
				})
				return true
			})
			c.Check(ok, "R04.11", "wazevo: the reference of an imported function is taken from the engine of its defining module", fd.Pos(), "delegates to the exporter's FunctionInstanceReference",
				"for an imported function the reference is `"+what+"`: the importer's opaque entry is laid out like a function instance but carries no index, so LookupFunction on a table slot holding it resolves to function 0 of the exporter")
		}
	}
	// R04.12 active element segments write every slot they cover, null initialisers included
	if p := c.Pkg("internal/wasm"); p != nil {
		info := p.TypesInfo
		fd := core.FuncDecl(p, "ModuleInstance", "applyElements")
		if fd == nil {
			c.Undecided("R04.12", "applyElements", 0, "not found")
		} else {
			var bad []string
			n := 0
			ast.Inspect(fd.Body, func(x ast.Node) bool {
				rs, ok := x.(*ast.RangeStmt)
				if !ok || !strings.HasSuffix(core.ExprStr(rs.X), ".Init") {
					return true
				}
				n++
				// a `continue` before the store of the iteration
				for _, st := range rs.Body.List {
					if as, ok := st.(*ast.AssignStmt); ok {
						if _, isIdx := as.Lhs[0].(*ast.IndexExpr); isIdx {
							break
						}
					}
					if is, ok := st.(*ast.IfStmt); ok {
						stores := false
						ast.Inspect(is.Body, func(y ast.Node) bool {
							if as, ok := y.(*ast.AssignStmt); ok {
								if _, isIdx := as.Lhs[0].(*ast.IndexExpr); isIdx {
									stores = true
								}
							}
							return true
						})
						if !stores && len(is.Body.List) > 0 {
							if br, ok := is.Body.List[len(is.Body.List)-1].(*ast.BranchStmt); ok && br.Tok == token.CONTINUE {
								bad = append(bad, "`if "+core.ExprStr(is.Cond)+" { continue }` at "+c.Pos(is.Pos()))
							}
						}
					}
				}
				return true
			})
			_ = info
			c.Check(len(bad) == 0 && n > 0, "R04.12", "active element segments write every slot they cover (null initialisers included)", fd.Pos(), "every iteration stores into the table",
				strings.Join(bad, "; ")+" skips the store: a `ref.null` initialiser does not null out a slot that an earlier segment (or, for an imported table, another module) populated, so a later call_indirect calls the old function instead of trapping")
		}
	}
}

// checkInterpCallerInstance: inside the interpreter's execution loop every nested call passes the running function's own
// instance as the calling module (host functions receive it as their api.Module: memory, sys context, fd table).
func checkInterpCallerInstance(c *core.Ctx, rule string) {
	p := c.Pkg("internal/engine/interpreter")
	if p == nil {
		return
	}
	info := p.TypesInfo
	loop := interpExecLoopName(p)
	n := 0
	core.AllFuncDecls(p, func(fd *ast.FuncDecl) {
		if fd.Name.Name != loop || fd.Type.Params == nil {
			return
		}
		// the parameter holding the running function: the one of pointer-to-struct type with a moduleInstance field
		var fn types.Object
		var callerMod types.Object
		for _, f := range fd.Type.Params.List {
			for _, nm := range f.Names {
				o := info.Defs[nm]
				if o == nil {
					continue
				}
				if st, ok := derefStructT(o.Type()).Underlying().(*types.Struct); ok {
					for i := 0; i < st.NumFields(); i++ {
						if st.Field(i).Name() == "moduleInstance" {
							fn = o
						}
					}
				}
				if core.IsNamed(o.Type(), core.Module+"/internal/wasm", "ModuleInstance") {
					callerMod = o
				}
			}
		}
		if fn == nil {
			c.Undecided(rule, "running-function parameter of the execution loop", fd.Pos(), "no parameter with a moduleInstance field")
			return
		}
		var bad []string
		ast.Inspect(fd.Body, func(x ast.Node) bool {
			call, ok := x.(*ast.CallExpr)
			if !ok {
				return true
			}
			f := core.Callee(info, call)
			if f == nil || core.RecvNameOf(f) != "callEngine" {
				return true
			}
			// calls that take (ctx, *ModuleInstance, *function …): the dispatcher of nested calls
			for i, a := range call.Args {
				if !core.IsNamed(info.Types[a].Type, core.Module+"/internal/wasm", "ModuleInstance") || i+1 >= len(call.Args) {
					continue
				}
				if _, isFn := derefStructT(info.Types[call.Args[i+1]].Type).Underlying().(*types.Struct); !isFn {
					continue
				}
				n++
				okArg := false
				if se, ok := ast.Unparen(a).(*ast.SelectorExpr); ok && se.Sel.Name == "moduleInstance" {
					if id, ok := ast.Unparen(se.X).(*ast.Ident); ok && info.Uses[id] == fn {
						okArg = true
					}
				}
				if !okArg {
					what := core.ExprStr(a)
					if id, ok := ast.Unparen(a).(*ast.Ident); ok && info.Uses[id] == callerMod {
						what += " (the module of the caller of the running function)"
					}
					bad = append(bad, fmt.Sprintf("%s passes %s at %s", f.Name(), what, c.Pos(call.Pos())))
				}
			}
			return true
		})
		c.Check(len(bad) == 0 && n >= 3, rule, "nested calls in the interpreter pass the running function's own instance as the calling module", fd.Pos(), fmt.Sprintf("%d nested-call site(s) pass <running function>.moduleInstance", n),
			strings.Join(bad, "; ")+": the callee – possibly a host function such as a WASI call – is told that another instance is calling it and acts on that instance's memory, sys context and descriptor table")
	})
	if n == 0 {
		c.Undecided(rule, "nested-call sites of the interpreter", 0, "none found")
	}
}
