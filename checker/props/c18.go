package props

import (
	"fmt"
	"go/token"
	"go/types"
	"sort"
	"strings"

	"golang.org/x/tools/go/ssa"

	"verif/checker/core"
)

// C18 Default configuration exposes nothing of the host and runs reproducibly.

func init() {
	core.Register(&core.Property{
		ID:    "C18",
		Level: "proof",
		Explanation: "Theorem decided (reachability clause, for every guest and every argument value): from the WASI host functions no ambient-authority function of the Go standard library (real clocks, sleep, scheduler yield, os.*, net.*, syscall.*, crypto/rand, the global math/rand source, os/exec) is reachable in the over-approximated call graph " +
			"except through the listed injection points (the clock/sleep/yield function fields and the random reader of the system context, and the sys.FS/sys.File/fsapi.File/socket/io interfaces of the descriptor table); every default binding of an injection point (what NewContext and the stdio constructors install when the option is nil) " +
			"reaches none of them either and keeps its state in memory allocated by that constructor call (no package-level mutable variable); NewModuleConfig sets no capability field and toSysContext hands the fields over unmodified, so 'not configured' really is nil. " +
			"(R18.7) in the interpreter every nested call passes the running function's own instance as the calling module, so a WASI function acts on the sys context, clock, random source and descriptor table of the guest that called it; (R18.6) a module configuration is never written after it was handed out, so nothing an instantiation attaches (a socket listener taken from the context) sticks to a configuration the embedder reuses as the default. NOT decided: byte-equality of traces across engines (that needs C01), behaviour with non-default configuration.",
		Assumptions: []string{
			"sink list: time.{Now,Since,Until,Sleep,After,AfterFunc,Tick,NewTimer,NewTicker}, every function/method of os, net, syscall, os/exec, os/signal, os/user, crypto/rand, top-level functions of math/rand (global source), runtime.Gosched; error-formatting methods (Error/Unwrap/Is/Timeout/Temporary) and os file-mode/helper predicates are pure",
			"functions of the pure utility packages (fmt formatting, errors, strings, bytes, encoding/binary, math, sort, slices, unicode, io helpers, path, sync, context, strconv, bufio, hash, time arithmetic on given values, math/rand with an explicit seeded source) have no ambient authority",
			"no reflect.Value.Call / unsafe function pointers / linkname in the analysed region (enumerated, asserted by R18.1)",
		},
		TrustedBase: []string{"capability worklist checker/core/cap.go over VTA∪CHA call resolution", "sink/pure classification table in checker/props/c18.go"},
		Rules: []core.Rule{
			{ID: "R18.10", Template: "T-CAP", Text: "the default (fake) clock/random/sleep sources do not depend on the host (time zone, environment, real clock)", Min: 1},
			{ID: "R18.9", Template: "T-MUSTPASS", Text: "what a host (WASI) function receives does not depend on the engine: the compiler's Go side zero-extends the 32-bit argument slots, as the interpreter passes them (same analysis as C08 R08.9)", Min: 4},
			{ID: "R18.8", Template: "T-CONSULT", Text: "fd_prestat_* answer only for pre-opened directories: stdio is not reported under the default configuration (genuine defect found and fixed)", Min: 1},
			{ID: "R18.1", Template: "T-CAP", Text: "no ambient-authority sink reachable from the WASI functions except through injection points; every external callee classified", Min: 3},
			{ID: "R18.2", Template: "T-CAP", Text: "default bindings of the injection points (nil option) reach no sink", Min: 6},
			{ID: "R18.3", Template: "T-OWN", Text: "NewModuleConfig sets no capability field; toSysContext passes the capability fields unmodified", Min: 2},
			{ID: "R18.4", Template: "T-OWN", Text: "default bindings keep their state per constructor call: no package-level mutable variable or shared object is read or written", Min: 1},
			{ID: "R18.7", Template: "T-SIBLING", Text: "host functions (WASI) called from the interpreter receive the instance of the function that calls them (same analysis as C04 R04.13)", Min: 1},
			{ID: "R18.6", Template: "T-OWN", Text: "a module configuration is never written after it was handed out (same ownership analysis as C19, seeded with the ModuleConfig implementation)", Min: 10},
			{ID: "R18.5", Template: "T-DETERM", Text: "no iteration over a map in the WASI region", Min: 1},
		},
		Run: runC18,
		Controls: []core.Control{
			{Name: "fake-epoch-in-local-time", File: "internal/platform/time.go", Old: "\tFakeEpochNanos = 1640995200000 * ms\n)\n", New: ")\n\nvar FakeEpochNanos = time.Date(2022, time.January, 1, 0, 0, 0, 0, time.Local).UnixNano()\n", Rule: "R18.10", Substr: "fake"},
			{Name: "wasi-args-not-zero-extended-on-the-compiler", File: "internal/engine/wazevo/call_engine.go", Old: "\t\t\tclearUpper32Bits(s, hostFunctionParamTypes(c.execCtx.goFunctionCallCalleeModuleContextOpaque, index))\n\t\t\tfunc() {\n\t\t\t\tif snapshotEnabled {\n\t\t\t\t\tdefer snapshotRecoverFn(c)\n\t\t\t\t}\n\t\t\t\tf.Call(ctx, mod, s)", New: "\t\t\tfunc() {\n\t\t\t\tif snapshotEnabled {\n\t\t\t\t\tdefer snapshotRecoverFn(c)\n\t\t\t\t}\n\t\t\t\tf.Call(ctx, mod, s)", Rule: "R18.9", Substr: "ExitCodeCallGoModuleFunction"},
			{Name: "prestat-reports-stdio", File: "imports/wasi_snapshot_preview1/fs.go", Old: "\t} else if isDir, errno := f.File.IsDir(); errno != 0 {\n\t\treturn \"\", errno\n\t} else if !isDir {", New: "\t} else if isDir, errno := f.File.IsDir(); errno != 0 || !isDir {\n\t\treturn \"\", errno\n\t} else if !isDir {", Rule: "R18.8", Substr: "preopenPath"},
			{Name: "wasi-called-with-another-guests-module", File: "internal/engine/interpreter/interpreter.go", Old: "\t\t\t\t// Revert to a normal call.\n\t\t\t\tce.callFunction(ctx, f.moduleInstance, tf)", New: "\t\t\t\t// Revert to a normal call.\n\t\t\t\tce.callFunction(ctx, m, tf)", Rule: "R18.7", Substr: "calling module"},
			{Name: "sock-config-written-into-callers-config", File: "runtime.go", Old: "\t\t\tconfig = config.clone() // the caller's configuration must stay unchanged\n", New: "", Rule: "R18.6", Substr: "InstantiateModule"},
			{Name: "nanosleep-defaults-to-real", File: "internal/sys/sys.go", Old: "\t\tsysCtx.nanosleep = platform.FakeNanosleep", New: "\t\tsysCtx.nanosleep = platform.Nanosleep", Rule: "R18.2", Substr: "nanosleep"},
			{Name: "clock-calls-time-now", File: "imports/wasi_snapshot_preview1/clock.go", Old: "\tcase wasip1.ClockIDMonotonic:\n\t\tval = sysCtx.Nanotime()", New: "\tcase wasip1.ClockIDMonotonic:\n\t\tval = time.Now().UnixNano()", Rule: "R18.1", Substr: "wasi", Old2: "import (\n", New2: "import (\n\t\"time\"\n"},
			{Name: "args-fall-back-to-os", File: "internal/sys/sys.go", Old: "func (c *Context) Args() [][]byte {\n\treturn c.args", New: "func (c *Context) Args() [][]byte {\n\tif c.args == nil {\n\t\tvar out [][]byte\n\t\tfor _, a := range os.Args {\n\t\t\tout = append(out, []byte(a))\n\t\t}\n\t\treturn out\n\t}\n\treturn c.args", Rule: "R18.1", Substr: "wasi", Old2: "import (\n", New2: "import (\n\t\"os\"\n"},
			{Name: "fake-clock-package-level", File: "internal/platform/time.go", Old: "func NewFakeNanotime() sys.Nanotime {\n\t// AddInt64 returns the new value. Adjust so the first reading will be zero.\n\tt := int64(0) - ms\n\treturn func() int64 {\n\t\treturn atomic.AddInt64(&t, ms)", New: "var fakeNanoBase = int64(0) - ms\n\nfunc NewFakeNanotime() sys.Nanotime {\n\treturn func() int64 {\n\t\treturn atomic.AddInt64(&fakeNanoBase, ms)", Rule: "R18.4", Substr: "nanotime"},
			{Name: "default-config-sets-stdout", File: "config.go", Old: "\treturn &moduleConfig{\n\t\tstartFunctions: []string{\"_start\"},", New: "\treturn &moduleConfig{\n\t\tstdout:         os.Stdout,\n\t\tstartFunctions: []string{\"_start\"},", Rule: "R18.3", Substr: "NewModuleConfig", Old2: "import (\n", New2: "import (\n\t\"os\"\n"},
			{Name: "random-default-real", File: "internal/platform/crypto.go", Old: "\treturn rand.New(rand.NewSource(seed))", New: "\treturn rand.New(rand.NewSource(seed + rand.Int63()))", Rule: "R18.2", Substr: "randSource"},
		},
		Configs: []core.BuildCfg{{GOOS: "windows", GOARCH: "amd64"}, {GOOS: "darwin", GOARCH: "arm64"}, {GOOS: "linux", GOARCH: "arm64"}, {GOOS: "freebsd", GOARCH: "amd64"}},
	})
}

// mapCopyIdiom: the key/value of every iteration are only used as key/value of an update of another map (and the
// loop test): the result does not depend on the iteration order.
func mapCopyIdiom(r *ssa.Range) bool {
	if r.Referrers() == nil {
		return false
	}
	for _, u := range *r.Referrers() {
		nx, ok := u.(*ssa.Next)
		if !ok {
			return false
		}
		if nx.Referrers() == nil {
			continue
		}
		for _, e := range *nx.Referrers() {
			ex, ok := e.(*ssa.Extract)
			if !ok {
				return false
			}
			if ex.Referrers() == nil {
				continue
			}
			for _, use := range *ex.Referrers() {
				switch x := use.(type) {
				case *ssa.If:
					if ex.Index != 0 {
						return false
					}
				case *ssa.MapUpdate:
					if x.Map == r.X {
						return false
					}
				case *ssa.DebugRef:
				default:
					return false
				}
			}
		}
	}
	return true
}

var purePkgs = map[string]bool{
	"fmt": true, "errors": true, "strings": true, "bytes": true, "encoding/binary": true, "math": true, "math/bits": true, "sort": true, "slices": true,
	"unicode/utf8": true, "unicode": true, "unicode/utf16": true, "io": true, "io/fs": true, "path": true, "sync": true, "sync/atomic": true, "context": true, "strconv": true,
	"bufio": true, "hash/crc32": true, "hash": true, "encoding/hex": true, "maps": true, "cmp": true, "container/list": true, "iter": true, "unsafe": true, "structs": true,
	"internal/byteorder": true, "internal/bytealg": true, "internal/abi": true, "internal/race": true, "internal/itoa": true, "unique": true, "weak": true,
}

func classifyAmbient(f *ssa.Function) string {
	pkg := core.ExtPkg(f)
	name := f.Name()
	recv := ""
	if f.Signature != nil && f.Signature.Recv() != nil {
		if n := core.NamedOf(f.Signature.Recv().Type()); n != nil {
			recv = n.Obj().Name()
		}
	}
	// error plumbing and predicates are pure wherever they live
	switch name {
	case "Error", "Unwrap", "Is", "As", "Timeout", "Temporary", "String", "GoString":
		if recv != "" {
			return "pure"
		}
	}
	switch pkg {
	case "time":
		if recv == "" {
			switch name {
			case "Now", "Since", "Until", "Sleep", "After", "AfterFunc", "Tick", "NewTimer", "NewTicker", "LoadLocation":
				return "sink:time." + name
			}
		}
		if recv == "Timer" || recv == "Ticker" {
			return "sink:time." + recv + "." + name
		}
		return "pure" // arithmetic on given values (Duration, Time methods, Unix, Date)
	case "os":
		if recv == "" {
			switch name {
			case "IsNotExist", "IsExist", "IsPermission", "IsTimeout", "NewSyscallError", "SameFile", "IsPathSeparator":
				return "pure"
			}
		}
		if recv == "FileMode" || recv == "fileStat" && (name == "Mode" || name == "IsDir" || name == "Size" || name == "Name" || name == "ModTime" || name == "Sys") {
			return "pure"
		}
		return "sink:os." + recv + "." + name
	case "net", "os/exec", "os/signal", "os/user", "crypto/rand", "net/http", "plugin":
		return "sink:" + pkg + "." + recv + "." + name
	case "syscall", "golang.org/x/sys/unix", "golang.org/x/sys/windows":
		if recv == "Errno" || recv == "Signal" {
			return "pure"
		}
		return "sink:" + pkg + "." + name
	case "math/rand", "math/rand/v2":
		if recv == "" && name != "New" && name != "NewSource" && name != "NewZipf" && name != "NewPCG" && name != "NewChaCha8" {
			return "sink:" + pkg + "." + name + " (global source)"
		}
		return "pure"
	case "runtime":
		if name == "Gosched" || name == "GC" || name == "NumCPU" || name == "NumGoroutine" || name == "ReadMemStats" {
			return "sink:runtime." + name
		}
		return "pure"
	case "reflect":
		if name == "Call" || name == "CallSlice" {
			return "sink:reflect.Value." + name + " (dynamic call)"
		}
		return "pure"
	case "path/filepath":
		switch name {
		case "Abs", "EvalSymlinks", "Glob", "Walk", "WalkDir":
			return "sink:path/filepath." + name
		}
		return "pure"
	case "runtime/debug", "log":
		return "sink:" + pkg + "." + name
	}
	if purePkgs[pkg] {
		if pkg == "fmt" && (name == "Print" || name == "Println" || name == "Printf" || name == "Scan" || name == "Scanln" || name == "Scanf") {
			return "sink:fmt." + name + " (process stdio)"
		}
		return "pure"
	}
	if strings.HasPrefix(pkg, "internal/") || strings.HasPrefix(pkg, "vendor/") {
		return "" // unexpected direct use of a stdlib internal
	}
	return ""
}

// classifyAmbientGlobal: package-level variables of the standard library that carry host authority.
func classifyAmbientGlobal(g *ssa.Global) string {
	pkg := g.Pkg.Pkg.Path()
	if types.Identical(g.Type().(*types.Pointer).Elem(), types.Universe.Lookup("error").Type()) {
		return "pure"
	}
	switch pkg {
	case "os":
		return "sink:os." + g.Name() + " (process state)"
	case "crypto/rand":
		return "sink:crypto/rand." + g.Name()
	case "net", "net/http", "syscall", "os/exec", "os/signal":
		return "sink:" + pkg + "." + g.Name()
	case "time":
		if g.Name() == "Local" {
			return "sink:time.Local"
		}
	}
	return "pure"
}

// injectionCut: calls through the injection points are not followed.
func injectionCut(c *core.Ctx) func(site ssa.CallInstruction, in *ssa.Function) string {
	sysCtx := c.Pkg("internal/sys")
	var ctxNamed *types.Named
	if sysCtx != nil {
		ctxNamed, _ = sysCtx.Types.Scope().Lookup("Context").Type().(*types.Named)
	}
	return func(site ssa.CallInstruction, in *ssa.Function) string {
		cc := site.Common()
		if cc.IsInvoke() {
			if s := isMountIface(cc.Value.Type()); s != "" {
				return s
			}
			if s := isEmbedderIface(cc.Value.Type()); s != "" {
				return s
			}
			return ""
		}
		// call of a function value loaded from a field of the system context
		if ld, ok := cc.Value.(*ssa.UnOp); ok && ld.Op == token.MUL {
			if fa, ok := ld.X.(*ssa.FieldAddr); ok && core.NamedOf(fa.X.Type()) == ctxNamed && ctxNamed != nil {
				st := derefStructT(fa.X.Type()).Underlying().(*types.Struct)
				return "sys.Context." + st.Field(fa.Field).Name()
			}
		}
		return ""
	}
}

func runC18(c *core.Ctx) {
	checkPrestatOnlyDirectories(c)
	checkFakeClockHostIndependent(c)
	checkSlotNormalisation(c, "R18.9", "")
	c.SSA()
	checkModuleConfigNotWritten(c)
	checkInterpCallerInstance(c, "R18.7")
	cut := injectionCut(c)
	roots := wasiFuncs(c)
	if len(roots) < 40 {
		c.Undecided("R18.1", "wasi-entry-points", 0, fmt.Sprintf("only %d WASI host functions found", len(roots)))
		return
	}
	k := &core.Cap{C: c, Roots: roots, ClassifyExt: classifyAmbient, ClassifyGlobal: classifyAmbientGlobal, Cut: cut}
	k.Run()
	report := func(rule, construct string, k *core.Cap, pos token.Pos, okDetail string) {
		var bad []string
		for _, s := range k.Sinks {
			bad = append(bad, fmt.Sprintf("%s (%s) called at %s via %s", s.Callee, strings.TrimPrefix(s.Class, "sink:"), c.Pos(s.Site), k.Path(s.In)))
		}
		if len(bad) > 6 {
			bad = append(bad[:6], fmt.Sprintf("… and %d more", len(bad)-6))
		}
		c.Check(len(k.Sinks) == 0, rule, construct, pos, okDetail, "ambient authority reachable: "+strings.Join(bad, "; "))
		if len(k.Unclassified) > 0 {
			var u []string
			seen := map[string]bool{}
			for _, h := range k.Unclassified {
				if !seen[h.Callee] {
					seen[h.Callee] = true
					u = append(u, h.Callee+" at "+c.Pos(h.Site))
				}
			}
			sort.Strings(u)
			if len(u) > 8 {
				u = append(u[:8], "…")
			}
			c.Undecided(rule, construct+": unclassified callees", pos, "external functions not in the sink/pure tables: "+strings.Join(u, "; "))
		}
	}
	var cuts []string
	for n, v := range k.Cuts {
		cuts = append(cuts, fmt.Sprintf("%s×%d", n, v))
	}
	sort.Strings(cuts)
	report("R18.1", "wasi: no ambient authority reachable", k, roots[0].Pos(),
		fmt.Sprintf("%d WASI functions, %d module functions reached; injection points cut: %s", len(roots), len(k.Reached), strings.Join(cuts, ", ")))
	// ---- R18.5 determinism: no iteration over a map in the WASI region (Go randomises the order)
	{
		var sites []string
		for fn := range k.Reached {
			if !core.InModule(fn) {
				continue
			}
			for _, b := range fn.Blocks {
				for _, in := range b.Instrs {
					if r, ok := in.(*ssa.Range); ok {
						if _, isMap := r.X.Type().Underlying().(*types.Map); isMap {
							name := core.SSAFuncName(fn)
							if mapCopyIdiom(r) {
								c.Notef("R18.5 map range in %s accepted: the loop only copies every entry into another map (order-insensitive)", name)
								continue
							}
							sites = append(sites, fmt.Sprintf("%s ranges over a map at %s", name, c.Pos(r.Pos())))
						}
					}
				}
			}
		}
		sort.Strings(sites)
		c.Check(len(sites) == 0, "R18.5", "wasi: no map-order dependence", roots[0].Pos(), "no iteration over a map in the functions reachable from the WASI entry points",
			"iteration order of a Go map is randomised per run, so what the guest observes differs between runs: "+strings.Join(sites, "; "))
	}
	c.Count("wasi_functions", len(roots))
	c.Count("wasi_region_functions", len(k.Reached))
	// reflect/unsafe in the region
	var special []string
	for _, s := range k.Special {
		special = append(special, s.Callee+" in "+core.SSAFuncName(s.In)+" at "+c.Pos(s.Site))
	}
	sort.Strings(special)
	if len(special) > 0 {
		// unsafe.Pointer conversions do not call anything; list them as notes, fail only on function-pointer casts (none recognised)
		c.Notef("unsafe.Pointer conversions in the WASI region (data only, no calls): %d sites, e.g. %s", len(special), special[0])
	}
	c.Discharge("R18.1", "wasi: no reflect.Call in region", 0, "reflect.Value.Call/CallSlice are classified as sinks and were not reached")
	c.Discharge("R18.1", "wasi: entry points enumerated", roots[0].Pos(), fmt.Sprintf("%d host functions exported by the WASI module", len(roots)))

	// ---- R18.2 / R18.4 default bindings
	checkDefaultBindings(c, cut)

	// ---- R18.3 zero value really is nil
	checkDefaultConfig(c)
}

// checkDefaultBindings finds, in the functions of internal/sys, the values stored into the injection-point fields of
// sys.Context (and the file entries of the stdio constructors) on the branch where the option parameter is nil.
func checkDefaultBindings(c *core.Ctx, cut func(ssa.CallInstruction, *ssa.Function) string) {
	sp := c.Pkg("internal/sys")
	ctxNamed, _ := sp.Types.Scope().Lookup("Context").Type().(*types.Named)
	if ctxNamed == nil {
		c.Undecided("R18.2", "sys.Context", 0, "internal/sys.Context not found")
		return
	}
	st := ctxNamed.Underlying().(*types.Struct)
	isInjection := func(f *types.Var) bool {
		switch f.Type().Underlying().(type) {
		case *types.Signature, *types.Interface:
			return true
		}
		return false
	}
	type binding struct {
		name  string
		roots []*ssa.Function
		pos   token.Pos
		note  string
	}
	var bindings []binding
	addRootsOf := func(v ssa.Value, b *binding) {
		var visit func(v ssa.Value, d int)
		visit = func(v ssa.Value, d int) {
			if d > 4 {
				return
			}
			switch x := v.(type) {
			case *ssa.Function:
				b.roots = append(b.roots, x)
			case *ssa.MakeClosure:
				if f, ok := x.Fn.(*ssa.Function); ok {
					b.roots = append(b.roots, f)
				}
			case *ssa.Call:
				if f := x.Common().StaticCallee(); f != nil {
					b.roots = append(b.roots, f)
					// closures returned by the constructor are reachable through the worklist (MakeClosure operands)
				}
			case *ssa.ChangeType:
				visit(x.X, d+1)
			case *ssa.Convert:
				visit(x.X, d+1)
			case *ssa.MakeInterface:
				if n := core.NamedOf(x.X.Type()); n != nil {
					b.roots = append(b.roots, methodsOf(c, n)...)
					b.note = n.String()
				}
				visit(x.X, d+1)
			case *ssa.UnOp:
				if g, ok := x.X.(*ssa.Global); ok {
					// a package-level function variable: its initialiser lives in init; take the functions stored there
					for fn := range c.AllFunctions() {
						if fn.Name() != "init" || fn.Pkg != g.Pkg {
							continue
						}
						for _, bb := range fn.Blocks {
							for _, in := range bb.Instrs {
								if st, ok := in.(*ssa.Store); ok && st.Addr == g {
									visit(st.Val, d+1)
								}
							}
						}
					}
					b.note = "package variable " + g.Name()
				}
			case *ssa.Phi:
				for _, e := range x.Edges {
					visit(e, d+1)
				}
			}
		}
		visit(v, 0)
	}
	fromParam := func(v ssa.Value) bool {
		seen := map[ssa.Value]bool{}
		var walk func(v ssa.Value) bool
		walk = func(v ssa.Value) bool {
			if seen[v] {
				return false
			}
			seen[v] = true
			switch x := v.(type) {
			case *ssa.Parameter:
				return true
			case *ssa.ChangeType:
				return walk(x.X)
			case *ssa.MakeInterface:
				return walk(x.X)
			case *ssa.ChangeInterface:
				return walk(x.X)
			case *ssa.Phi:
				for _, e := range x.Edges {
					if walk(e) {
						return true
					}
				}
			}
			return false
		}
		return walk(v)
	}
	for _, fn := range moduleFns(c, "internal/sys") {
		for _, b := range fn.Blocks {
			for _, in := range b.Instrs {
				s, ok := in.(*ssa.Store)
				if !ok {
					continue
				}
				fa, ok := s.Addr.(*ssa.FieldAddr)
				if !ok || core.NamedOf(fa.X.Type()) != ctxNamed {
					continue
				}
				f := st.Field(fa.Field)
				if !isInjection(f) || fromParam(s.Val) {
					continue
				}
				bd := binding{name: "sys.Context." + f.Name() + " default", pos: s.Pos()}
				addRootsOf(s.Val, &bd)
				bindings = append(bindings, bd)
			}
		}
	}
	// stdio defaults: file entries built on the nil branch of the stdio constructors
	feNamed, _ := sp.Types.Scope().Lookup("FileEntry").Type().(*types.Named)
	for _, fn := range moduleFns(c, "internal/sys") {
		if fn.Parent() != nil || len(fn.Params) == 0 {
			continue
		}
		returnsFE := fn.Signature.Results().Len() >= 1 && core.NamedOf(fn.Signature.Results().At(0).Type()) == feNamed && feNamed != nil
		if !returnsFE {
			continue
		}
		for _, b := range fn.Blocks {
			nilBranch := guardedBy(b, func(cond ssa.Value) int {
				bo, ok := cond.(*ssa.BinOp)
				if !ok || (bo.Op != token.EQL && bo.Op != token.NEQ) {
					return 0
				}
				_, px := bo.X.(*ssa.Parameter)
				ky, isK := bo.Y.(*ssa.Const)
				if px && isK && ky.IsNil() {
					if bo.Op == token.EQL {
						return 1
					}
					return -1
				}
				return 0
			})
			if !nilBranch {
				continue
			}
			for _, in := range b.Instrs {
				if mi, ok := in.(*ssa.MakeInterface); ok {
					if n := core.NamedOf(mi.X.Type()); n != nil && core.InModule(fn) {
						bd := binding{name: "stdio default in " + fn.Name() + ": " + n.Obj().Name(), pos: mi.Pos(), note: n.String()}
						bd.roots = methodsOf(c, n)
						bindings = append(bindings, bd)
					}
				}
			}
		}
	}
	if len(bindings) < 6 {
		c.Undecided("R18.2", "default bindings", 0, fmt.Sprintf("only %d default bindings found (expected clocks, sleep, yield, random, stdin, stdout/stderr)", len(bindings)))
	}
	for _, bd := range bindings {
		if len(bd.roots) == 0 {
			c.Undecided("R18.2", bd.name, bd.pos, "the default value is not a function, closure constructor or concrete type this rule can follow")
			continue
		}
		k := &core.Cap{C: c, Roots: bd.roots, ClassifyExt: classifyAmbient, ClassifyGlobal: classifyAmbientGlobal, Cut: cut}
		k.Run()
		var bad []string
		for _, s := range k.Sinks {
			bad = append(bad, fmt.Sprintf("%s (%s) at %s via %s", s.Callee, strings.TrimPrefix(s.Class, "sink:"), c.Pos(s.Site), k.Path(s.In)))
		}
		var uncl []string
		for _, u := range k.Unclassified {
			uncl = append(uncl, u.Callee)
		}
		if len(uncl) > 0 {
			c.Undecided("R18.2", bd.name+": unclassified callees", bd.pos, strings.Join(uncl, "; "))
		}
		c.Check(len(bad) == 0, "R18.2", bd.name, bd.pos, fmt.Sprintf("%d functions reachable from the default value (%s), no ambient authority", len(k.Reached), bd.note),
			"the value installed when the option is not configured reaches host authority: "+strings.Join(bad, "; "))
		// R18.4: package-level mutable state in the default binding's region
		var glob []string
		for fn := range k.Reached {
			if !core.InModule(fn) {
				continue
			}
			for _, b := range fn.Blocks {
				for _, in := range b.Instrs {
					var ops [8]*ssa.Value
					for _, op := range in.Operands(ops[:0]) {
						if op == nil || *op == nil {
							continue
						}
						g, ok := (*op).(*ssa.Global)
						if !ok || g.Pkg == nil || !strings.HasPrefix(g.Pkg.Pkg.Path(), core.Module) {
							continue
						}
						if mutableGlobal(c, g) || isAddrTakenForWrite(in, g) || sharedObjectGlobal(c, g) {
							glob = append(glob, fmt.Sprintf("%s uses package variable %s (%s) at %s", core.SSAFuncName(fn), g.Name(), g.Type().(*types.Pointer).Elem(), c.Pos(in.Pos())))
						}
					}
				}
			}
		}
		sort.Strings(glob)
		c.Check(len(glob) == 0, "R18.4", bd.name+": per-instance state", bd.pos, "no package-level mutable variable in the default binding's code",
			"state shared between instances/runs: "+strings.Join(glob, "; "))
	}
}

// isAddrTakenForWrite: the global's address is passed to a call (e.g. atomic.AddInt64(&g, …)).
func isAddrTakenForWrite(in ssa.Instruction, g *ssa.Global) bool {
	if ci, ok := in.(ssa.CallInstruction); ok {
		for _, a := range ci.Common().Args {
			if a == ssa.Value(g) {
				return true
			}
		}
	}
	if st, ok := in.(*ssa.Store); ok && st.Addr == ssa.Value(g) {
		return true
	}
	return false
}

// sharedObjectGlobal: the variable holds a reference to an object (pointer, interface, slice, map, channel, or a
// closure with captured state) – one object shared by every instance that reaches it.
func sharedObjectGlobal(c *core.Ctx, g *ssa.Global) bool {
	switch g.Type().(*types.Pointer).Elem().Underlying().(type) {
	case *types.Pointer, *types.Interface, *types.Slice, *types.Map, *types.Chan:
		if types.Identical(g.Type().(*types.Pointer).Elem(), types.Universe.Lookup("error").Type()) {
			return false
		}
		return true
	case *types.Signature:
		// a function variable initialised with a plain function has no state
		for fn := range c.AllFunctions() {
			if fn.Pkg != g.Pkg || !(fn.Name() == "init" || strings.HasPrefix(fn.Name(), "init#")) {
				continue
			}
			for _, b := range fn.Blocks {
				for _, in := range b.Instrs {
					if st, ok := in.(*ssa.Store); ok && st.Addr == ssa.Value(g) {
						v := st.Val
						for {
							if ct, ok := v.(*ssa.ChangeType); ok {
								v = ct.X
								continue
							}
							break
						}
						if _, isClosure := v.(*ssa.MakeClosure); isClosure {
							return true
						}
					}
				}
			}
		}
	}
	return false
}

var mutableGlobalMemo = map[*ssa.Global]int{}

// mutableGlobal: the variable is stored to outside its package initialiser.
func mutableGlobal(c *core.Ctx, g *ssa.Global) bool {
	if v, ok := mutableGlobalMemo[g]; ok {
		return v == 1
	}
	res := 2
	for fn := range c.AllFunctions() {
		if fn.Pkg != g.Pkg || fn.Name() == "init" || strings.HasPrefix(fn.Name(), "init#") {
			continue
		}
		for _, b := range fn.Blocks {
			for _, in := range b.Instrs {
				if isAddrTakenForWrite(in, g) {
					res = 1
				}
			}
		}
	}
	mutableGlobalMemo[g] = res
	return res == 1
}

func checkDefaultConfig(c *core.Ctx) {
	root := c.SSAPkg("")
	if root == nil {
		return
	}
	_, mcIface := lookupIface(c, "", "ModuleConfig")
	var mcNamed *types.Named
	for n := range configTypes(c) {
		if mcIface != nil && types.Implements(types.NewPointer(n), mcIface) {
			mcNamed = n
		}
	}
	if mcNamed == nil {
		c.Undecided("R18.3", "moduleConfig", 0, "type implementing wazero.ModuleConfig not found")
		return
	}
	st := mcNamed.Underlying().(*types.Struct)
	capability := func(f *types.Var) bool {
		switch u := f.Type().Underlying().(type) {
		case *types.Interface, *types.Signature, *types.Pointer:
			return true
		case *types.Slice:
			// args / environ: slices of byte slices
			_, inner := u.Elem().Underlying().(*types.Slice)
			return inner
		}
		return false
	}
	// constructor: exported function returning the interface whose body allocates the struct
	if ctor, ok := root.Members["NewModuleConfig"].(*ssa.Function); ok {
		var bad []string
		n := 0
		for _, b := range ctor.Blocks {
			for _, in := range b.Instrs {
				s, ok := in.(*ssa.Store)
				if !ok {
					continue
				}
				fa, ok := s.Addr.(*ssa.FieldAddr)
				if !ok || core.NamedOf(fa.X.Type()) != mcNamed {
					continue
				}
				n++
				f := st.Field(fa.Field)
				if capability(f) {
					if k, isK := s.Val.(*ssa.Const); isK && k.IsNil() {
						continue
					}
					bad = append(bad, fmt.Sprintf("sets %s at %s", f.Name(), c.Pos(s.Pos())))
				}
			}
		}
		c.Check(len(bad) == 0, "R18.3", "NewModuleConfig sets no capability", ctor.Pos(), fmt.Sprintf("%d field initialisations, none of a stream/clock/random/args/environ/fs/socket field", n),
			"the default module configuration is not empty: "+strings.Join(bad, "; "))
	} else {
		c.Undecided("R18.3", "NewModuleConfig", 0, "constructor not found")
	}
	// toSysContext: the call to the context constructor takes the capability fields as direct loads of the receiver
	sp := c.SSAPkg("internal/sys")
	var newCtx *ssa.Function
	if sp != nil {
		newCtx, _ = sp.Members["NewContext"].(*ssa.Function)
	}
	found := false
	for _, fn := range moduleFns(c, "") {
		if fn.Signature.Recv() == nil || core.NamedOf(fn.Signature.Recv().Type()) != mcNamed {
			continue
		}
		for _, b := range fn.Blocks {
			for _, in := range b.Instrs {
				call, ok := in.(*ssa.Call)
				if !ok || call.Common().StaticCallee() != newCtx || newCtx == nil {
					continue
				}
				found = true
				var bad []string
				checked := 0
				for i, a := range call.Common().Args {
					p := newCtx.Params[i]
					switch p.Type().Underlying().(type) {
					case *types.Interface, *types.Signature:
					default:
						continue
					}
					checked++
					ok2 := false
					if ld, isLd := a.(*ssa.UnOp); isLd && ld.Op == token.MUL {
						if fa, isFA := ld.X.(*ssa.FieldAddr); isFA && fa.X == fn.Params[0] {
							ok2 = true
						}
					}
					if !ok2 {
						bad = append(bad, fmt.Sprintf("argument %s is not the configuration's field as is", p.Name()))
					}
				}
				for _, bb := range fn.Blocks {
					for _, ii := range bb.Instrs {
						if st2, isSt := ii.(*ssa.Store); isSt {
							if fa, isFA := st2.Addr.(*ssa.FieldAddr); isFA && fa.X == fn.Params[0] {
								bad = append(bad, fmt.Sprintf("stores into the configuration's field %s at %s (a default resolved onto the configuration is shared by every later instance)", st.Field(fa.Field).Name(), c.Pos(st2.Pos())))
							}
						}
					}
				}
				c.Check(len(bad) == 0, "R18.3", "toSysContext passes capability fields unmodified", call.Pos(), fmt.Sprintf("%d stream/clock/random arguments are direct loads of the configuration's fields", checked),
					strings.Join(bad, "; ")+": a nil (not configured) option may be replaced by a host capability before the default is applied")
			}
		}
	}
	if !found {
		c.Undecided("R18.3", "toSysContext", 0, "no moduleConfig method calls internal/sys.NewContext")
	}
}

// ---- R18.6 a module configuration handed to Instantiate is never written (host resources of one call do not stick to it) ----

func checkModuleConfigNotWritten(c *core.Ctx) {
	_, mcIface := lookupIface(c, "", "ModuleConfig")
	if mcIface == nil {
		c.Undecided("R18.6", "wazero.ModuleConfig", 0, "interface not found")
		return
	}
	seeds := map[*types.Named]bool{}
	for n := range configTypes(c) {
		if types.Implements(types.NewPointer(n), mcIface) {
			seeds[n] = true
		}
	}
	if len(seeds) == 0 {
		c.Undecided("R18.6", "module configuration type", 0, "no implementation of wazero.ModuleConfig found")
		return
	}
	agg, keys, owned, _ := ownedWriteAnalysis(c, seeds)
	for _, k := range keys {
		g := agg[k]
		if len(g.bad) == 0 {
			c.Discharge("R18.6", k, g.fn.Pos(), fmt.Sprintf("%d write site(s) on ModuleConfig-owned memory, all on fresh unpublished memory", g.sites))
		} else {
			c.Violate("R18.6", k, g.pos[0].Pos, strings.Join(g.bad, "; ")+" – a configuration object the embedder may reuse is modified by an instantiation: what one call attached to it (a socket listener taken from the context, a name) is exposed to the next guest instantiated with the \"default\" configuration")
		}
	}
	c.Count("moduleconfig_owned_write_sites", owned)
}
