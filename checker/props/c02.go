package props

import (
	"fmt"
	"go/ast"
	"go/constant"
	"go/token"
	"go/types"
	"regexp"
	"sort"
	"strconv"
	"strings"

	"golang.org/x/tools/go/packages"
	"golang.org/x/tools/go/ssa"

	"verif/checker/core"
)

// C02 Guest memory accesses never leave the linear memory (structural clauses).

func init() {
	core.Register(&core.Property{
		ID:    "C02",
		Level: "other",
		Explanation: "Decided (necessary conditions, for every program, address, offset and memory size): (R02.1) in the compiler frontend every arm of a load/store/SIMD/atomic instruction obtains its address from the bounds-checking helper, and the access width passed to the helper equals the width the instruction's mnemonic dictates (evaluated per opcode label by a small interpreter of the arm); bulk-memory arms call the range check for each operand; " +
			"(R02.2) every path through the memory reload helper clears the cached absolute addresses of the bounds-check elision, and the memory.grow arm reloads; (R02.3) where the backends fold an extend of a 32-bit constant into an address, the signedness of the conversion agrees with the extend kind (a genuine defect of this kind was found and fixed in amd64); " +
			"(R02.4) in amd64 functions that build a memory operand from an SSA pointer, an emitter with a constant width inside a type/opcode/lane arm accesses exactly the arm's width; (R02.5) the amd64 address folding uses the raw register of a zero-extended 32-bit value, so the only narrowing opcode (Ireduce) must be lowered with a zero-extending 32-bit move; " +
			"(R02.6) the interpreter's lowering picks an operation of the mnemonic's width and the execution arms use accessors of the width their kind or type tag names. " +
			"(R02.7) at control-flow joins the elision cache is merged conservatively: every predecessor's record takes part in the intersection (none is skipped under a condition) and where a bound is known on several paths the smaller one is kept. " +
			"(R02.9) in the interpreter, 32-bit address arithmetic in front of a memory accessor (`offset + 8` for the high half of a v128) is preceded by a wrap-around guard (a genuine defect – v128.load at 0xfffffff8 on a 4 GiB memory read address 0 – was found and fixed); (R02.8) a memory import is linked only when declared and actual sharedness are equal, because the compiler omits the base reload after calls for memories declared shared. " +
			"NOT decided: correctness of the emitted comparison and address arithmetic as machine code, full soundness of the elision cache across arbitrary block structure (loops, sealing), the hasSize arithmetic itself (C14).",
		Rules: []core.Rule{
			{ID: "R02.1", Template: "T-WIDTH", Text: "frontend: address from the checking helper with the mnemonic's width; bulk arms range-check every operand", Min: 100},
			{ID: "R02.2", Template: "T-MUSTPASS", Text: "memory reload clears the cached absolute addresses on every path; memory.grow reloads", Min: 2},
			{ID: "R02.3", Template: "T-REPR", Text: "signedness of folded constant extends agrees with the extend kind", Min: 2},
			{ID: "R02.4", Template: "T-WIDTH", Text: "amd64 memory-operand emitters access exactly the width of their arm", Min: 4},
			{ID: "R02.5", Template: "T-REPR", Text: "raw-register folding of zero-extends implies a zero-extending lowering of Ireduce", Min: 1},
			{ID: "R02.7", Template: "T-MUSTPASS", Text: "the elision cache is merged conservatively at joins: every predecessor takes part, the minimum bound is kept", Min: 2},
			{ID: "R02.8", Template: "T-CONSULT", Text: "a memory import is linked only when declared and actual sharedness are equal (the compiler omits the base reload for memories declared shared)", Min: 1},
			{ID: "R02.9", Template: "T-WIDTH", Text: "32-bit address arithmetic in front of an interpreter memory accessor is guarded against wrap-around (genuine defect found and fixed: v128.load)", Min: 2},
			{ID: "R02.10", Template: "T-WIDTH", Text: "every frontend load of a memory's byte length is 64 bits wide, as the module engine writes it (known findings: three 32-bit loads)", Min: 4},
			{ID: "R02.11", Template: "T-REPR", Text: "amd64 sign-extending narrow loads extend to 32 bits for i32 results (genuine defect found and fixed)", Min: 1},
			{ID: "R02.12", Template: "T-CONSULT", Text: "the published base of a local memory is withheld only without a backing array (genuine defect found and fixed)", Min: 1},
			{ID: "R02.6", Template: "T-WIDTH", Text: "interpreter lowering and execution arms agree with the mnemonic's width", Min: 100},
		},
		Run: runC02,
		Controls: []core.Control{
			{Name: "sload8-64bit-for-i32", File: "internal/engine/wazevo/backend/isa/amd64/machine.go", Old: "\tcase op == ssa.OpcodeSload8 && !dst64bit:\n\t\tload.asMovsxRmR(extModeBL, mem, dst)", New: "\tcase op == ssa.OpcodeSload8 && !dst64bit:\n\t\tload.asMovsxRmR(extModeBQ, mem, dst)", Rule: "R02.11", Substr: "lowerExtLoad"},
			{Name: "shared-base-withheld-while-empty", File: "internal/engine/wazevo/module_engine.go", Old: "\tif cap(mem.Buffer) > 0 {", New: "\tif len(mem.Buffer) > 0 {", Rule: "R02.12", Substr: "putLocalMemory"},
			{Name: "imported-memory-length-32bit", File: "internal/engine/wazevo/frontend/lower.go", Old: "\t\t\tloadBufSizePtr.AsLoad(memInstPtr, memoryInstanceBufSizeOffset, ssa.TypeI64)", New: "\t\t\tloadBufSizePtr.AsExtLoad(ssa.OpcodeUload32, memInstPtr, memoryInstanceBufSizeOffset, true)", Rule: "R02.10", Substr: "imported memory"},
			{Name: "store64-lane-checked-as-4", File: "internal/engine/wazevo/frontend/lower.go", Old: "storeOp, lane, opSize = ssa.OpcodeStore, ssa.VecLaneI64x2, 8", New: "storeOp, lane, opSize = ssa.OpcodeStore, ssa.VecLaneI64x2, 4", Rule: "R02.1", Substr: "OpcodeVecV128Store64Lane"},
			{Name: "i64-load32-checked-as-2", File: "internal/engine/wazevo/frontend/lower.go", Old: "\t\tcase wasm.OpcodeI64Load32S, wasm.OpcodeI64Load32U:\n\t\t\topSize = 4\n", New: "\t\tcase wasm.OpcodeI64Load32S, wasm.OpcodeI64Load32U:\n\t\t\topSize = 2\n", Rule: "R02.1", Substr: "OpcodeI64Load32"},
			{Name: "v128-load-without-check", File: "internal/engine/wazevo/frontend/lower.go", Old: "\t\t\taddr := c.memOpSetup(baseAddr, uint64(offset), 16)\n\t\t\tload := builder.AllocateInstruction()\n\t\t\tload.AsLoad(addr, offset, ssa.TypeV128)", New: "\t\t\taddr := builder.AllocateInstruction().AsIadd(c.getMemoryBaseValue(false), builder.AllocateInstruction().AsUExtend(baseAddr, 32, 64).Insert(builder).Return()).Insert(builder).Return()\n\t\t\tload := builder.AllocateInstruction()\n\t\t\tload.AsLoad(addr, offset, ssa.TypeV128)", Rule: "R02.1", Substr: "OpcodeVecV128Load "},
			{Name: "atomic-rmw16-checked-as-1", File: "internal/engine/wazevo/frontend/lower.go", Old: "\t\t\t\tcase wasm.OpcodeAtomicI32Rmw16AddU, wasm.OpcodeAtomicI64Rmw16AddU:\n\t\t\t\t\tsize = 2", New: "\t\t\t\tcase wasm.OpcodeAtomicI32Rmw16AddU, wasm.OpcodeAtomicI64Rmw16AddU:\n\t\t\t\t\tsize = 1", Rule: "R02.1", Substr: "Rmw16AddU"},
			{Name: "reload-keeps-cached-addresses-for-imports", File: "internal/engine/wazevo/frontend/lower.go", Old: "\tc.resetAbsoluteAddressInSafeBounds()\n}\n\nfunc (c *Compiler) setWasmGlobalValue", New: "\tif c.offset.LocalMemoryBegin >= 0 {\n\t\tc.resetAbsoluteAddressInSafeBounds()\n\t}\n}\n\nfunc (c *Compiler) setWasmGlobalValue", Rule: "R02.2", Substr: "reload"},
			{Name: "amd64-extend-kinds-swapped", File: "internal/engine/wazevo/backend/isa/amd64/lower_mem.go", Old: "\t\tcase constInst && op == ssa.OpcodeUExtend:\n\t\t\treturn addend{regalloc.VRegInvalid, int64(uint32(inputDef.Instr.ConstantVal())), 0}", New: "\t\tcase constInst && op == ssa.OpcodeUExtend:\n\t\t\treturn addend{regalloc.VRegInvalid, int64(int32(inputDef.Instr.ConstantVal())), 0}", Rule: "R02.3", Substr: "amd64"},
			{Name: "arm64-extend-kinds-swapped", File: "internal/engine/wazevo/backend/isa/arm64/lower_mem.go", Old: "\t\t\t\toffset += int64(uint32(inputDef.Instr.ConstantVal()))", New: "\t\t\t\toffset += int64(int32(inputDef.Instr.ConstantVal()))", Rule: "R02.3", Substr: "arm64"},
			{Name: "amd64-splat32-loads-8-bytes", File: "internal/engine/wazevo/backend/isa/amd64/machine_vec.go", Old: "\tcase ssa.VecLaneI32x4:\n\t\tm.insert(m.allocateInstr().asMovzxRmR(extModeLQ, am, tmpGp))", New: "\tcase ssa.VecLaneI32x4:\n\t\tm.insert(m.allocateInstr().asMov64MR(am, tmpGp))", Rule: "R02.4", Substr: "lowerLoadSplat"},
			{Name: "amd64-uload16-loads-4-bytes", File: "internal/engine/wazevo/backend/isa/amd64/machine.go", Old: "\tcase ssa.OpcodeUload16:\n\t\tload.asMovzxRmR(extModeWQ, mem, dst)", New: "\tcase ssa.OpcodeUload16:\n\t\tload.asMovzxRmR(extModeLQ, mem, dst)", Rule: "R02.4", Substr: "lowerExtLoad"},
			{Name: "amd64-ireduce-plain-copy", File: "internal/engine/wazevo/backend/isa/amd64/machine.go", Old: "\t\tm.insert(m.allocateInstr().asMovzxRmR(extModeLQ, rn, rd))\n\n\tcase ssa.OpcodeAtomicLoad:", New: "\t\tm.copyTo(rn.reg(), rd)\n\n\tcase ssa.OpcodeAtomicLoad:", Old2: "\t\trn := m.getOperand_Mem_Reg(m.c.ValueDefinition(instr.Arg()))\n\t\tretVal := instr.Return()", New2: "\t\trn := m.getOperand_Reg(m.c.ValueDefinition(instr.Arg()))\n\t\tretVal := instr.Return()", Rule: "R02.5", Substr: "Ireduce"},
			{Name: "v128-load-high-half-unguarded", File: "internal/engine/interpreter/interpreter.go", Old: "\t\t\t\tif uint64(offset)+8 > math.MaxUint32 { // offset+8 must not wrap around on a 4GiB memory.\n\t\t\t\t\tpanic(wasmruntime.ErrRuntimeOutOfBoundsMemoryAccess)\n\t\t\t\t}\n", New: "", Rule: "R02.9", Substr: "ReadUint64Le"},
			{Name: "memory-shared-one-direction", File: "internal/wasm/store.go", Old: "if expected.IsShared != importedMemory.Shared {", New: "if importedMemory.Shared && !expected.IsShared {", Rule: "R02.8", Substr: "sharedness must be equal"},
			{Name: "merge-skips-empty-predecessors", File: "internal/engine/wazevo/frontend/frontend.go", Old: "\t\t\tc.bounds = append(c.bounds, c.getKnownSafeBoundsAtTheEndOfBlocks(currentBlk.Pred(i).ID()).View())\n\t\t\tc.pointers = append(c.pointers, 0)\n", New: "\t\t\tif b := c.getKnownSafeBoundsAtTheEndOfBlocks(currentBlk.Pred(i).ID()).View(); len(b) > 0 {\n\t\t\t\tc.bounds = append(c.bounds, b)\n\t\t\t\tc.pointers = append(c.pointers, 0)\n\t\t\t}\n", Rule: "R02.7", Substr: "predecessor"},
			{Name: "merge-keeps-larger-bound", File: "internal/engine/wazevo/frontend/frontend.go", Old: "\t\t\t\t\tif cb.bound < minBound {\n\t\t\t\t\t\tminBound = cb.bound\n\t\t\t\t\t}", New: "\t\t\t\t\tif cb.bound > minBound || minBound == math.MaxUint64 {\n\t\t\t\t\t\tminBound = cb.bound\n\t\t\t\t\t}", Rule: "R02.7", Substr: "minimum"},
			{Name: "interp-load16-lowered-as-load8", File: "internal/engine/interpreter/compiler.go", Old: "\t\tc.emit(newOperationLoad16(signedUint32, imm))", New: "\t\tc.emit(newOperationLoad8(signedUint32, imm))", Rule: "R02.6", Substr: "OpcodeI32Load16U"},
			{Name: "interp-store32-arm-writes-8", File: "internal/engine/interpreter/interpreter.go", Old: "\t\tcase operationKindStore32:\n\t\t\tval := uint32(ce.popValue())\n\t\t\toffset := ce.popMemoryOffset(op)\n\t\t\tif !memoryInst.WriteUint32Le(offset, val) {", New: "\t\tcase operationKindStore32:\n\t\t\tval := ce.popValue()\n\t\t\toffset := ce.popMemoryOffset(op)\n\t\t\tif !memoryInst.WriteUint64Le(offset, val) {", Rule: "R02.6", Substr: "operationKindStore32"},
		},
		Configs: []core.BuildCfg{{GOOS: "linux", GOARCH: "arm64"}},
	})
}

func runC02(c *core.Ctx) {
	checkFrontendAccessWidths(c, "R02.1")
	checkReloadClearsCache(c)
	checkExtendFolding(c)
	checkBackendMemOperandWidths(c)
	checkIreduceZeroExtends(c)
	checkInterpreterWidths(c, "R02.6")
	checkElisionMerge(c, "R02.7")
	checkSharednessRelation(c, "R02.8")
	checkAddressWrapGuards(c)
	checkMemoryLengthWidth(c)
	checkSignedExtLoads32(c)
	checkSharedBaseConstant(c)
}

// ---------------------------------------------------------------------------------------------------------
// R02.1

var ssaTypeBytes = map[string]int64{"TypeI32": 4, "TypeF32": 4, "TypeI64": 8, "TypeF64": 8, "TypeV128": 16}

func checkFrontendAccessWidths(c *core.Ctx, rule string) {
	p := c.Pkg("internal/engine/wazevo/frontend")
	if p == nil {
		c.Undecided(rule, "frontend", 0, "package not loaded")
		return
	}
	info := p.TypesInfo
	d := dispatcherOf(p)
	if d == nil {
		c.Undecided(rule, "frontend dispatcher", 0, "not found")
		return
	}
	// the checking helpers: functions of Compiler with a parameter list (base, constOffset, size) that return an address
	// anchored semantically: the methods that emit the out-of-bounds exit; those returning a value are the address
	// helpers (plus wrappers that return the result of one), the others the range check of the bulk operations
	setupFns, rangeFns := boundsHelpers(p)
	if len(setupFns) == 0 || len(rangeFns) == 0 {
		c.Undecided(rule, "bounds-checking helpers of the frontend", d.Pos(), "no method emitting ExitCodeMemoryOutOfBounds found (address helper / range check)")
		return
	}
	isSetup := func(f *types.Func) bool { return setupFns[f] }
	isRange := func(f *types.Func) bool { return rangeFns[f] }
	tags := switchTagVars(info, d.Body)
	helperOf := func(f *types.Func) *ast.FuncDecl {
		if f.Pkg() != p.Types {
			return nil
		}
		return declOf(p, f)
	}
	emitsAccess := func(n ast.Node) []string {
		var out []string
		ast.Inspect(n, func(x ast.Node) bool {
			if call, ok := x.(*ast.CallExpr); ok {
				if f := core.Callee(info, call); f != nil {
					switch f.Name() {
					case "AsLoad", "AsStore", "AsExtLoad", "AsVZeroExtLoad", "AsLoadSplat", "AsAtomicLoad", "AsAtomicStore", "AsAtomicRmw", "AsAtomicCas":
						out = append(out, f.Name())
					}
				}
			}
			return true
		})
		return out
	}
	n := 0
	ast.Inspect(d.Body, func(x ast.Node) bool {
		cc, ok := x.(*ast.CaseClause)
		if !ok {
			return true
		}
		handled := false
		defer func() { _ = handled }()
		for _, l := range cc.List {
			name := constNameOf(info, l)
			if name == "" || opClass(name) == "" {
				continue
			}
			obj := constObjOf(info, l)
			if w := specWidth(name); w > 0 {
				handled = true
				n++
				ev := &armEval{info: info, label: obj, tags: tags, want: isSetup, sizeOf: ssaTypeBytes, helper: helperOf}
				ev.run(cc.Body, map[types.Object]aval{})
				construct := "frontend arm " + name + " checks " + strconv.Itoa(w) + " byte(s)"
				if len(ev.calls) == 0 {
					c.Violate(rule, construct, cc.Pos(), "the arm emits "+strings.Join(emitsAccess(cc), ", ")+" but never calls the bounds-checking address helper: the access is not checked against the memory size")
					continue
				}
				var bad []string
				undec := false
				for _, ac := range ev.calls {
					if len(ac.args) < 2 || ac.args[len(ac.args)-1].val == nil {
						undec = true
						continue
					}
					if v, ok := constant.Int64Val(ac.args[len(ac.args)-1].val); !ok || int(v) != w {
						bad = append(bad, fmt.Sprintf("%s passes %s at %s", core.ExprStr(ac.call.Fun), ac.args[len(ac.args)-1].val.String(), c.Pos(ac.call.Pos())))
					}
				}
				switch {
				case len(bad) > 0:
					c.Violate(rule, construct, cc.Pos(), "the instruction accesses "+strconv.Itoa(w)+" byte(s) but "+strings.Join(bad, "; ")+" as the access size: an access ending beyond the memory size (or elided against a smaller checked ceiling) is not trapped and touches bytes outside the linear memory")
				case undec:
					c.Undecided(rule, construct, cc.Pos(), "size argument of the checking helper is not a constant for this label")
				default:
					c.Discharge(rule, construct, cc.Pos(), fmt.Sprintf("%d helper call(s), size %d", len(ev.calls), w))
				}
			}
			// bulk operations
			switch name {
			case "OpcodeMiscMemoryCopy", "OpcodeMiscMemoryFill", "OpcodeMiscMemoryInit":
				handled = true
				n++
				ev := &armEval{info: info, label: obj, tags: tags, want: isRange, sizeOf: ssaTypeBytes, helper: helperOf}
				ev.run(cc.Body, map[types.Object]aval{})
				need := 1
				if name == "OpcodeMiscMemoryCopy" {
					need = 2
				}
				c.Check(len(ev.calls) >= need, rule, "frontend arm "+name+" range-checks its operands", cc.Pos(), fmt.Sprintf("%d range check(s)", len(ev.calls)),
					fmt.Sprintf("only %d call(s) of the range check, %d operand range(s) in linear memory: a bulk operation reads or writes outside the memory", len(ev.calls), need))
			}
		}
		return !handled
	})
	c.Count("frontend_memory_arms", n)
	// every emission of a memory access in the dispatcher lies in an arm that was checked above: the emitters take
	// the address from the helper – arms that emit AsLoad/AsStore without a memory mnemonic use other bases (tables,
	// globals, module context) and are out of scope.
}

// ---------------------------------------------------------------------------------------------------------
// R02.2

func checkReloadClearsCache(c *core.Ctx) {
	c.SSA()
	fns := moduleFns(c, "internal/engine/wazevo/frontend")
	var reset, reload *ssa.Function
	for _, fn := range fns {
		if fn.Name() == "resetAbsoluteAddressInSafeBounds" {
			reset = fn
		}
	}
	if reset == nil {
		c.Undecided("R02.2", "anchors", 0, "resetAbsoluteAddressInSafeBounds not found")
		return
	}
	// the reload helper(s): direct callers of reset that are not the per-function initialisation
	n := 0
	for _, fn := range fns {
		calls := false
		for _, b := range fn.Blocks {
			for _, in := range b.Instrs {
				if call, ok := in.(*ssa.Call); ok && call.Common().StaticCallee() == reset {
					calls = true
				}
			}
		}
		if !calls || !strings.Contains(strings.ToLower(fn.Name()), "reload") {
			continue
		}
		reload = fn
		n++
		// every path from entry to return passes the reset
		seen := map[*ssa.BasicBlock]bool{}
		var bad token.Pos
		var visit func(b *ssa.BasicBlock) bool
		visit = func(b *ssa.BasicBlock) bool {
			for _, in := range b.Instrs {
				if call, ok := in.(*ssa.Call); ok && call.Common().StaticCallee() == reset {
					return true
				}
			}
			if len(b.Instrs) > 0 {
				if r, ok := b.Instrs[len(b.Instrs)-1].(*ssa.Return); ok {
					bad = r.Pos()
					return false
				}
			}
			for _, s := range b.Succs {
				if seen[s] {
					continue
				}
				seen[s] = true
				if !visit(s) {
					return false
				}
			}
			return true
		}
		ok := visit(fn.Blocks[0])
		c.Check(ok, "R02.2", "memory reload "+fn.Name()+" clears the cached absolute addresses on every path", fn.Pos(), "every path calls resetAbsoluteAddressInSafeBounds",
			"a path through the reload helper (it returns without the call; "+c.Pos(bad)+") keeps the cached absolute addresses: after a call or memory.grow that moved the buffer, an access whose check is elided goes to the old buffer")
	}
	if reload == nil {
		c.Violate("R02.2", "memory reload clears the cached absolute addresses", reset.Pos(), "no reload helper calls resetAbsoluteAddressInSafeBounds: cached absolute addresses survive calls and memory.grow")
		return
	}
	// memory.grow arm reloads
	p := c.Pkg("internal/engine/wazevo/frontend")
	info := p.TypesInfo
	d := dispatcherOf(p)
	found := false
	ast.Inspect(d.Body, func(x ast.Node) bool {
		cc, ok := x.(*ast.CaseClause)
		if !ok {
			return true
		}
		for _, l := range cc.List {
			if constNameOf(info, l) == "OpcodeMemoryGrow" {
				found = true
				calls := false
				for _, sn := range armScope(p, cc) { // the arm, or the method it hands the lowering to
					ast.Inspect(sn, func(y ast.Node) bool {
						if call, ok := y.(*ast.CallExpr); ok {
							if f := core.Callee(info, call); f != nil && (f.Name() == reload.Name() || f.Name() == "reloadAfterCall") {
								calls = true
							}
						}
						return true
					})
				}
				c.Check(calls, "R02.2", "memory.grow arm reloads base and length", cc.Pos(), "calls the reload helper", "the memory.grow arm does not reload the memory base/length: later accesses use the buffer and size from before the growth")
			}
		}
		return true
	})
	if !found {
		c.Undecided("R02.2", "memory.grow arm", 0, "arm not found")
	}
}

// ---------------------------------------------------------------------------------------------------------
// R02.3

var (
	reUTok = regexp.MustCompile(`UExtend|UXT|Uload`)
	reSTok = regexp.MustCompile(`SExtend|SXT|Sload`)
)

func checkExtendFolding(c *core.Ctx) {
	for _, rel := range []string{"internal/engine/wazevo/backend/isa/amd64", "internal/engine/wazevo/backend/isa/arm64"} {
		p := c.Pkg(rel)
		if p == nil {
			continue
		}
		isa := rel[strings.LastIndex(rel, "/")+1:]
		info := p.TypesInfo
		core.AllFuncDecls(p, func(fd *ast.FuncDecl) {
			// functions that dispatch on both extend opcodes and fold constants
			hasU, hasS, folds := false, false, false
			ast.Inspect(fd.Body, func(x ast.Node) bool {
				switch y := x.(type) {
				case *ast.CaseClause:
					for _, l := range y.List {
						switch constNameOf(info, l) {
						case "OpcodeUExtend":
							hasU = true
						case "OpcodeSExtend":
							hasS = true
						}
					}
				case *ast.CallExpr:
					if f := core.Callee(info, y); f != nil && f.Name() == "ConstantVal" {
						folds = true
					}
				case *ast.SelectorExpr:
					// … or tests them in conditions (`if op == ssa.OpcodeUExtend`), e.g. in a method the arm was moved into
					switch y.Sel.Name {
					case "OpcodeUExtend":
						hasU = true
					case "OpcodeSExtend":
						hasS = true
					}
				}
				return true
			})
			if !hasS && hasU && folds {
				// one opcode tested, the other in the else branch
				hasS = true
			}
			if !hasU || !hasS || !folds {
				return
			}
			var bad []string
			sites := 0
			kindOf := func(cond ast.Expr) int { // +1 unsigned, -1 signed, 0 neither/both
				s := core.ExprStr(cond)
				u, sg := reUTok.MatchString(s), reSTok.MatchString(s)
				neg := strings.Contains(s, "!=")
				switch {
				case u && !sg && !neg:
					return 1
				case sg && !u && !neg:
					return -1
				}
				return 0
			}
			checkRegion := func(kind int, stmts []ast.Stmt) {
				for _, s := range stmts {
					ast.Inspect(s, func(x ast.Node) bool {
						call, ok := x.(*ast.CallExpr)
						if !ok || len(call.Args) != 1 {
							return true
						}
						tv, ok := info.Types[call.Fun]
						if !ok || !tv.IsType() {
							return true
						}
						b, ok := tv.Type.Underlying().(*types.Basic)
						if !ok || b.Info()&types.IsInteger == 0 {
							return true
						}
						// a narrowing conversion directly under a widening one: int64(int32(x)) / int64(uint32(x))
						if b.Kind() != types.Int32 && b.Kind() != types.Uint32 && b.Kind() != types.Int16 && b.Kind() != types.Uint16 && b.Kind() != types.Int8 && b.Kind() != types.Uint8 {
							return true
						}
						sites++
						unsigned := b.Info()&types.IsUnsigned != 0
						if (kind > 0) != unsigned {
							bad = append(bad, fmt.Sprintf("%s under a %s guard at %s", core.ExprStr(call), map[bool]string{true: "zero-extend", false: "sign-extend"}[kind > 0], c.Pos(call.Pos())))
						}
						return true
					})
				}
			}
			ast.Inspect(fd.Body, func(x ast.Node) bool {
				switch y := x.(type) {
				case *ast.CaseClause:
					for _, l := range y.List {
						if k := kindOf(l); k != 0 && len(y.List) == 1 {
							checkRegion(k, y.Body)
						}
					}
				case *ast.IfStmt:
					if k := kindOf(y.Cond); k != 0 {
						checkRegion(k, y.Body.List)
						if el, ok := y.Else.(*ast.BlockStmt); ok {
							checkRegion(-k, el.List)
						}
					}
				}
				return true
			})
			// the U/S selector variable, when there is one, must be assigned consistently
			ast.Inspect(fd.Body, func(x ast.Node) bool {
				is, ok := x.(*ast.IfStmt)
				if !ok {
					return true
				}
				k := kindOf(is.Cond)
				if k == 0 {
					return true
				}
				chk := func(kind int, stmts []ast.Stmt) {
					for _, s := range stmts {
						if as, ok := s.(*ast.AssignStmt); ok && len(as.Rhs) == 1 {
							r := core.ExprStr(as.Rhs[0])
							u, sg := reUTok.MatchString(r), reSTok.MatchString(r)
							if u != sg {
								sites++
								if (kind > 0) != u {
									bad = append(bad, fmt.Sprintf("%s assigned under a %s guard at %s", r, map[bool]string{true: "zero-extend", false: "sign-extend"}[kind > 0], c.Pos(as.Pos())))
								}
							}
						}
					}
				}
				chk(k, is.Body.List)
				if el, ok := is.Else.(*ast.BlockStmt); ok {
					chk(-k, el.List)
				}
				return true
			})
			if sites == 0 {
				return
			}
			c.Check(len(bad) == 0, "R02.3", isa+" "+core.FuncName(p, fd)+" folds extends with the matching signedness", fd.Pos(), fmt.Sprintf("%d conversion/selector site(s) agree with their guard", sites),
				"the extend kind and the conversion disagree ("+strings.Join(bad, "; ")+"): a 32-bit address constant with the top bit set is folded with the wrong sign and the access lands 4 GiB away from the checked address")
		})
	}
}

// ---------------------------------------------------------------------------------------------------------
// R02.4

var (
	laneBytes   = map[string]int{"VecLaneI8x16": 1, "VecLaneI16x8": 2, "VecLaneI32x4": 4, "VecLaneI64x2": 8, "VecLaneF32x4": 4, "VecLaneF64x2": 8}
	extLoadByte = map[string]int{"OpcodeUload8": 1, "OpcodeSload8": 1, "OpcodeUload16": 2, "OpcodeSload16": 2, "OpcodeUload32": 4, "OpcodeSload32": 4, "OpcodeIstore8": 1, "OpcodeIstore16": 2, "OpcodeIstore32": 4}
)

func checkBackendMemOperandWidths(c *core.Ctx) {
	p := c.Pkg("internal/engine/wazevo/backend/isa/amd64")
	if p == nil {
		return
	}
	info := p.TypesInfo
	total := 0
	core.AllFuncDecls(p, func(fd *ast.FuncDecl) {
		// memory-operand variables: assigned from newOperandMem(m.lowerToAddressMode(ptr, …))
		memVars := map[types.Object]bool{}
		ast.Inspect(fd.Body, func(x ast.Node) bool {
			as, ok := x.(*ast.AssignStmt)
			if !ok || len(as.Lhs) != 1 || len(as.Rhs) != 1 {
				return true
			}
			fromPtr := false
			ast.Inspect(as.Rhs[0], func(y ast.Node) bool {
				if call, ok := y.(*ast.CallExpr); ok {
					if f := core.Callee(info, call); f != nil && f.Name() == "lowerToAddressMode" {
						fromPtr = true
					}
				}
				return true
			})
			if fromPtr {
				if id, ok := as.Lhs[0].(*ast.Ident); ok {
					if o := info.Defs[id]; o != nil {
						memVars[o] = true
					}
				}
			}
			return true
		})
		if len(memVars) == 0 {
			return
		}
		usesMem := func(call *ast.CallExpr) bool {
			for _, a := range call.Args {
				if id, ok := ast.Unparen(a).(*ast.Ident); ok && memVars[info.Uses[id]] {
					return true
				}
			}
			return false
		}
		var bad []string
		n := 0
		ast.Inspect(fd.Body, func(x ast.Node) bool {
			sw, ok := x.(*ast.SwitchStmt)
			if !ok || sw.Tag == nil {
				return true
			}
			for _, s := range sw.Body.List {
				cc := s.(*ast.CaseClause)
				need := 0
				var labels []string
				for _, l := range cc.List {
					nm := constNameOf(info, l)
					w := 0
					if b, ok := typeBytes[nm]; ok {
						w = b
					} else if b, ok := laneBytes[nm]; ok {
						w = b
					} else if b, ok := extLoadByte[nm]; ok {
						w = b
					}
					if w > 0 {
						labels = append(labels, nm)
						if need != 0 && need != w {
							need = -1
						} else if need == 0 {
							need = w
						}
					}
				}
				if need <= 0 {
					continue
				}
				for _, st := range cc.Body {
					ast.Inspect(st, func(y ast.Node) bool {
						if _, nested := y.(*ast.SwitchStmt); nested {
							return false
						}
						call, ok := y.(*ast.CallExpr)
						if !ok || !usesMem(call) {
							return true
						}
						if w := emitterWidth(info, call); w > 0 {
							n++
							if w != need {
								bad = append(bad, fmt.Sprintf("arm %s accesses %d byte(s) through `%s` at %s, the arm's width is %d", strings.Join(labels, ","), w, core.ExprStr(call.Fun), c.Pos(call.Pos()), need))
							}
						}
						return true
					})
				}
			}
			return true
		})
		// the same arms written as an if/else-if chain: `if op == ssa.OpcodeUload8 { … }`
		widthOfLabel := func(nm string) int {
			if b, ok := typeBytes[nm]; ok {
				return b
			} else if b, ok := laneBytes[nm]; ok {
				return b
			} else if b, ok := extLoadByte[nm]; ok {
				return b
			}
			return 0
		}
		ast.Inspect(fd.Body, func(x ast.Node) bool {
			is, ok := x.(*ast.IfStmt)
			if !ok {
				return true
			}
			need := 0
			var labels []string
			ast.Inspect(is.Cond, func(y ast.Node) bool {
				if be, ok := y.(*ast.BinaryExpr); ok && be.Op == token.EQL {
					for _, side := range []ast.Expr{be.X, be.Y} {
						if nm := constNameOf(info, side); nm != "" {
							if w := widthOfLabel(nm); w > 0 {
								labels = append(labels, nm)
								if need != 0 && need != w {
									need = -1
								} else if need == 0 {
									need = w
								}
							}
						}
					}
				}
				return true
			})
			if need <= 0 {
				return true
			}
			for _, st := range is.Body.List {
				ast.Inspect(st, func(y ast.Node) bool {
					switch y.(type) {
					case *ast.SwitchStmt, *ast.IfStmt:
						return false
					}
					call, ok := y.(*ast.CallExpr)
					if !ok || !usesMem(call) {
						return true
					}
					if w := emitterWidth(info, call); w > 0 {
						n++
						if w != need {
							bad = append(bad, fmt.Sprintf("branch %s accesses %d byte(s) through `%s` at %s, the branch's width is %d", strings.Join(labels, ","), w, core.ExprStr(call.Fun), c.Pos(call.Pos()), need))
						}
					}
					return true
				})
			}
			return true
		})
		if n > 0 {
			total += n
			c.Check(len(bad) == 0, "R02.4", "amd64 "+core.FuncName(p, fd)+" accesses exactly the width of its arm", fd.Pos(), fmt.Sprintf("%d constant-width memory emitters agree with their arms", n),
				strings.Join(bad, "; ")+": the machine instruction touches more (or fewer) bytes than the frontend checked – a wider read at the end of memory faults or leaks host bytes")
		}
	})
	c.Count("amd64_mem_operand_emitters", total)
}

// ---------------------------------------------------------------------------------------------------------
// R02.5

func checkIreduceZeroExtends(c *core.Ctx) {
	p := c.Pkg("internal/engine/wazevo/backend/isa/amd64")
	if p == nil {
		return
	}
	info := p.TypesInfo
	// does the address folding use the raw register of an extend's input?
	rawFold := false
	var foldPos token.Pos
	core.AllFuncDecls(p, func(fd *ast.FuncDecl) {
		ast.Inspect(fd.Body, func(x ast.Node) bool {
			cc, ok := x.(*ast.CaseClause)
			if !ok {
				return true
			}
			isExt := false
			for _, l := range cc.List {
				if constNameOf(info, l) == "OpcodeUExtend" {
					isExt = true
				}
			}
			if !isExt {
				return true
			}
			// a return / enqueue of `addend{r.reg(), 0, 0}` built from getOperand_Reg(inputDef) with no extend emitted
			emitsExt := false
			usesReg := false
			ast.Inspect(cc, func(y ast.Node) bool {
				if call, ok := y.(*ast.CallExpr); ok {
					if f := core.Callee(info, call); f != nil {
						if f.Name() == "asMovzxRmR" || f.Name() == "asMovsxRmR" {
							emitsExt = true
						}
						if f.Name() == "getOperand_Reg" {
							usesReg = true
						}
					}
				}
				return true
			})
			if usesReg && !emitsExt && strings.Contains(core.FuncName(p, fd), "Addend") {
				rawFold = true
				foldPos = cc.Pos()
			}
			return true
		})
	})
	if !rawFold {
		c.Discharge("R02.5", "amd64 address folding extends explicitly", 0, "no raw-register folding of extends found: no dependency on the upper half of 32-bit values")
		return
	}
	// the Ireduce arm of LowerInstr
	var arm *ast.CaseClause
	core.AllFuncDecls(p, func(fd *ast.FuncDecl) {
		if fd.Name.Name != "LowerInstr" {
			return
		}
		ast.Inspect(fd.Body, func(x ast.Node) bool {
			if cc, ok := x.(*ast.CaseClause); ok {
				for _, l := range cc.List {
					if constNameOf(info, l) == "OpcodeIreduce" {
						arm = cc
					}
				}
			}
			return true
		})
	})
	if arm == nil {
		c.Undecided("R02.5", "amd64 Ireduce arm", 0, "not found")
		return
	}
	zext, copies := false, []string{}
	ast.Inspect(arm, func(y ast.Node) bool {
		if call, ok := y.(*ast.CallExpr); ok {
			if f := core.Callee(info, call); f != nil {
				switch f.Name() {
				case "asMovzxRmR":
					if emitterWidth(info, call) == 4 {
						zext = true
					}
				case "copyTo", "asMovRR", "asMov64MR":
					copies = append(copies, f.Name()+" at "+c.Pos(call.Pos()))
				}
			}
		}
		return true
	})
	c.Check(zext && len(copies) == 0, "R02.5", "amd64 Ireduce is lowered with a zero-extending 32-bit move", arm.Pos(),
		"movzx 32→64: the upper half of every i32 register value is zero, which the raw-register folding of UExtend at "+c.Pos(foldPos)+" relies on",
		"i32.wrap_i64 is lowered as a plain register copy ("+strings.Join(copies, ", ")+") so the upper 32 bits survive, while the address folding at "+c.Pos(foldPos)+" adds the raw 64-bit register of a zero-extended value: the bounds check sees the low 32 bits, the access goes to base + a + k·2^32")
}

// ---------------------------------------------------------------------------------------------------------
// R02.6

var (
	reCtorWidth = regexp.MustCompile(`^newOperation(?:Atomic)?(?:Load|Store|RMW)(\d+)`)
	reV128Type  = regexp.MustCompile(`^v128LoadType(\d+)(x\d+[su]|Splat|zero)?$`)
	accessorW   = map[string]int{"ReadByte": 1, "WriteByte": 1, "ReadUint16Le": 2, "WriteUint16Le": 2, "ReadUint32Le": 4, "WriteUint32Le": 4, "ReadFloat32Le": 4, "WriteFloat32Le": 4, "ReadUint64Le": 8, "WriteUint64Le": 8, "ReadFloat64Le": 8, "WriteFloat64Le": 8}
	unsignedTyW = map[string]int{"unsignedTypeI32": 4, "unsignedTypeF32": 4, "unsignedTypeI64": 8, "unsignedTypeF64": 8, "unsignedTypeV128": 16}
	reKindWidth = regexp.MustCompile(`^operationKind(?:Atomic)?(?:Load|Store|RMW)(\d+)`)
)

func checkInterpreterWidths(c *core.Ctx, rule string) {
	p := c.Pkg("internal/engine/interpreter")
	if p == nil {
		c.Undecided(rule, "interpreter", 0, "package not loaded")
		return
	}
	info := p.TypesInfo
	// (a) lowering: constructor width == mnemonic width
	ds := dispatchersOf(p)
	if len(ds) == 0 {
		c.Undecided(rule, "interpreter lowering", 0, "dispatcher not found")
		return
	}
	d := ds[0]
	n := 0
	ast.Inspect(d.Body, func(x ast.Node) bool {
		cc, ok := x.(*ast.CaseClause)
		if !ok {
			return true
		}
		handledL := false
		defer func() { _ = handledL }()
		for _, l := range cc.List {
			name := constNameOf(info, l)
			w := specWidth(name)
			if w == 0 {
				continue
			}
			var got []string
			okAll := true
			found := 0
			for _, st := range cc.Body {
				ast.Inspect(st, func(y ast.Node) bool {
					if _, nested := y.(*ast.CaseClause); nested {
						return false
					}
					call, ok := y.(*ast.CallExpr)
					if !ok {
						return true
					}
					f := core.Callee(info, call)
					if f == nil || !strings.HasPrefix(f.Name(), "newOperation") {
						return true
					}
					cw := ctorWidth(info, f.Name(), call)
					if cw == 0 {
						return true
					}
					found++
					if cw != w {
						okAll = false
						got = append(got, fmt.Sprintf("%s = %d byte(s) at %s", core.ExprStr(call), cw, c.Pos(call.Pos())))
					}
					return true
				})
			}
			handledL = true
			n++
			construct := "interpreter lowering of " + name + " uses a " + strconv.Itoa(w) + "-byte operation"
			switch {
			case found == 0:
				c.Undecided(rule, construct, cc.Pos(), "no memory operation constructor recognised in the arm")
			case !okAll:
				c.Violate(rule, construct, cc.Pos(), "the mnemonic accesses "+strconv.Itoa(w)+" byte(s) but the arm emits "+strings.Join(got, "; ")+": the interpreter checks and touches a different number of bytes than the compiler")
			default:
				c.Discharge(rule, construct, cc.Pos(), fmt.Sprintf("%d constructor(s)", found))
			}
		}
		return !handledL
	})
	c.Count("interpreter_memory_lowering_arms", n)

	// (b) execution arms: accessor width == kind / type-tag width
	var exec *ast.FuncDecl
	core.AllFuncDecls(p, func(fd *ast.FuncDecl) {
		if fd.Name.Name == interpExecLoopName(p) {
			exec = fd
		}
	})
	if exec == nil {
		c.Undecided(rule, "interpreter execution loop", 0, "callNativeFunc not found")
		return
	}
	m := 0
	var walk func(list []ast.Stmt, kindW int, kindName string)
	accessorsIn := func(stmts []ast.Stmt) (out []struct {
		name string
		w    int
		pos  token.Pos
	}) {
		for _, st := range stmts {
			ast.Inspect(st, func(y ast.Node) bool {
				if _, nested := y.(*ast.SwitchStmt); nested {
					return false
				}
				if call, ok := y.(*ast.CallExpr); ok {
					if f := core.Callee(info, call); f != nil && core.RecvNameOf(f) == "MemoryInstance" {
						if w, ok := accessorW[f.Name()]; ok {
							out = append(out, struct {
								name string
								w    int
								pos  token.Pos
							}{f.Name(), w, call.Pos()})
						}
					}
				}
				return true
			})
		}
		return
	}
	walk = func(list []ast.Stmt, kindW int, kindName string) {
		// accessors directly in this list (outside nested switches) must have width kindW when known
		if kindW > 0 {
			var bad []string
			acc := accessorsIn(list)
			for _, a := range acc {
				if a.w != kindW {
					bad = append(bad, fmt.Sprintf("%s (%d bytes) at %s", a.name, a.w, c.Pos(a.pos)))
				}
			}
			if len(acc) > 0 {
				m++
				c.Check(len(bad) == 0, rule, "interpreter arm "+kindName+" accesses "+strconv.Itoa(kindW)+" byte(s)", list[0].Pos(), fmt.Sprintf("%d accessor call(s) of that width", len(acc)),
					"the arm uses "+strings.Join(bad, ", ")+": bounds check and access cover a different number of bytes than the instruction")
			}
		}
		for _, st := range list {
			ast.Inspect(st, func(y ast.Node) bool {
				sw, ok := y.(*ast.SwitchStmt)
				if !ok {
					return true
				}
				for _, cs := range sw.Body.List {
					cc := cs.(*ast.CaseClause)
					w, nm := 0, ""
					mixed := false
					for _, l := range cc.List {
						if b, ok := unsignedTyW[constNameOf(info, l)]; ok {
							if w != 0 && w != b {
								mixed = true
							}
							w, nm = b, kindName+"/"+constNameOf(info, l)
						}
					}
					if mixed {
						w = 0
					}
					if w == 0 {
						w, nm = kindW, kindName
					}
					walk(cc.Body, w, nm)
				}
				return false
			})
		}
	}
	ast.Inspect(exec.Body, func(x ast.Node) bool {
		cc, ok := x.(*ast.CaseClause)
		if !ok {
			return true
		}
		for _, l := range cc.List {
			nm := constNameOf(info, l)
			if !strings.HasPrefix(nm, "operationKind") {
				continue
			}
			isMem := strings.Contains(nm, "Load") || strings.Contains(nm, "Store") || strings.Contains(nm, "AtomicRMW")
			if !isMem || strings.Contains(nm, "V128") {
				continue
			}
			w := 0
			if mm := reKindWidth.FindStringSubmatch(nm); mm != nil {
				w, _ = strconv.Atoi(mm[1])
				w /= 8
			}
			if len(cc.Body) > 0 {
				walk(cc.Body, w, nm)
			}
			return false
		}
		return true
	})
	c.Count("interpreter_memory_exec_checks", m)
	if m < 20 {
		c.Undecided(rule, "interpreter execution arms", exec.Pos(), fmt.Sprintf("only %d width-checked arm(s) found", m))
	}
	sort.Strings(nil)
}

// ctorWidth: bytes accessed by the operation built by newOperationXxx(args).
func ctorWidth(info *types.Info, name string, call *ast.CallExpr) int {
	if !(strings.Contains(name, "Load") || strings.Contains(name, "Store") || strings.Contains(name, "RMW") || strings.Contains(name, "MemoryWait") || strings.Contains(name, "MemoryNotify")) {
		return 0
	}
	if name == "newOperationAtomicMemoryNotify" {
		return 4
	}
	if m := reCtorWidth.FindStringSubmatch(name); m != nil {
		v, _ := strconv.Atoi(m[1])
		return v / 8
	}
	if name == "newOperationV128Store" {
		return 16
	}
	if name == "newOperationV128LoadLane" || name == "newOperationV128StoreLane" {
		if len(call.Args) >= 2 {
			if v, ok := core.ConstVal(info, call.Args[1]); ok {
				return int(v / 8)
			}
		}
		return 0
	}
	for _, a := range call.Args {
		nm := constNameOf(info, a)
		if w, ok := unsignedTyW[nm]; ok {
			return w
		}
		if m := reV128Type.FindStringSubmatch(nm); m != nil {
			v, _ := strconv.Atoi(m[1])
			switch {
			case strings.HasPrefix(m[2], "x"):
				return 8
			case m[2] == "" && v == 128:
				return 16
			default:
				return v / 8
			}
		}
	}
	return 0
}

// ---------------------------------------------------------------------------------------------------------
// R02.7 the bounds-check elision cache is merged conservatively at control-flow joins

func checkElisionMerge(c *core.Ctx, rule string) {
	p := c.Pkg("internal/engine/wazevo/frontend")
	if p == nil {
		return
	}
	info := p.TypesInfo
	// the merge function: reads the per-block records of predecessors and records bounds for the current block
	var merge *ast.FuncDecl
	core.AllFuncDecls(p, func(fd *ast.FuncDecl) {
		readsPred, records := false, false
		ast.Inspect(fd.Body, func(x ast.Node) bool {
			if call, ok := x.(*ast.CallExpr); ok {
				if f := core.Callee(info, call); f != nil {
					if f.Name() == "Pred" && len(call.Args) == 1 {
						// the merge reads EVERY predecessor (a variable index); a helper for the sole-predecessor case reads Pred(0)
						if _, isK := core.ConstVal(info, call.Args[0]); !isK {
							readsPred = true
						}
					}
					if f.Name() == "recordKnownSafeBound" {
						records = true
					}
				}
			}
			return true
		})
		if readsPred && records {
			merge = fd
		}
	})
	if merge == nil {
		c.Undecided(rule, "elision-cache merge function", 0, "no function reads predecessors' records and records bounds")
		return
	}
	// (a) every predecessor participates: appends of a predecessor's record are unconditional statements of a loop
	// over all predecessors
	var bad []string
	nAppend := 0
	var stack []ast.Node
	ast.Inspect(merge.Body, func(x ast.Node) bool {
		if x == nil {
			stack = stack[:len(stack)-1]
			return true
		}
		stack = append(stack, x)
		call, ok := x.(*ast.CallExpr)
		if !ok || !core.IsBuiltin(info, call, "append") {
			return true
		}
		mentionsPred := false
		ast.Inspect(call, func(y ast.Node) bool {
			if c2, ok := y.(*ast.CallExpr); ok {
				if f := core.Callee(info, c2); f != nil && f.Name() == "Pred" {
					mentionsPred = true
				}
			}
			return true
		})
		if !mentionsPred {
			// an append of a variable bound from a predecessor's record under a condition
			for _, a := range call.Args[1:] {
				if id, ok := ast.Unparen(a).(*ast.Ident); ok {
					for i := len(stack) - 1; i >= 0; i-- {
						if is, ok := stack[i].(*ast.IfStmt); ok && is.Init != nil {
							if as, ok := is.Init.(*ast.AssignStmt); ok && len(as.Lhs) == 1 {
								if l, ok := as.Lhs[0].(*ast.Ident); ok && info.Defs[l] == info.Uses[id] {
									ast.Inspect(as.Rhs[0], func(y ast.Node) bool {
										if c2, ok := y.(*ast.CallExpr); ok {
											if f := core.Callee(info, c2); f != nil && f.Name() == "Pred" {
												mentionsPred = true
											}
										}
										return true
									})
								}
							}
						}
					}
				}
			}
			if !mentionsPred {
				return true
			}
		}
		nAppend++
		// enclosing statements between the loop and the append must not be conditionals
		for i := len(stack) - 2; i >= 0; i-- {
			switch s := stack[i].(type) {
			case *ast.IfStmt, *ast.SwitchStmt:
				if _, isSw := s.(*ast.SwitchStmt); isSw {
					continue // the dispatch on the number of predecessors
				}
				bad = append(bad, "a predecessor's record is appended only under a condition at "+c.Pos(call.Pos()))
			case *ast.ForStmt, *ast.RangeStmt:
				i = -1
			}
		}
		return true
	})
	c.Check(len(bad) == 0 && nAppend > 0, rule, "every predecessor's record takes part in the intersection ("+merge.Name.Name+")", merge.Pos(), fmt.Sprintf("%d unconditional append(s) in the loop over the predecessors", nAppend),
		strings.Join(bad, "; ")+": a predecessor that checked nothing (the synthetic else of an `if`, a br_table trampoline) is left out of the intersection, so a ceiling checked on one arm only is assumed after the join and the access is emitted without a bounds check")
	// (b) selection among bounds is a minimum
	var maxSel []string
	nSel := 0
	isBound := func(e ast.Expr) bool {
		s := strings.ToLower(core.ExprStr(e))
		return strings.HasSuffix(s, "bound")
	}
	ast.Inspect(merge.Body, func(x ast.Node) bool {
		is, ok := x.(*ast.IfStmt)
		if !ok {
			return true
		}
		be, ok := ast.Unparen(is.Cond).(*ast.BinaryExpr)
		if !ok || !isBound(be.X) || !isBound(be.Y) {
			return true
		}
		var less bool // cond true ⇒ X < Y (or ≤)
		switch be.Op {
		case token.LSS, token.LEQ:
			less = true
		case token.GTR, token.GEQ:
			less = false
		default:
			return true
		}
		for _, st := range is.Body.List {
			as, ok := st.(*ast.AssignStmt)
			if !ok || len(as.Lhs) != 1 || len(as.Rhs) != 1 {
				continue
			}
			l, r := core.ExprStr(as.Lhs[0]), core.ExprStr(as.Rhs[0])
			xs, ys := core.ExprStr(be.X), core.ExprStr(be.Y)
			var picksSmaller, known bool
			switch {
			case l == ys && r == xs: // Y = X
				picksSmaller, known = less, true
			case l == xs && r == ys: // X = Y
				picksSmaller, known = !less, true
			}
			if known {
				nSel++
				if !picksSmaller {
					maxSel = append(maxSel, "`"+core.ExprStr(is.Cond)+"` then `"+l+" = "+r+"` at "+c.Pos(is.Pos()))
				}
			}
		}
		return true
	})
	c.Check(len(maxSel) == 0 && nSel > 0, rule, "bounds known on several paths are merged by taking the minimum ("+merge.Name.Name+")", merge.Pos(), fmt.Sprintf("%d selection(s), all keep the smaller bound", nSel),
		strings.Join(maxSel, "; ")+": the larger of two checked ceilings is kept after a join; on the path that checked the smaller one the later access is emitted without a bounds check and reads or writes past the memory")
}

// ---------------------------------------------------------------------------------------------------------
// R02.9 32-bit address arithmetic in front of an accessor is guarded against wrap-around

func checkAddressWrapGuards(c *core.Ctx) {
	p := c.Pkg("internal/engine/interpreter")
	if p == nil {
		return
	}
	info := p.TypesInfo
	n := 0
	core.AllFuncDecls(p, func(fd *ast.FuncDecl) {
		ast.Inspect(fd.Body, func(x ast.Node) bool {
			cc, ok := x.(*ast.CaseClause)
			if !ok {
				return true
			}
			// only the innermost clause that directly contains the accessor call
			for _, st := range cc.Body {
				ast.Inspect(st, func(y ast.Node) bool {
					if _, nested := y.(*ast.CaseClause); nested {
						return false
					}
					call, ok := y.(*ast.CallExpr)
					if !ok || len(call.Args) == 0 {
						return true
					}
					f := core.Callee(info, call)
					if f == nil || core.RecvNameOf(f) != "MemoryInstance" {
						return true
					}
					be, ok := ast.Unparen(call.Args[0]).(*ast.BinaryExpr)
					if !ok || be.Op != token.ADD {
						return true
					}
					if b, ok := info.Types[be].Type.Underlying().(*types.Basic); !ok || b.Kind() != types.Uint32 {
						return true
					}
					n++
					base, add := core.ExprStr(be.X), core.ExprStr(be.Y)
					guarded := false
					for _, prev := range cc.Body {
						if prev.Pos() >= call.Pos() {
							break
						}
						ast.Inspect(prev, func(z ast.Node) bool {
							if is, ok := z.(*ast.IfStmt); ok && is.Pos() < call.Pos() {
								cs := strings.ReplaceAll(core.ExprStr(is.Cond), " ", "")
								if strings.Contains(cs, "uint64("+base+")+"+add) && strings.Contains(cs, "MaxUint32") {
									guarded = true
								}
							}
							return true
						})
					}
					label := ""
					if len(cc.List) > 0 {
						label = constNameOf(info, cc.List[0])
					}
					c.Check(guarded, "R02.9", fmt.Sprintf("interpreter arm %s: `%s` cannot wrap before %s", label, core.ExprStr(be), f.Name()), call.Pos(),
						"preceded by `uint64("+base+")+"+add+" > math.MaxUint32` → out-of-bounds trap",
						"the address `"+core.ExprStr(be)+"` is computed in 32 bits without a wrap-around guard: on a 4 GiB memory an access that ends beyond the memory wraps to address 0 and touches the first bytes instead of trapping")
					return true
				})
			}
			return true
		})
	})
	if n == 0 {
		c.Discharge("R02.9", "no 32-bit address arithmetic in front of an accessor", 0, "nothing to guard")
	}
}

// boundsHelpers: the frontend methods that emit the out-of-bounds exit. setup = those with a result (the access
// address) and the wrappers returning the result of one; rng = those without a result (range check of bulk operations).
func boundsHelpers(p *packages.Package) (setup, rng map[*types.Func]bool) {
	info := p.TypesInfo
	setup, rng = map[*types.Func]bool{}, map[*types.Func]bool{}
	decls := map[*types.Func]*ast.FuncDecl{}
	core.AllFuncDecls(p, func(fd *ast.FuncDecl) {
		if f, ok := info.Defs[fd.Name].(*types.Func); ok {
			decls[f] = fd
		}
	})
	for f, fd := range decls {
		emits := false
		ast.Inspect(fd.Body, func(x ast.Node) bool {
			if se, ok := x.(*ast.SelectorExpr); ok && se.Sel.Name == "ExitCodeMemoryOutOfBounds" {
				emits = true
			}
			return true
		})
		if !emits {
			continue
		}
		if f.Type().(*types.Signature).Results().Len() > 0 {
			setup[f] = true
		} else {
			rng[f] = true
		}
	}
	// wrappers: call a setup helper and have a result of the same type
	for changed := true; changed; {
		changed = false
		for f, fd := range decls {
			if setup[f] || f.Type().(*types.Signature).Results().Len() != 1 {
				continue
			}
			calls := false
			ast.Inspect(fd.Body, func(x ast.Node) bool {
				if call, ok := x.(*ast.CallExpr); ok {
					if g := core.Callee(info, call); g != nil && setup[g] {
						calls = true
					}
				}
				return true
			})
			// only thin wrappers with the (base, offset, size) shape
			if calls && f.Type().(*types.Signature).Params().Len() == 3 {
				setup[f] = true
				changed = true
			}
		}
	}
	return
}

// ---------------------------------------------------------------------------------------------------------
// R02.10 – R02.12 (defects found by the bug hunt of the last session)

// checkMemoryLengthWidth (R02.10): a linear memory is up to 65536 pages = 2^32 bytes long, which does not fit 32 bits: the
// module engine writes the byte length as a 64-bit word, so every load of it in the frontend must be 64 bits wide.
func checkMemoryLengthWidth(c *core.Ctx) {
	p := c.Pkg("internal/engine/wazevo/frontend")
	if p == nil {
		return
	}
	info := p.TypesInfo
	isLenAnchor := func(e ast.Expr) string {
		found := ""
		ast.Inspect(e, func(x ast.Node) bool {
			switch y := x.(type) {
			case *ast.Ident:
				if o, ok := info.Uses[y].(*types.Const); ok && o.Name() == "memoryInstanceBufSizeOffset" {
					found = "imported memory (MemoryInstance.Buffer length word)"
				}
			case *ast.SelectorExpr:
				if f, ok := info.Uses[y.Sel].(*types.Func); ok && f.Name() == "LocalMemoryLen" {
					found = "local memory (module context length word)"
				}
			}
			return true
		})
		return found
	}
	n := 0
	ord := map[string]int{}
	core.AllFuncDecls(p, func(fd *ast.FuncDecl) {
		ast.Inspect(fd.Body, func(x ast.Node) bool {
			call, ok := x.(*ast.CallExpr)
			if !ok {
				return true
			}
			f := core.Callee(info, call)
			if f == nil {
				return true
			}
			var which string
			for _, a := range call.Args {
				if w := isLenAnchor(a); w != "" {
					which = w
				}
			}
			if which == "" {
				return true
			}
			width := int64(-1)
			switch f.Name() {
			case "AsLoad":
				if len(call.Args) == 3 {
					if b, ok := ssaTypeBytes[typeConstName(info, call.Args[2])]; ok {
						width = b
					}
				}
			case "AsExtLoad":
				if len(call.Args) >= 1 {
					switch constNameOf(info, call.Args[0]) {
					case "OpcodeUload8", "OpcodeSload8":
						width = 1
					case "OpcodeUload16", "OpcodeSload16":
						width = 2
					case "OpcodeUload32", "OpcodeSload32":
						width = 4
					}
				}
			default:
				return true // the constant feeding an address computation (atomic loads of shared memories: always 8 bytes, R02.4)
			}
			// keyed by what is loaded and how wide, not by the enclosing function: moving the code does not make a new
			// finding, a further load of the same width does (ordinal)
			ok2 := fmt.Sprintf("%s|%d", which, width)
			ord[ok2]++
			n++
			construct := fmt.Sprintf("%d-byte load #%d of the byte length of the %s is 64 bits wide", width, ord[ok2], which)
			if width < 0 {
				c.Undecided("R02.10", construct, call.Pos(), "load width not recognised")
				return true
			}
			c.Check(width == 8, "R02.10", construct, call.Pos(), "8-byte load",
				fmt.Sprintf("%d-byte load of the length word: for a 65536-page (4GiB) memory the low half is 0, so memory.size returns 0 / every access of the defining instance traps while an importer of the same memory (which reads 64 bits) can access it", width))
			return true
		})
	})
	c.Count("memory_length_loads", n)
	if n == 0 {
		c.Undecided("R02.10", "loads of the memory length", 0, "none found (anchors LocalMemoryLen / memoryInstanceBufSizeOffset renamed?)")
	}
}

func typeConstName(info *types.Info, e ast.Expr) string {
	return constNameOf(info, e)
}

// checkSignedExtLoads32 (R02.11): the amd64 address folding uses the raw register of a 32-bit value as a 64-bit index
// (R02.5), so the sign-extending narrow loads must extend to 32 bits only when their result is an i32.
func checkSignedExtLoads32(c *core.Ctx) {
	p := c.Pkg("internal/engine/wazevo/backend/isa/amd64")
	if p == nil {
		return
	}
	info := p.TypesInfo
	found := false
	core.AllFuncDecls(p, func(fd *ast.FuncDecl) {
		mentions := map[string]bool{}
		modes := map[string]map[string]bool{"asMovsxRmR": {}, "asMovzxRmR": {}}
		ast.Inspect(fd.Body, func(x ast.Node) bool {
			switch y := x.(type) {
			case *ast.SelectorExpr:
				if o, ok := info.Uses[y.Sel].(*types.Const); ok && (o.Name() == "OpcodeSload8" || o.Name() == "OpcodeSload16") {
					mentions[o.Name()] = true
				}
			case *ast.CallExpr:
				if f := core.Callee(info, y); f != nil && modes[f.Name()] != nil && len(y.Args) > 0 {
					modes[f.Name()][constNameOf(info, y.Args[0])] = true
					// the mode may come through a local: every mode constant assigned to it counts
					if id, ok := y.Args[0].(*ast.Ident); ok {
						if o := info.Uses[id]; o != nil {
							if _, isVar := o.(*types.Var); isVar {
								ast.Inspect(fd.Body, func(z ast.Node) bool {
									as, ok := z.(*ast.AssignStmt)
									if !ok {
										return true
									}
									for i, l := range as.Lhs {
										if lid, ok := l.(*ast.Ident); ok && i < len(as.Rhs) && (info.Defs[lid] == o || info.Uses[lid] == o) {
											if k := constNameOf(info, as.Rhs[i]); k != "" {
												modes[f.Name()][k] = true
											}
										}
									}
									return true
								})
							}
						}
					}
				}
			}
			return true
		})
		if !mentions["OpcodeSload8"] || !mentions["OpcodeSload16"] || len(modes["asMovsxRmR"]) == 0 {
			return
		}
		found = true
		sx := modes["asMovsxRmR"]
		clean := sx["extModeBL"] && sx["extModeWL"] || modes["asMovzxRmR"]["extModeLQ"] && !sx["extModeLQ"]
		c.Check(clean, "R02.11", "amd64 "+fd.Name.Name+": i32.load8_s/i32.load16_s leave the upper half of the register zero", fd.Pos(),
			"32-bit sign extensions (movsx.bl, movsx.wl) are emitted for i32 results",
			"only 64-bit sign extensions (movsx.bq/movsx.wq) are emitted for Sload8/Sload16: a negative i32 result leaves all ones in the upper half of its register, which the folded UExtend of an address uses as a 64-bit index (R02.5): with the bounds check elided the access goes below the linear memory")
	})
	if !found {
		c.Undecided("R02.11", "amd64 lowering of sign-extending narrow loads", 0, "not found")
	}
}

// checkSharedBaseConstant (R02.12): the frontend never reloads the base of a shared memory (R02.2/R02.8), so the base the
// module engine publishes must be the final one from the start: it may only be withheld when there is no backing array.
func checkSharedBaseConstant(c *core.Ctx) {
	p := c.Pkg(wzv)
	if p == nil {
		return
	}
	info := p.TypesInfo
	n := 0
	core.AllFuncDecls(p, func(fd *ast.FuncDecl) {
		writesOpaque := false
		ast.Inspect(fd.Body, func(x ast.Node) bool {
			if call, ok := x.(*ast.CallExpr); ok {
				if f := core.Callee(info, call); f != nil && f.Name() == "PutUint64" {
					writesOpaque = true
				}
			}
			return true
		})
		if !writesOpaque {
			return
		}
		ast.Inspect(fd.Body, func(x ast.Node) bool {
			is, ok := x.(*ast.IfStmt)
			if !ok {
				return true
			}
			takesBase := false
			ast.Inspect(is.Body, func(y ast.Node) bool {
				if u, ok := y.(*ast.UnaryExpr); ok && u.Op == token.AND && strings.Contains(core.ExprStr(u.X), ".Buffer[") {
					takesBase = true
				}
				return true
			})
			if !takesBase {
				return true
			}
			usesLen, usesCap := false, false
			ast.Inspect(is.Cond, func(y ast.Node) bool {
				if id, ok := y.(*ast.Ident); ok {
					if b, ok := info.Uses[id].(*types.Builtin); ok {
						switch b.Name() {
						case "len":
							usesLen = true
						case "cap":
							usesCap = true
						}
					}
				}
				return true
			})
			n++
			c.Check(usesCap && !usesLen, "R02.12", "the memory base published by "+fd.Name.Name+" is withheld only when there is no backing array", is.Pos(),
				"the guard tests cap(Buffer)", "the guard `"+core.ExprStr(is.Cond)+"` withholds the base (publishes 0) while the memory is empty: a shared memory's backing array is already at its final address and compiled code never reloads a shared memory's base after a call, so after the first grow accesses go to host address 0+addr")
			return true
		})
	})
	c.Count("published_memory_bases", n)
	if n == 0 {
		c.Undecided("R02.12", "publication of the local memory base", 0, "not found")
	}
}
