package props

import (
	"go/ast"
	"go/types"
	"sort"
	"strings"

	"golang.org/x/tools/go/packages"

	"verif/checker/core"
)

// Opcode-set extraction shared by C01/C03 (T-EXHAUST).

type opcodeSets map[string]map[string]bool // class → opcode constant names

func opClass(name string) string {
	switch {
	case strings.HasPrefix(name, "OpcodeMisc") && name != "OpcodeMiscPrefix":
		return "misc"
	case strings.HasPrefix(name, "OpcodeVec") && name != "OpcodeVecPrefix":
		return "vec"
	case strings.HasPrefix(name, "OpcodeAtomic") && name != "OpcodeAtomicPrefix":
		return "atomic"
	case strings.HasPrefix(name, "OpcodeTailCall"):
		return "main"
	case strings.HasPrefix(name, "Opcode") && !strings.HasSuffix(name, "Name"):
		return "main"
	}
	return ""
}

// wasmOpcodeConsts: class → value → names, from the constants of internal/wasm.
func wasmOpcodeConsts(c *core.Ctx) map[string]map[uint64][]string {
	out := map[string]map[uint64][]string{"main": {}, "misc": {}, "vec": {}, "atomic": {}}
	wp := c.Pkg("internal/wasm")
	for _, n := range wp.Types.Scope().Names() {
		k, ok := wp.Types.Scope().Lookup(n).(*types.Const)
		if !ok || (basicKind(k.Type()) != types.Uint8 && basicKind(k.Type()) != types.UntypedInt) {
			continue
		}
		cl := opClass(n)
		if cl == "" {
			continue
		}
		if v, ok := core.ConstOf(k); ok {
			out[cl][uint64(v)] = append(out[cl][uint64(v)], n)
		}
	}
	return out
}

func constNameOf(info *types.Info, e ast.Expr) string {
	switch x := ast.Unparen(e).(type) {
	case *ast.Ident:
		if k, ok := info.Uses[x].(*types.Const); ok {
			return k.Name()
		}
	case *ast.SelectorExpr:
		if k, ok := info.Uses[x.Sel].(*types.Const); ok {
			return k.Name()
		}
	case *ast.CallExpr: // conversion Opcode(x)
		if len(x.Args) == 1 {
			return constNameOf(info, x.Args[0])
		}
	}
	return ""
}

// caseLabelSets collects, per class, the opcode constants used as case labels (or compared with ==) inside node.
func caseLabelSets(info *types.Info, node ast.Node) opcodeSets {
	out := opcodeSets{"main": {}, "misc": {}, "vec": {}, "atomic": {}}
	ast.Inspect(node, func(n ast.Node) bool {
		switch x := n.(type) {
		case *ast.CaseClause:
			for _, l := range x.List {
				if nm := constNameOf(info, l); nm != "" {
					if cl := opClass(nm); cl != "" {
						out[cl][nm] = true
					}
				}
			}
		}
		return true
	})
	return out
}

// dispatchersOf returns every function of p with at least 150 case labels that are wasm opcode constants (lowering
// dispatchers, signature tables), largest body first.
func dispatchersOf(p *packages.Package) []*ast.FuncDecl {
	var out []*ast.FuncDecl
	core.AllFuncDecls(p, func(fd *ast.FuncDecl) {
		s := caseLabelSets(p.TypesInfo, fd.Body)
		if len(s["main"])+len(s["misc"])+len(s["vec"])+len(s["atomic"]) >= 150 {
			out = append(out, fd)
		}
	})
	sort.Slice(out, func(i, j int) bool { return out[i].End()-out[i].Pos() > out[j].End()-out[j].Pos() })
	return out
}

// dispatcherOf returns the lowering dispatcher of p: the largest function with many opcode case labels.
func dispatcherOf(p *packages.Package) *ast.FuncDecl {
	if ds := dispatchersOf(p); len(ds) > 0 {
		return ds[0]
	}
	return nil
}

func dispatcherOfOld(p *packages.Package) *ast.FuncDecl {
	var best *ast.FuncDecl
	bestN := 0
	core.AllFuncDecls(p, func(fd *ast.FuncDecl) {
		s := caseLabelSets(p.TypesInfo, fd.Body)
		n := len(s["main"]) + len(s["misc"]) + len(s["vec"]) + len(s["atomic"])
		if n > bestN {
			best, bestN = fd, n
		}
	})
	if bestN < 150 {
		return nil
	}
	return best
}

// validatorFunc: the function of internal/wasm whose body holds the long if/else-if chain over `op`.
func validatorChain(wp *packages.Package) (*ast.FuncDecl, *ast.IfStmt, types.Object) {
	var bestFd *ast.FuncDecl
	var bestIf *ast.IfStmt
	var bestObj types.Object
	bestLen := 0
	core.AllFuncDecls(wp, func(fd *ast.FuncDecl) {
		ast.Inspect(fd.Body, func(n ast.Node) bool {
			is, ok := n.(*ast.IfStmt)
			if !ok {
				return true
			}
			l := 0
			for cur := is; cur != nil; {
				l++
				next, _ := cur.Else.(*ast.IfStmt)
				cur = next
			}
			if l > bestLen {
				// the variable compared in the first condition
				var obj types.Object
				ast.Inspect(is.Cond, func(m ast.Node) bool {
					if id, ok := m.(*ast.Ident); ok && obj == nil {
						if v, ok := wp.TypesInfo.Uses[id].(*types.Var); ok {
							obj = v
						}
					}
					return true
				})
				bestFd, bestIf, bestObj, bestLen = fd, is, obj, l
			}
			return false // do not descend: the chain is one statement
		})
	})
	if bestLen < 20 {
		return nil, nil, nil
	}
	return bestFd, bestIf, bestObj
}

// validatorAccepted evaluates the validator's dispatch for every byte value.
func validatorAccepted(c *core.Ctx) (opcodeSets, []string) {
	wp := c.Pkg("internal/wasm")
	fd, chain, opObj := validatorChain(wp)
	var problems []string
	out := opcodeSets{"main": {}, "misc": {}, "vec": {}, "atomic": {}}
	if fd == nil || opObj == nil {
		return out, []string{"the validator's if/else-if dispatch over the opcode was not found"}
	}
	consts := wasmOpcodeConsts(c)
	info := wp.TypesInfo
	ev := &core.FlagEval{Info: info, Flag: opObj}
	returnsError := func(list []ast.Stmt) bool {
		for _, s := range list {
			if rs, ok := s.(*ast.ReturnStmt); ok && len(rs.Results) >= 1 {
				return true
			}
		}
		return false
	}
	for v := uint64(0); v < 256; v++ {
		var arm *ast.BlockStmt
		for cur := chain; cur != nil; {
			val, ok := ev.EvalExpr(cur.Cond, v)
			if !ok {
				problems = append(problems, "condition not evaluable over the opcode: "+core.ExprStr(cur.Cond))
				break
			}
			if val != 0 {
				arm = cur.Body
				break
			}
			next, _ := cur.Else.(*ast.IfStmt)
			cur = next
		}
		if arm == nil {
			continue
		}
		names := consts["main"][v]
		// refinement: a top-level switch on the opcode inside the arm with an error default restricts the accepted values
		accepted := true
		for _, s := range arm.List {
			sw, ok := s.(*ast.SwitchStmt)
			if !ok || sw.Tag == nil {
				continue
			}
			tagIsOp := false
			ast.Inspect(sw.Tag, func(m ast.Node) bool {
				if id, ok := m.(*ast.Ident); ok && info.Uses[id] == opObj {
					tagIsOp = true
				}
				return true
			})
			if !tagIsOp {
				continue
			}
			hasErrDefault, labelled := false, false
			for _, cs := range sw.Body.List {
				cc := cs.(*ast.CaseClause)
				if cc.List == nil {
					hasErrDefault = returnsError(cc.Body)
					continue
				}
				for _, l := range cc.List {
					if tv, ok := info.Types[l]; ok && tv.Value != nil {
						if lv, ok := core.ConstVal(info, l); ok && uint64(lv) == v {
							labelled = true
						}
					}
				}
			}
			if hasErrDefault && !labelled {
				accepted = false
			}
		}
		if !accepted {
			continue
		}
		if len(names) == 0 {
			// a value inside an accepted range without a named opcode: the engines cannot have a label for it
			out["main"]["(unnamed "+strings.ToLower(core.ExprStr(&ast.BasicLit{Value: itoa(v)}))+")"] = true
			continue
		}
		for _, n := range names {
			switch n {
			case "OpcodeMiscPrefix", "OpcodeVecPrefix", "OpcodeAtomicPrefix":
				out["main"][n] = true
				cl := map[string]string{"OpcodeMiscPrefix": "misc", "OpcodeVecPrefix": "vec", "OpcodeAtomicPrefix": "atomic"}[n]
				subAccepted(info, arm, cl, consts[cl], out)
			default:
				out["main"][n] = true
			}
		}
	}
	sort.Strings(problems)
	return out, problems
}

func itoa(v uint64) string {
	if v == 0 {
		return "0"
	}
	s := ""
	for v > 0 {
		s = string(rune('0'+v%10)) + s
		v /= 10
	}
	return s
}

// subAccepted: accepted second-byte opcodes of a prefix arm: every constant of the class that labels a case of a
// switch in the arm or is compared with == / range-compared in a condition (ranges are expanded over the named constants).
func subAccepted(info *types.Info, arm *ast.BlockStmt, class string, consts map[uint64][]string, out opcodeSets) {
	// the sub-opcode variable: the tag of the first switch whose labels are of this class
	var sub types.Object
	ast.Inspect(arm, func(n ast.Node) bool {
		sw, ok := n.(*ast.SwitchStmt)
		if !ok || sw.Tag == nil || sub != nil {
			return true
		}
		for _, cs := range sw.Body.List {
			for _, l := range cs.(*ast.CaseClause).List {
				if opClass(constNameOf(info, l)) == class {
					ast.Inspect(sw.Tag, func(m ast.Node) bool {
						if id, ok := m.(*ast.Ident); ok && sub == nil {
							if v, ok := info.Uses[id].(*types.Var); ok {
								sub = v
							}
						}
						return true
					})
				}
			}
		}
		return true
	})
	for nm := range caseLabelSets(info, arm)[class] {
		out[class][nm] = true
	}
	if sub == nil {
		return
	}
	// conditions over the sub-opcode (== and ranges) at any depth of the arm
	ev := &core.FlagEval{Info: info, Flag: sub}
	ast.Inspect(arm, func(n ast.Node) bool {
		is, ok := n.(*ast.IfStmt)
		if !ok {
			return true
		}
		mentions := false
		ast.Inspect(is.Cond, func(m ast.Node) bool {
			if id, ok := m.(*ast.Ident); ok && info.Uses[id] == sub {
				mentions = true
			}
			return true
		})
		if !mentions {
			return true
		}
		for v, names := range consts {
			if val, ok := ev.EvalExpr(is.Cond, v); ok && val != 0 {
				for _, nm := range names {
					out[class][nm] = true
				}
			}
		}
		return true
	})
}

func setDiff(a, b map[string]bool) []string {
	var out []string
	for k := range a {
		if !b[k] {
			out = append(out, k)
		}
	}
	sort.Strings(out)
	return out
}

// interpExecLoopName returns the name of the interpreter's execution loop: the function with the largest switch over
// the operation-kind enumeration (anchored by shape, not by its identifier).
var execLoopMemo = map[*packages.Package]string{}

func interpExecLoopName(p *packages.Package) string {
	if p == nil {
		return ""
	}
	if v, ok := execLoopMemo[p]; ok {
		return v
	}
	v := interpExecLoopNameUncached(p)
	execLoopMemo[p] = v
	return v
}

func interpExecLoopNameUncached(p *packages.Package) string {
	kt := p.Types.Scope().Lookup("operationKind")
	if kt == nil {
		return ""
	}
	best, bestN := "", 0
	core.AllFuncDecls(p, func(fd *ast.FuncDecl) {
		ast.Inspect(fd.Body, func(x ast.Node) bool {
			sw, ok := x.(*ast.SwitchStmt)
			if !ok {
				return true
			}
			n := 0
			for _, cs := range sw.Body.List {
				for _, l := range cs.(*ast.CaseClause).List {
					if o := constObjOf(p.TypesInfo, l); o != nil && types.Identical(o.Type(), kt.Type()) {
						n++
					}
				}
			}
			// among the functions that dispatch on (almost) every kind – the execution loop, the String method –
			// the execution loop is by far the largest
			if n >= 100 && int(fd.End()-fd.Pos()) > bestN {
				best, bestN = fd.Name.Name, int(fd.End()-fd.Pos())
			}
			return true
		})
	})
	return best
}
