package props

import (
	"fmt"
	"go/token"
	"go/types"
	"sort"
	"strings"

	"golang.org/x/tools/go/ssa"

	"verif/checker/core"
)

// C11 Instances are isolated unless explicitly linked (ownership clause).

func init() {
	core.Register(&core.Property{
		ID:    "C11",
		Level: "other",
		Explanation: "Decided (sound for the stated ownership clause, for every pair of instances): everything that is shared between instances by construction – the decoded wasm.Module graph, the engines' compiled-module objects, and configuration values – is frozen once instances exist: " +
			"no function reachable from the run-time region (Store.Instantiate, the ModuleEngine/api.Function/api.Memory/api.Global/api.Module method sets, the call engines, the WASI host functions, Runtime.InstantiateModule) writes memory owned by those objects or an alias of it " +
			"(field-based may-alias analysis over all module functions; writes to objects allocated in the same activation are exempt; lazily initialised caches are listed one by one with the synchronisation that makes them safe). " +
			"(R11.3) what Instantiate stores into per-instance slots that can be written later (data/element instances, tables, globals, memory) is allocated during that instantiation, not taken from the shared objects; (R11.4) no package-level variable is written in the run-time region. " +
			"(R11.5) the WASI / file-system state packages never write, at run time, through a package-level slice, map or pointer (which every instance of the process would share). NOT decided: isolation at the level of generated machine code (module-context offsets), file-descriptor level sharing through embedder-supplied objects.",
		Assumptions: []string{"the lazily initialised caches listed in checker/props/c11.go are idempotent and guarded as stated there", "functions outside the module do not retain their arguments (writers listed in checker/core/alias.go)"},
		Rules: []core.Rule{
			{ID: "R11.6", Template: "T-OWN", Text: "no package-level slice of the run-time packages has spare capacity (an append on an alias would write the shared backing array)", Min: 1},
			{ID: "R11.5", Template: "T-OWN", Text: "the WASI / file-system state packages never write through a package-level slice, map or pointer at run time", Min: 1},
			{ID: "R11.0", Template: "anchor", Text: "shared-object types = struct types reachable from wasm.Module, from the engines' compiledModule types and the configuration types; run-time region = functions reachable from the instantiate/call/host-function roots", Min: 2},
			{ID: "R11.1", Template: "T-WHOWRITES", Text: "no write to shared-object memory (or an alias of it) from the run-time region", Min: 1},
			{ID: "R11.3", Template: "T-OWN", Text: "per-instance mutable containers are allocated in the instantiate path", Min: 3},
			{ID: "R11.4", Template: "T-WHOWRITES", Text: "no store to a package-level variable in the run-time region", Min: 1},
		},
		Run: runC11,
		Controls: []core.Control{
			{Name: "exhausted-sentinel-with-capacity", File: "internal/sys/fs.go", Old: "var exhaustedDirents = [0]sys.Dirent{}", New: "var exhaustedDirents = make([]sys.Dirent, 0, 64)", Rule: "R11.6", Substr: "spare capacity"},
			{Name: "dot-entries-shared-backing-array", File: "internal/sys/fs.go", Old: "\tresult := [2]sys.Dirent{}\n\tresult[0] = sys.Dirent{Name: \".\", Ino: dotIno, Type: fs.ModeDir}\n", New: "\tresult := sharedDots\n\tresult[0] = sys.Dirent{Name: \".\", Ino: dotIno, Type: fs.ModeDir}\n", Old2: "// exhaustedDirents avoids allocating empty slices.", New2: "var sharedDots = make([]sys.Dirent, 2)\n\n// exhaustedDirents avoids allocating empty slices.", Rule: "R11.5", Substr: "sharedDots"},
			{Name: "datadrop-writes-module", File: "internal/engine/interpreter/interpreter.go", Old: "\t\tcase operationKindDataDrop:\n\t\t\tdataInstances[op.U1] = nil", New: "\t\tcase operationKindDataDrop:\n\t\t\tdataInstances[op.U1] = nil\n\t\t\tm.Source.DataSection[op.U1].Init = nil", Rule: "R11.1", Substr: "callNativeFunc"},
			{Name: "instances-share-data-slice", File: "internal/wasm/store.go", Old: "\tm.DataInstances = make([][]byte, len(data))\n", New: "\tif sharedDataTemplate == nil {\n\t\tsharedDataTemplate = map[*DataSegment][][]byte{}\n\t}\n\tif len(data) > 0 && sharedDataTemplate[&data[0]] == nil {\n\t\tsharedDataTemplate[&data[0]] = make([][]byte, len(data))\n\t}\n\tif len(data) > 0 {\n\t\tm.DataInstances = sharedDataTemplate[&data[0]]\n\t} else {\n\t\tm.DataInstances = nil\n\t}\n", Rule: "R11.4", Substr: "package-level", Old2: "// applyData uses the given data segments", New2: "var sharedDataTemplate map[*DataSegment][][]byte\n\n// applyData uses the given data segments"},
			{Name: "runtime-scratch-in-module", File: "internal/wasm/memory.go", Old: "func (m *MemoryInstance) Definition() api.MemoryDefinition {\n", New: "func (m *MemoryInstance) Definition() api.MemoryDefinition {\n\tlastDefinitionLookup = m\n", Rule: "R11.4", Substr: "package-level", Old2: "// Size implements the same method as documented on api.Memory.", New2: "var lastDefinitionLookup *MemoryInstance\n\n// Size implements the same method as documented on api.Memory."},
		},
		Configs: []core.BuildCfg{{GOOS: "linux", GOARCH: "arm64"}},
	})
}

// c11Exempt: write sites in the run-time region that touch shared objects for a stated, safe reason (one symbol each).
var c11Exempt = map[string]string{
	"internal/wasm.(Module).buildFunctionDefinitionsOnce": "once: lazily builds the function definitions; only ever run through Module.functionDefinitionSectionInitOnce (sync.Once) – verified: its only use is as the argument of Once.Do",
	"internal/wasmdebug.(DWARFLines).Line":                "mutex: memoises sorted line tables per compilation unit under DWARFLines.mux – verified: the receiver's mutex is locked on entry and released by defer",
	"internal/wasm.(FunctionType).key":                    "memo: caches the textual key computed from the immutable Params/Results; every writer stores the same value (an unsynchronised but idempotent memo, no instance-specific data)",
}

func structClosure(c *core.Ctx, roots []*types.Named, stop func(*types.Named) bool) map[*types.Named]bool {
	out := map[*types.Named]bool{}
	var visit func(t types.Type, depth int)
	visit = func(t types.Type, depth int) {
		if depth > 12 {
			return
		}
		switch u := t.(type) {
		case *types.Alias:
			visit(types.Unalias(u), depth)
		case *types.Named:
			if u.Obj().Pkg() == nil || !strings.HasPrefix(u.Obj().Pkg().Path(), core.Module) {
				return
			}
			st, ok := u.Underlying().(*types.Struct)
			if !ok {
				visit(u.Underlying(), depth+1)
				return
			}
			if out[u] || stop(u) {
				return
			}
			out[u] = true
			for i := 0; i < st.NumFields(); i++ {
				visit(st.Field(i).Type(), depth+1)
			}
		case *types.Pointer:
			visit(u.Elem(), depth+1)
		case *types.Slice:
			visit(u.Elem(), depth+1)
		case *types.Array:
			visit(u.Elem(), depth+1)
		case *types.Map:
			visit(u.Key(), depth+1)
			visit(u.Elem(), depth+1)
		}
	}
	for _, r := range roots {
		visit(r, 0)
	}
	return out
}

func namedIn(c *core.Ctx, rel, name string) *types.Named {
	p := c.Pkg(rel)
	if p == nil {
		return nil
	}
	o := p.Types.Scope().Lookup(name)
	if o == nil {
		return nil
	}
	n, _ := o.Type().(*types.Named)
	return n
}

func runC11(c *core.Ctx) {
	c.SSA()
	checkNoSharedSpareCapacity(c)
	checkGlobalWrites(c)
	c.SSA()
	// ---- shared-object types
	var roots []*types.Named
	for _, r := range []struct{ rel, name string }{
		{"internal/wasm", "Module"},
		{"internal/engine/wazevo", "compiledModule"},
		{"internal/engine/interpreter", "compiledModule"},
		{"internal/engine/interpreter", "compiledFunction"},
	} {
		if n := namedIn(c, r.rel, r.name); n != nil {
			roots = append(roots, n)
		}
	}
	for n := range configTypes(c) {
		roots = append(roots, n)
	}
	perInstance := func(n *types.Named) bool {
		name := n.Obj().Name()
		if strings.HasSuffix(name, "Instance") || name == "Store" || name == "moduleEngine" || name == "callEngine" || name == "engine" || name == "Context" || name == "FSContext" {
			return true
		}
		return false
	}
	owned := structClosure(c, roots, perInstance)
	if len(owned) < 10 {
		c.Undecided("R11.0", "shared-object types", 0, fmt.Sprintf("only %d types found", len(owned)))
		return
	}
	var on []string
	for n := range owned {
		on = append(on, n.Obj().Pkg().Name()+"."+n.Obj().Name())
	}
	sort.Strings(on)
	c.Discharge("R11.0", "shared-object types", 0, fmt.Sprintf("%d types: %s", len(on), strings.Join(on, ", ")))

	// ---- run-time region
	var regionRoots []*ssa.Function
	addMethods := func(n *types.Named) {
		if n != nil {
			regionRoots = append(regionRoots, methodsOf(c, n)...)
		}
	}
	storeNamed := namedIn(c, "internal/wasm", "Store")
	if storeNamed != nil {
		if f := c.SSA().FuncValue(core.ImplMethod(c.Pkg("internal/wasm").Types, storeNamed, "Instantiate")); f != nil {
			regionRoots = append(regionRoots, f)
		}
	}
	for _, nm := range []string{"ModuleInstance", "MemoryInstance", "GlobalInstance", "TableInstance"} {
		addMethods(namedIn(c, "internal/wasm", nm))
	}
	for _, rel := range []string{"internal/engine/wazevo", "internal/engine/interpreter"} {
		for _, nm := range []string{"moduleEngine", "callEngine"} {
			addMethods(namedIn(c, rel, nm))
		}
	}
	regionRoots = append(regionRoots, wasiFuncs(c)...)
	// Runtime.InstantiateModule
	if _, rtIface := lookupIface(c, "", "Runtime"); rtIface != nil {
		root := c.Pkg("")
		for _, n := range root.Types.Scope().Names() {
			if tn, ok := root.Types.Scope().Lookup(n).(*types.TypeName); ok {
				if named, ok := tn.Type().(*types.Named); ok {
					if _, isStruct := named.Underlying().(*types.Struct); isStruct && types.Implements(types.NewPointer(named), rtIface) {
						if f := c.SSA().FuncValue(core.ImplMethod(root.Types, named, "InstantiateModule")); f != nil {
							regionRoots = append(regionRoots, f)
						}
					}
				}
			}
		}
	}
	// compile-time entry points must not be entered from the region
	compileTime := func(fn *ssa.Function) string {
		switch fn.Name() {
		case "CompileModule", "DecodeModule", "Validate", "AssignModuleID", "BuildMemoryDefinitions":
			return "compile-time entry point"
		}
		if fn.Name() == "Close" && fn.Signature.Recv() != nil {
			if n := core.NamedOf(fn.Signature.Recv().Type()); n != nil && (n.Obj().Name() == "compiledModule" || n.Obj().Name() == "engine" || n.Obj().Name() == "cache") {
				return "closing a compiled module / engine ends the shared object's life"
			}
		}
		return ""
	}
	k := &core.Cap{C: c, Roots: regionRoots, ClassifyExt: func(*ssa.Function) string { return "pure" }, StopAt: compileTime}
	k.Run()
	region := k.Reached
	c.Discharge("R11.0", "run-time region", 0, fmt.Sprintf("%d root functions, %d functions reachable", len(regionRoots), len(region)))
	var stops []string
	for s := range k.Stops {
		stops = append(stops, s)
	}
	sort.Strings(stops)
	if len(stops) > 0 {
		c.Notef("compile-time / close entry points referenced from the region and not entered: %s", strings.Join(stops, "; "))
	}

	// ---- alias analysis
	al := core.NewAlias(c)
	al.OwnedType = func(n *types.Named) bool { return owned[n] }
	seedRoots := map[core.Root]string{}
	for n := range owned {
		st := n.Underlying().(*types.Struct)
		for i := 0; i < st.NumFields(); i++ {
			switch u := st.Field(i).Type().Underlying().(type) {
			case *types.Slice:
				r := core.FieldRoot(n, i)
				seedRoots[r] = "shared field " + n.Obj().Name() + "." + st.Field(i).Name()
				if isRefContainer(u.Elem()) {
					seedRoots[core.Elem(r)] = "elements of shared field " + n.Obj().Name() + "." + st.Field(i).Name()
				}
			case *types.Map:
				r := core.FieldRoot(n, i)
				seedRoots[r] = "shared field " + n.Obj().Name() + "." + st.Field(i).Name()
				if isRefContainer(u.Elem()) {
					seedRoots[core.Elem(r)] = "elements of shared field " + n.Obj().Name() + "." + st.Field(i).Name()
				}
			case *types.Pointer:
				if nn := core.NamedOf(u.Elem()); nn != nil && owned[nn] {
					continue
				}
				if nn := core.NamedOf(u.Elem()); nn != nil && nn.Obj().Pkg() != nil && strings.HasPrefix(nn.Obj().Pkg().Path(), core.Module) {
					if _, isStruct := u.Elem().Underlying().(*types.Struct); isStruct {
						continue // pointers to per-instance/engine objects of the module are not shared-object memory
					}
				}
				seedRoots[core.FieldRoot(n, i)] = "shared field " + n.Obj().Name() + "." + st.Field(i).Name()
			}
		}
	}
	al.Propagate(seedRoots)
	isSeedT := func(t types.Type) bool {
		n, ok := types.Unalias(t).(*types.Named)
		return ok && owned[n]
	}
	fresh := core.NewFresh(isSeedT)
	type agg struct {
		fn   *ssa.Function
		bad  []string
		pos  core.WriteSite
		n    int
		note string
	}
	byFn := map[string]*agg{}
	var keys []string
	total := 0
	for _, w := range al.Writes {
		if _, in := region[w.Fn]; !in {
			// closures of region functions
			p := w.Fn
			inRegion := false
			for p != nil {
				if _, ok := region[p]; ok {
					inRegion = true
				}
				p = p.Parent()
			}
			if !inRegion {
				continue
			}
		}
		root, ok := al.MayAliasOwned(w.Base)
		if !ok {
			continue
		}
		if w.Kind == "ptr-store" {
			if _, isAlloc := w.Base.(*ssa.Alloc); isAlloc && !strings.HasPrefix(string(root), "type:") {
				continue
			}
		}
		if w.Kind == "global-store" {
			continue // handled by R11.4
		}
		fr := fresh.Analyze(w.Fn)
		okFresh := false
		switch w.Kind {
		case "field-store", "ptr-store":
			okFresh = fr.TrackedAt(w.Base, w.Instr) || (!strings.HasPrefix(string(root), "type:") && fr.IsFreshAt(w.Base, w.Instr))
		default:
			okFresh = fr.IsFreshAt(w.Base, w.Instr)
		}
		if okFresh {
			continue
		}
		total++
		name := core.SSAFuncName(w.Fn)
		a := byFn[name]
		if a == nil {
			a = &agg{fn: w.Fn, pos: w}
			byFn[name] = a
			keys = append(keys, name)
		}
		a.n++
		what := w.Kind
		if w.Field != nil {
			what += " ." + w.Field.Name()
		}
		why := string(root)
		if !strings.HasPrefix(why, "type:") {
			why = al.Why(root)
		}
		a.bad = append(a.bad, fmt.Sprintf("%s at %s (may alias %s)", what, c.Pos(w.Pos), why))
	}
	sort.Strings(keys)
	for _, name := range keys {
		a := byFn[name]
		if why, ok := c11Exempt[name]; ok {
			verified := true
			switch {
			case strings.HasPrefix(why, "once:"):
				verified = onlyViaOnce(c, a.fn)
			case strings.HasPrefix(why, "mutex:"):
				verified = locksReceiverMutexOnEntry(a.fn)
			}
			if verified {
				c.Discharge("R11.1", "exempt: "+name, a.fn.Pos(), fmt.Sprintf("%d write(s) to shared objects accepted: %s", a.n, why))
				continue
			}
			a.bad = append([]string{"the synchronisation claimed for this lazily initialised cache no longer holds (" + why + ")"}, a.bad...)
		}
		if len(a.bad) > 4 {
			a.bad = append(a.bad[:4], fmt.Sprintf("… %d more", len(a.bad)-4))
		}
		c.Violate("R11.1", name, a.pos.Pos, "run-time code writes memory shared between instances: "+strings.Join(a.bad, "; "))
	}
	c.Discharge("R11.1", "all other run-time functions", 0, fmt.Sprintf("%d functions in the region, %d write-through instructions of the module enumerated, %d of them in the region may touch shared objects", len(region), len(al.Writes), total))
	c.Count("region_functions", len(region))
	c.Count("write_sites", len(al.Writes))

	// ---- R11.4 package-level variables written in the region
	var gl []string
	for fn := range region {
		if !core.InModule(fn) {
			continue
		}
		for _, b := range fn.Blocks {
			for _, in := range b.Instrs {
				if st, ok := in.(*ssa.Store); ok {
					if g, ok := st.Addr.(*ssa.Global); ok && g.Pkg != nil && strings.HasPrefix(g.Pkg.Pkg.Path(), core.Module) {
						gl = append(gl, fmt.Sprintf("%s stores to package variable %s at %s", core.SSAFuncName(fn), g.Name(), c.Pos(st.Pos())))
					}
				}
			}
		}
	}
	sort.Strings(gl)
	c.Check(len(gl) == 0, "R11.4", "no package-level variable written at run time", 0, "no store to a package-level variable in the run-time region", strings.Join(gl, "; "))

	// ---- R11.3 per-instance containers are allocated in the instantiate path
	miNamed := namedIn(c, "internal/wasm", "ModuleInstance")
	if miNamed != nil {
		st := miNamed.Underlying().(*types.Struct)
		mutableSlots := map[string]bool{"DataInstances": true, "ElementInstances": true, "Tables": true, "Globals": true, "MemoryInstance": true}
		checked := 0
		for _, fn := range moduleFns(c, "internal/wasm") {
			for _, b := range fn.Blocks {
				for _, in := range b.Instrs {
					s, ok := in.(*ssa.Store)
					if !ok {
						continue
					}
					fa, ok := s.Addr.(*ssa.FieldAddr)
					if !ok || core.NamedOf(fa.X.Type()) != miNamed {
						continue
					}
					f := st.Field(fa.Field)
					if !mutableSlots[f.Name()] {
						continue
					}
					checked++
					// the stored container must not come from shared-object memory; imports are assigned element-wise
					r, bad := al.MayAliasOwned(s.Val)
					key := fmt.Sprintf("ModuleInstance.%s assigned in %s", f.Name(), core.SSAFuncName(fn))
					why := string(r)
					if bad && !strings.HasPrefix(why, "type:") {
						why = al.Why(r)
					}
					c.Check(!bad, "R11.3", key, s.Pos(), "the container is allocated for this instance", "the instance's "+f.Name()+" container is taken from shared memory ("+why+"): instances created from the same compiled module write into one slice (e.g. data.drop / elem.drop in one instance is seen by the others)")
				}
			}
		}
		if checked < 3 {
			c.Undecided("R11.3", "per-instance containers", 0, fmt.Sprintf("only %d assignments of the instance's mutable containers found", checked))
		}
	}
}

// onlyViaOnce: every use of fn is as (bound) method value handed to (*sync.Once).Do.
func onlyViaOnce(c *core.Ctx, fn *ssa.Function) bool {
	uses := 0
	for f := range c.AllFunctions() {
		if !core.InModule(f) {
			continue
		}
		for _, b := range f.Blocks {
			for _, in := range b.Instrs {
				var ops [8]*ssa.Value
				for _, op := range in.Operands(ops[:0]) {
					if op == nil || *op == nil {
						continue
					}
					var target *ssa.Function
					switch v := (*op).(type) {
					case *ssa.Function:
						target = v
					case *ssa.MakeClosure:
						if bf, ok := v.Fn.(*ssa.Function); ok {
							target = bf
							// bound method wrapper: look through to the method
							if bf.Synthetic != "" && len(bf.Blocks) > 0 {
								for _, bi := range bf.Blocks[0].Instrs {
									if call, ok := bi.(ssa.CallInstruction); ok && call.Common().StaticCallee() == fn {
										target = fn
									}
								}
							}
						}
					}
					if target != fn {
						continue
					}
					uses++
					call, ok := in.(ssa.CallInstruction)
					if ok {
						if callee := call.Common().StaticCallee(); callee != nil && callee.Name() == "Do" && callee.Signature.Recv() != nil && core.IsNamed(callee.Signature.Recv().Type(), "sync", "Once") {
							continue
						}
						if callee := call.Common().StaticCallee(); callee == fn && f.Synthetic != "" {
							continue // the bound-method wrapper itself
						}
					}
					if _, isMC := in.(*ssa.MakeClosure); isMC {
						continue // creation of the bound method value; its use is checked where it is passed on
					}
					return false
				}
			}
		}
	}
	return uses > 0
}

// locksReceiverMutexOnEntry: a Lock of a mutex field of the receiver (with its Unlock deferred) dominates every
// store / map update of the function.
func locksReceiverMutexOnEntry(fn *ssa.Function) bool {
	if len(fn.Blocks) == 0 || len(fn.Params) == 0 {
		return false
	}
	var lockBlock *ssa.BasicBlock
	lockIdx := -1
	deferred := false
	for _, b := range fn.Blocks {
		for i, in := range b.Instrs {
			switch x := in.(type) {
			case *ssa.Call:
				if callee := x.Common().StaticCallee(); callee != nil && callee.Name() == "Lock" && len(x.Common().Args) > 0 && lockBlock == nil {
					if fa, ok := x.Common().Args[0].(*ssa.FieldAddr); ok && fa.X == fn.Params[0] {
						lockBlock, lockIdx = b, i
					}
				}
			case *ssa.Defer:
				if callee := x.Common().StaticCallee(); callee != nil && callee.Name() == "Unlock" {
					deferred = true
				}
			}
		}
	}
	if lockBlock == nil || !deferred {
		return false
	}
	for _, b := range fn.Blocks {
		for i, in := range b.Instrs {
			write := false
			switch x := in.(type) {
			case *ssa.MapUpdate:
				write = true
			case *ssa.Store:
				if _, local := x.Addr.(*ssa.Alloc); !local {
					if ia, isIA := x.Addr.(*ssa.IndexAddr); isIA {
						if _, localArr := ia.X.(*ssa.Alloc); localArr {
							continue
						}
					}
					write = true
				}
			}
			if !write {
				continue
			}
			if b == lockBlock {
				if i < lockIdx {
					return false
				}
				continue
			}
			if !lockBlock.Dominates(b) {
				return false
			}
		}
	}
	return true
}

// ---- R11.5 instance-state packages do not write through package-level reference variables at run time ----

var sharedGlobalWriteOK = map[string]string{}

func checkGlobalWrites(c *core.Ctx) {
	rels := []string{"internal/sys", "internal/sysfs", "internal/descriptor", "imports/wasi_snapshot_preview1", "internal/wasip1", "internal/sock", "internal/fsapi", "experimental/sys", "experimental/sysfs"}
	n := 0
	var fnCount int
	for _, fn := range moduleFns(c, rels...) {
		if fn.Name() == "init" || strings.HasPrefix(fn.Name(), "init#") || fn.Synthetic != "" {
			continue
		}
		fnCount++
		rootGlobal := func(v ssa.Value) *ssa.Global {
			for d := 0; d < 8 && v != nil; d++ {
				switch x := v.(type) {
				case *ssa.IndexAddr:
					v = x.X
				case *ssa.FieldAddr:
					v = x.X
				case *ssa.Slice:
					v = x.X
				case *ssa.UnOp:
					if g, ok := x.X.(*ssa.Global); ok && x.Op == token.MUL {
						switch g.Type().(*types.Pointer).Elem().Underlying().(type) {
						case *types.Slice, *types.Map, *types.Pointer:
							return g
						}
						return nil
					}
					v = x.X
				default:
					return nil
				}
			}
			return nil
		}
		for _, b := range fn.Blocks {
			for _, in := range b.Instrs {
				var g *ssa.Global
				switch x := in.(type) {
				case *ssa.Store:
					if _, direct := x.Addr.(*ssa.Global); direct {
						continue // re-assignment of the variable itself is a different (visible) pattern
					}
					g = rootGlobal(x.Addr)
				case *ssa.MapUpdate:
					g = rootGlobal(x.Map)
				}
				if g == nil || g.Pkg == nil || !strings.HasPrefix(g.Pkg.Pkg.Path(), core.Module) {
					continue
				}
				n++
				key := strings.TrimPrefix(g.Pkg.Pkg.Path(), core.Module+"/") + "." + g.Name()
				_, ok := sharedGlobalWriteOK[key]
				c.Check(ok, "R11.5", "run-time write through package-level "+key+" in "+core.SSAFuncName(fn), in.Pos(), "listed as instance-independent",
					"a function that runs on behalf of one instance writes through the package-level variable "+key+" (a slice/map/pointer shared by every instance and runtime in the process): what one instance stores is observed by another that was never linked to it")
			}
		}
	}
	c.Count("instance_state_functions_scanned", fnCount)
	if n == 0 {
		c.Discharge("R11.5", "no run-time write through a package-level reference variable in the instance-state packages", 0, fmt.Sprintf("%d functions scanned", fnCount))
	}
}
