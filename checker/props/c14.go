package props

import (
	"fmt"
	"go/ast"
	"go/token"
	"go/types"
	"sort"
	"strings"

	"golang.org/x/tools/go/packages"

	"verif/checker/core"
)

// C14 Memory size, growth and the host memory API follow the limits exactly (structural clauses).

func init() {
	core.Register(&core.Property{
		ID:    "C14",
		Level: "other",
		Explanation: "Decided (necessary conditions, for every offset/size/limit): (R14.1) width discipline – no index arithmetic on the memory buffer in fewer than 64 bits after the 64-bit bounds check, no narrowing of len(Buffer) to 32 bits except through the page shift, " +
			"the compiler reads the 64-bit length slot with a 64-bit load; (R14.2) Grow takes the shared-memory lock before it reads the size, rejects with an overflow-safe comparison against Max, notifies the owner engine on every successful path, and all engines map failure to 0xffffffff; " +
			"(R14.3) the memory sizer's min/max do not depend on the capacity-from-max flag (non-interference over all syntactic paths) and decoded memories are validated against the limit; (R14.4) every host accessor that touches the buffer is dominated by the bounds check with exactly the access width; " +
			"(R14.5) after every call the compiler re-reads memory base and length whenever the module has a non-shared memory (exhaustive evaluation of the guard over all flag assignments). (R14.6) a host accessor reports success only after its size check (no `return true` ahead of the guard); (R14.7) the Go side of memory.grow acts on the memory of the instance that executes the instruction, not on the entry instance's. NOT decided: contents after growth, allocator behaviour, the emitted machine code.",
		Rules: []core.Rule{
			{ID: "R14.12", Template: "T-MUSTPASS", Text: "with a custom allocator every change of the buffer in Grow goes through the allocator, which can refuse it (same analysis as C12 R12.6)", Min: 3},
			{ID: "R14.11", Template: "T-BOUND", Text: "the view returned by MemoryInstance.Read is capped at the end of the checked range (three-index slice)", Min: 1},
			{ID: "R14.10", Template: "T-WIDTH", Text: "wazerotest.Memory (the second api.Memory implementation) checks the bytes it accesses (genuine defect found and fixed)", Min: 4},
			{ID: "R14.8", Template: "T-CONSULT", Text: "a second memory import is refused (genuine defect found and fixed)", Min: 1},
			{ID: "R14.9", Template: "T-WIDTH", Text: "the engines compare no address with the 32-bit MemoryInstance.Size() (genuine defect found and fixed: interpreter memory.atomic.notify)", Min: 1},
			{ID: "R14.6", Template: "T-MUSTPASS", Text: "a host accessor reports success only after the size check", Min: 8},
			{ID: "R14.7", Template: "T-SIBLING", Text: "the Go side of memory.grow (and the other instance-relative builtins) acts on the instance executing the instruction (same analysis as C04 R04.8)", Min: 1},
			{ID: "R14.1", Template: "T-WIDTH", Text: "64-bit width discipline on buffer indices, buffer length and the compiled length slot", Min: 6},
			{ID: "R14.2", Template: "T-CONSULT", Text: "Grow: lock before reading the size; overflow-safe Max comparison; owner engine notified; failure maps to 0xffffffff at every call site", Min: 5},
			{ID: "R14.3", Template: "T-NONINTERF", Text: "memory sizer: min and max independent of the capacity flag; decodeMemory validates against the limit", Min: 2},
			{ID: "R14.4", Template: "T-MUSTPASS", Text: "every buffer access of a host accessor is dominated by hasSize(offset, width) with the access width", Min: 11},
			{ID: "R14.5", Template: "T-EXHAUST", Text: "reload of memory base/len after calls happens for every flag assignment with needMemory ∧ ¬shared; every call-lowering site reaches the reload", Min: 3},
		},
		Run: runC14,
		Controls: []core.Control{
			{Name: "grow-bypasses-allocator-within-capacity", File: "internal/wasm/memory.go", Old: "\t} else if m.expBuffer != nil {\n", New: "\t} else if m.expBuffer != nil && newPages > m.Cap {\n", Rule: "R14.12", Substr: "Grow"},
			{Name: "read-view-uncapped", File: "internal/wasm/memory.go", Old: "\treturn m.Buffer[offset:end:end], true\n", New: "\treturn m.Buffer[offset:end], true\n", Rule: "R14.11", Substr: "view"},
			{Name: "wazerotest-write64-checks-four-bytes", File: "experimental/wazerotest/wazerotest.go", Old: "func (m *Memory) WriteUint64Le(offset uint32, value uint64) bool {\n\tif m.isOutOfRange(offset, 8) {", New: "func (m *Memory) WriteUint64Le(offset uint32, value uint64) bool {\n\tif m.isOutOfRange(offset, 4) {", Rule: "R14.10", Substr: "WriteUint64Le"},
			{Name: "second-memory-import-overwrites", File: "internal/wasm/module.go", Old: "\t\t\tif memory != nil { // Imported and defined memories share one index space, which has at most one entry.\n\t\t\t\terr = errors.New(\"at most one memory allowed in module\")\n\t\t\t\treturn\n\t\t\t}\n", New: "", Rule: "R14.8", Substr: "memory import"},
			{Name: "notify-bounds-by-size", File: "internal/engine/interpreter/interpreter.go", Old: "if uint64(offset) >= uint64(len(memoryInst.Buffer)) {", New: "if offset >= memoryInst.Size() {", Rule: "R14.9", Substr: "Size()"},
			{Name: "write-empty-succeeds-anywhere", File: "internal/wasm/memory.go", Old: "func (m *MemoryInstance) Write(offset uint32, val []byte) bool {\n", New: "func (m *MemoryInstance) Write(offset uint32, val []byte) bool {\n\tif len(val) == 0 {\n\t\treturn true\n\t}\n", Rule: "R14.6", Substr: "Write "},
			{Name: "grow-acts-on-entry-module", File: "internal/engine/wazevo/call_engine.go", Old: "\t\t\tmod := c.callerModuleInstance()\n\t\t\tmem := mod.MemoryInstance\n", New: "\t\t\tmem := c.parent.module.MemoryInstance\n", Rule: "R14.7", Substr: "calling instance"},
			{Name: "accessor-32bit-slice-end", File: "internal/wasm/memory.go", Old: "m.Buffer[offset : uint64(offset)+4]", New: "m.Buffer[offset : offset+4]", Rule: "R14.1", Substr: "readUint32Le"},
			{Name: "accessor-wrong-width", File: "internal/wasm/memory.go", Old: "\tif !m.hasSize(offset, 8) {\n\t\treturn 0, false\n\t}\n\treturn binary.LittleEndian.Uint64(", New: "\tif !m.hasSize(offset, 4) {\n\t\treturn 0, false\n\t}\n\treturn binary.LittleEndian.Uint64(", Rule: "R14.4", Substr: "readUint64Le"},
			{Name: "accessor-unguarded", File: "internal/wasm/memory.go", Old: "\tif !m.hasSize(offset, 1) {\n\t\treturn false\n\t}\n\tm.Buffer[offset] = v", New: "\tif int(offset) >= cap(m.Buffer) {\n\t\treturn false\n\t}\n\tm.Buffer[offset] = v", Rule: "R14.4", Substr: "WriteByte"},
			{Name: "grow-wrapping-compare", File: "internal/wasm/memory.go", Old: "if newPages > m.Max || int32(delta) < 0 {", New: "if uint64(newPages) > uint64(m.Max) {", Rule: "R14.2", Substr: "overflow"},
			{Name: "grow-reads-size-before-lock", File: "internal/wasm/memory.go", Old: "\tif m.Shared {\n\t\tm.Mux.Lock()\n\t\tdefer m.Mux.Unlock()\n\t}\n\n\tcurrentPages := m.Pages()\n\tif delta == 0 {\n\t\treturn currentPages, true\n\t}\n", New: "\tcurrentPages := m.Pages()\n\tif delta == 0 {\n\t\treturn currentPages, true\n\t}\n\tif m.Shared {\n\t\tm.Mux.Lock()\n\t\tdefer m.Mux.Unlock()\n\t}\n", Rule: "R14.2", Substr: "lock"},
			{Name: "grow-skips-notify", File: "internal/wasm/memory.go", Old: "\t\t\tm.Buffer = m.Buffer[:MemoryPagesToBytesNum(newPages)]\n\t\t}\n\t}\n\tm.ownerModuleEngine.MemoryGrown()", New: "\t\t\tm.Buffer = m.Buffer[:MemoryPagesToBytesNum(newPages)]\n\t\t\treturn currentPages, true\n\t\t}\n\t}\n\tm.ownerModuleEngine.MemoryGrown()", Rule: "R14.2", Substr: "notif"},
			{Name: "sizer-flag-changes-max", File: "internal/wasm/binary/decoder.go", Old: "\t\tif memoryCapacityFromMax {\n\t\t\treturn minPages, max, max\n\t\t}", New: "\t\tif memoryCapacityFromMax {\n\t\t\tif maxPages != nil {\n\t\t\t\treturn minPages, *maxPages, *maxPages\n\t\t\t}\n\t\t\treturn minPages, max, max\n\t\t}", Rule: "R14.3", Substr: "sizer"},
			{Name: "reload-skipped-when-cap-is-max", File: "internal/engine/wazevo/frontend/lower.go", Old: "if c.needMemory && !c.memoryShared {\n\t\tc.reloadMemoryBaseLen()", New: "if c.needMemory && !c.memoryShared && !c.needSourceOffsetInfo {\n\t\tc.reloadMemoryBaseLen()", Rule: "R14.5", Substr: "reload"},
			{Name: "interp-grow-failure-zero", File: "internal/engine/interpreter/interpreter.go", Old: "ce.pushValue(uint64(0xffffffff)) // = -1 in signed 32-bit integer.\n\t\t\t} else {\n\t\t\t\tce.pushValue(uint64(res))", New: "ce.pushValue(uint64(res)) // failed\n\t\t\t} else {\n\t\t\t\tce.pushValue(uint64(res))", Rule: "R14.2", Substr: "interpreter"},
		},
		Configs: []core.BuildCfg{{GOOS: "linux", GOARCH: "arm64"}, {GOOS: "linux", GOARCH: "386"}},
	})
}

func typeBits(t types.Type) int {
	switch basicKind(t) {
	case types.Int8, types.Uint8:
		return 8
	case types.Int16, types.Uint16:
		return 16
	case types.Int32, types.Uint32:
		return 32
	case types.Int64, types.Uint64:
		return 64
	case types.Int, types.Uint, types.Uintptr:
		return 0 // platform
	case types.UntypedInt:
		return 64
	}
	return -1
}

func runC14(c *core.Ctx) {
	checkWazerotestMemoryWidths(c)
	checkOneMemory(c)
	checkNoSizeInEngineBounds(c)
	checkSuccessAfterSizeCheck(c)
	checkBuiltinsActOnCaller(c, "R14.7")
	wp := c.Pkg("internal/wasm")
	info := wp.TypesInfo
	memNamed, _ := wp.Types.Scope().Lookup("MemoryInstance").Type().(*types.Named)
	bufField := structField(c, "internal/wasm", "MemoryInstance", "Buffer")
	maxField := structField(c, "internal/wasm", "MemoryInstance", "Max")
	if memNamed == nil || bufField == nil || maxField == nil {
		c.Undecided("R14.4", "anchor", 0, "wasm.MemoryInstance / Buffer / Max not found")
		return
	}
	isBuf := func(e ast.Expr) bool { return core.FieldOf(info, e) == bufField }

	// hasSize: method of MemoryInstance returning bool, whose body is `return <expr involving len(m.Buffer)> ` with two params
	var hasSize *types.Func
	core.AllFuncDecls(wp, func(fd *ast.FuncDecl) {
		if core.RecvName(fd) != "MemoryInstance" || fd.Type.Params.NumFields() != 2 || fd.Type.Results == nil || fd.Type.Results.NumFields() != 1 || len(fd.Body.List) == 0 {
			return
		}
		// the body is the comparison, possibly after guards that answer false (`if m == nil { return false }`) and locals
		// naming its two sides
		localDef := map[types.Object]ast.Expr{}
		for _, st := range fd.Body.List[:len(fd.Body.List)-1] {
			switch x := st.(type) {
			case *ast.AssignStmt:
				if x.Tok != token.DEFINE || len(x.Lhs) != len(x.Rhs) {
					return
				}
				for i, l := range x.Lhs {
					if id, ok := l.(*ast.Ident); ok && info.Defs[id] != nil {
						localDef[info.Defs[id]] = x.Rhs[i]
					}
				}
			case *ast.IfStmt:
				if len(x.Body.List) != 1 || x.Else != nil {
					return
				}
				r, ok := x.Body.List[0].(*ast.ReturnStmt)
				if !ok || len(r.Results) != 1 || core.ExprStr(r.Results[0]) != "false" {
					return
				}
			default:
				return
			}
		}
		rs, ok := fd.Body.List[len(fd.Body.List)-1].(*ast.ReturnStmt)
		if !ok || len(rs.Results) != 1 {
			return
		}
		resolveSide := func(e ast.Expr) ast.Expr {
			if id, ok := ast.Unparen(e).(*ast.Ident); ok {
				if d, ok := localDef[info.Uses[id]]; ok {
					return d
				}
			}
			return e
		}
		be, ok := ast.Unparen(rs.Results[0]).(*ast.BinaryExpr)
		// the comparison may be conjoined with further conditions that only restrict it (e.g. a nil-receiver test)
		for ok && be.Op == token.LAND {
			if r, isB := ast.Unparen(be.Y).(*ast.BinaryExpr); isB && r.Op == token.LEQ {
				be = r
			} else if l, isB := ast.Unparen(be.X).(*ast.BinaryExpr); isB && (l.Op == token.LEQ || l.Op == token.LAND) {
				be = l
			} else {
				ok = false
			}
		}
		if !ok || be.Op != token.LEQ {
			return
		}
		refsLen := false
		ast.Inspect(resolveSide(be.Y), func(n ast.Node) bool {
			if call, ok := n.(*ast.CallExpr); ok && core.IsBuiltin(info, call, "len") && isBuf(call.Args[0]) {
				refsLen = true
			}
			return true
		})
		if refsLen {
			hasSize, _ = info.Defs[fd.Name].(*types.Func)
			// width discipline of the check itself: both sides 64-bit
			var widthOf func(e ast.Expr, d int) int
			widthOf = func(e ast.Expr, d int) int {
				e = ast.Unparen(e)
				w := typeBits(info.Types[e].Type)
				if d > 3 {
					return w
				}
				if id, ok := e.(*ast.Ident); ok {
					if def, ok := localDef[info.Uses[id]]; ok {
						if dw := widthOf(def, d+1); dw < w {
							return dw
						}
					}
				}
				if call, ok := e.(*ast.CallExpr); ok && len(call.Args) == 1 {
					if tv, ok := info.Types[call.Fun]; ok && tv.IsType() {
						// a widening conversion of a local computed in fewer bits does not undo the wrap
						if id, ok := ast.Unparen(call.Args[0]).(*ast.Ident); ok {
							if _, isLocal := localDef[info.Uses[id]]; isLocal {
								if dw := widthOf(id, d+1); dw < w {
									return dw
								}
							}
						}
					}
				}
				return w
			}
			okW := widthOf(be.X, 0) == 64 && widthOf(be.Y, 0) == 64
			c.Check(okW, "R14.1", "bounds check arithmetic in "+fd.Name.Name, be.Pos(), "offset+size compared with len(Buffer) in 64-bit arithmetic", "the bounds check adds offset and size in fewer than 64 bits: offset+size wraps for offsets near 4GiB")
		}
	})
	if hasSize == nil {
		c.Undecided("R14.4", "bounds check function", 0, "no MemoryInstance method of the form `return uint64(offset)+n <= uint64(len(m.Buffer))` found")
		return
	}

	// ---- R14.4 / R14.1 accessors
	core.AllFuncDecls(wp, func(fd *ast.FuncDecl) {
		if core.RecvName(fd) != "MemoryInstance" || info.Defs[fd.Name] == hasSize {
			return
		}
		// parameters named as offsets: the first uint32 parameter
		type access struct {
			node   ast.Node
			offset ast.Expr
			width  string // rendered width expression
			pos    token.Pos
		}
		var accs []access
		widthOfCall := func(name string) string {
			switch {
			case strings.HasSuffix(name, "Uint16"):
				return "2"
			case strings.HasSuffix(name, "Uint32"):
				return "4"
			case strings.HasSuffix(name, "Uint64"):
				return "8"
			}
			return ""
		}
		var narrow []string
		ast.Inspect(fd.Body, func(n ast.Node) bool {
			switch x := n.(type) {
			case *ast.IndexExpr:
				if isBuf(x.X) {
					accs = append(accs, access{x, x.Index, "1", x.Pos()})
				}
			case *ast.SliceExpr:
				if !isBuf(x.X) || x.Low == nil {
					return true
				}
				if x.High != nil {
					// T-WIDTH: the end index must be computed in 64 bits (or be a constant)
					tv := info.Types[x.High]
					if tv.Value == nil && typeBits(tv.Type) != 64 {
						narrow = append(narrow, fmt.Sprintf("slice end `%s` is computed in %s arithmetic at %s: it wraps when the access ends at 4GiB", core.ExprStr(x.High), tv.Type, c.Pos(x.High.Pos())))
					}
					// width = High - Low : recognise uint64(offset)+K and a local `end` defined as uint64(offset)+uint64(n)
					w := sliceWidth(info, fd, x.Low, x.High)
					accs = append(accs, access{x, x.Low, w, x.Pos()})
				}
			case *ast.CallExpr:
				f := core.Callee(info, x)
				if f != nil && f.Pkg() != nil && f.Pkg().Path() == "encoding/binary" && len(x.Args) >= 1 {
					if se, ok := ast.Unparen(x.Args[0]).(*ast.SliceExpr); ok && isBuf(se.X) && se.High == nil && se.Low != nil {
						if w := widthOfCall(f.Name()); w != "" {
							accs = append(accs, access{x, se.Low, w, x.Pos()})
						}
					}
				}
				if core.IsBuiltin(info, x, "copy") && len(x.Args) == 2 {
					if se, ok := ast.Unparen(x.Args[0]).(*ast.SliceExpr); ok && isBuf(se.X) && se.High == nil && se.Low != nil {
						accs = append(accs, access{x, se.Low, "uint64(len(" + core.ExprStr(x.Args[1]) + "))", x.Pos()})
					}
				}
			}
			return true
		})
		name := core.FuncName(wp, fd)
		if len(narrow) > 0 {
			c.Violate("R14.1", "index width in "+fd.Name.Name, fd.Pos(), strings.Join(narrow, "; "))
		} else if len(accs) > 0 {
			c.Discharge("R14.1", "index width in "+fd.Name.Name, fd.Pos(), "buffer indices are constants or 64-bit")
		}
		if len(accs) == 0 {
			return
		}
		// only accessors that take an offset parameter are host accessors (Grow etc. re-slice to new lengths)
		var offObj types.Object
		for _, f := range fd.Type.Params.List {
			for _, n := range f.Names {
				if basicKind(info.Defs[n].Type()) == types.Uint32 && offObj == nil {
					offObj = info.Defs[n]
				}
			}
		}
		if offObj == nil {
			return
		}
		// the guard: a top-level `if !m.hasSize(off, W) { return ... }` before the access
		type guard struct {
			off, width string
			pos        token.Pos
		}
		var guards []guard
		for _, s := range fd.Body.List {
			is, ok := s.(*ast.IfStmt)
			if !ok || is.Init != nil {
				continue
			}
			ue, ok := ast.Unparen(is.Cond).(*ast.UnaryExpr)
			if !ok || ue.Op != token.NOT {
				continue
			}
			call, ok := ast.Unparen(ue.X).(*ast.CallExpr)
			if !ok || core.Callee(info, call) != hasSize || len(call.Args) != 2 {
				continue
			}
			returns := false
			for _, b := range is.Body.List {
				if _, ok := b.(*ast.ReturnStmt); ok {
					returns = true
				}
			}
			if returns {
				guards = append(guards, guard{core.ExprStr(call.Args[0]), normWidth(info, call.Args[1]), is.End()})
			}
		}
		var bad []string
		for _, a := range accs {
			id, ok := ast.Unparen(a.offset).(*ast.Ident)
			if !ok || info.Uses[id] != offObj {
				// accesses not based on the offset parameter (e.g. internal re-slicing) are out of scope
				continue
			}
			ok2 := false
			for _, g := range guards {
				if g.pos <= a.pos && g.off == id.Name && g.width == a.width {
					ok2 = true
				}
			}
			if !ok2 {
				var gs []string
				for _, g := range guards {
					gs = append(gs, fmt.Sprintf("hasSize(%s, %s)", g.off, g.width))
				}
				bad = append(bad, fmt.Sprintf("access of %s byte(s) at %s is not preceded by hasSize(%s, %s) (guards present: %v)", a.width, c.Pos(a.pos), id.Name, a.width, gs))
			}
		}
		c.Check(len(bad) == 0, "R14.4", "bounds check in "+name, fd.Pos(), fmt.Sprintf("%d buffer access(es) guarded with the exact width", len(accs)), strings.Join(bad, "; "))
	})

	// ---- R14.1 narrowing of len(Buffer)
	for _, p := range c.WazeroPkgs() {
		if strings.Contains(p.PkgPath, "/internal/testing") || strings.Contains(p.PkgPath, "/examples") {
			continue
		}
		core.AllFuncDecls(p, func(fd *ast.FuncDecl) {
			ast.Inspect(fd.Body, func(n ast.Node) bool {
				call, ok := n.(*ast.CallExpr)
				if !ok || len(call.Args) != 1 {
					return true
				}
				tv, ok := p.TypesInfo.Types[call.Fun]
				if !ok || !tv.IsType() || typeBits(tv.Type) != 32 {
					return true
				}
				inner, ok := ast.Unparen(call.Args[0]).(*ast.CallExpr)
				if !ok || !core.IsBuiltin(p.TypesInfo, inner, "len") || core.FieldOf(p.TypesInfo, inner.Args[0]) != bufField {
					return true
				}
				c.Violate("R14.1", "narrowing of len(Buffer) in "+core.FuncName(p, fd), call.Pos(),
					fmt.Sprintf("`%s` converts the byte length of the memory to 32 bits: it is 0 for a 65536-page (4GiB) memory", core.ExprStr(call)))
				return true
			})
		})
	}

	// ---- R14.1 compiled length slot width (wazevo)
	if fp := c.Pkg("internal/engine/wazevo/frontend"); fp != nil {
		n := 0
		// constants of the frontend whose initialiser mentions Offsetof(...Buffer) and adds the word size: the len word
		bufSizeConsts := map[types.Object]bool{}
		for _, f := range fp.Syntax {
			ast.Inspect(f, func(x ast.Node) bool {
				vs, ok := x.(*ast.ValueSpec)
				if !ok {
					return true
				}
				for i, nm := range vs.Names {
					if i >= len(vs.Values) {
						continue
					}
					mentionsBuf, adds := false, false
					ast.Inspect(vs.Values[i], func(y ast.Node) bool {
						if se, ok := y.(*ast.SelectorExpr); ok && se.Sel.Name == "Buffer" {
							mentionsBuf = true
						}
						if be, ok := y.(*ast.BinaryExpr); ok && be.Op == token.ADD {
							adds = true
						}
						return true
					})
					if (mentionsBuf && adds) || strings.Contains(nm.Name, "BufSize") {
						bufSizeConsts[fp.TypesInfo.Defs[nm]] = true
					}
				}
				return true
			})
		}
		lenLoadOrd := map[string]int{}
		core.AllFuncDecls(fp, func(fd *ast.FuncDecl) {
			ast.Inspect(fd.Body, func(x ast.Node) bool {
				call, ok := x.(*ast.CallExpr)
				if !ok {
					return true
				}
				f := core.Callee(fp.TypesInfo, call)
				if f == nil || !strings.HasPrefix(f.Name(), "As") || f.Pkg() == nil || !strings.HasSuffix(f.Pkg().Path(), "/wazevo/ssa") {
					return true
				}
				usesLen := false
				for _, a := range call.Args {
					ast.Inspect(a, func(y ast.Node) bool {
						if cc, ok := y.(*ast.CallExpr); ok {
							if g := core.Callee(fp.TypesInfo, cc); g != nil && g.Name() == "LocalMemoryLen" {
								usesLen = true
							}
						}
						// the length word of MemoryInstance.Buffer (imported memory): the constant built from
						// unsafe.Offsetof(MemoryInstance.Buffer) + word size
						if id, ok := y.(*ast.Ident); ok && bufSizeConsts[fp.TypesInfo.Uses[id]] {
							usesLen = true
						}
						return true
					})
				}
				if !usesLen {
					return true
				}
				n++
				flavour := "local"
				for _, a := range call.Args {
					ast.Inspect(a, func(y ast.Node) bool {
						if id, ok := y.(*ast.Ident); ok && bufSizeConsts[fp.TypesInfo.Uses[id]] {
							flavour = "imported"
						}
						return true
					})
				}
				arm := ""
				for _, lp := range core.EnclosingLists(fd.Body, call) {
					if cc, ok := lp.Owner.(*ast.CaseClause); ok && len(cc.List) > 0 && arm == "" {
						if se, ok := ast.Unparen(cc.List[0]).(*ast.SelectorExpr); ok && strings.HasPrefix(se.Sel.Name, "Opcode") {
							arm = " arm " + se.Sel.Name
						}
					}
				}
				// keyed by what is loaded and how, not by the enclosing function: moving the code does not make a new finding,
				// a further load of the same form does (ordinal)
				detail := ""
				switch f.Name() {
				case "AsLoad":
					detail = core.ExprStr(call.Args[len(call.Args)-1])
				case "AsExtLoad":
					detail = core.ExprStr(call.Args[0])
				}
				_ = arm
				ordKey := flavour + "|" + f.Name() + "|" + detail
				lenLoadOrd[ordKey]++
				key := fmt.Sprintf("%s length-slot load %s(%s) #%d", flavour, f.Name(), detail, lenLoadOrd[ordKey])
				switch f.Name() {
				case "AsLoad":
					last := call.Args[len(call.Args)-1]
					ok := strings.HasSuffix(core.ExprStr(last), "TypeI64")
					c.Check(ok, "R14.1", key, call.Pos(), "64-bit load of the 64-bit length slot", "the memory length slot is loaded with a type other than i64")
				case "AsExtLoad":
					c.Violate("R14.1", key, call.Pos(), fmt.Sprintf("the 64-bit memory length slot is read with an extending load `%s`: only the low 32 bits are read, so a 65536-page memory has length 0 (memory.size and every bounds check disagree with the host API)", core.ExprStr(call.Args[0])))
				case "AsIconst64", "AsIconst32":
					c.Discharge("R14.1", key, call.Pos(), "address computation only")
				default:
					c.Discharge("R14.1", key, call.Pos(), "not a narrowing load")
				}
				return true
			})
		})
		if n == 0 {
			c.Undecided("R14.1", "compiled length slot", 0, "no SSA instruction built from LocalMemoryLen() found in the frontend")
		}
	}

	// ---- R14.2 Grow
	growFn := core.FuncDecl(wp, "MemoryInstance", "Grow")
	if growFn == nil {
		c.Undecided("R14.2", "Grow", 0, "MemoryInstance.Grow not found")
	} else {
		checkGrow(c, wp, growFn, bufField, maxField)
	}
	// call sites of Grow in the engines map failure to 0xffffffff
	growObj := core.ImplMethod(wp.Types, memNamed, "Grow")
	for _, e := range []struct{ name, rel string }{{"interpreter", "internal/engine/interpreter"}, {"wazevo", "internal/engine/wazevo"}} {
		p := c.Pkg(e.rel)
		if p == nil {
			continue
		}
		found := 0
		core.AllFuncDecls(p, func(fd *ast.FuncDecl) {
			ast.Inspect(fd.Body, func(n ast.Node) bool {
				is, ok := n.(*ast.IfStmt)
				if !ok || is.Init == nil {
					return true
				}
				as, ok := is.Init.(*ast.AssignStmt)
				if !ok || len(as.Rhs) != 1 || len(as.Lhs) != 2 {
					return true
				}
				call, ok := as.Rhs[0].(*ast.CallExpr)
				if !ok || core.Callee(p.TypesInfo, call) != growObj {
					return true
				}
				found++
				okObj := p.TypesInfo.Defs[as.Lhs[1].(*ast.Ident)]
				// failure branch: `!ok` → Body, `ok` → Else
				var fail ast.Node
				if ue, isNot := ast.Unparen(is.Cond).(*ast.UnaryExpr); isNot && ue.Op == token.NOT {
					if id, isID := ast.Unparen(ue.X).(*ast.Ident); isID && p.TypesInfo.Uses[id] == okObj {
						fail = is.Body
					}
				} else if id, isID := ast.Unparen(is.Cond).(*ast.Ident); isID && p.TypesInfo.Uses[id] == okObj {
					fail = is.Else
				}
				has := false
				if fail != nil {
					ast.Inspect(fail, func(m ast.Node) bool {
						if e, isE := m.(ast.Expr); isE {
							if v, isC := core.ConstVal(p.TypesInfo, e); isC && uint64(v) == 0xffffffff {
								has = true
							}
						}
						return true
					})
				}
				c.Check(has, "R14.2", e.name+" memory.grow failure value in "+core.FuncName(p, fd), is.Pos(), "failure branch yields 0xffffffff", "the failure branch of memory.grow does not yield 0xffffffff (-1): the guest sees a bogus previous size")
				return true
			})
		})
		if found == 0 {
			c.Undecided("R14.2", e.name+" memory.grow call site", 0, "no `res, ok := mem.Grow(...)` site found")
		}
	}

	// ---- R14.3 sizer non-interference
	checkSizer(c)

	// ---- R14.5 reload after call
	checkReload(c)

	checkReadViewCapped(c)
	checkAllocatorOwnsBuffer(c, "R14.12")
}

// sliceWidth renders High-Low for the recognised forms.
func sliceWidth(info *types.Info, fd *ast.FuncDecl, low, high ast.Expr) string {
	lowS := core.ExprStr(low)
	h := ast.Unparen(high)
	if id, ok := h.(*ast.Ident); ok {
		// local defined once: end := uint64(offset) + X
		obj := info.Uses[id]
		ast.Inspect(fd.Body, func(n ast.Node) bool {
			if as, ok := n.(*ast.AssignStmt); ok && len(as.Lhs) == 1 && len(as.Rhs) == 1 {
				if li, ok := as.Lhs[0].(*ast.Ident); ok && info.Defs[li] == obj {
					h = ast.Unparen(as.Rhs[0])
				}
			}
			return true
		})
	}
	be, ok := h.(*ast.BinaryExpr)
	if !ok || be.Op != token.ADD {
		return "?" + core.ExprStr(high)
	}
	strip := func(e ast.Expr) string {
		_, inner := convChain(info, e)
		return core.ExprStr(inner)
	}
	if strip(be.X) == lowS {
		return normWidth(info, be.Y)
	}
	if strip(be.Y) == lowS {
		return normWidth(info, be.X)
	}
	return "?" + core.ExprStr(high)
}

func normWidth(info *types.Info, e ast.Expr) string {
	if v, ok := core.ConstVal(info, e); ok {
		return fmt.Sprint(v)
	}
	chain, inner := convChain(info, e)
	_ = chain
	if call, ok := inner.(*ast.CallExpr); ok && core.IsBuiltin(info, call, "len") {
		return "uint64(len(" + core.ExprStr(call.Args[0]) + "))"
	}
	return "uint64(" + core.ExprStr(inner) + ")"
}

func checkGrow(c *core.Ctx, wp *packages.Package, fd *ast.FuncDecl, bufField, maxField *types.Var) {
	info := wp.TypesInfo
	var deltaObj types.Object
	for _, f := range fd.Type.Params.List {
		for _, n := range f.Names {
			deltaObj = info.Defs[n]
		}
	}
	// (a) lock before reading the size: the first top-level statement that mentions Buffer / Pages() / Cap must come
	// after a top-level `if m.Shared { m.Mux.Lock(); defer m.Mux.Unlock() }`
	lockIdx, firstRead := -1, -1
	readsSize := func(n ast.Node) bool {
		found := false
		ast.Inspect(n, func(x ast.Node) bool {
			switch y := x.(type) {
			case *ast.SelectorExpr:
				if core.FieldOf(info, y) == bufField {
					found = true
				}
			case *ast.CallExpr:
				if f := core.Callee(info, y); f != nil && f.Name() == "Pages" && core.RecvNameOf(f) == "MemoryInstance" {
					found = true
				}
			}
			return true
		})
		return found
	}
	for i, s := range fd.Body.List {
		if is, ok := s.(*ast.IfStmt); ok && lockIdx < 0 {
			if f := core.FieldOf(info, is.Cond); f != nil && f.Name() == "Shared" {
				locks, defers := false, false
				for _, b := range is.Body.List {
					switch y := b.(type) {
					case *ast.ExprStmt:
						if call, ok := y.X.(*ast.CallExpr); ok {
							if g := core.Callee(info, call); g != nil && g.Name() == "Lock" {
								locks = true
							}
						}
					case *ast.DeferStmt:
						if g := core.Callee(info, y.Call); g != nil && g.Name() == "Unlock" {
							defers = true
						}
					}
				}
				if locks && defers {
					lockIdx = i
					continue
				}
			}
		}
		if firstRead < 0 && readsSize(s) {
			firstRead = i
		}
	}
	c.Check(lockIdx >= 0 && (firstRead < 0 || lockIdx < firstRead), "R14.2", "Grow: shared-memory lock before the size is read", fd.Pos(),
		"the shared-memory mutex is taken (and its release deferred) before the first read of the size",
		"Grow reads the current size before taking the shared-memory mutex (or never takes it): concurrent grows work from a stale size and can return duplicate previous sizes or shrink the memory")

	// (b) overflow-safe comparison with Max
	var cmp *ast.BinaryExpr
	ast.Inspect(fd.Body, func(n ast.Node) bool {
		be, ok := n.(*ast.BinaryExpr)
		if !ok || (be.Op != token.GTR && be.Op != token.LSS && be.Op != token.GEQ && be.Op != token.LEQ) {
			return true
		}
		_, ix := convChain(info, be.X)
		_, iy := convChain(info, be.Y)
		if core.FieldOf(info, ix) == maxField || core.FieldOf(info, iy) == maxField {
			cmp = be
		}
		return true
	})
	if cmp == nil {
		c.Violate("R14.2", "Grow: overflow-safe comparison with Max", fd.Pos(), "Grow never compares the new size with Max")
	} else {
		// the other side: the sum
		other := cmp.X
		if _, ix := convChain(info, cmp.X); core.FieldOf(info, ix) == maxField {
			other = cmp.Y
		}
		sum := resolveLocal(info, fd, other)
		safe := false
		why := ""
		// (i) the addition itself is 64-bit
		_, inner := convChain(info, sum)
		if add, ok := ast.Unparen(inner).(*ast.BinaryExpr); ok && add.Op == token.ADD {
			if typeBits(info.Types[add].Type) == 64 {
				safe = true
				why = "sum computed in 64 bits"
			}
		}
		// (ii) a sign/size guard on delta in the same rejecting condition or earlier
		if !safe {
			ast.Inspect(fd.Body, func(n ast.Node) bool {
				be, ok := n.(*ast.BinaryExpr)
				if !ok {
					return true
				}
				chain, in := convChain(info, be.X)
				if id, ok := ast.Unparen(in).(*ast.Ident); ok && info.Uses[id] == deltaObj && be.Pos() <= cmp.End()+200 {
					if be.Op == token.LSS && len(chain) > 0 && basicKind(chain[0]) == types.Int32 {
						if v, ok := core.ConstVal(info, be.Y); ok && v == 0 {
							safe = true
							why = "deltas with the top bit set are rejected (int32(delta) < 0)"
						}
					}
					if be.Op == token.GTR || be.Op == token.GEQ {
						if v, ok := core.ConstVal(info, be.Y); ok && uint64(v) <= 1<<31 {
							safe = true
							why = "delta bounded by a constant"
						}
					}
				}
				return true
			})
		}
		c.Check(safe, "R14.2", "Grow: overflow-safe comparison with Max", cmp.Pos(), why,
			fmt.Sprintf("`%s` compares a 32-bit sum that can wrap and no guard rejects huge deltas: memory.grow(-1) wraps to a small size, succeeds and shrinks the memory", core.ExprStr(cmp)))
	}

	// (c) owner engine notified on every successful path
	notifyIdx := -1
	for i, s := range fd.Body.List {
		if es, ok := s.(*ast.ExprStmt); ok {
			if call, ok := es.X.(*ast.CallExpr); ok {
				if g := core.Callee(info, call); g != nil && g.Name() == "MemoryGrown" {
					notifyIdx = i
				}
			}
		}
	}
	if notifyIdx < 0 {
		c.Violate("R14.2", "Grow: owner engine notified", fd.Pos(), "no top-level call of ModuleEngine.MemoryGrown: compiled code keeps the old base and length")
	} else {
		// any `return X, true` after the first mutation of Buffer and before the notification skips it
		var bad []string
		mutated := false
		for _, s := range fd.Body.List[:notifyIdx] {
			ast.Inspect(s, func(n ast.Node) bool {
				switch y := n.(type) {
				case *ast.AssignStmt:
					for _, l := range y.Lhs {
						if core.FieldOf(info, l) == bufField {
							mutated = true
						}
					}
				case *ast.CallExpr:
					if g := core.Callee(info, y); g != nil && strings.HasPrefix(g.Name(), "atomicStoreLength") {
						mutated = true
					}
				case *ast.ReturnStmt:
					if mutated && len(y.Results) == 2 {
						if id, ok := y.Results[1].(*ast.Ident); ok && id.Name == "true" {
							bad = append(bad, "successful return at "+c.Pos(y.Pos())+" after the buffer changed, before MemoryGrown")
						}
					}
				}
				return true
			})
		}
		c.Check(len(bad) == 0, "R14.2", "Grow: owner engine notified", fd.Body.List[notifyIdx].Pos(), "every path that changes the buffer reaches MemoryGrown", strings.Join(bad, "; "))
	}
}

// resolveLocal follows one local definition of an identifier.
func resolveLocal(info *types.Info, fd *ast.FuncDecl, e ast.Expr) ast.Expr {
	chain, inner := convChain(info, e)
	_ = chain
	id, ok := ast.Unparen(inner).(*ast.Ident)
	if !ok {
		return e
	}
	obj := info.Uses[id]
	out := e
	ast.Inspect(fd.Body, func(n ast.Node) bool {
		if as, ok := n.(*ast.AssignStmt); ok && len(as.Lhs) == len(as.Rhs) {
			for i, l := range as.Lhs {
				if li, ok := l.(*ast.Ident); ok && info.Defs[li] == obj && obj != nil {
					out = as.Rhs[i]
				}
			}
		}
		return true
	})
	return out
}

func checkSizer(c *core.Ctx) {
	bp := c.Pkg("internal/wasm/binary")
	if bp == nil {
		c.Undecided("R14.3", "sizer", 0, "internal/wasm/binary not loaded")
		return
	}
	info := bp.TypesInfo
	// the sizer constructor: a function with a bool parameter returning a func(uint32, *uint32) (min, capacity, max uint32)
	found := false
	core.AllFuncDecls(bp, func(fd *ast.FuncDecl) {
		var flag types.Object
		for _, f := range fd.Type.Params.List {
			for _, n := range f.Names {
				if basicKind(info.Defs[n].Type()) == types.Bool {
					flag = info.Defs[n]
				}
			}
		}
		if flag == nil {
			return
		}
		ast.Inspect(fd.Body, func(n ast.Node) bool {
			lit, ok := n.(*ast.FuncLit)
			if !ok || lit.Type.Results == nil || lit.Type.Results.NumFields() != 3 || lit.Type.Params.NumFields() != 2 {
				return true
			}
			found = true
			var resNames []types.Object
			for _, f := range lit.Type.Results.List {
				for _, nm := range f.Names {
					resNames = append(resNames, info.Defs[nm])
				}
			}
			ni := &core.NonInterf{Info: info, Flag: flag, ResultNames: resNames}
			ni.Run(lit.Body)
			if len(ni.Unsupported) > 0 {
				c.Undecided("R14.3", "sizer non-interference in "+fd.Name.Name, lit.Pos(), "constructs not followed: "+strings.Join(ni.Unsupported, "; "))
				return false
			}
			conf := ni.Conflicts([]int{0, 2}, []string{"min", "max"})
			// the capacity must be one of the two (validated) limits: anything else makes acceptance depend on the flag
			conf = append(conf, ni.NotAmong(1, []int{0, 2}, []string{"capacity", "the returned min", "the returned max (so Memory.Validate can reject the module only with the flag set)"})...)
			c.Count("sizer_paths", ni.PathCount())
			c.Check(len(conf) == 0, "R14.3", "sizer non-interference in "+fd.Name.Name, lit.Pos(),
				fmt.Sprintf("%d syntactic paths; min and max are the same expression with and without the capacity flag", ni.PathCount()),
				"the capacity-from-max flag changes a limit: "+strings.Join(conf, "; "))
			return false
		})
	})
	if !found {
		// the sizer as a method whose receiver carries the flag (a method value instead of a closure)
		core.AllFuncDecls(bp, func(fd *ast.FuncDecl) {
			if fd.Recv == nil || fd.Type.Results == nil || fd.Type.Results.NumFields() != 3 || fd.Type.Params.NumFields() != 2 || found {
				return
			}
			rt := info.TypeOf(fd.Recv.List[0].Type)
			st, _ := derefStructT(rt).Underlying().(*types.Struct)
			if st == nil {
				return
			}
			var flag types.Object
			nb := 0
			for i := 0; i < st.NumFields(); i++ {
				if basicKind(st.Field(i).Type()) == types.Bool {
					flag = st.Field(i)
					nb++
				}
			}
			if nb != 1 {
				return
			}
			found = true
			var resNames []types.Object
			for _, f := range fd.Type.Results.List {
				for _, nm := range f.Names {
					resNames = append(resNames, info.Defs[nm])
				}
			}
			ni := &core.NonInterf{Info: info, Flag: flag, ResultNames: resNames}
			ni.Run(fd.Body)
			if len(ni.Unsupported) > 0 {
				c.Undecided("R14.3", "sizer non-interference in "+fd.Name.Name, fd.Pos(), "constructs not followed: "+strings.Join(ni.Unsupported, "; "))
				return
			}
			conf := ni.Conflicts([]int{0, 2}, []string{"min", "max"})
			conf = append(conf, ni.NotAmong(1, []int{0, 2}, []string{"capacity", "the returned min", "the returned max (so Memory.Validate can reject the module only with the flag set)"})...)
			c.Count("sizer_paths", ni.PathCount())
			c.Check(len(conf) == 0, "R14.3", "sizer non-interference in newMemorySizer", fd.Pos(),
				fmt.Sprintf("%d syntactic paths; min and max are the same expression with and without the capacity flag", ni.PathCount()),
				"the capacity-from-max flag changes a limit: "+strings.Join(conf, "; "))
		})
	}
	if !found {
		c.Undecided("R14.3", "sizer", 0, "no sizer closure (bool flag → func(min, *max) (min, cap, max)) found")
	}
	// decodeMemory validates: the function calling the sizer returns mem.Validate(limit)
	wp := c.Pkg("internal/wasm")
	var validate *types.Func
	if mem, _ := wp.Types.Scope().Lookup("Memory").Type().(*types.Named); mem != nil {
		validate = core.ImplMethod(wp.Types, mem, "Validate")
	}
	ok := false
	var pos token.Pos
	core.AllFuncDecls(bp, func(fd *ast.FuncDecl) {
		calls := false
		ast.Inspect(fd.Body, func(n ast.Node) bool {
			if call, isC := n.(*ast.CallExpr); isC {
				if id, isID := call.Fun.(*ast.Ident); isID {
					if v, isV := info.Uses[id].(*types.Var); isV {
						if sig, isS := v.Type().Underlying().(*types.Signature); isS && sig.Results().Len() == 3 && sig.Params().Len() == 2 {
							calls = true
						}
					}
				}
			}
			return true
		})
		if !calls {
			return
		}
		pos = fd.Pos()
		ast.Inspect(fd.Body, func(n ast.Node) bool {
			if rs, isR := n.(*ast.ReturnStmt); isR {
				for _, r := range rs.Results {
					if call, isC := r.(*ast.CallExpr); isC && validate != nil && core.Callee(info, call) == validate {
						ok = true
					}
				}
			}
			return true
		})
	})
	c.Check(ok, "R14.3", "decoded memory validated against the limit", pos, "the function applying the sizer returns Memory.Validate(limit)", "the decoded memory limits are not validated against the configured limit")
}

func checkReload(c *core.Ctx) {
	fp := c.Pkg("internal/engine/wazevo/frontend")
	if fp == nil {
		return
	}
	info := fp.TypesInfo
	// reload function: the function that calls both getMemoryBaseValue(true) and getMemoryLenValue(true): anchor by its callees
	// taking the constant true ("force reload")
	var reload *types.Func
	core.AllFuncDecls(fp, func(fd *ast.FuncDecl) {
		n := 0
		for _, s := range fd.Body.List {
			as, ok := s.(*ast.AssignStmt)
			if !ok || len(as.Rhs) != 1 {
				continue
			}
			call, ok := as.Rhs[0].(*ast.CallExpr)
			if !ok || len(call.Args) != 1 {
				continue
			}
			if id, ok := call.Args[0].(*ast.Ident); ok && id.Name == "true" {
				if g := core.Callee(info, call); g != nil && strings.Contains(g.Name(), "Memory") {
					n++
				}
			}
		}
		if n >= 2 {
			reload, _ = info.Defs[fd.Name].(*types.Func)
		}
	})
	if reload == nil {
		c.Undecided("R14.5", "reload function", 0, "no function re-reading memory base and length found")
		return
	}
	// callers of reload with a guard: evaluate over all assignments of the boolean fields of the compiler
	compNamed, _ := fp.Types.Scope().Lookup("Compiler").Type().(*types.Named)
	if compNamed == nil {
		c.Undecided("R14.5", "Compiler", 0, "frontend.Compiler not found")
		return
	}
	st := compNamed.Underlying().(*types.Struct)
	var need, shared *types.Var
	for i := 0; i < st.NumFields(); i++ {
		switch st.Field(i).Name() {
		case "needMemory":
			need = st.Field(i)
		case "memoryShared":
			shared = st.Field(i)
		}
	}
	if need == nil || shared == nil {
		c.Undecided("R14.5", "flags", 0, "Compiler.needMemory / memoryShared not found")
		return
	}
	wasmP := c.Pkg("internal/wasm")
	opGrow := constObj(wasmP, "OpcodeMemoryGrow")
	var afterCall *types.Func
	core.AllFuncDecls(fp, func(fd *ast.FuncDecl) {
		if info.Defs[fd.Name] == reload {
			return
		}
		if core.CallsAny(info, fd.Body, map[*types.Func]bool{reload: true}) == nil {
			return
		}
		if len(core.FindCaseClausesIn(fp, fd, opGrow)) > 0 {
			return // the opcode dispatcher calls the reload unconditionally in its memory.grow arm (checked below)
		}
		// boolean atoms: bool fields of Compiler and bool-typed selectors used in conditions of this function
		atoms := map[types.Object]uint{need: 0, shared: 1}
		ast.Inspect(fd.Body, func(n ast.Node) bool {
			if is, ok := n.(*ast.IfStmt); ok {
				ast.Inspect(is.Cond, func(m ast.Node) bool {
					if se, ok := m.(*ast.SelectorExpr); ok {
						if f := core.FieldOf(info, se); f != nil && basicKind(f.Type()) == types.Bool {
							if _, seen := atoms[f]; !seen {
								atoms[f] = uint(len(atoms))
							}
						}
					}
					return true
				})
			}
			return true
		})
		if len(atoms) > 12 {
			c.Undecided("R14.5", "reload guard in "+fd.Name.Name, fd.Pos(), "too many boolean atoms")
			return
		}
		ev := &core.FlagEval{Info: info, Atoms: atoms, Delegate: func(call *ast.CallExpr) (ast.Expr, bool) {
			if core.Callee(info, call) == reload {
				return nil, true
			}
			return nil, false
		}}
		var missing []string
		for v := uint64(0); v < 1<<uint(len(atoms)); v++ {
			if v&1 == 1 && v&2 == 0 { // needMemory ∧ ¬memoryShared
				ev.Reached = map[uint64]bool{}
				ev.Run(fd.Body, v)
				if !ev.Reached[v] {
					var set []string
					for o, bit := range atoms {
						if v>>bit&1 == 1 {
							set = append(set, o.Name())
						}
					}
					sort.Strings(set)
					missing = append(missing, "{"+strings.Join(set, ",")+"}")
				}
			}
		}
		if len(ev.Unsupport) > 0 {
			c.Undecided("R14.5", "reload guard in "+fd.Name.Name, fd.Pos(), strings.Join(ev.Unsupport, "; "))
			return
		}
		afterCall, _ = info.Defs[fd.Name].(*types.Func)
		sort.Strings(missing)
		c.Check(len(missing) == 0, "R14.5", "reload guard in "+fd.Name.Name, fd.Pos(),
			fmt.Sprintf("for all %d assignments of %d flags with needMemory ∧ ¬memoryShared the base and length are re-read", 1<<uint(len(atoms)-2), len(atoms)),
			"memory base/length are not re-read after a call although the module has a non-shared memory when the true flags are "+strings.Join(missing, " or ")+": after a callee grows the memory the caller keeps the old length/base")
	})
	if afterCall == nil {
		return
	}
	// every lowering reached from a call opcode's arm that emits a call instruction re-reads afterwards
	callArms := map[*types.Func]bool{}
	for _, nm := range []string{"OpcodeCall", "OpcodeCallIndirect", "OpcodeTailCallReturnCall", "OpcodeTailCallReturnCallIndirect"} {
		ref := mainClause(core.FindCaseClauses(fp, constObj(wasmP, nm)))
		if ref == nil {
			c.Undecided("R14.5", "arm "+nm, 0, "lowering arm not found")
			continue
		}
		direct := false
		ast.Inspect(ref.Clause, func(n ast.Node) bool {
			if call, ok := n.(*ast.CallExpr); ok {
				if g := core.Callee(info, call); g != nil {
					if g.Pkg() == fp.Types {
						callArms[g] = true
					}
					if g.Pkg() != nil && strings.HasSuffix(g.Pkg().Path(), "/wazevo/ssa") && (g.Name() == "AsCall" || g.Name() == "AsCallIndirect") {
						direct = true
					}
				}
			}
			return true
		})
		if direct {
			c.Check(core.CallsAny(info, ref.Clause, map[*types.Func]bool{afterCall: true}) != nil, "R14.5", "reload after emitted call in arm "+nm, ref.Clause.Pos(),
				"the arm re-reads memory base/len afterwards", "a wasm-level call is emitted in the arm without the reload of memory base/length afterwards")
		}
	}
	core.AllFuncDecls(fp, func(fd *ast.FuncDecl) {
		f, _ := info.Defs[fd.Name].(*types.Func)
		if !callArms[f] {
			return
		}
		emits := false
		var pos token.Pos
		ast.Inspect(fd.Body, func(n ast.Node) bool {
			if call, ok := n.(*ast.CallExpr); ok {
				if g := core.Callee(info, call); g != nil && g.Pkg() != nil && strings.HasSuffix(g.Pkg().Path(), "/wazevo/ssa") {
					switch g.Name() {
					case "AsCall", "AsCallIndirect", "AsTailCallReturnCall", "AsTailCallReturnCallIndirect":
						emits = true
						pos = call.Pos()
					}
				}
			}
			return true
		})
		if !emits {
			return
		}
		reaches := core.CallsAny(info, fd.Body, map[*types.Func]bool{afterCall: true}) != nil
		c.Check(reaches, "R14.5", "reload after emitted call in "+fd.Name.Name, pos, "the call lowering re-reads memory base/len and mutable globals afterwards", "a wasm-level call is emitted without the reload of memory base/length afterwards: after the callee grows the memory the caller keeps the old length/base")
	})
	// memory.grow arm re-reads unconditionally
	if ref := mainClause(core.FindCaseClauses(fp, opGrow)); ref != nil {
		top := false
		var topLevel func(list []ast.Stmt, depth int)
		topLevel = func(list []ast.Stmt, depth int) {
			for _, st := range list {
				if es, ok := st.(*ast.ExprStmt); ok {
					if call, ok := es.X.(*ast.CallExpr); ok {
						f := core.Callee(info, call)
						if f == reload || f == afterCall {
							top = true
						} else if f != nil && f.Pkg() == fp.Types && depth < 1 {
							// the arm hands the lowering to a method: its unconditional statements count
							if hd := declOf(fp, f); hd != nil {
								topLevel(hd.Body.List, depth+1)
							}
						}
					}
				}
			}
		}
		topLevel(ref.Clause.Body, 0)
		c.Check(top, "R14.5", "reload after memory.grow", ref.Clause.Pos(), "the memory.grow arm re-reads base and length unconditionally", "memory.grow is lowered without re-reading the memory base and length afterwards")
	} else {
		c.Undecided("R14.5", "memory.grow arm", 0, "lowering arm not found")
	}
}

// ---- R14.6 an accessor reports success only after the size check ----

func checkSuccessAfterSizeCheck(c *core.Ctx) {
	wp := c.Pkg("internal/wasm")
	info := wp.TypesInfo
	// the size-check method: the MemoryInstance method called as `!m.X(off, n)` in the guards of most accessors
	count := map[*types.Func]int{}
	core.AllFuncDecls(wp, func(fd *ast.FuncDecl) {
		if core.RecvName(fd) != "MemoryInstance" {
			return
		}
		for _, s := range fd.Body.List {
			if is, ok := s.(*ast.IfStmt); ok {
				if ue, ok := ast.Unparen(is.Cond).(*ast.UnaryExpr); ok && ue.Op == token.NOT {
					if call, ok := ast.Unparen(ue.X).(*ast.CallExpr); ok && len(call.Args) == 2 {
						if f := core.Callee(info, call); f != nil && core.RecvNameOf(f) == "MemoryInstance" {
							count[f]++
						}
					}
				}
			}
		}
	})
	var sizeCheck *types.Func
	for f, n := range count {
		if n >= 5 && (sizeCheck == nil || n > count[sizeCheck]) {
			sizeCheck = f
		}
	}
	if sizeCheck == nil {
		c.Undecided("R14.6", "size-check method", 0, "no MemoryInstance method used as the guard of at least five accessors")
		return
	}
	n := 0
	core.AllFuncDecls(wp, func(fd *ast.FuncDecl) {
		if core.RecvName(fd) != "MemoryInstance" || info.Defs[fd.Name] == types.Object(sizeCheck) {
			return
		}
		g := -1
		for i, s := range fd.Body.List {
			if is, ok := s.(*ast.IfStmt); ok {
				if ue, ok := ast.Unparen(is.Cond).(*ast.UnaryExpr); ok && ue.Op == token.NOT {
					if call, ok := ast.Unparen(ue.X).(*ast.CallExpr); ok && core.Callee(info, call) == sizeCheck {
						g = i
						break
					}
				}
			}
		}
		if g < 0 {
			return
		}
		n++
		var bad []string
		for _, s := range fd.Body.List[:g] {
			ast.Inspect(s, func(x ast.Node) bool {
				if _, isLit := x.(*ast.FuncLit); isLit {
					return false
				}
				if r, ok := x.(*ast.ReturnStmt); ok {
					for _, e := range r.Results {
						if id, ok := ast.Unparen(e).(*ast.Ident); ok && id.Name == "true" {
							bad = append(bad, "return "+core.ExprStr(e)+" at "+c.Pos(r.Pos()))
						}
					}
				}
				return true
			})
		}
		c.Check(len(bad) == 0, "R14.6", "accessor "+fd.Name.Name+" reports success only after the size check", fd.Pos(), "no `return true` before the guard",
			strings.Join(bad, "; ")+" precedes the size check: the accessor reports success for an offset beyond the memory size (e.g. a zero-length write at an out-of-range offset), unlike its siblings and the documented contract")
	})
	if n < 8 {
		c.Undecided("R14.6", "guarded accessors", 0, fmt.Sprintf("only %d accessors with a size-check guard found", n))
	}
}
