package props

import (
	"fmt"
	"go/ast"
	"go/token"
	"go/types"
	"sort"
	"strings"

	"golang.org/x/tools/go/packages"

	"verif/checker/core"
)

// C03 Compilation is total and sound on arbitrary input bytes (structural clauses).

func init() {
	core.Register(&core.Property{
		ID:    "C03",
		Level: "other",
		Explanation: "Decided (necessary conditions, for every byte string): (R03.1) every opcode the validator accepts (finite-domain evaluation of its dispatch over all 256 byte values and all named second-byte opcodes of the 0xFC/0xFD/0xFE prefixes) has an arm in the interpreter's and in the compiler's lowering dispatcher, so no accepted module reaches an 'unsupported' default; " +
			"(R03.2) every acceptance of global.get inside a constant expression consults the referenced global's mutability, value type and import range; (R03.3) every allocation of the binary decoder whose size comes from the input is capped by the bytes left to read (boundedSize) or is a constant; " +
			"(R03.5) both lowering passes advance the program counter only by constants and by sizes returned by the LEB128/immediate decoders (never by decoded values); (R03.6) every function body is validated (no path through the validation loop skips the validator); " +
			"(R03.7) the end-of-if-without-else check compares the block's parameter and result types, not only their count; (R03.8) decoder reads cannot be empty reads at the end of the input (bytes.Reader.Read returns EOF even for an empty buffer: a genuine defect – a trailing custom section with an empty payload was rejected – was found and fixed); (R03.9) the type indexes of all functions are range-checked before the first body is validated (genuine defect found and fixed: `call N` to a function with an out-of-range type index panicked); " +
			"(R03.10) every arm of the compiler frontend consumes its immediates before the `unreachable` early exit, so dead code is skipped byte-exactly; (R03.11) the interpreter's branch drop ranges are computed in 64-bit slot units, never in value counts (they differ for v128). NOT decided: termination bounds of the decoder for all inputs, full type soundness of the validator.",
		Rules: []core.Rule{
			{ID: "R03.1", Template: "T-EXHAUST", Text: "validator-accepted opcodes ⊆ interpreter lowering arms and ⊆ compiler lowering arms, per opcode class", Min: 8},
			{ID: "R03.2", Template: "T-CONSULT", Text: "constant-expression global.get acceptance consults Mutable, ValType and the imported range", Min: 3},
			{ID: "R03.3", Template: "T-TAINT", Text: "decoder allocations are sized by constants or capped by the remaining input", Min: 15},
			{ID: "R03.5", Template: "T-TAINT", Text: "pc advances only by constants and decoder-returned sizes", Min: 2},
			{ID: "R03.6", Template: "T-MUSTPASS", Text: "every function body reaches the validator", Min: 1},
			{ID: "R03.7", Template: "T-CONSULT", Text: "if-without-else: parameter and result types are compared", Min: 1},
			{ID: "R03.9", Template: "T-MUSTPASS", Text: "all function type indexes are range-checked before any body is validated (genuine defect found and fixed)", Min: 1},
			{ID: "R03.10", Template: "T-MUSTPASS", Text: "compiler frontend arms consume their immediates before the unreachable early exit", Min: 50},
			{ID: "R03.11", Template: "T-WIDTH", Text: "interpreter drop ranges are computed in slot units, not value counts", Min: 1},
			{ID: "R03.12", Template: "T-CONSULT", Text: "instantiation-time loops over element segments look up the table of active segments only (genuine defect found and fixed)", Min: 2},
			{ID: "R03.13", Template: "T-SIBLING", Text: "every dispatch on the sub-opcode of a prefixed instruction (0xFC, 0xFD, 0xFE) decodes it as LEB128 (0xFC: genuine defect found and fixed; 0xFD/0xFE: known findings, the single-byte form is pinned by unit tests)", Min: 12},
			{ID: "R03.14", Template: "T-CONSULT", Text: "the DWARF reader nil-tests what debug/dwarf hands out and bounds runs of null entries (genuine defects found and fixed)", Min: 3},
			{ID: "R03.15", Template: "T-CONSULT", Text: "the validator compares a tail call's callee results with the function's results (genuine defect found and fixed)", Min: 2},
			{ID: "R03.16", Template: "T-TAINT", Text: "no string concatenation in loops over input-sized data on the decode path (genuine defect found and fixed: FunctionType.key)", Min: 1},
			{ID: "R03.17", Template: "T-OWN", Text: "a scratch buffer (reset-and-refilled slice field) is used only by the methods of its struct", Min: 1},
			{ID: "R03.21", Template: "T-MUSTPASS", Text: "the indexes of every element segment are range-checked, whatever its mode", Min: 1},
			{ID: "R03.20", Template: "T-TAINT", Text: "an index taken from a decoded name map is bounded before it indexes a slice", Min: 1},
			{ID: "R03.18", Template: "T-SIBLING", Text: "a reserved zero immediate accepted by the validator is one byte long (both engines skip exactly one byte)", Min: 3},
			{ID: "R03.19", Template: "T-SIBLING", Text: "the interpreter lowering skips count+1 labels of a br_table in dead code", Min: 1},
			{ID: "R03.8", Template: "T-CONSULT", Text: "decoder reads cannot be empty reads at the end of the input (genuine defect found and fixed: trailing custom section with an empty payload)", Min: 2},
		},
		Run: runC03,
		Controls: []core.Control{
			{Name: "declarative-segments-not-range-checked", File: "internal/wasm/table.go", Old: "\t\tinitCount := uint32(len(elem.Init))\n", New: "\t\tinitCount := uint32(len(elem.Init))\n\t\tif elem.Mode == ElementModeDeclarative {\n\t\t\tcontinue\n\t\t}\n", Rule: "R03.21", Substr: "whatever its mode"},
			{Name: "param-names-index-unchecked", File: "internal/wasm/module.go", Old: "\t\t\tif int(p.Index) < paramLen {\n\t\t\t\tret[p.Index] = p.Name\n\t\t\t}\n", New: "\t\t\tret[p.Index] = p.Name\n", Rule: "R03.20", Substr: "name map"},
			{Name: "reserved-index-any-leb", File: "internal/wasm/func_validation.go", Old: "\t\t\tif val != 0 || num != 1 {\n\t\t\t\treturn fmt.Errorf(\"memory instruction reserved bytes not zero with 1 byte\")", New: "\t\t\tif val != 0 {\n\t\t\t\treturn fmt.Errorf(\"memory instruction reserved bytes not zero with 1 byte\")", Rule: "R03.18", Substr: "reserved zero immediate"},
			{Name: "dead-br-table-skips-count-labels", File: "internal/engine/interpreter/compiler.go", Old: "for i := uint32(0); i <= numTargets; i++ {", New: "for i := uint32(0); i < numTargets; i++ {", Rule: "R03.19", Substr: "br_table"},
			{Name: "br-table-label-types-in-scratch-space", File: "internal/wasm/func_validation.go", Old: "\t\t\t\tdefaultLabelType = make([]ValueType, len(lnLabel.blockType.Results))\n\t\t\t\tcopy(defaultLabelType, lnLabel.blockType.Results)", New: "\t\t\t\tdefaultLabelType = append(valueTypeStack.requireStackValuesTmp[:0], lnLabel.blockType.Results...)", Rule: "R03.17", Substr: "requireStackValuesTmp"},
			{Name: "passive-elements-bounds-checked", File: "internal/wasm/table.go", Old: "\t\t\tif !elem.IsActive() {\n\t\t\t\tcontinue // only active segments are written to a table at instantiation.\n\t\t\t}\n", New: "", Rule: "R03.12", Substr: "buildTables"},
			{Name: "misc-subopcode-single-byte", File: "internal/engine/interpreter/signature.go", Old: "switch miscOp := wasm.OpcodeMisc(miscOp32); miscOp {", New: "switch miscOp := c.body[c.pc+1]; miscOp {", Rule: "R03.13", Substr: "misc (0xFC)"},
			{Name: "dwarf-line-file-unchecked", File: "internal/wasmdebug/dwarf.go", Old: "\tif le.File == nil {\n", New: "\tif le.Line < 0 {\n", Rule: "R03.14", Substr: "le.File"},
			{Name: "dwarf-null-entries-unbounded", File: "internal/wasmdebug/dwarf.go", Old: "\t\t\tif nullEntries++; nullEntries > maxConsecutiveNullEntries {\n\t\t\t\tbreak\n\t\t\t}\n", New: "\t\t\tnullEntries++\n", Rule: "R03.14", Substr: "loop"},
			{Name: "tail-call-results-unchecked", File: "internal/wasm/func_validation.go", Old: "\t\t\t\tif !bytes.Equal(funcType.Results, functionType.Results) {\n\t\t\t\t\treturn fmt.Errorf(\"type mismatch on %s operation result type\", opcodeName)\n\t\t\t\t}\n", New: "", Rule: "R03.15", Substr: "OpcodeTailCallReturnCall "},
			{Name: "type-key-by-concatenation", File: "internal/wasm/module.go", Old: "\tfor _, b := range f.Results {\n\t\tret.WriteString(ValueTypeName(b))\n\t}", New: "\tvar tail string\n\tfor _, b := range f.Results {\n\t\ttail += ValueTypeName(b)\n\t}\n\tret.WriteString(tail)", Rule: "R03.16", Substr: "key"},
			{Name: "type-index-checked-lazily", File: "internal/wasm/module.go", Old: "\t\t}\n\t}\n\tfor idx := range m.FunctionSection {\n\t\tc := &m.CodeSection[idx]", New: "\t\t}\n\t\tc := &m.CodeSection[idx]", Rule: "R03.9", Substr: "type indexes"},
			{Name: "lane-immediate-after-unreachable-exit", File: "internal/engine/wazevo/frontend/lower.go", Old: "\t\t\t_, offset := c.readMemArg()\n\t\t\tstate.pc++\n\t\t\tif state.unreachable {\n\t\t\t\tbreak\n\t\t\t}\n\t\t\tlaneIndex := c.wasmFunctionBody[state.pc]\n\t\t\tvar storeOp ssa.Opcode", New: "\t\t\t_, offset := c.readMemArg()\n\t\t\tif state.unreachable {\n\t\t\t\tbreak\n\t\t\t}\n\t\t\tstate.pc++\n\t\t\tlaneIndex := c.wasmFunctionBody[state.pc]\n\t\t\tvar storeOp ssa.Opcode", Rule: "R03.10", Substr: "Store8Lane"},
			{Name: "drop-range-counts-values", File: "internal/engine/interpreter/compiler.go", Old: "\t\tstart = frame.blockType.ParamNumInUint64\n", New: "\t\tstart = len(frame.blockType.Params)\n", Rule: "R03.11", Substr: "getFrameDropRange"},
			{Name: "custom-section-unguarded-read", File: "internal/wasm/binary/custom.go", Old: "\tif len(buf) > 0 { // bytes.Reader.Read returns io.EOF at the end of the input even for an empty buffer.\n\t\t_, err = r.Read(buf)\n\t}\n", New: "\t_, err = r.Read(buf)\n", Rule: "R03.8", Substr: "decodeCustomSection"},
			{Name: "wazevo-arm-removed", File: "internal/engine/wazevo/frontend/lower.go", Old: "\tcase wasm.OpcodeNop:", New: "\tcase 0x06: // was nop", Rule: "R03.1", Substr: "wazevo"},
			{Name: "interp-vec-arm-removed", File: "internal/engine/interpreter/compiler.go", Old: "\t\tcase wasm.OpcodeVecV128Not:", New: "\t\tcase 0x9a: // disabled", Rule: "R03.1", Substr: "interpreter"},
			{Name: "mutable-global-accepted", File: "internal/wasm/module.go", Old: "\t\tif globals[id].Mutable {\n\t\t\treturn fmt.Errorf(\"global.get in a constant expression must refer to an immutable global\")\n\t\t}\n", New: "", Rule: "R03.2", Substr: "validateConstExpression"},
			{Name: "element-global-type-unchecked", File: "internal/wasm/table.go", Old: "\t\t\t\tif imp.DescGlobal.ValType != refType {\n\t\t\t\t\treturn fmt.Errorf(\"%s[%d].init[%d] (global.get %d): import[%d].global.ValType != %s\",\n\t\t\t\t\t\tSectionIDName(SectionIDElement), sectionIdx, initIdx, idx, i, RefTypeName(refType))\n\t\t\t\t}\n", New: "\t\t\t\t_ = refType\n", Rule: "R03.2", Substr: "verifyImportGlobalRef"},
			{Name: "decoder-unbounded-make", File: "internal/wasm/binary/section.go", Old: "result := make([]wasm.FunctionType, 0, boundedSize(r, uint64(vs)))", New: "result := make([]wasm.FunctionType, 0, vs)", Rule: "R03.3", Substr: "decodeTypeSection"},
			{Name: "brtable-skips-by-count", File: "internal/engine/interpreter/compiler.go", Old: "\t\t\tfor i := uint32(0); i <= numTargets; i++ { // inclusive as we also need to read the index of default target.\n\t\t\t\t_, n, err := leb128.DecodeUint32(r)\n\t\t\t\tif err != nil {\n\t\t\t\t\treturn fmt.Errorf(\"error reading target %d in br_table: %w\", i, err)\n\t\t\t\t}\n\t\t\t\tc.pc += n\n\t\t\t}", New: "\t\t\tc.pc += uint64(numTargets) + 1", Rule: "R03.5", Substr: "interpreter"},
			{Name: "validation-skipped-for-duplicates", File: "internal/wasm/module.go", Old: "\tfor idx := range m.FunctionSection {\n", New: "\tseenBodies := map[string]bool{}\n\tfor idx := range m.FunctionSection {\n\t\tif k := string(m.CodeSection[idx].Body); seenBodies[k] {\n\t\t\tcontinue\n\t\t} else {\n\t\t\tseenBodies[k] = true\n\t\t}\n", Rule: "R03.6", Substr: "validat"},
		},
		Configs: []core.BuildCfg{{GOOS: "linux", GOARCH: "arm64"}},
	})
}

func runC03(c *core.Ctx) {
	checkElementIndexesCheckedForEveryMode(c)
	checkNameIndexesBounded(c)
	checkReservedImmediatesOneByte(c)
	checkBrTableSkipsDefault(c)
	checkOpcodeCoverage(c, "R03.1")
	checkConstExprConsult(c)
	checkDecoderAllocs(c)
	checkPcAdvance(c)
	checkEveryFunctionValidated(c)
	checkIfWithoutElse(c)
	checkEmptyReads(c)
	checkTypeIndexPrePass(c)
	checkImmediatesBeforeUnreachable(c)
	checkDropRangeUnits(c)
	checkBaseline3C03(c)
}

// ---- R03.1 / R01.1
func checkOpcodeCoverage(c *core.Ctx, rule string) {
	accepted, problems := validatorAccepted(c)
	if len(problems) > 0 {
		c.Undecided(rule, "validator dispatch", 0, strings.Join(problems, "; "))
		return
	}
	total := 0
	for _, s := range accepted {
		total += len(s)
	}
	if total < 400 {
		c.Undecided(rule, "validator dispatch", 0, fmt.Sprintf("only %d accepted opcodes extracted", total))
		return
	}
	c.Count("validator_accepted_opcodes", total)
	for _, e := range []struct{ name, rel string }{{"interpreter", "internal/engine/interpreter"}, {"wazevo", "internal/engine/wazevo/frontend"}} {
		p := c.Pkg(e.rel)
		if p == nil {
			continue
		}
		ds := dispatchersOf(p)
		if len(ds) == 0 {
			c.Undecided(rule, e.name+" dispatcher", 0, "no function with a large switch over wasm opcodes found")
			continue
		}
		for di, d := range ds {
			handled := caseLabelSets(p.TypesInfo, d.Body)
			label := e.name
			if di > 0 {
				label = e.name + " " + d.Name.Name
			}
			for _, cl := range []string{"main", "misc", "vec", "atomic"} {
				if len(handled[cl]) == 0 && di > 0 {
					continue // a secondary table that does not deal with this class at all
				}
				missing := setDiff(accepted[cl], handled[cl])
				c.Check(len(missing) == 0, rule, fmt.Sprintf("%s handles every accepted %s opcode", label, cl), d.Pos(),
					fmt.Sprintf("%d accepted, %d arms in %s", len(accepted[cl]), len(handled[cl]), core.FuncName(p, d)),
					fmt.Sprintf("the validator accepts %s but %s has no arm for them: a valid module fails to compile (or panics) on this engine only", strings.Join(missing, ", "), core.FuncName(p, d)))
			}
		}
	}
}

// ---- R03.2
func checkConstExprConsult(c *core.Ctx) {
	wp := c.Pkg("internal/wasm")
	info := wp.TypesInfo
	gtNamed := namedIn(c, "internal/wasm", "GlobalType")
	if gtNamed == nil {
		c.Undecided("R03.2", "GlobalType", 0, "wasm.GlobalType not found")
		return
	}
	// sites: functions of internal/wasm reachable from validation that mention OpcodeGlobalGet or unwrap an element-init
	// global reference, and read GlobalType fields
	globalGet := wp.Types.Scope().Lookup("OpcodeGlobalGet")
	fieldsRead := func(n ast.Node) map[string]bool {
		out := map[string]bool{}
		ast.Inspect(n, func(x ast.Node) bool {
			if se, ok := x.(*ast.SelectorExpr); ok {
				if f := core.FieldOf(info, se); f != nil {
					if ow := core.NamedOf(info.Types[se.X].Type); ow == gtNamed {
						out[f.Name()] = true
					}
				}
			}
			return true
		})
		return out
	}
	type site struct {
		fd   *ast.FuncDecl
		node ast.Node
		what string
	}
	var sites []site
	core.AllFuncDecls(wp, func(fd *ast.FuncDecl) {
		name := fd.Name.Name
		// (1) the const-expression validator: the case clause labelled OpcodeGlobalGet in a function whose name is not an executor
		for _, r := range core.FindCaseClausesIn(wp, fd, globalGet) {
			takesConstExpr := false
			for _, f := range fd.Type.Params.List {
				if tv, ok := info.Types[f.Type]; ok && core.NamedOf(tv.Type) != nil && core.NamedOf(tv.Type).Obj().Name() == "ConstantExpression" {
					takesConstExpr = true
				}
			}
			if strings.HasPrefix(strings.ToLower(name), "validate") && takesConstExpr {
				sites = append(sites, site{fd, r.Clause, "global.get arm of " + name})
			}
		}
		// (2) verifyImportGlobal*: functions that walk the import section looking for the idx-th global
		if strings.HasPrefix(name, "verifyImportGlobal") {
			sites = append(sites, site{fd, fd.Body, name})
		}
	})
	if len(sites) < 3 {
		c.Undecided("R03.2", "acceptance sites", 0, fmt.Sprintf("only %d constant-expression acceptance sites found (expected the const-expression validator and the two import-global verifiers)", len(sites)))
	}
	for _, s := range sites {
		// the arm, and the helpers of the package it hands the check to (one level)
		fr := map[string]bool{}
		for _, sn := range armScope(wp, s.node) {
			for k := range fieldsRead(sn) {
				fr[k] = true
			}
		}
		var miss []string
		for _, f := range []string{"Mutable", "ValType"} {
			if !fr[f] {
				miss = append(miss, f)
			}
		}
		c.Check(len(miss) == 0, "R03.2", s.what, s.node.Pos(), "reads the referenced global's Mutable and ValType",
			"accepts global.get in a constant expression without consulting GlobalType."+strings.Join(miss, "/")+": a mutable or ill-typed global is captured (an i64 global used as a function reference makes call_indirect jump to a guest-chosen address)")
	}
	// the element-init verifier is actually called for every element init that wraps a global index
	used := false
	core.AllFuncDecls(wp, func(fd *ast.FuncDecl) {
		if !strings.HasPrefix(fd.Name.Name, "validateTable") {
			return
		}
		ast.Inspect(fd.Body, func(n ast.Node) bool {
			if call, ok := n.(*ast.CallExpr); ok {
				if f := core.Callee(info, call); f != nil && strings.HasPrefix(f.Name(), "verifyImportGlobalRef") {
					used = true
				}
			}
			return true
		})
	})
	c.Check(used, "R03.2", "element initialisers verified in validateTable", 0, "every element initialiser that reads a global goes through the import-global verifier", "element initialisers that read a global are not verified (type, mutability, import range)")
}

// ---- R03.3
func checkDecoderAllocs(c *core.Ctx) {
	for _, rel := range []string{"internal/wasm/binary"} {
		p := c.Pkg(rel)
		if p == nil {
			continue
		}
		info := p.TypesInfo
		n := 0
		core.AllFuncDecls(p, func(fd *ast.FuncDecl) {
			var bad []string
			sites := 0
			ast.Inspect(fd.Body, func(x ast.Node) bool {
				call, ok := x.(*ast.CallExpr)
				if !ok || !core.IsBuiltin(info, call, "make") {
					return true
				}
				for _, a := range call.Args[1:] {
					if _, isConst := core.ConstVal(info, a); isConst {
						continue
					}
					sites++
					// accepted: boundedSize(r, …); len(x); arithmetic over values already consumed from the reader
					okArg := false
					ast.Inspect(a, func(y ast.Node) bool {
						if cc, ok := y.(*ast.CallExpr); ok {
							if f := core.Callee(info, cc); f != nil && f.Name() == "boundedSize" {
								okArg = true
							}
							if core.IsBuiltin(info, cc, "len") {
								okArg = true
							}
						}
						return true
					})
					if be, ok := ast.Unparen(a).(*ast.BinaryExpr); ok && be.Op == token.SUB {
						// difference of reader positions (bytes already read)
						okArg = true
					}
					if !okArg {
						bad = append(bad, fmt.Sprintf("make sized by `%s` at %s", core.ExprStr(a), c.Pos(a.Pos())))
					}
				}
				return true
			})
			if sites > 0 {
				n += sites
				c.Check(len(bad) == 0, "R03.3", "allocations in "+core.FuncName(p, fd), fd.Pos(), fmt.Sprintf("%d input-sized allocation(s), all capped by the remaining input", sites),
					strings.Join(bad, "; ")+": a count decoded from the input sizes the allocation before any element is read – a few bytes make the process allocate gigabytes")
			}
		})
		c.Count("decoder_alloc_sites", n)
	}
}

// ---- R03.5
func checkPcAdvance(c *core.Ctx) {
	for _, e := range []struct{ name, rel string }{{"interpreter", "internal/engine/interpreter"}} {
		p := c.Pkg(e.rel)
		if p == nil {
			continue
		}
		info := p.TypesInfo
		d := dispatcherOf(p)
		if d == nil {
			c.Undecided("R03.5", e.name, 0, "dispatcher not found")
			continue
		}
		// sizes: identifiers defined as the 2nd result of leb128.Load*/Decode* or of DecodeBlockType, or as a named constant
		sizeObjs := map[types.Object]bool{}
		valueObjs := map[types.Object]bool{}
		ast.Inspect(d.Body, func(n ast.Node) bool {
			as, ok := n.(*ast.AssignStmt)
			if !ok || len(as.Rhs) != 1 || len(as.Lhs) < 2 {
				return true
			}
			call, ok := as.Rhs[0].(*ast.CallExpr)
			if !ok {
				return true
			}
			f := core.Callee(info, call)
			if f == nil {
				return true
			}
			isDecoder := strings.HasSuffix(f.Pkg().Path(), "/leb128") || f.Name() == "DecodeBlockType" || strings.HasPrefix(f.Name(), "read") || strings.HasPrefix(f.Name(), "Load")
			if !isDecoder {
				return true
			}
			for i, l := range as.Lhs {
				id, ok := l.(*ast.Ident)
				if !ok || id.Name == "_" {
					continue
				}
				obj := info.Defs[id]
				if obj == nil {
					obj = info.Uses[id]
				}
				if i == 1 {
					sizeObjs[obj] = true
				} else if i == 0 {
					valueObjs[obj] = true
				}
			}
			return true
		})
		var bad []string
		n := 0
		ast.Inspect(d.Body, func(x ast.Node) bool {
			as, ok := x.(*ast.AssignStmt)
			if !ok || len(as.Lhs) != 1 || (as.Tok != token.ADD_ASSIGN && as.Tok != token.ASSIGN) {
				return true
			}
			f := core.FieldOf(info, as.Lhs[0])
			if f == nil || f.Name() != "pc" {
				return true
			}
			n++
			// every identifier in the increment must be a size or a constant; decoded values are forbidden
			ast.Inspect(as.Rhs[0], func(y ast.Node) bool {
				id, ok := y.(*ast.Ident)
				if !ok {
					return true
				}
				obj := info.Uses[id]
				if valueObjs[obj] && !sizeObjs[obj] {
					bad = append(bad, fmt.Sprintf("pc advanced by the decoded value `%s` at %s (`%s`): immediates are variable-length, so the pass resumes in the middle of one", id.Name, c.Pos(as.Pos()), core.ExprStr(as.Rhs[0])))
				}
				return true
			})
			return true
		})
		if n < 20 {
			c.Undecided("R03.5", e.name+" pc updates", d.Pos(), fmt.Sprintf("only %d pc updates found", n))
			continue
		}
		c.Check(len(bad) == 0, "R03.5", e.name+" advances pc by decoder sizes only", d.Pos(), fmt.Sprintf("%d pc updates, none by a decoded value", n), strings.Join(bad, "; "))
	}
	// wazevo: the frontend reads immediates through helper methods that advance state.pc by the decoder's size
	if p := c.Pkg("internal/engine/wazevo/frontend"); p != nil {
		info := p.TypesInfo
		var bad []string
		n := 0
		core.AllFuncDecls(p, func(fd *ast.FuncDecl) {
			valueObjs, sizeObjs := map[types.Object]bool{}, map[types.Object]bool{}
			ast.Inspect(fd.Body, func(x ast.Node) bool {
				as, ok := x.(*ast.AssignStmt)
				if !ok || len(as.Rhs) != 1 || len(as.Lhs) < 2 {
					return true
				}
				call, ok := as.Rhs[0].(*ast.CallExpr)
				if !ok {
					return true
				}
				f := core.Callee(info, call)
				if f == nil || f.Pkg() == nil || !strings.HasSuffix(f.Pkg().Path(), "/leb128") {
					return true
				}
				for i, l := range as.Lhs {
					if id, ok := l.(*ast.Ident); ok && id.Name != "_" {
						obj := info.Defs[id]
						if obj == nil {
							obj = info.Uses[id]
						}
						if i == 0 {
							valueObjs[obj] = true
						} else if i == 1 {
							sizeObjs[obj] = true
						}
					}
				}
				return true
			})
			ast.Inspect(fd.Body, func(x ast.Node) bool {
				as, ok := x.(*ast.AssignStmt)
				if !ok || len(as.Lhs) != 1 || as.Tok != token.ADD_ASSIGN {
					return true
				}
				f := core.FieldOf(info, as.Lhs[0])
				if f == nil || f.Name() != "pc" {
					return true
				}
				n++
				ast.Inspect(as.Rhs[0], func(y ast.Node) bool {
					if id, ok := y.(*ast.Ident); ok && valueObjs[info.Uses[id]] && !sizeObjs[info.Uses[id]] {
						bad = append(bad, fmt.Sprintf("pc advanced by the decoded value `%s` in %s at %s", id.Name, fd.Name.Name, c.Pos(as.Pos())))
					}
					return true
				})
				return true
			})
		})
		if n < 5 {
			c.Undecided("R03.5", "wazevo pc updates", 0, fmt.Sprintf("only %d pc updates found", n))
		} else {
			c.Check(len(bad) == 0, "R03.5", "wazevo advances pc by decoder sizes only", 0, fmt.Sprintf("%d pc updates, none by a decoded value", n), strings.Join(bad, "; "))
		}
	}
}

// ---- R03.6
func checkEveryFunctionValidated(c *core.Ctx) {
	wp := c.Pkg("internal/wasm")
	info := wp.TypesInfo
	fd, _, _ := validatorChain(wp)
	if fd == nil {
		c.Undecided("R03.6", "validator", 0, "function validator not found")
		return
	}
	validatorObj, _ := info.Defs[fd.Name].(*types.Func)
	// callers (transitively one level): function(s) that call the validator (possibly via a thin wrapper) inside a loop
	wrappers := map[*types.Func]bool{validatorObj: true}
	core.AllFuncDecls(wp, func(g *ast.FuncDecl) {
		if len(g.Body.List) <= 3 && core.CallsAny(info, g.Body, map[*types.Func]bool{validatorObj: true}) != nil {
			if f, ok := info.Defs[g.Name].(*types.Func); ok {
				wrappers[f] = true
			}
		}
	})
	found := false
	core.AllFuncDecls(wp, func(g *ast.FuncDecl) {
		ast.Inspect(g.Body, func(n ast.Node) bool {
			var body *ast.BlockStmt
			switch x := n.(type) {
			case *ast.RangeStmt:
				body = x.Body
			case *ast.ForStmt:
				body = x.Body
			default:
				return true
			}
			call := core.CallsAny(info, body, wrappers)
			if call == nil {
				return true
			}
			if f, ok := info.Defs[g.Name].(*types.Func); ok && wrappers[f] {
				return true
			}
			found = true
			// the statement holding the call must be a top-level statement of the loop body, and no `continue` may precede it
			idx := -1
			for i, s := range body.List {
				if s.Pos() <= call.Pos() && call.End() <= s.End() {
					idx = i
				}
			}
			var bad []string
			if idx < 0 {
				bad = append(bad, "the validator call is nested under a condition")
			}
			for i, s := range body.List {
				if idx >= 0 && i >= idx {
					break
				}
				ast.Inspect(s, func(m ast.Node) bool {
					if _, isLoop := m.(*ast.ForStmt); isLoop {
						return false
					}
					if _, isLoop := m.(*ast.RangeStmt); isLoop {
						return false
					}
					if is, ok := m.(*ast.IfStmt); ok {
						// host functions (Go code, no wasm body) are legitimately skipped: `if x.GoFunc != nil { continue }`
						if be, ok := is.Cond.(*ast.BinaryExpr); ok && be.Op == token.NEQ {
							if f := core.FieldOf(info, be.X); f != nil && f.Name() == "GoFunc" {
								if id, ok := be.Y.(*ast.Ident); ok && id.Name == "nil" {
									return false
								}
							}
						}
					}
					if br, ok := m.(*ast.BranchStmt); ok && br.Tok == token.CONTINUE {
						bad = append(bad, "a `continue` at "+c.Pos(br.Pos())+" skips the validator for some functions")
					}
					return true
				})
			}
			c.Check(len(bad) == 0, "R03.6", "every function body validated in "+core.FuncName(wp, g), call.Pos(), "the validator call is an unconditional statement of the loop over the functions",
				strings.Join(bad, "; ")+": an unvalidated body reaches the engines (out-of-range indices, ill-typed stack → host panics or faults)")
			return false
		})
	})
	if !found {
		c.Undecided("R03.6", "validation loop", 0, "no loop calling the function validator found")
	}
}

// ---- R03.7
func checkIfWithoutElse(c *core.Ctx) {
	wp := c.Pkg("internal/wasm")
	info := wp.TypesInfo
	fd, chain, opObj := validatorChain(wp)
	if fd == nil {
		c.Undecided("R03.7", "validator", 0, "function validator not found")
		return
	}
	endK := wp.Types.Scope().Lookup("OpcodeEnd")
	var arm *ast.BlockStmt
	ev := &core.FlagEval{Info: info, Flag: opObj}
	endV, _ := core.ConstOf(endK.(*types.Const))
	for cur := chain; cur != nil; {
		if v, ok := ev.EvalExpr(cur.Cond, uint64(endV)); ok && v != 0 {
			arm = cur.Body
			break
		}
		next, _ := cur.Else.(*ast.IfStmt)
		cur = next
	}
	if arm == nil {
		c.Undecided("R03.7", "end arm", 0, "arm for OpcodeEnd not found")
		return
	}
	// inside the arm: bytes.Equal(x.Params, x.Results) (either order) deciding an error return
	ok := false
	pos := arm.Pos()
	ast.Inspect(arm, func(m ast.Node) bool {
		if call, isCall := m.(*ast.CallExpr); isCall {
			if f := core.Callee(info, call); f != nil && f.Pkg() != nil && f.Pkg().Path() == "bytes" && f.Name() == "Equal" && len(call.Args) == 2 {
				a, b := core.FieldOf(info, call.Args[0]), core.FieldOf(info, call.Args[1])
				if a != nil && b != nil && ((a.Name() == "Params" && b.Name() == "Results") || (a.Name() == "Results" && b.Name() == "Params")) {
					ok = true
					pos = call.Pos()
				}
			}
		}
		return true
	})
	c.Check(ok, "R03.7", "if-without-else compares parameter and result types", pos, "bytes.Equal(Params, Results) guards the end of an `if` that has no `else`",
		"at the end of an `if` without `else` the block's parameter types are not compared with its result types (only counts or nothing): an ill-typed module is accepted and the engines read operands of the wrong type")
}

var _ = packages.NeedName
var _ = sort.Strings

// ---- R03.8 variable-length reads do not mistake an empty read at the end of the input for an error ----

func checkEmptyReads(c *core.Ctx) {
	p := c.Pkg("internal/wasm/binary")
	if p == nil {
		return
	}
	info := p.TypesInfo
	n := 0
	core.AllFuncDecls(p, func(fd *ast.FuncDecl) {
		var stack []ast.Node
		ast.Inspect(fd.Body, func(x ast.Node) bool {
			if x == nil {
				stack = stack[:len(stack)-1]
				return true
			}
			stack = append(stack, x)
			call, ok := x.(*ast.CallExpr)
			if !ok || len(call.Args) != 1 {
				return true
			}
			se, ok := call.Fun.(*ast.SelectorExpr)
			if !ok || se.Sel.Name != "Read" {
				return true
			}
			rt := info.Types[se.X].Type
			if rt == nil || !(strings.HasSuffix(rt.String(), "bytes.Reader") || strings.HasSuffix(rt.String(), "io.Reader")) {
				return true
			}
			n++
			arg := ast.Unparen(call.Args[0])
			okLen := false
			why := ""
			// make([]byte, K) with K a non-zero constant
			if mk, ok := arg.(*ast.CallExpr); ok && core.IsBuiltin(info, mk, "make") && len(mk.Args) >= 2 {
				if v, ok := core.ConstVal(info, mk.Args[1]); ok && v > 0 {
					okLen = true
				}
			}
			// a fixed-size array slice b[:] / b[0:K]
			if sl, ok := arg.(*ast.SliceExpr); ok {
				if at, ok := info.Types[sl.X].Type.Underlying().(*types.Array); ok && at.Len() > 0 && sl.High == nil {
					okLen = true
				}
				if ptr, ok := info.Types[sl.X].Type.Underlying().(*types.Pointer); ok {
					if at, ok := ptr.Elem().Underlying().(*types.Array); ok && at.Len() > 0 && sl.High == nil {
						okLen = true
					}
				}
			}
			// guarded by `len(buf) > 0` / `!= 0` (or `limit > 0` on the variable the buffer was sized with)
			if !okLen {
				txt := core.ExprStr(arg)
				for i := len(stack) - 1; i >= 0; i-- {
					if is, ok := stack[i].(*ast.IfStmt); ok {
						cond := core.ExprStr(is.Cond)
						if strings.Contains(cond, "len("+txt+") > 0") || strings.Contains(cond, "len("+txt+") != 0") || strings.Contains(cond, "0 < len("+txt+")") {
							okLen = true
						}
					}
				}
				why = "`" + core.ExprStr(call) + "`: the buffer's length comes from the input and may be 0"
			}
			c.Check(okLen, "R03.8", fmt.Sprintf("read #%d in %s cannot be an empty read at the end of the input", n, core.FuncName(p, fd)), call.Pos(),
				"constant non-zero buffer, or guarded by a length test (io.ReadFull is the other accepted idiom)",
				why+": (*bytes.Reader).Read returns io.EOF at the end of the input even for an empty buffer, so a valid module whose last section has an empty payload is rejected")
			return true
		})
	})
	if n == 0 {
		c.Discharge("R03.8", "the decoder uses io.ReadFull only", 0, "no direct Read calls")
	}
}

// ---- R03.9 every function's type index is range-checked before any body is validated ----

func checkTypeIndexPrePass(c *core.Ctx) {
	p := c.Pkg("internal/wasm")
	info := p.TypesInfo
	var vf *ast.FuncDecl
	core.AllFuncDecls(p, func(fd *ast.FuncDecl) {
		if fd.Name.Name == "validateFunctions" {
			vf = fd
		}
	})
	if vf == nil {
		c.Undecided("R03.9", "validateFunctions", 0, "not found")
		return
	}
	// loops over the function section, in order
	type loop struct {
		rs        *ast.RangeStmt
		checks    bool // compares an element with the type count and returns an error
		validates bool // calls the per-function validator
	}
	var loops []loop
	// the top-level statements of the function, with the steps it was split into spliced in (one level): a statement
	// that calls a method of the package stands for that method's top-level statements
	var flat []ast.Stmt
	for _, st := range vf.Body.List {
		spliced := false
		if _, isLoop := st.(*ast.RangeStmt); !isLoop {
			ast.Inspect(st, func(x ast.Node) bool {
				if call, ok := x.(*ast.CallExpr); ok && !spliced {
					if f := core.Callee(info, call); f != nil && f.Pkg() == p.Types && f.Name() != "validateFunction" {
						if hd := declOf(p, f); hd != nil && hd != vf {
							hasLoop := false
							for _, hs := range hd.Body.List {
								if rs, ok := hs.(*ast.RangeStmt); ok && strings.HasSuffix(core.ExprStr(rs.X), "FunctionSection") {
									hasLoop = true
								}
							}
							if hasLoop {
								flat = append(flat, hd.Body.List...)
								spliced = true
							}
						}
					}
				}
				return true
			})
		}
		if !spliced {
			flat = append(flat, st)
		}
	}
	for _, st := range flat {
		rs, ok := st.(*ast.RangeStmt)
		if !ok || !strings.HasSuffix(core.ExprStr(rs.X), "FunctionSection") {
			continue
		}
		l := loop{rs: rs}
		ast.Inspect(rs.Body, func(x ast.Node) bool {
			switch y := x.(type) {
			case *ast.IfStmt:
				if be, ok := y.Cond.(*ast.BinaryExpr); ok && (be.Op == token.GEQ || be.Op == token.GTR) {
					ret := false
					ast.Inspect(y.Body, func(z ast.Node) bool {
						if _, ok := z.(*ast.ReturnStmt); ok {
							ret = true
						}
						return true
					})
					if ret && strings.Contains(strings.ToLower(core.ExprStr(be.Y)), "type") {
						l.checks = true
					}
				}
			case *ast.CallExpr:
				if f := core.Callee(info, y); f != nil && f.Name() == "validateFunction" {
					l.validates = true
				}
			}
			return true
		})
		loops = append(loops, l)
	}
	ok := false
	for _, l := range loops {
		if l.validates {
			break
		}
		if l.checks {
			ok = true
		}
	}
	pos := vf.Pos()
	if len(loops) > 0 {
		pos = loops[0].rs.Pos()
	}
	c.Check(ok, "R03.9", "type indexes of all functions are range-checked before the first body is validated", pos,
		"a loop over the function section that only range-checks precedes the loop that validates bodies",
		"the type index of a function is range-checked in the same loop iteration that validates its body: validating `call N` in an earlier function indexes the type section with function N's unchecked type index and CompileModule panics (index out of range) instead of returning an error")
}

// ---- R03.10 immediates are consumed before the unreachable early exit ----

func checkImmediatesBeforeUnreachable(c *core.Ctx) {
	p := c.Pkg("internal/engine/wazevo/frontend")
	if p == nil {
		return
	}
	info := p.TypesInfo
	d := dispatcherOf(p)
	if d == nil {
		c.Undecided("R03.10", "frontend dispatcher", 0, "not found")
		return
	}
	advances := func(n ast.Node) (bool, token.Pos) {
		hit, pos := false, token.NoPos
		ast.Inspect(n, func(x ast.Node) bool {
			if hit {
				return false
			}
			switch y := x.(type) {
			case *ast.IncDecStmt:
				if strings.HasSuffix(core.ExprStr(y.X), ".pc") {
					hit, pos = true, y.Pos()
				}
			case *ast.AssignStmt:
				if (y.Tok == token.ADD_ASSIGN) && len(y.Lhs) == 1 && strings.HasSuffix(core.ExprStr(y.Lhs[0]), ".pc") {
					hit, pos = true, y.Pos()
				}
			case *ast.CallExpr:
				if f := core.Callee(info, y); f != nil && strings.HasPrefix(f.Name(), "read") && core.RecvNameOf(f) == "Compiler" {
					hit, pos = true, y.Pos()
				}
			}
			return true
		})
		return hit, pos
	}
	isUnreachableExit := func(s ast.Stmt) bool {
		is, ok := s.(*ast.IfStmt)
		if !ok || !strings.HasSuffix(core.ExprStr(is.Cond), ".unreachable") || len(is.Body.List) == 0 {
			return false
		}
		br, ok := is.Body.List[len(is.Body.List)-1].(*ast.BranchStmt)
		return ok && br.Tok == token.BREAK
	}
	n := 0
	ast.Inspect(d.Body, func(x ast.Node) bool {
		cc, ok := x.(*ast.CaseClause)
		if !ok || len(cc.List) == 0 {
			return true
		}
		if nm := constNameOf(info, cc.List[0]); nm == "" || opClass(nm) == "" {
			return true
		}
		exitAt := -1
		for i, s := range cc.Body {
			if isUnreachableExit(s) {
				exitAt = i
				break
			}
		}
		if exitAt < 0 {
			return true
		}
		n++
		var bad []string
		for _, s := range cc.Body[exitAt+1:] {
			// nested prefix dispatch (the vector / atomic / misc switches) is handled at its own arms
			if _, isSw := s.(*ast.SwitchStmt); isSw {
				continue
			}
			if hit, pos := advances(s); hit {
				bad = append(bad, c.Pos(pos))
			}
		}
		c.Check(len(bad) == 0, "R03.10", "arm "+constNameOf(info, cc.List[0])+" consumes its immediates before the unreachable early exit", cc.Pos(),
			"no pc advance after the exit", "the program counter is advanced / an immediate is read at "+strings.Join(bad, ", ")+" after the `if unreachable { break }` exit: in dead code the immediate is not skipped and its bytes are decoded as opcodes – a valid module makes the compiler panic (or mis-compile) while the interpreter accepts it")
		return true
	})
	if n < 50 {
		c.Undecided("R03.10", "frontend arms with an unreachable exit", d.Pos(), fmt.Sprintf("only %d found", n))
	}
}

// ---- R03.11 the interpreter's drop ranges are computed in slot units ----

func checkDropRangeUnits(c *core.Ctx) {
	p := c.Pkg("internal/engine/interpreter")
	if p == nil {
		return
	}
	info := p.TypesInfo
	n := 0
	core.AllFuncDecls(p, func(fd *ast.FuncDecl) {
		if fd.Type.Results == nil || len(fd.Type.Results.List) != 1 {
			return
		}
		if rt := info.Types[fd.Type.Results.List[0].Type].Type; rt == nil || !strings.HasSuffix(rt.String(), "inclusiveRange") {
			return
		}
		n++
		var bad []string
		ast.Inspect(fd.Body, func(x ast.Node) bool {
			call, ok := x.(*ast.CallExpr)
			if !ok || !core.IsBuiltin(info, call, "len") || len(call.Args) != 1 {
				return true
			}
			if se, ok := ast.Unparen(call.Args[0]).(*ast.SelectorExpr); ok && (se.Sel.Name == "Params" || se.Sel.Name == "Results") {
				bad = append(bad, core.ExprStr(call)+" at "+c.Pos(call.Pos()))
			}
			return true
		})
		c.Check(len(bad) == 0, "R03.11", "drop range in "+core.FuncName(p, fd)+" is computed in 64-bit slot units", fd.Pos(), "uses the …NumInUint64 counts only",
			strings.Join(bad, "; ")+": a count of values is used where stack slots are meant; they differ for v128 (2 slots), so a branch carrying a v128 drops half the vector and the interpreter fails with a Go runtime error on a valid module")
	})
	if n == 0 {
		c.Undecided("R03.11", "drop-range functions", 0, "no function returning inclusiveRange found")
	}
}
