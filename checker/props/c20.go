package props

import (
	"fmt"
	"go/ast"
	"go/token"
	"go/types"
	"sort"
	"strings"

	"golang.org/x/tools/go/ssa"

	"verif/checker/core"
)

// C20 Function listeners see every call, correctly bracketed (structural clauses).

func init() {
	core.Register(&core.Property{
		ID:    "C20",
		Level: "other",
		Explanation: "Decided (necessary conditions, for every program): (R20.1) in the compiler frontend the before-trampoline call is emitted at function entry under the listener flag; every emitted jump whose target may be the function's return block (any target not freshly allocated) is checked with ReturnBlock() and preceded by the after-trampoline call; every emitted Return is covered by an after-trampoline call (tail-call fallbacks are listed as implementation-defined, as the property allows); " +
			"(R20.2) the Go-side brackets are ordered Before ≺ call ≺ After and unconditional in the four host-call arms and two trampoline arms of the compiler and in the interpreter's wrappers, and the interpreter body runner is only entered through the dispatcher that consults the listener; " +
			"(R20.3) both recover paths notify Abort for every collected frame after the error is built, and the frame walks that feed Abort and the stack iterator are not cut at a constant number of frames (a genuine defect of this kind was found and fixed); " +
			"(R20.4) listener tables are never written on a path reachable from a Close/Delete entry point; (R20.5) the compiler's stack iterator re-walks the native stack on every reset (no path skips the unwinder). " +
			"(R20.7) every StackIterator implementation returns from Function() a value that does not alias the iterator (a genuine compiler defect – the multi-listener adapter saw the outermost function for every frame – was found and fixed); (R20.8) the parallel frame caches of the multi-listener adapter are reset together; (R20.6) what a cached compiled module captures of the listeners must be covered by the module identity – on this tree the engines store the listener objects while the identity hashes only their nil-ness: a second CompileModule of the same binary under another listener factory silently uses the first factory's listeners (demonstrated on both engines, recorded as two known findings). " +
			"NOT decided: the native return-address walk itself, nesting under unwinding, equality of event streams between engines, parameter/result values.",
		Rules: []core.Rule{
			{ID: "R20.17", Template: "T-MUSTPASS", Text: "interpreter: the frame of an entered function is pushed before the entry-time poll of the closed flag", Min: 1},
			{ID: "R20.16", Template: "T-SIBLING", Text: "the Before-trampoline predicate of the stack-overflow exit path looks at the Before trampolines only", Min: 1},
			{ID: "R20.14", Template: "T-MUSTPASS", Text: "stack-overflow exit path: the Before-trampoline test reads the innermost unwound return address before it is dropped", Min: 1},
			{ID: "R20.15", Template: "T-SIBLING", Text: "the stack iterator's completeness test compares the bounded unwinder's result with the limit it was given", Min: 1},
			{ID: "R20.13", Template: "T-OWN", Text: "listener adapters keep no per-call state in the listener object (genuine defect found and fixed: MultiFunctionListenerFactory)", Min: 3},
			{ID: "R20.1", Template: "T-MUSTPASS", Text: "before at entry; label-derived jump targets are return-block-checked with an after call; emitted returns are covered", Min: 6},
			{ID: "R20.2", Template: "T-TYPESTATE", Text: "Before ≺ call ≺ After in every Go-side bracket; body runner only via the listener-consulting dispatcher", Min: 7},
			{ID: "R20.3", Template: "T-SIBLING", Text: "Abort for every collected frame after the error is built; frame walks are not capped by a constant", Min: 5},
			{ID: "R20.4", Template: "T-WHOWRITES", Text: "listener tables are not written on close paths", Min: 4},
			{ID: "R20.5", Template: "T-MUSTPASS", Text: "stack iterator reset always re-walks the stack", Min: 1},
			{ID: "R20.7", Template: "T-OWN", Text: "StackIterator.Function returns a value that does not alias the iterator (genuine compiler defect found and fixed)", Min: 2},
			{ID: "R20.8", Template: "T-SIBLING", Text: "parallel frame caches of the multi-listener adapter are reset together", Min: 2},
			{ID: "R20.9", Template: "T-SIBLING", Text: "the listener of a host function is given exactly the params (Before) and the results (After) on both engines (genuine compiler defect found and fixed)", Min: 6},
			{ID: "R20.10", Template: "T-MUSTPASS", Text: "a call that ends in stack overflow completes every Before with an Abort (genuine defects found and fixed on both engines)", Min: 3},
			{ID: "R20.11", Template: "T-REPR", Text: "the after-listener trampoline is passed the top of the operand stack", Min: 1},
			{ID: "R20.12", Template: "T-CONSULT", Text: "in the recover paths a frame's listener is collected for Abort whenever it is non-nil", Min: 2},
			{ID: "R20.6", Template: "T-SIBLING", Text: "listener objects captured by a cached compiled module are covered by the module identity (known finding: only nil-ness is hashed)", Min: 2},
		},
		Run: runC20,
		Controls: []core.Control{
			{Name: "interp-frame-pushed-after-entry-poll", File: "internal/engine/interpreter/interpreter.go", Old: "\telementInstances := moduleInst.ElementInstances\n\tce.pushFrame(frame)\n", New: "\telementInstances := moduleInst.ElementInstances\n", Old2: "\tbody := frame.f.parent.body\n\tbodyLen := uint64(len(body))\n\tfor frame.pc < bodyLen {", New2: "\tce.pushFrame(frame)\n\tbody := frame.f.parent.body\n\tbodyLen := uint64(len(body))\n\tfor frame.pc < bodyLen {", Rule: "R20.17", Substr: "pushed before"},
			{Name: "before-predicate-matches-after-trampolines", File: "internal/engine/wazevo/engine.go", Old: "\tfor _, buf := range e.sharedFunctions.listenerBeforeTrampolines {\n\t\tif checkAddrInBytes(addr, buf) {\n\t\t\treturn true\n\t\t}\n\t}\n\treturn false\n", New: "\tfor _, buf := range e.sharedFunctions.listenerBeforeTrampolines {\n\t\tif checkAddrInBytes(addr, buf) {\n\t\t\treturn true\n\t\t}\n\t}\n\tfor _, buf := range e.sharedFunctions.listenerAfterTrampolines {\n\t\tif checkAddrInBytes(addr, buf) {\n\t\t\treturn true\n\t\t}\n\t}\n\treturn false\n", Rule: "R20.16", Substr: "Before trampolines only"},
			{Name: "before-trampoline-test-after-drop", File: "internal/engine/wazevo/call_engine.go", Old: "\t\t\t\t\tinBefore := c.parent.parent.parent.isListenerBeforeTrampoline(returnAddrs[0])\n\t\t\t\t\treturnAddrs = returnAddrs[1:]\n\t\t\t\t\tif inBefore && len(returnAddrs) > 0 {", New: "\t\t\t\t\treturnAddrs = returnAddrs[1:]\n\t\t\t\t\tif len(returnAddrs) > 0 && c.parent.parent.parent.isListenerBeforeTrampoline(returnAddrs[0]) {", Rule: "R20.14", Substr: "innermost"},
			{Name: "unwind-completeness-excludes-seed", File: "internal/engine/wazevo/call_engine.go", Old: "\tif len(si.retAddrs) < limit {\n\t\tlimit = 0\n\t}", New: "\tif len(si.retAddrs)-1 < limit {\n\t\tlimit = 0\n\t}", Rule: "R20.15", Substr: "whole stack"},
			{Name: "multi-listener-iterator-in-the-listener", File: "experimental/listener.go", Old: "\tstack := stackIterator{base: si}\n\tfor _, lstn := range multi.lstns {\n\t\tstack.index = -1\n\t\tlstn.Before(ctx, mod, def, params, &stack)\n\t}", New: "\tmulti.stack.base = si\n\tfor _, lstn := range multi.lstns {\n\t\tmulti.stack.index = -1\n\t\tlstn.Before(ctx, mod, def, params, &multi.stack)\n\t}", Rule: "R20.13", Substr: "multiFunctionListener", Old2: "type multiFunctionListener struct {\n\tlstns []FunctionListener\n}", New2: "type multiFunctionListener struct {\n\tlstns []FunctionListener\n\tstack stackIterator\n}"},
			{Name: "after-gets-bottom-of-stack", File: "internal/engine/wazevo/frontend/lower.go", Old: "l.values[tail-c.results():tail]...)", New: "l.values[:c.results()+tail-tail]...)", Rule: "R20.11", Substr: "callListenerAfter"},
			{Name: "abort-only-when-entry-module-has-listeners", File: "internal/engine/wazevo/call_engine.go", Old: "\t\t\t\tdef, lsn = c.addFrame(builder, retAddr)\n\t\t\t\tif lsn != nil {", New: "\t\t\t\tdef, lsn = c.addFrame(builder, retAddr)\n\t\t\t\tif len(c.parent.parent.listeners) > 0 && lsn != nil {", Rule: "R20.12", Substr: "compiler"},
			{Name: "compiler-stack-overflow-without-abort", File: "internal/engine/wazevo/call_engine.go", Old: "\t\t\t\t\tif def, lsn := c.addFrame(builder, retAddr); lsn != nil {\n\t\t\t\t\t\tlsn.Abort(ctx, m, def, err)\n\t\t\t\t\t}", New: "\t\t\t\t\t_, _ = c.addFrame(builder, retAddr)", Rule: "R20.10", Substr: "compiler"},
			{Name: "host-listener-after-sees-whole-slot-area", File: "internal/engine/wazevo/call_engine.go", Old: "listener.After(ctx, callerModule, def, s[:len(def.ResultTypes())])", New: "listener.After(ctx, callerModule, def, s)", Rule: "R20.9", Substr: "After"},
			{Name: "interpreter-before-ahead-of-ceiling", File: "internal/engine/interpreter/interpreter.go", Old: "\t// Abort is delivered to the functions which have a frame, so Before must not be called for one that cannot get it.\n\tif callStackCeiling <= len(ce.frames) {\n\t\tpanic(wasmruntime.ErrRuntimeStackOverflow)\n\t}\n\tce.stackIterator.reset(ce.stack, ce.frames, f)", New: "\tce.stackIterator.reset(ce.stack, ce.frames, f)", Rule: "R20.10", Substr: "callNativeFuncWithListener"},
			{Name: "unwindstack-capped-again", File: "internal/engine/wazevo/backend/isa/amd64/stack.go", Old: "return UnwindStackUpTo(sp, rbp, top, returnAddresses, 0)", New: "return UnwindStackUpTo(sp, rbp, top, returnAddresses, 30)", Rule: "R20.3", Substr: "frame limit"},
			{Name: "function-returns-the-iterator", File: "internal/engine/wazevo/call_engine.go", Old: "\treturn internalFunction{def: si.currentDef, eng: si.eng}\n", New: "\treturn si\n", Old2: "// internalFunction implements experimental.InternalFunction.", New2: "func (si *stackIterator) Definition() api.FunctionDefinition { return si.currentDef }\n\nfunc (si *stackIterator) SourceOffsetForPC(pc experimental.ProgramCounter) uint64 { return 0 }\n\n// internalFunction implements experimental.InternalFunction.", Rule: "R20.7", Substr: "wazevo"},
			{Name: "adapter-resets-only-pcs", File: "experimental/listener.go", Old: "\t\tsi.pcs = si.pcs[:0]\n\t\tsi.fns = si.fns[:0]\n", New: "\t\tsi.pcs = si.pcs[:0]\n", Rule: "R20.8", Substr: "fns"},
			{Name: "br-table-plain-jump", File: "internal/engine/wazevo/frontend/lower.go", Old: "\t\tbuilder.SetCurrentBlock(trampoline)\n\t\tc.insertJumpToBlock(args, targetBlk)\n", New: "\t\tbuilder.SetCurrentBlock(trampoline)\n\t\tbuilder.AllocateInstruction().AsJump(args, targetBlk).Insert(builder)\n", Rule: "R20.1", Substr: "lowerBrTable"},
			{Name: "return-without-after", File: "internal/engine/wazevo/frontend/lower.go", Old: "\t\tif c.needListener {\n\t\t\tc.callListenerAfter()\n\t\t}\n\n\t\tc.lowerReturn(builder)\n", New: "\t\tc.lowerReturn(builder)\n", Rule: "R20.1", Substr: "Return"},
			{Name: "no-before-at-entry", File: "internal/engine/wazevo/frontend/lower.go", Old: "\tif c.needListener {\n\t\tc.callListenerBefore()\n\t}\n", New: "", Rule: "R20.1", Substr: "before"},
			{Name: "host-after-before-call", File: "internal/engine/wazevo/call_engine.go", Old: "\t\t\t// Call into the Go function.\n\t\t\tfunc() {\n\t\t\t\tif snapshotEnabled {\n\t\t\t\t\tdefer snapshotRecoverFn(c)\n\t\t\t\t}\n\t\t\t\tf.Call(ctx, s)\n\t\t\t}()\n\t\t\tclearUpper32Bits(s, def.ResultTypes())\n\t\t\t// Call Listener.After.\n\t\t\tlistener.After(ctx, callerModule, def, s[:len(def.ResultTypes())])\n", New: "\t\t\tlistener.After(ctx, callerModule, def, s[:len(def.ResultTypes())])\n\t\t\t// Call into the Go function.\n\t\t\tfunc() {\n\t\t\t\tif snapshotEnabled {\n\t\t\t\t\tdefer snapshotRecoverFn(c)\n\t\t\t\t}\n\t\t\t\tf.Call(ctx, s)\n\t\t\t}()\n", Rule: "R20.2", Substr: "ExitCodeCallGoFunctionWithListener"},
			{Name: "interp-after-conditional", File: "internal/engine/interpreter/interpreter.go", Old: "\tce.callNativeFunc(ctx, m, f)\n\tfnl.After(ctx, m, def, ce.peekValues(typ.ResultNumInUint64))\n", New: "\tce.callNativeFunc(ctx, m, f)\n\tif typ.ResultNumInUint64 > 0 {\n\t\tfnl.After(ctx, m, def, ce.peekValues(typ.ResultNumInUint64))\n\t}\n", Rule: "R20.2", Substr: "callNativeFuncWithListener"},
			{Name: "interp-bypass-dispatcher", File: "internal/engine/interpreter/interpreter.go", Old: "\t} else if lsn := f.parent.listener; lsn != nil {\n\t\tce.callNativeFuncWithListener(ctx, m, f, lsn)\n\t} else {", New: "\t} else if lsn := f.parent.listener; lsn != nil && len(ce.frames) == 0 {\n\t\tce.callNativeFuncWithListener(ctx, m, f, lsn)\n\t} else {", Rule: "R20.2", Substr: "dispatcher"},
			{Name: "abort-capped-at-max-frames", File: "internal/engine/interpreter/interpreter.go", Old: "\tfunctionListeners := make([]functionListenerInvocation, 0, 16)\n\n", New: "\tfunctionListeners := make([]functionListenerInvocation, 0, 16)\n\n\tif frameCount > wasmdebug.MaxFrames {\n\t\tframeCount = wasmdebug.MaxFrames\n\t}\n", Rule: "R20.3", Substr: "interpreter"},
			{Name: "delete-clears-listeners", File: "internal/engine/wazevo/engine.go", Old: "\t\tdelete(e.compiledModules, m.ID)\n\t}\n}", New: "\t\tdelete(e.compiledModules, m.ID)\n\t\tcm.listeners = nil\n\t}\n}", Rule: "R20.4", Substr: "compiledModule.listeners"},
			{Name: "iterator-reuses-walk", File: "internal/engine/wazevo/call_engine.go", Old: "func (si *stackIterator) reset(c *callEngine, onHostCall bool) {\n", New: "func (si *stackIterator) reset(c *callEngine, onHostCall bool) {\n\tif !onHostCall && si.eng != nil && uint64(c.execCtx.framePointerBeforeGoCall) == si.pc {\n\t\tsi.retAddrCursor = 0\n\t\treturn\n\t}\n", Rule: "R20.5", Substr: "reset"},
		},
		Configs: []core.BuildCfg{{GOOS: "linux", GOARCH: "arm64"}},
	})
}

func runC20(c *core.Ctx) {
	c.SSA()
	checkOverflowUnwindOrder(c)
	checkFramePushedBeforeEntryPoll(c)
	checkBeforePredicateOnlyBefore(c)
	checkUnwindCompleteness(c)
	checkFrontendListener(c)
	checkBrackets(c)
	checkAbortCoverage(c)
	checkListenerTables(c)
	checkIteratorReset(c)
	checkListenerIdentity(c)
	checkIteratorValues(c)
	checkHostListenerSlices(c)
	checkStackOverflowAbort(c)
	checkAfterReceivesTopOfStack(c)
	checkAbortCollectionUnconditional(c)
	checkListenerAdapterState(c)
}

// ---------------------------------------------------------------------------------------------------------

func checkFrontendListener(c *core.Ctx) {
	const rel = "internal/engine/wazevo/frontend"
	fns := moduleFns(c, rel)
	if len(fns) == 0 {
		c.Undecided("R20.1", "frontend", 0, "frontend package not loaded")
		return
	}
	// anchored semantically: the functions that load the after / before trampoline tables of the module context
	var after, before *ssa.Function
	if fp := c.Pkg(rel); fp != nil {
		names := map[string]string{}
		core.AllFuncDecls(fp, func(fd *ast.FuncDecl) {
			ast.Inspect(fd.Body, func(x ast.Node) bool {
				if se, ok := x.(*ast.SelectorExpr); ok {
					switch se.Sel.Name {
					case "AfterListenerTrampolines1stElement":
						names[fd.Name.Name] = "after"
					case "BeforeListenerTrampolines1stElement":
						names[fd.Name.Name] = "before"
					}
				}
				return true
			})
		})
		for _, fn := range fns {
			if fn.Parent() != nil {
				continue
			}
			switch names[fn.Name()] {
			case "after":
				after = fn
			case "before":
				before = fn
			}
		}
	}
	need := structField(c, rel, "Compiler", "needListener")
	if after == nil || before == nil || need == nil {
		c.Undecided("R20.1", "anchors", 0, "callListenerAfter / callListenerBefore / Compiler.needListener not found")
		return
	}
	isNeedLoad := func(v ssa.Value) bool {
		u, ok := v.(*ssa.UnOp)
		if !ok || u.Op != token.MUL {
			return false
		}
		fa, ok := u.X.(*ssa.FieldAddr)
		return ok && fieldOfAddr(fa) == need
	}
	callsTo := func(fn *ssa.Function, callee *ssa.Function) []*ssa.Call {
		var out []*ssa.Call
		for _, b := range fn.Blocks {
			for _, in := range b.Instrs {
				if call, ok := in.(*ssa.Call); ok && call.Common().StaticCallee() == callee {
					out = append(out, call)
				}
			}
		}
		return out
	}
	// (a) before at entry
	nBefore := 0
	for _, fn := range fns {
		for _, call := range callsTo(fn, before) {
			nBefore++
			g := guardedBy(call.Block(), func(cond ssa.Value) int {
				if isNeedLoad(cond) {
					return 1
				}
				return 0
			})
			// must be in the function that lowers the entry: no opcode dispatch precedes it — approximated by: the call's
			// block dominates every call of the per-opcode lowering function in the same function.
			c.Check(g, "R20.1", "before-trampoline call in "+fn.String(), call.Pos(), "emitted under the needListener flag", "the before-trampoline call is not conditioned on needListener alone")
		}
	}
	if nBefore == 0 {
		c.Violate("R20.1", "before-trampoline call at function entry", before.Pos(), "callListenerBefore has no caller: a function compiled with a listener never reports its Before event")
	}

	// (b) label-derived jump targets
	afterCovered := func(b *ssa.BasicBlock, fn *ssa.Function, before ssa.Instruction) bool {
		for _, call := range callsTo(fn, after) {
			cb := call.Block()
			if cb == b {
				for _, in := range b.Instrs {
					if in == ssa.Instruction(call) {
						return true
					}
					if in == before {
						break
					}
				}
				continue
			}
			if cb.Dominates(b) {
				return true
			}
			// if needListener { callListenerAfter() } ; <emission>
			for _, ib := range fn.Blocks {
				if len(ib.Instrs) == 0 {
					continue
				}
				iff, ok := ib.Instrs[len(ib.Instrs)-1].(*ssa.If)
				if !ok || !isNeedLoad(iff.Cond) {
					continue
				}
				if ib.Succs[0] == cb && len(cb.Preds) == 1 && (ib.Dominates(b) || ib == b) {
					// the after block must rejoin before b: b is reachable from cb
					if reaches(cb, b) {
						return true
					}
				}
			}
		}
		return false
	}
	nJumps := 0
	for _, fn := range fns {
		for _, b := range fn.Blocks {
			for _, in := range b.Instrs {
				call, ok := in.(*ssa.Call)
				if !ok {
					continue
				}
				sc := call.Common().StaticCallee()
				if sc == nil || sc.Signature.Recv() == nil {
					continue
				}
				switch sc.Name() {
				case "AsJump", "AsBrz", "AsBrnz":
				default:
					continue
				}
				if !strings.HasSuffix(sc.Pkg.Pkg.Path(), "/wazevo/ssa") {
					continue
				}
				var target ssa.Value
				for _, a := range call.Common().Args {
					if n := core.NamedOf(a.Type()); n != nil && n.Obj().Name() == "BasicBlock" {
						target = a
					}
				}
				if target == nil {
					c.Undecided("R20.1", "jump emission in "+fn.String(), call.Pos(), "no BasicBlock-typed argument")
					continue
				}
				roots := blockOrigins(target, 0, map[ssa.Value]bool{})
				var derived []ssa.Value
				for _, r := range roots {
					if rc, ok := r.(*ssa.Call); ok && rc.Common().IsInvoke() && rc.Common().Method.Name() == "AllocateBasicBlock" {
						continue
					}
					derived = append(derived, r)
				}
				if len(derived) == 0 {
					continue // freshly allocated target: never the return block
				}
				nJumps++
				ok2 := true
				why := ""
				for _, r := range derived {
					// a ReturnBlock() test on r whose true branch calls the after trampoline
					found := false
					if r.Referrers() != nil {
						for _, ref := range *r.Referrers() {
							rb, isC := ref.(*ssa.Call)
							if !isC || !rb.Common().IsInvoke() || rb.Common().Method.Name() != "ReturnBlock" || rb.Common().Value != r {
								continue
							}
							for _, rr := range *rb.Referrers() {
								iff, isIf := rr.(*ssa.If)
								if !isIf {
									continue
								}
								ts := iff.Block().Succs[0]
								for _, ac := range callsTo(fn, after) {
									if ts == ac.Block() || ts.Dominates(ac.Block()) {
										found = true
									}
								}
							}
						}
					}
					if !found {
						ok2 = false
						why = "target " + r.Name() + " (" + shortVal(r) + ") may be the function's return block, but no ReturnBlock() test on it leads to the after-trampoline call"
					}
				}
				c.Check(ok2, "R20.1", fmt.Sprintf("%s emission with a label-derived target in %s", sc.Name(), fn.String()), call.Pos(),
					"the target is tested with ReturnBlock() and the after-trampoline call is emitted on that branch",
					why+": a branch to the outermost label returns without the After event (Before without After, broken nesting, engines diverge)")
			}
		}
	}
	c.Count("label_derived_jump_emissions", nJumps)

	// (c) emitted returns
	type rsite struct {
		fn   *ssa.Function
		call *ssa.Call
	}
	var pending []rsite
	for _, fn := range fns {
		for _, b := range fn.Blocks {
			for _, in := range b.Instrs {
				if call, ok := in.(*ssa.Call); ok {
					if sc := call.Common().StaticCallee(); sc != nil && sc.Name() == "AsReturn" && sc.Signature.Recv() != nil {
						pending = append(pending, rsite{fn, call})
					}
				}
			}
		}
	}
	emitsTail := func(fn *ssa.Function) bool {
		for _, b := range fn.Blocks {
			for _, in := range b.Instrs {
				if call, ok := in.(*ssa.Call); ok {
					if sc := call.Common().StaticCallee(); sc != nil && strings.HasPrefix(sc.Name(), "AsTailCallReturnCall") {
						return true
					}
				}
			}
		}
		return false
	}
	seenFn := map[*ssa.Function]bool{}
	for len(pending) > 0 {
		s := pending[0]
		pending = pending[1:]
		name := fmt.Sprintf("Return emission via %s in %s", s.call.Common().StaticCallee().Name(), s.fn.String())
		if afterCovered(s.call.Block(), s.fn, s.call) {
			c.Discharge("R20.1", name+" @"+fmt.Sprint(c.Fset.Position(s.call.Pos()).Line-c.Fset.Position(s.fn.Pos()).Line), s.call.Pos(), "preceded by the after-trampoline call (directly or under needListener)")
			continue
		}
		if emitsTail(s.fn) {
			c.Discharge("R20.1", name+" (tail-call fallback)", s.call.Pos(), "implementation-defined by the property: the fallback return of a tail call carries no After event (listed, not failed)")
			continue
		}
		// helper: push to callers
		if seenFn[s.fn] {
			continue
		}
		seenFn[s.fn] = true
		n := 0
		for _, g := range fns {
			for _, call := range callsTo(g, s.fn) {
				pending = append(pending, rsite{g, call})
				n++
			}
		}
		if n == 0 {
			c.Violate("R20.1", name, s.call.Pos(), "a Return instruction is emitted without the after-trampoline call on this path and the function has no caller that adds it: the function returns without its After event")
		}
	}
}

func shortVal(v ssa.Value) string {
	s := v.String()
	if len(s) > 60 {
		s = s[:60] + "…"
	}
	return s
}

func reaches(from, to *ssa.BasicBlock) bool {
	seen := map[*ssa.BasicBlock]bool{}
	var w func(b *ssa.BasicBlock) bool
	w = func(b *ssa.BasicBlock) bool {
		if b == to {
			return true
		}
		if seen[b] {
			return false
		}
		seen[b] = true
		for _, s := range b.Succs {
			if w(s) {
				return true
			}
		}
		return false
	}
	return w(from)
}

// blockOrigins: where a BasicBlock-typed value comes from (through phis and local variable cells).
func blockOrigins(v ssa.Value, d int, seen map[ssa.Value]bool) []ssa.Value {
	if v == nil || seen[v] || d > 10 {
		return nil
	}
	seen[v] = true
	switch x := v.(type) {
	case *ssa.Phi:
		var out []ssa.Value
		for _, e := range x.Edges {
			out = append(out, blockOrigins(e, d+1, seen)...)
		}
		return out
	case *ssa.UnOp:
		if al, ok := x.X.(*ssa.Alloc); ok && x.Op == token.MUL {
			var out []ssa.Value
			for _, r := range *al.Referrers() {
				if st, ok := r.(*ssa.Store); ok && st.Addr == ssa.Value(al) {
					out = append(out, blockOrigins(st.Val, d+1, seen)...)
				}
			}
			if len(out) > 0 {
				return out
			}
		}
	case *ssa.ChangeInterface:
		return blockOrigins(x.X, d+1, seen)
	case *ssa.MakeInterface:
		return blockOrigins(x.X, d+1, seen)
	}
	return []ssa.Value{v}
}

// ---------------------------------------------------------------------------------------------------------

func checkBrackets(c *core.Ctx) {
	lsnIface := func() *types.Interface {
		p := c.Pkg("experimental")
		if p == nil {
			return nil
		}
		o := p.Types.Scope().Lookup("FunctionListener")
		if o == nil {
			return nil
		}
		i, _ := o.Type().Underlying().(*types.Interface)
		return i
	}()
	if lsnIface == nil {
		c.Undecided("R20.2", "anchors", 0, "experimental.FunctionListener not found")
		return
	}
	isLsnCall := func(info *types.Info, n ast.Node, name string) bool {
		call, ok := n.(*ast.CallExpr)
		if !ok {
			return false
		}
		se, ok := call.Fun.(*ast.SelectorExpr)
		if !ok || se.Sel.Name != name {
			return false
		}
		tv := info.Types[se.X]
		return tv.Type != nil && types.Implements(tv.Type, lsnIface) || (tv.Type != nil && types.Identical(tv.Type.Underlying(), lsnIface))
	}
	// position of the first top-level statement of list containing a node matching pred; -1 if none; also whether it is
	// unconditional (the statement itself is an ExprStmt / a func-literal call), not nested in an if/for/switch.
	find := func(info *types.Info, list []ast.Stmt, pred func(ast.Node) bool) (idx int, uncond bool) {
		for i, s := range list {
			hit := false
			ast.Inspect(s, func(n ast.Node) bool {
				if n != nil && pred(n) {
					hit = true
				}
				return !hit
			})
			if hit {
				un := false
				switch x := s.(type) {
				case *ast.ExprStmt:
					un = true
					_ = x
				case *ast.AssignStmt:
					un = true
				}
				return i, un
			}
		}
		return -1, false
	}
	isHostCall := func(info *types.Info) func(ast.Node) bool {
		return func(n ast.Node) bool {
			call, ok := n.(*ast.CallExpr)
			if !ok {
				return false
			}
			if isHost, _ := hostBodyCall(info, call); isHost {
				return true
			}
			se, ok := call.Fun.(*ast.SelectorExpr)
			if !ok || se.Sel.Name != "Call" {
				return false
			}
			tv := info.Types[se.X]
			if tv.Type == nil {
				return false
			}
			s := tv.Type.String()
			return strings.HasSuffix(s, "api.GoFunction") || strings.HasSuffix(s, "api.GoModuleFunction") || strings.Contains(s, "GoFunction") || strings.Contains(s, "GoModuleFunction")
		}
	}
	bracket := func(p string, info *types.Info, name string, pos token.Pos, list []ast.Stmt, body func(ast.Node) bool, wantBefore, wantAfter, condOK bool) {
		bi, bu := find(info, list, func(n ast.Node) bool { return isLsnCall(info, n, "Before") })
		ai, au := find(info, list, func(n ast.Node) bool { return isLsnCall(info, n, "After") })
		ci := -1
		if body != nil {
			ci, _ = find(info, list, body)
		}
		var bad []string
		if wantBefore && bi < 0 {
			bad = append(bad, "no Before call")
		}
		if wantAfter && ai < 0 {
			bad = append(bad, "no After call")
		}
		if body != nil && ci < 0 {
			bad = append(bad, "no call of the function body")
		}
		if wantBefore && body != nil && bi >= 0 && ci >= 0 && !(bi < ci) {
			bad = append(bad, "Before does not precede the call")
		}
		if wantAfter && body != nil && ai >= 0 && ci >= 0 && !(ci < ai) {
			bad = append(bad, "After does not follow the call")
		}
		if !condOK {
			if wantBefore && bi >= 0 && !bu {
				bad = append(bad, "Before is conditional")
			}
			if wantAfter && ai >= 0 && !au {
				bad = append(bad, "After is conditional")
			}
		} else if wantBefore && wantAfter && bi >= 0 && ai >= 0 {
			// both under a test of the same listener variable
			bc, ac := condOf(list[bi]), condOf(list[ai])
			if bc == "" || bc != ac {
				bad = append(bad, fmt.Sprintf("Before is under %q but After under %q", bc, ac))
			}
		}
		c.Check(len(bad) == 0, "R20.2", "bracket in "+name, pos, "Before ≺ call ≺ After, same condition", strings.Join(bad, "; ")+": a call produces a Before without exactly one matching After (or in the wrong order)")
	}

	// compiler arms
	if p, api := c.Pkg(wzv), c.Pkg("internal/engine/wazevo/wazevoapi"); p != nil && api != nil {
		info := p.TypesInfo
		for _, a := range []struct {
			k             string
			before, after bool
			body          bool
		}{
			{"ExitCodeCallGoFunctionWithListener", true, true, true},
			{"ExitCodeCallGoModuleFunctionWithListener", true, true, true},
			{"ExitCodeCallListenerBefore", true, false, false},
			{"ExitCodeCallListenerAfter", false, true, false},
		} {
			obj := api.Types.Scope().Lookup(a.k)
			var cl *core.ClauseRef
			for _, r := range core.FindCaseClauses(p, obj) {
				r := r
				if cl == nil || len(r.Switch.Body.List) > len(cl.Switch.Body.List) {
					cl = &r
				}
			}
			if cl == nil {
				c.Undecided("R20.2", "arm "+a.k, 0, "arm not found")
				continue
			}
			var body func(ast.Node) bool
			if a.body {
				body = isHostCall(info)
			}
			// the arm's statements, with a method of the package that makes the listener call spliced in (one level)
			var armBody []ast.Stmt
			for _, st := range cl.Clause.Body {
				spliced := false
				if es, ok := st.(*ast.ExprStmt); ok {
					if call, ok := es.X.(*ast.CallExpr); ok {
						if f := core.Callee(info, call); f != nil && f.Pkg() == p.Types {
							if hd := declOf(p, f); hd != nil {
								lsn := false
								ast.Inspect(hd.Body, func(n ast.Node) bool {
									if n != nil && (isLsnCall(info, n, "Before") || isLsnCall(info, n, "After")) {
										lsn = true
									}
									return true
								})
								if lsn {
									armBody = append(armBody, hd.Body.List...)
									spliced = true
								}
							}
						}
					}
				}
				if !spliced {
					armBody = append(armBody, st)
				}
			}
			bracket(wzv, info, "compiler arm "+a.k, cl.Clause.Pos(), armBody, body, a.before, a.after, false)
			// a Before in the Before-arm must not also call After and vice versa
			if !a.after {
				if i, _ := find(info, armBody, func(n ast.Node) bool { return isLsnCall(info, n, "After") }); i >= 0 {
					c.Violate("R20.2", "compiler arm "+a.k+" calls only Before", cl.Clause.Pos(), "the before-trampoline arm also calls After")
				}
			}
			if !a.before {
				if i, _ := find(info, armBody, func(n ast.Node) bool { return isLsnCall(info, n, "Before") }); i >= 0 {
					c.Violate("R20.2", "compiler arm "+a.k+" calls only After", cl.Clause.Pos(), "the after-trampoline arm also calls Before")
				}
			}
		}
	}
	// interpreter wrappers
	if p := c.Pkg("internal/engine/interpreter"); p != nil {
		info := p.TypesInfo
		var bodyRunner *types.Func
		core.AllFuncDecls(p, func(fd *ast.FuncDecl) {
			if fd.Name.Name == interpExecLoopName(p) {
				bodyRunner, _ = info.Defs[fd.Name].(*types.Func)
			}
		})
		if bodyRunner == nil {
			c.Undecided("R20.2", "interpreter body runner", 0, "callNativeFunc not found")
			return
		}
		isBody := func(n ast.Node) bool {
			call, ok := n.(*ast.CallExpr)
			return ok && core.Callee(info, call) == bodyRunner
		}
		var wrappers []*types.Func
		core.AllFuncDecls(p, func(fd *ast.FuncDecl) {
			hasB, hasA := false, false
			ast.Inspect(fd.Body, func(n ast.Node) bool {
				if n != nil && isLsnCall(info, n, "Before") {
					hasB = true
				}
				if n != nil && isLsnCall(info, n, "After") {
					hasA = true
				}
				return true
			})
			if !hasB && !hasA {
				return
			}
			callsBody := core.CallsAny(info, fd.Body, map[*types.Func]bool{bodyRunner: true}) != nil
			if callsBody {
				bracket("", info, "interpreter "+core.FuncName(p, fd), fd.Pos(), fd.Body.List, isBody, true, true, false)
				if f, ok := info.Defs[fd.Name].(*types.Func); ok {
					wrappers = append(wrappers, f)
				}
			} else {
				bracket("", info, "interpreter "+core.FuncName(p, fd), fd.Pos(), fd.Body.List, isHostCall(info), true, true, true)
			}
		})
		// dispatcher: every caller of the body runner is a wrapper, or calls it in the else-branch of a nil test of the listener
		allowed := map[*types.Func]bool{}
		for _, w := range wrappers {
			allowed[w] = true
		}
		core.AllFuncDecls(p, func(fd *ast.FuncDecl) {
			f, _ := info.Defs[fd.Name].(*types.Func)
			if allowed[f] {
				return
			}
			var stack []ast.Node
			ast.Inspect(fd.Body, func(n ast.Node) bool {
				if n == nil {
					stack = stack[:len(stack)-1]
					return true
				}
				stack = append(stack, n)
				if !isBody(n) {
					return true
				}
				// enclosing if-else chain must test `<x>.listener != nil` (with the wrapper in that branch) and nothing else
				ok := false
				why := "the body runner is called outside a listener test"
				for i := len(stack) - 1; i >= 0; i-- {
					is, isIf := stack[i].(*ast.IfStmt)
					if !isIf {
						continue
					}
					// we are in is.Else (a block) iff the next stack element is is.Else
					if i+1 < len(stack) && stack[i+1] == ast.Node(is.Else) {
						cond := core.ExprStr(is.Cond)
						callsWrapper := core.CallsAny(info, is.Body, allowed) != nil
						if callsWrapper && isPureNilTest(is.Cond) {
							ok = true
						} else if callsWrapper {
							why = "the listener branch is taken only when `" + cond + "`: calls for which the extra condition is false run without Before/After"
						}
						break
					}
				}
				c.Check(ok, "R20.2", "dispatcher "+core.FuncName(p, fd)+" consults the listener before running a body", n.Pos(),
					"the body runner is the else-branch of a pure `listener != nil` test whose then-branch calls the wrapper", why)
				return true
			})
		})
	}
}

func condOf(s ast.Stmt) string {
	if is, ok := s.(*ast.IfStmt); ok {
		return core.ExprStr(is.Cond)
	}
	return ""
}

// isPureNilTest: `x != nil` possibly with an init statement, nothing conjoined.
func isPureNilTest(e ast.Expr) bool {
	be, ok := ast.Unparen(e).(*ast.BinaryExpr)
	if !ok || be.Op != token.NEQ {
		return false
	}
	id, ok := be.Y.(*ast.Ident)
	return ok && id.Name == "nil"
}

// ---------------------------------------------------------------------------------------------------------

func checkAbortCoverage(c *core.Ctx) {
	// (a) order and loop in both recover paths
	for _, e := range []struct{ name, rel string }{{"interpreter", "internal/engine/interpreter"}, {"compiler", wzv}} {
		p := c.Pkg(e.rel)
		if p == nil {
			continue
		}
		info := p.TypesInfo
		found := false
		check := func(name string, pos token.Pos, body *ast.BlockStmt) {
			var abortPos, fromRec token.Pos
			inLoop := false
			var stack []ast.Node
			ast.Inspect(body, func(n ast.Node) bool {
				if n == nil {
					stack = stack[:len(stack)-1]
					return true
				}
				stack = append(stack, n)
				if call, ok := n.(*ast.CallExpr); ok {
					if se, ok := call.Fun.(*ast.SelectorExpr); ok {
						if se.Sel.Name == "Abort" && abortPos == 0 {
							abortPos = call.Pos()
							for _, s := range stack {
								switch s.(type) {
								case *ast.RangeStmt, *ast.ForStmt:
									inLoop = true
								}
							}
						}
						if se.Sel.Name == "FromRecovered" {
							fromRec = call.Pos()
						}
					}
				}
				return true
			})
			if abortPos == 0 {
				return
			}
			// only the recover paths: a helper that is handed a ready error (e.g. for a stack overflow, R20.10) builds none
			recovers := false
			ast.Inspect(body, func(n ast.Node) bool {
				if call, ok := n.(*ast.CallExpr); ok && core.IsBuiltin(info, call, "recover") {
					recovers = true
				}
				return true
			})
			if fromRec == 0 && !recovers {
				return
			}
			found = true
			c.Check(inLoop && fromRec != 0 && fromRec < abortPos, "R20.3", e.name+" recover path notifies Abort for every collected frame in "+name, pos,
				"Abort is called in a loop over the collected listeners, after the error is built",
				"Abort is not called in a loop after FromRecovered: unwound frames with a listener get no Abort (or get it without the error)")
		}
		core.AllFuncDecls(p, func(fd *ast.FuncDecl) {
			check(core.FuncName(p, fd), fd.Pos(), fd.Body)
		})
		_ = info
		if !found {
			c.Violate("R20.3", e.name+" recover path notifies Abort", 0, "no Abort call found in the engine: frames unwound by a trap never complete their Before")
		}
	}
	// (b) no constant cap in the frame walks
	capCheck := func(rel, fnName, what string) {
		for _, fn := range moduleFns(c, rel) {
			if fn.Name() != fnName || fn.Parent() != nil {
				continue
			}
			var bad []string
			for _, b := range fn.Blocks {
				for _, in := range b.Instrs {
					bo, ok := in.(*ssa.BinOp)
					if !ok {
						continue
					}
					switch bo.Op {
					case token.EQL, token.NEQ, token.LSS, token.LEQ, token.GTR, token.GEQ:
					default:
						continue
					}
					isLen := func(v ssa.Value) bool { return derivesFromLen(v, 0) }
					isBigConst := func(v ssa.Value) bool {
						k, ok := v.(*ssa.Const)
						return ok && k.Value != nil && k.Int64() > 1
					}
					if (isLen(bo.X) && isBigConst(bo.Y)) || (isLen(bo.Y) && isBigConst(bo.X)) {
						bad = append(bad, c.Pos(bo.Pos()))
					}
				}
			}
			c.Check(len(bad) == 0, "R20.3", what+" is not cut at a constant number of frames ("+fn.String()+")", fn.Pos(), "no comparison of a frame count with a constant",
				"a frame count is compared with a constant at "+strings.Join(bad, ", ")+": frames beyond that depth get no Abort / are missing from the stack iterator (only the printed trace may be capped, which ErrorBuilder.AddFrame does itself)")
		}
	}
	capCheck("internal/engine/interpreter", "recoverOnCall", "interpreter frame walk")
	capCheck("internal/engine/wazevo/backend/isa/amd64", "UnwindStack", "amd64 native stack walk")
	capCheck("internal/engine/wazevo/backend/isa/arm64", "UnwindStack", "arm64 native stack walk")
}

func derivesFromLen(v ssa.Value, d int) bool {
	if v == nil || d > 6 {
		return false
	}
	switch x := v.(type) {
	case *ssa.Call:
		if b, ok := x.Common().Value.(*ssa.Builtin); ok && b.Name() == "len" {
			// the length of a slice of frames / addresses, not of a byte buffer
			if sl, ok := x.Common().Args[0].Type().Underlying().(*types.Slice); ok {
				if bt, isB := sl.Elem().Underlying().(*types.Basic); isB && bt.Kind() == types.Uint8 {
					return false
				}
				return true
			}
		}
	case *ssa.Phi:
		for _, e := range x.Edges {
			if derivesFromLen(e, d+1) {
				return true
			}
		}
	case *ssa.Convert:
		return derivesFromLen(x.X, d+1)
	case *ssa.UnOp:
		if al, ok := x.X.(*ssa.Alloc); ok {
			for _, r := range *al.Referrers() {
				if st, ok := r.(*ssa.Store); ok && st.Addr == ssa.Value(al) && derivesFromLen(st.Val, d+1) {
					return true
				}
			}
		}
	}
	return false
}

// ---------------------------------------------------------------------------------------------------------

var listenerTables = []keeperLink{
	{wzv, "compiledModule", "listeners", false, "the abort path resolves return addresses to compiled modules and reads their listener table"},
	{wzv, "compiledModule", "listenerBeforeTrampolines", false, "addresses of the before trampolines loaded by generated code"},
	{wzv, "compiledModule", "listenerAfterTrampolines", false, "addresses of the after trampolines loaded by generated code"},
	{wzv, "moduleEngine", "listeners", false, "the trampoline arms index this table"},
	{"internal/engine/interpreter", "compiledFunction", "listener", false, "consulted by the dispatcher and the recover path"},
}

func checkListenerTables(c *core.Ctx) {
	checkLinksNotWrittenOnClose(c, "R20.4", "listener table", listenerTables,
		"clearing it when a module is closed or deleted drops After/Abort events for calls that are still unwinding")
}

// ---------------------------------------------------------------------------------------------------------

func checkIteratorReset(c *core.Ctx) {
	var reset *ssa.Function
	for _, fn := range moduleFns(c, wzv) {
		if fn.Name() == "reset" && fn.Signature.Recv() != nil && strings.Contains(fn.Signature.Recv().Type().String(), "stackIterator") {
			reset = fn
		}
	}
	if reset == nil {
		c.Undecided("R20.5", "stackIterator.reset", 0, "not found")
		return
	}
	isUnwindCall := func(in ssa.Instruction) (bool, *ssa.Function) {
		call, ok := in.(*ssa.Call)
		if !ok {
			return false, nil
		}
		if sc := call.Common().StaticCallee(); sc != nil {
			return strings.Contains(strings.ToLower(sc.Name()), "unwindstack"), sc
		}
		// package-level function variable `unwindStack`
		if u, ok := call.Common().Value.(*ssa.UnOp); ok {
			if g, ok := u.X.(*ssa.Global); ok {
				return strings.Contains(strings.ToLower(g.Name()), "unwindstack"), nil
			}
		}
		return false, nil
	}
	// every path from entry to a return passes an unwind call, directly or through a helper of the same package all of
	// whose paths do (a wrapper is treated as "walks the stack" when all its paths do)
	var bad token.Pos
	var always func(fn *ssa.Function, depth int) bool
	always = func(fn *ssa.Function, depth int) bool {
		if fn == nil || len(fn.Blocks) == 0 || depth > 3 {
			return false
		}
		seen := map[*ssa.BasicBlock]bool{}
		var visit func(b *ssa.BasicBlock) bool
		visit = func(b *ssa.BasicBlock) bool {
			for _, in := range b.Instrs {
				is, callee := isUnwindCall(in)
				if is {
					return true
				}
				if callee != nil && callee.Pkg == fn.Pkg && callee != fn {
					save := bad
					if always(callee, depth+1) {
						bad = save
						return true
					}
					bad = save
				}
			}
			if len(b.Instrs) > 0 {
				if r, ok := b.Instrs[len(b.Instrs)-1].(*ssa.Return); ok {
					bad = r.Pos()
					return false
				}
			}
			for _, s := range b.Succs {
				if seen[s] {
					continue
				}
				seen[s] = true
				if !visit(s) {
					return false
				}
			}
			return true
		}
		return visit(fn.Blocks[0])
	}
	visit := func(b *ssa.BasicBlock) bool { return always(b.Parent(), 0) }
	ok := visit(reset.Blocks[0])
	c.Check(ok, "R20.5", "stack iterator reset re-walks the native stack on every path", reset.Pos(), "every path through "+reset.String()+" calls the unwinder",
		"a path returns at "+c.Pos(bad)+" without walking the stack: the iterator presents the chain of an earlier call (stack/frame pointers do not identify a call chain)")
	sortStrings(nil)
}

func sortStrings(s []string) { sort.Strings(s) }

// ---------------------------------------------------------------------------------------------------------
// R20.6: listener objects captured by a cached compiled module must be covered by the module identity.

func checkListenerIdentity(c *core.Ctx) {
	wp := c.Pkg("internal/wasm")
	if wp == nil {
		return
	}
	// (a) what the identity hash takes from the listeners argument
	var assign *ast.FuncDecl
	core.AllFuncDecls(wp, func(fd *ast.FuncDecl) {
		if fd.Name.Name == "AssignModuleID" {
			assign = fd
		}
	})
	if assign == nil {
		c.Undecided("R20.6", "module identity", 0, "AssignModuleID not found")
		return
	}
	info := wp.TypesInfo
	var lsnParam types.Object
	for _, f := range assign.Type.Params.List {
		for _, n := range f.Names {
			if o := info.Defs[n]; o != nil && strings.Contains(o.Type().String(), "FunctionListener") {
				lsnParam = o
			}
		}
	}
	if lsnParam == nil {
		c.Undecided("R20.6", "module identity", assign.Pos(), "no listeners parameter")
		return
	}
	// element variables of `range listeners`
	elems := map[types.Object]bool{}
	ast.Inspect(assign.Body, func(x ast.Node) bool {
		if rs, ok := x.(*ast.RangeStmt); ok {
			if id, ok := ast.Unparen(rs.X).(*ast.Ident); ok && info.Uses[id] == lsnParam {
				if v, ok := rs.Value.(*ast.Ident); ok {
					if o := info.Defs[v]; o != nil {
						elems[o] = true
					}
				}
			}
		}
		return true
	})
	valueHashed := false // some use of an element other than a nil comparison
	var stack []ast.Node
	ast.Inspect(assign.Body, func(x ast.Node) bool {
		if x == nil {
			stack = stack[:len(stack)-1]
			return true
		}
		stack = append(stack, x)
		id, ok := x.(*ast.Ident)
		if !ok || !elems[info.Uses[id]] {
			return true
		}
		if len(stack) >= 2 {
			if be, ok := stack[len(stack)-2].(*ast.BinaryExpr); ok && (be.Op == token.NEQ || be.Op == token.EQL) {
				if other, ok := be.Y.(*ast.Ident); ok && other.Name == "nil" {
					return true
				}
			}
		}
		valueHashed = true
		return true
	})
	// (b) engines: do they store the listeners argument into the object they cache?
	for _, e := range []struct{ name, rel string }{{"interpreter", "internal/engine/interpreter"}, {"compiler", wzv}} {
		p := c.Pkg(e.rel)
		if p == nil {
			continue
		}
		pinfo := p.TypesInfo
		var captures []string
		core.AllFuncDecls(p, func(fd *ast.FuncDecl) {
			if fd.Type.Params == nil {
				return
			}
			var lp types.Object
			for _, f := range fd.Type.Params.List {
				for _, n := range f.Names {
					if o := pinfo.Defs[n]; o != nil && strings.Contains(o.Type().String(), "[]") && strings.Contains(o.Type().String(), "FunctionListener") {
						lp = o
					}
				}
			}
			if lp == nil {
				return
			}
			derived := map[types.Object]bool{lp: true}
			for i := 0; i < 2; i++ {
				ast.Inspect(fd.Body, func(x ast.Node) bool {
					if as, ok := x.(*ast.AssignStmt); ok && len(as.Lhs) == len(as.Rhs) {
						for j, r := range as.Rhs {
							uses := false
							ast.Inspect(r, func(y ast.Node) bool {
								if id, ok := y.(*ast.Ident); ok && derived[pinfo.Uses[id]] {
									uses = true
								}
								return true
							})
							if !uses {
								continue
							}
							if id, ok := as.Lhs[j].(*ast.Ident); ok {
								if o := pinfo.Defs[id]; o != nil {
									derived[o] = true
								} else if o := pinfo.Uses[id]; o != nil {
									derived[o] = true
								}
							} else if fld := core.FieldOf(pinfo, as.Lhs[j]); fld != nil && i == 1 {
								// only value captures: `len(listeners) > 0` style uses do not reach a field
								if tv := pinfo.Types[r]; tv.Type != nil && strings.Contains(tv.Type.String(), "FunctionListener") {
									captures = append(captures, fmt.Sprintf("%s in %s at %s", fld.Name(), fd.Name.Name, c.Pos(as.Pos())))
								}
							}
						}
					}
					return true
				})
			}
		})
		sort.Strings(captures)
		if len(captures) == 0 {
			c.Discharge("R20.6", e.name+" compiled modules do not capture listener objects", 0, "nothing to cover by the identity")
			continue
		}
		c.Check(valueHashed, "R20.6", "listener objects captured by the "+e.name+"'s cached compiled module are covered by the module identity", assign.Pos(),
			"the identity hash takes the listener values",
			"the engine stores the listener objects in the compiled module it caches by module ID ("+strings.Join(captures, "; ")+") while AssignModuleID hashes only whether each listener is nil: a second CompileModule of the same binary with another listener factory hits the cache and its own listeners never receive an event (the first factory's listeners receive them instead)")
	}
}

// ---------------------------------------------------------------------------------------------------------
// R20.7 StackIterator.Function never returns the iterator itself; R20.8 parallel frame caches are reset together

func checkIteratorValues(c *core.Ctx) {
	ep := c.Pkg("experimental")
	if ep == nil {
		return
	}
	io := ep.Types.Scope().Lookup("StackIterator")
	if io == nil {
		c.Undecided("R20.7", "experimental.StackIterator", 0, "not found")
		return
	}
	iface, _ := io.Type().Underlying().(*types.Interface)
	n := 0
	for _, p := range c.WazeroPkgs() {
		info := p.TypesInfo
		core.AllFuncDecls(p, func(fd *ast.FuncDecl) {
			if fd.Name.Name != "Function" || fd.Recv == nil || len(fd.Recv.List) != 1 || len(fd.Recv.List[0].Names) != 1 {
				return
			}
			recv := info.Defs[fd.Recv.List[0].Names[0]]
			if recv == nil || iface == nil || !types.Implements(recv.Type(), iface) {
				return
			}
			n++
			var bad []string
			ast.Inspect(fd.Body, func(x ast.Node) bool {
				r, ok := x.(*ast.ReturnStmt)
				if !ok || len(r.Results) != 1 {
					return true
				}
				if id, ok := ast.Unparen(r.Results[0]).(*ast.Ident); ok && info.Uses[id] == recv {
					bad = append(bad, "returns the iterator itself at "+c.Pos(r.Pos()))
				}
				return true
			})
			c.Check(len(bad) == 0, "R20.7", "StackIterator.Function of "+core.FuncName(p, fd)+" does not alias the iterator", fd.Pos(), "returns a separate value",
				strings.Join(bad, "; ")+": a listener that keeps the InternalFunction of each frame while it continues to iterate (the MultiFunctionListenerFactory adapter does) sees the last frame's function for every frame")
		})
	}
	if n < 2 {
		c.Undecided("R20.7", "StackIterator implementations", 0, fmt.Sprintf("only %d found", n))
	}
	// R20.8: in the experimental package, slice fields of one struct that are appended side by side are truncated together
	info := ep.TypesInfo
	groups := map[*types.Var]map[*types.Var]bool{} // field → fields appended in the same statement list
	isAppendTo := func(s ast.Stmt) *types.Var {
		as, ok := s.(*ast.AssignStmt)
		if !ok || len(as.Lhs) != 1 || len(as.Rhs) != 1 {
			return nil
		}
		call, ok := as.Rhs[0].(*ast.CallExpr)
		if !ok || !core.IsBuiltin(info, call, "append") {
			return nil
		}
		return core.FieldOf(info, as.Lhs[0])
	}
	core.AllFuncDecls(ep, func(fd *ast.FuncDecl) {
		ast.Inspect(fd.Body, func(x ast.Node) bool {
			blk, ok := x.(*ast.BlockStmt)
			if !ok {
				return true
			}
			var fs []*types.Var
			for _, s := range blk.List {
				if f := isAppendTo(s); f != nil {
					fs = append(fs, f)
				}
			}
			for _, a := range fs {
				for _, b := range fs {
					if a != b {
						if groups[a] == nil {
							groups[a] = map[*types.Var]bool{}
						}
						groups[a][b] = true
					}
				}
			}
			return true
		})
	})
	m := 0
	core.AllFuncDecls(ep, func(fd *ast.FuncDecl) {
		trunc := map[*types.Var]token.Pos{}
		ast.Inspect(fd.Body, func(x ast.Node) bool {
			as, ok := x.(*ast.AssignStmt)
			if !ok || len(as.Lhs) != len(as.Rhs) {
				return true
			}
			for i, l := range as.Lhs {
				f := core.FieldOf(info, l)
				if f == nil {
					continue
				}
				if se, ok := ast.Unparen(as.Rhs[i]).(*ast.SliceExpr); ok && se.Low == nil && se.High != nil {
					if v, ok := core.ConstVal(info, se.High); ok && v == 0 && core.FieldOf(info, se.X) == f {
						trunc[f] = as.Pos()
					}
				}
			}
			return true
		})
		for f, pos := range trunc {
			for sib := range groups[f] {
				m++
				_, ok := trunc[sib]
				c.Check(ok, "R20.8", fmt.Sprintf("%s resets %s together with its parallel cache %s", core.FuncName(ep, fd), f.Name(), sib.Name()), pos, "both truncated in the same function",
					fmt.Sprintf("%s is truncated but %s, which is appended side by side with it, is not: from the second invocation on the adapter pairs the new program counters with the function definitions of the first call chain", f.Name(), sib.Name()))
			}
		}
	})
	c.Count("parallel_cache_resets", m)
}
