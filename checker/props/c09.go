package props

import (
	"fmt"
	"go/ast"
	"go/token"
	"go/types"
	"sort"
	"strings"

	"golang.org/x/tools/go/ssa"

	"verif/checker/core"
)

// C09 Closing and collecting modules never endangers live ones (structural clauses).

func init() {
	core.Register(&core.Property{
		ID:    "C09",
		Level: "other",
		Explanation: "Decided (necessary conditions, for every history of close / drop / collect): (R09.1) executable memory is unmapped only by functions registered as finalizers, and finalizers are never called directly – no Close/Delete path of an instance, compiled module, cache or runtime unmaps code another live object may still run; " +
			"(R09.2) every mapped segment ends up in an object that carries its finalizer on every normal path (mapper summaries propagated to callers), so that unmapping is tied to unreachability of the owner; (R09.3) finalizer-carrying owners are held by pointer only – never copied by value or dereferenced into a copy – so that whoever holds code addresses keeps the one object whose collection unmaps them; " +
			"(R09.4) keep-alive links (table involvement lists, GlobalInstance.Me, memory owner, module-engine parents, function-record lists) are never written on a path reachable from any Close/Delete entry point, and list-typed ones only grow; (R09.5) every address turned into an integer (uintptr) that outlives the statement has a collector-visible keeper: a fresh record is stored in the holder before its address leaves, a foreign object's address is accompanied by storing that object in the holder, or the pointee is owned by the holder itself; " +
			"(R09.6) a linear-memory buffer from a custom allocator is freed only under a guard comparing the memory's owner with the closing instance. " +
			"(R09.7) every interpreter arm, compiler Go-side arm and frontend arm that stores a guest-provided reference into a table registers the reference's defining instance for keep-alive – on this tree none does: this is the hazard named in the property text, demonstrated against the real code (seeded/C09-baseline) and recorded as eight known findings, one per storing arm. " +
			"NOT decided: which values actually flow between instances at run time, references held in globals, absence of crashes in general.",
		Rules: []core.Rule{
			{ID: "R09.9", Template: "T-MUSTPASS", Text: "linking a funcref global records the exporting instance in the importer (genuine interpreter defect found and fixed)", Min: 1},
			{ID: "R09.8", Template: "T-CONSULT", Text: "an engine's compiled-module entry, shared by all compilations of one module ID, is deleted only with its last user (genuine defect found and fixed: found independently by four hunts)", Min: 2},
			{ID: "R09.1", Template: "T-WHOCALLS", Text: "callers of MunmapCodeSegment are registered finalizers; finalizers are only referenced as finalizer arguments", Min: 4},
			{ID: "R09.10", Template: "T-OWN", Text: "instance fields whose element addresses the compiler records as raw integers are not reassigned on close paths", Min: 1},
			{ID: "R09.2", Template: "T-MUSTPASS", Text: "every mapping site reaches the owner's finalizer registration on all normal paths (interprocedural summaries)", Min: 10},
			{ID: "R09.3", Template: "T-OWN", Text: "finalizer-carrying types are never held or copied by value", Min: 2},
			{ID: "R09.4", Template: "T-WHOWRITES", Text: "keep-alive links are not written on close paths; list-typed links only grow", Min: 10},
			{ID: "R09.5", Template: "T-MUSTPASS", Text: "integer-typed addresses that outlive the statement have a collector-visible keeper", Min: 15},
			{ID: "R09.6", Template: "T-CONSULT", Text: "allocator buffers are freed by the owner only", Min: 1},
			{ID: "R09.7", Template: "T-MUSTPASS", Text: "every arm that stores a guest-provided reference into a table registers the defining instance for keep-alive (known findings: none does)", Min: 6},
		},
		Run: runC09,
		Controls: []core.Control{
			{Name: "refcount-threshold-off-by-one", File: "internal/engine/interpreter/interpreter.go", Old: "\tif refs := e.compiledFunctionsRefs[module.ID]; refs > 1 {\n\t\te.compiledFunctionsRefs[module.ID] = refs - 1\n", New: "\tif refs := e.compiledFunctionsRefs[module.ID] - 1; refs > 1 {\n\t\te.compiledFunctionsRefs[module.ID] = refs\n", Rule: "R09.8", Substr: "exactly the last"},
			{Name: "segments-dropped-on-close", File: "internal/wasm/module_instance.go", Old: "\tif m.CodeCloser != nil {\n", New: "\tm.DataInstances, m.ElementInstances = nil, nil\n\tif m.CodeCloser != nil {\n", Rule: "R09.10", Substr: "pinned"},
			{Name: "funcref-global-import-not-pinned", File: "internal/wasm/store.go", Old: "\t\t\t\tif importedGlobal.Type.ValType == ValueTypeFuncref {\n\t\t\t\t\tm.importedFuncrefGlobalOwners = append(m.importedFuncrefGlobalOwners, importedModule)\n\t\t\t\t}\n", New: "", Rule: "R09.9", Substr: "global"},
			{Name: "compiled-entry-deleted-by-any-user", File: "internal/engine/wazevo/engine.go", Old: "\t\tif cm.refCount--; cm.refCount > 0 {\n\t\t\treturn\n\t\t}\n", New: "", Rule: "R09.8", Substr: "compiler"},
			{Name: "delete-unmaps-code", File: "internal/engine/wazevo/engine.go", Old: "\t\tdelete(e.compiledModules, m.ID)\n\t}\n}", New: "\t\tdelete(e.compiledModules, m.ID)\n\t\tif len(cm.executable) > 0 {\n\t\t\t_ = platform.MunmapCodeSegment(cm.executable)\n\t\t}\n\t}\n}", Rule: "R09.1", Substr: "DeleteCompiledModule"},
			{Name: "finalizer-called-on-close", File: "internal/engine/wazevo/engine.go", Old: "\te.compiledModules = nil\n", New: "\te.compiledModules = nil\n\tsharedFunctionsFinalizer(e.sharedFunctions)\n", Rule: "R09.1", Substr: "called directly"},
			{Name: "cache-hit-without-finalizer", File: "internal/engine/wazevo/engine_cache.go", Old: "\t\t// Set the finalizer.\n\t\te.setFinalizer(cm.executables, executablesFinalizer)\n", New: "", Rule: "R09.2", Substr: "CompileModule"},
			{Name: "host-module-without-finalizer", File: "internal/engine/wazevo/engine.go", Old: "\t\t}\n\t}\n\te.setFinalizer(cm.executables, executablesFinalizer)\n\treturn cm, nil\n}\n\n// Close implements", New: "\t\t}\n\t}\n\treturn cm, nil\n}\n\n// Close implements", Rule: "R09.2", Substr: "CompileModule"},
			{Name: "shared-functions-copied", File: "internal/engine/wazevo/engine.go", Old: "// Close implements wasm.Engine.\nfunc (e *engine) Close() (err error) {", New: "func (e *engine) sharedCopy() sharedFunctions { return *e.sharedFunctions }\n\n// Close implements wasm.Engine.\nfunc (e *engine) Close() (err error) {", Rule: "R09.3", Substr: "sharedFunctions"},
			{Name: "close-cuts-global-keeper", File: "internal/wasm/module_instance.go", Old: "\tif m.CodeCloser != nil {\n\t\tif e := m.CodeCloser.Close(ctx); err == nil {", New: "\tfor _, g := range m.Globals {\n\t\tif g != nil && g.Me == m.Engine {\n\t\t\tg.Me = nil\n\t\t}\n\t}\n\tif m.CodeCloser != nil {\n\t\tif e := m.CodeCloser.Close(ctx); err == nil {", Rule: "R09.4", Substr: "GlobalInstance.Me"},
			{Name: "table-keepalive-pruned", File: "internal/wasm/store.go", Old: "\t\t\t\timportedTable.involvingModuleInstances = append(importedTable.involvingModuleInstances, m)\n", New: "\t\t\t\timportedTable.involvingModuleInstances = append(importedTable.involvingModuleInstances[:1], m)\n", Rule: "R09.4", Substr: "involvingModuleInstances"},
			{Name: "function-record-not-retained", File: "internal/engine/wazevo/module_engine.go", Old: "\tm.localFunctionInstances = append(m.localFunctionInstances, lf)\n", New: "", Rule: "R09.5", Substr: "FunctionInstanceReference"},
			{Name: "imported-engine-not-retained", File: "internal/engine/wazevo/module_engine.go", Old: "\tm.importedFunctions[index] = importedFunction{me: importedME, indexInModule: indexInModule}\n", New: "\tm.importedFunctions[index] = importedFunction{indexInModule: indexInModule}\n", Rule: "R09.5", Substr: "ResolveImportedFunction"},
			{Name: "importer-frees-memory", File: "internal/wasm/module_instance.go", Old: "mem != nil && mem.ownerModuleEngine == m.Engine {", New: "mem != nil {", Rule: "R09.6", Substr: "Free"},
		},
		Configs: []core.BuildCfg{{GOOS: "linux", GOARCH: "arm64"}, {GOOS: "windows", GOARCH: "amd64"}, {GOOS: "darwin", GOARCH: "arm64"}},
	})
}

const wzv = "internal/engine/wazevo"

func runC09(c *core.Ctx) {
	checkFuncrefGlobalImportPinsExporter(c)
	checkSharedEntriesRefCounted(c)
	c.SSA()
	fns := moduleFns(c, wzv)
	if len(fns) == 0 {
		c.Undecided("R09.1", "packages", 0, "wazevo package not loaded")
		return
	}
	plat := c.Pkg("internal/platform")
	var mmapFn, munmapFn *types.Func
	if plat != nil {
		mmapFn, _ = plat.Types.Scope().Lookup("MmapCodeSegment").(*types.Func)
		munmapFn, _ = plat.Types.Scope().Lookup("MunmapCodeSegment").(*types.Func)
	}
	if mmapFn == nil || munmapFn == nil {
		c.Undecided("R09.1", "anchors", 0, "platform.MmapCodeSegment / MunmapCodeSegment not found")
		return
	}

	// ---- finalizer registrations
	type reg struct {
		fn   *ssa.Function
		call *ssa.Call
		T    *types.Named
		fin  *ssa.Function
	}
	var regs []reg
	finOf := map[*types.Named]*ssa.Function{}
	finFns := map[*ssa.Function]*types.Named{}
	isFinalizeCall := func(call *ssa.Call) (T *types.Named, fin *ssa.Function, ok bool) {
		com := call.Common()
		if len(com.Args) != 2 || com.IsInvoke() {
			return nil, nil, false
		}
		named := false
		if sc := com.StaticCallee(); sc != nil {
			named = sc.Name() == "SetFinalizer" && sc.Pkg != nil && sc.Pkg.Pkg.Path() == "runtime"
		} else if u, isU := com.Value.(*ssa.UnOp); isU && u.Op == token.MUL {
			if fa, isFA := u.X.(*ssa.FieldAddr); isFA {
				st, _ := derefStructT(fa.X.Type()).Underlying().(*types.Struct)
				named = st != nil && st.Field(fa.Field).Name() == "setFinalizer"
			}
		}
		if !named {
			return nil, nil, false
		}
		mi, ok1 := com.Args[0].(*ssa.MakeInterface)
		mf, ok2 := com.Args[1].(*ssa.MakeInterface)
		if !ok1 || !ok2 {
			return nil, nil, true
		}
		if p, isP := mi.X.Type().Underlying().(*types.Pointer); isP {
			T = core.NamedOf(p.Elem())
		}
		fin, _ = mf.X.(*ssa.Function)
		return T, fin, true
	}
	for _, fn := range fns {
		for _, b := range fn.Blocks {
			for _, in := range b.Instrs {
				call, ok := in.(*ssa.Call)
				if !ok {
					continue
				}
				T, fin, isF := isFinalizeCall(call)
				if !isF {
					continue
				}
				if T == nil || fin == nil {
					c.Undecided("R09.2", "finalizer registration in "+fn.String(), call.Pos(), "object type or finalizer function not syntactically evident")
					continue
				}
				regs = append(regs, reg{fn, call, T, fin})
				if o, dup := finOf[T]; dup && o != fin {
					c.Violate("R09.2", "one finalizer per owner type "+T.Obj().Name(), call.Pos(), "two different finalizers are registered for "+T.Obj().Name())
				}
				finOf[T] = fin
				finFns[fin] = T
			}
		}
	}
	if len(finOf) < 2 {
		c.Undecided("R09.2", "finalizer registrations", 0, fmt.Sprintf("only %d owner types with finalizers found (executables and sharedFunctions expected)", len(finOf)))
		return
	}

	// ---- R09.1 who may unmap
	for _, p := range c.WazeroPkgs() {
		info := p.TypesInfo
		core.AllFuncDecls(p, func(fd *ast.FuncDecl) {
			if p.Types == plat.Types {
				return
			}
			n := 0
			ast.Inspect(fd.Body, func(x ast.Node) bool {
				if call, ok := x.(*ast.CallExpr); ok && core.Callee(info, call) == munmapFn {
					n++
				}
				return true
			})
			if n == 0 {
				return
			}
			isFin := false
			for f := range finFns {
				if f.Object() == info.Defs[fd.Name] {
					isFin = true
				}
			}
			c.Check(isFin, "R09.1", "unmapping in "+core.FuncName(p, fd), fd.Pos(), fmt.Sprintf("%d unmap call(s) inside a registered finalizer", n),
				fmt.Sprintf("%d call(s) to MunmapCodeSegment in a function that is not registered as a finalizer: code is unmapped while instances, function objects or calls in progress may still execute it", n))
		})
	}
	// finalizers only referenced as finalizer arguments
	for f, T := range finFns {
		bad := []string{}
		refs := 0
		for fn := range c.AllFunctions() {
			for _, b := range fn.Blocks {
				for _, in := range b.Instrs {
					for _, op := range in.Operands(nil) {
						if *op != ssa.Value(f) {
							continue
						}
						refs++
						if mi, ok := in.(*ssa.MakeInterface); ok {
							okUse := true
							for _, r := range *mi.Referrers() {
								if call, isC := r.(*ssa.Call); isC {
									if _, _, isF := isFinalizeCall(call); isF {
										continue
									}
								}
								okUse = false
							}
							if okUse {
								continue
							}
						}
						bad = append(bad, c.Pos(in.Pos())+" in "+fn.String())
					}
				}
			}
		}
		sort.Strings(bad)
		c.Check(len(bad) == 0, "R09.1", "finalizer "+f.Name()+" of "+T.Obj().Name()+" is only registered, never called directly", f.Pos(), fmt.Sprintf("%d reference(s), all as finalizer arguments", refs),
			"the finalizer is called directly / used as a value at "+strings.Join(bad, ", ")+": segments are unmapped while their owner is still reachable")
	}

	// ---- R09.2 mapping → finalizer
	checkMappingFinalized(c, fns, mmapFn, finOf, isFinalizeCall)

	// ---- R09.3 no copies of owner types
	{
		p := c.Pkg(wzv)
		info := p.TypesInfo
		var owners []*types.Named
		for T := range finOf {
			owners = append(owners, T)
		}
		sort.Slice(owners, func(i, j int) bool { return owners[i].Obj().Name() < owners[j].Obj().Name() })
		for _, T := range owners {
			var bad []string
			// variables / fields of value type T
			for id, o := range info.Defs {
				if v, ok := o.(*types.Var); ok && types.Identical(v.Type(), T) {
					bad = append(bad, fmt.Sprintf("%s %s declared with value type at %s", map[bool]string{true: "field", false: "variable"}[v.IsField()], id.Name, c.Pos(id.Pos())))
				}
			}
			// dereference copies and value literals
			for _, f := range p.Syntax {
				var stack []ast.Node
				ast.Inspect(f, func(n ast.Node) bool {
					if n == nil {
						stack = stack[:len(stack)-1]
						return true
					}
					stack = append(stack, n)
					switch x := n.(type) {
					case *ast.StarExpr:
						if tv, ok := info.Types[x]; ok && tv.IsValue() && types.Identical(tv.Type, T) {
							// fine when it is the target of an assignment
							if len(stack) > 1 {
								if as, isAs := stack[len(stack)-2].(*ast.AssignStmt); isAs {
									for _, l := range as.Lhs {
										if l == ast.Expr(x) {
											return true
										}
									}
								}
							}
							bad = append(bad, "copy by dereference at "+c.Pos(x.Pos()))
						}
					case *ast.CompositeLit:
						if tv, ok := info.Types[x]; ok && types.Identical(tv.Type, T) {
							if len(stack) > 1 {
								if u, isU := stack[len(stack)-2].(*ast.UnaryExpr); isU && u.Op == token.AND {
									return true
								}
							}
							bad = append(bad, "value literal at "+c.Pos(x.Pos()))
						}
					}
					return true
				})
			}
			sort.Strings(bad)
			c.Check(len(bad) == 0, "R09.3", "owner type "+T.Obj().Name()+" is held by pointer only", T.Obj().Pos(), "no value-typed variable, field, literal or dereference copy",
				"the finalizer-carrying type "+T.Obj().Name()+" is copied by value ("+strings.Join(bad, "; ")+"): the copy holds addresses of segments whose unmapping is tied to the collection of the original, which nothing holding the copy keeps alive")
		}
	}

	// ---- R09.4 keep-alive links
	checkKeeperLinks(c)

	// ---- R09.5 integer addresses
	checkIntegerAddresses(c)

	// ---- R09.6 owner-only free
	checkOwnerFree(c)

	// ---- R09.7 dynamic reference stores
	checkDynamicRefStores(c)

	checkPinnedFieldsNotReassigned(c)
}

// ---------------------------------------------------------------------------------------------------------

func checkMappingFinalized(c *core.Ctx, fns []*ssa.Function, mmapFn *types.Func, finOf map[*types.Named]*ssa.Function,
	isFinalizeCall func(*ssa.Call) (*types.Named, *ssa.Function, bool),
) {
	// finalize sites per function
	finSites := map[*ssa.Function]map[*ssa.Call]*types.Named{}
	for _, fn := range fns {
		for _, b := range fn.Blocks {
			for _, in := range b.Instrs {
				if call, ok := in.(*ssa.Call); ok {
					if T, _, isF := isFinalizeCall(call); isF && T != nil {
						if finSites[fn] == nil {
							finSites[fn] = map[*ssa.Call]*types.Named{}
						}
						finSites[fn][call] = T
					}
				}
			}
		}
	}
	// a helper that registers the finalizer on every path to its return is itself a registration site for its callers
	// (completeCachedModule …): propagated to a fixed point
	for changed := true; changed; {
		changed = false
		for _, fn := range fns {
			if len(fn.Blocks) == 0 || len(finSites[fn]) == 0 {
				continue
			}
			// every path entry → return passes a site
			seen := map[*ssa.BasicBlock]bool{}
			var visit func(b *ssa.BasicBlock) bool
			visit = func(b *ssa.BasicBlock) bool {
				for _, in := range b.Instrs {
					if call, ok := in.(*ssa.Call); ok && finSites[fn][call] != nil {
						return true
					}
				}
				if len(b.Instrs) > 0 {
					if _, ok := b.Instrs[len(b.Instrs)-1].(*ssa.Return); ok {
						return false
					}
				}
				for _, sb := range b.Succs {
					if seen[sb] {
						continue
					}
					seen[sb] = true
					if !visit(sb) {
						return false
					}
				}
				return true
			}
			if !visit(fn.Blocks[0]) {
				continue
			}
			var T *types.Named
			for _, t := range finSites[fn] {
				T = t
			}
			for _, caller := range fns {
				for _, b := range caller.Blocks {
					for _, in := range b.Instrs {
						if call, ok := in.(*ssa.Call); ok && call.Common().StaticCallee() == fn && caller != fn {
							if finSites[caller] == nil {
								finSites[caller] = map[*ssa.Call]*types.Named{}
							}
							if finSites[caller][call] == nil {
								finSites[caller][call] = T
								changed = true
							}
						}
					}
				}
			}
		}
	}
	errIdx := func(fn *ssa.Function) int {
		res := fn.Signature.Results()
		for i := 0; i < res.Len(); i++ {
			if res.At(i).Type().String() == "error" {
				return i
			}
		}
		return -1
	}
	// normalReturn: the return does not report an error for sure-or-maybe.
	normalReturn := func(fn *ssa.Function, r *ssa.Return) bool {
		// a return that hands out nil for a pointer result does not hand out a mapped object
		for _, v := range r.Results {
			if _, isP := v.Type().Underlying().(*types.Pointer); isP {
				if cst, ok := v.(*ssa.Const); ok && cst.IsNil() {
					return false
				}
			}
		}
		k := errIdx(fn)
		if k < 0 || k >= len(r.Results) {
			return true
		}
		v := r.Results[k]
		if cst, ok := v.(*ssa.Const); ok {
			return cst.IsNil()
		}
		// an error path for sure: a freshly built error, or a value tested non-nil on the way here
		switch x := v.(type) {
		case *ssa.MakeInterface:
			return false
		case *ssa.Call:
			if sc := x.Common().StaticCallee(); sc != nil && sc.Pkg != nil {
				if pth := sc.Pkg.Pkg.Path(); (pth == "fmt" && sc.Name() == "Errorf") || (pth == "errors" && sc.Name() == "New") {
					return false
				}
			}
		}
		nonNil := guardedBy(r.Block(), func(cond ssa.Value) int {
			bo, ok := cond.(*ssa.BinOp)
			if !ok || (bo.Op != token.NEQ && bo.Op != token.EQL) {
				return 0
			}
			var other ssa.Value
			if bo.X == v {
				other = bo.Y
			} else if bo.Y == v {
				other = bo.X
			}
			if cst, isC := other.(*ssa.Const); isC && cst.IsNil() {
				if bo.Op == token.NEQ {
					return 1
				}
				return -1
			}
			return 0
		})
		return !nonNil // anything else may be nil: a normal return
	}
	// unfinalizedPath: is there a path from just after `from` to a normal return that passes no finalize site?
	boolAfterMap := map[*ssa.Function]map[int]int{} // mapper → bool result index → 1 (true whenever mapped), -1, 0 unknown
	var normalReturnsAfter func(fn *ssa.Function, from *ssa.Call) []*ssa.Return
	unfinalizedPath := func(fn *ssa.Function, from *ssa.Call) (bool, token.Pos) {
		rs := normalReturnsAfter(fn, from)
		if len(rs) == 0 {
			return false, 0
		}
		return true, rs[0].Pos()
	}
	normalReturnsAfter = func(fn *ssa.Function, from *ssa.Call) []*ssa.Return {
		sites := finSites[fn]
		blockHasFin := func(b *ssa.BasicBlock, after int) bool {
			for i := after; i < len(b.Instrs); i++ {
				if call, ok := b.Instrs[i].(*ssa.Call); ok && sites[call] != nil {
					return true
				}
			}
			return false
		}
		idx := 0
		for i, in := range from.Block().Instrs {
			if in == ssa.Instruction(from) {
				idx = i + 1
			}
		}
		// results of the mapper call itself, for pruning infeasible edges
		isOwn := func(v ssa.Value) (int, bool) { // 1: bool result, 2: error result
			e, ok := v.(*ssa.Extract)
			if !ok || e.Tuple != ssa.Value(from) {
				if v == ssa.Value(from) && from.Type().String() == "error" {
					return 2, true
				}
				return 0, false
			}
			if b, isB := e.Type().Underlying().(*types.Basic); isB && b.Kind() == types.Bool {
				return 1, true
			}
			if e.Type().String() == "error" {
				return 2, true
			}
			return 0, false
		}
		succs := func(b *ssa.BasicBlock) []*ssa.BasicBlock {
			if len(b.Instrs) == 0 {
				return b.Succs
			}
			iff, ok := b.Instrs[len(b.Instrs)-1].(*ssa.If)
			if !ok {
				return b.Succs
			}
			{
				cond, neg := iff.Cond, false
				if u, isU := cond.(*ssa.UnOp); isU && u.Op == token.NOT {
					cond, neg = u.X, true
				}
				if e, isE := cond.(*ssa.Extract); isE && e.Tuple == ssa.Value(from) {
					if sc := from.Common().StaticCallee(); sc != nil {
						switch boolAfterMap[sc][e.Index] {
						case 1: // the callee returns true whenever it mapped something
							if neg {
								return b.Succs[1:]
							}
							return b.Succs[:1]
						case -1:
							if neg {
								return b.Succs[:1]
							}
							return b.Succs[1:]
						}
					}
				}
			}
			if bo, isB := iff.Cond.(*ssa.BinOp); isB && (bo.Op == token.NEQ || bo.Op == token.EQL) {
				var other ssa.Value
				if k, own := isOwn(bo.X); own && k == 2 {
					other = bo.Y
				} else if k, own := isOwn(bo.Y); own && k == 2 {
					other = bo.X
				}
				if cst, isC := other.(*ssa.Const); isC && cst.IsNil() {
					if bo.Op == token.NEQ {
						return b.Succs[1:] // err != nil: mapping failed
					}
					return b.Succs[:1]
				}
			}
			return b.Succs
		}
		seen := map[*ssa.BasicBlock]bool{}
		var out []*ssa.Return
		var visit func(b *ssa.BasicBlock, start int)
		visit = func(b *ssa.BasicBlock, start int) {
			if blockHasFin(b, start) {
				return
			}
			if len(b.Instrs) > 0 {
				if r, ok := b.Instrs[len(b.Instrs)-1].(*ssa.Return); ok {
					if normalReturn(fn, r) {
						out = append(out, r)
					}
					return
				}
			}
			for _, s := range succs(b) {
				if seen[s] {
					continue
				}
				seen[s] = true
				visit(s, 0)
			}
		}
		visit(from.Block(), idx)
		return out
	}
	// knownBool: 1 / -1 when v is known true / false at the end of block b.
	var knownBool func(v ssa.Value, b *ssa.BasicBlock, d int) int
	knownBool = func(v ssa.Value, b *ssa.BasicBlock, d int) int {
		if d > 4 {
			return 0
		}
		if k, ok := v.(*ssa.Const); ok && k.Value != nil {
			if k.Value.String() == "true" {
				return 1
			}
			return -1
		}
		if u, ok := v.(*ssa.UnOp); ok && u.Op == token.NOT {
			return -knownBool(u.X, b, d+1)
		}
		isV := func(want int) func(cond ssa.Value) int {
			return func(cond ssa.Value) int {
				neg := 1
				if u, ok := cond.(*ssa.UnOp); ok && u.Op == token.NOT {
					cond, neg = u.X, -1
				}
				if cond == v {
					return want * neg
				}
				return 0
			}
		}
		if guardedBy(b, isV(1)) {
			return 1
		}
		if guardedBy(b, isV(-1)) {
			return -1
		}
		return 0
	}
	summarize := func(fn *ssa.Function, rets []*ssa.Return) {
		res := fn.Signature.Results()
		m := boolAfterMap[fn]
		first := m == nil
		if first {
			m = map[int]int{}
			boolAfterMap[fn] = m
		}
		for i := 0; i < res.Len(); i++ {
			bt, ok := res.At(i).Type().Underlying().(*types.Basic)
			if !ok || bt.Kind() != types.Bool {
				continue
			}
			val, set := 0, false
			for _, r := range rets {
				k := 0
				if i < len(r.Results) {
					k = knownBool(r.Results[i], r.Block(), 0)
				}
				if !set {
					val, set = k, true
				} else if val != k {
					val = 0
				}
			}
			if first {
				m[i] = val
			} else if m[i] != val {
				m[i] = 0
			}
		}
	}

	// fixpoint over mapper summaries
	mapper := map[*ssa.Function]string{} // fn → why callers must finalize
	isMapper := func(callee *ssa.Function) bool {
		if callee == nil {
			return false
		}
		if callee.Object() == types.Object(mmapFn) {
			return true
		}
		_, ok := mapper[callee]
		return ok
	}
	// rule A: owner types all of whose allocation sites are finalized on every normal path
	ruleA := map[*types.Named]bool{}
	for T := range finOf {
		okAll, n := true, 0
		for _, fn := range fns {
			for _, b := range fn.Blocks {
				for _, in := range b.Instrs {
					al, ok := in.(*ssa.Alloc)
					if !ok || !al.Heap {
						continue
					}
					if core.NamedOf(al.Type().(*types.Pointer).Elem()) != T || !types.Identical(al.Type().(*types.Pointer).Elem(), T) {
						continue
					}
					n++
					// path check starting at the allocation: reuse unfinalizedPath with a pseudo call → scan manually
					if !allocFinalized(fn, al, finSites[fn], T) {
						okAll = false
					}
				}
			}
		}
		ruleA[T] = okAll && n > 0
	}
	type site struct {
		fn   *ssa.Function
		call *ssa.Call
	}
	siteStatus := map[site]string{}
	for iter := 0; iter < 10; iter++ {
		changed := false
		for _, fn := range fns {
			if _, already := mapper[fn]; already {
				continue
			}
			for _, b := range fn.Blocks {
				for _, in := range b.Instrs {
					call, ok := in.(*ssa.Call)
					if !ok || !isMapper(call.Common().StaticCallee()) {
						continue
					}
					s := site{fn, call}
					// destination owner types
					dests := mappingDests(call, finOf)
					allA := len(dests) > 0
					for _, T := range dests {
						if !ruleA[T] {
							allA = false
						}
					}
					if allA {
						siteStatus[s] = "stored into " + dests[0].Obj().Name() + ", every allocation of which is finalized where it is allocated"
						continue
					}
					if bad, pos := unfinalizedPath(fn, call); bad {
						summarize(fn, normalReturnsAfter(fn, call))
						why := fmt.Sprintf("calls %s at %s → normal return at %s without a finalizer", call.Common().StaticCallee().Name(), c.Pos(call.Pos()), c.Pos(pos))
						if sub, ok := mapper[call.Common().StaticCallee()]; ok {
							why += "; " + call.Common().StaticCallee().Name() + " " + sub
						}
						mapper[fn] = why
						delete(siteStatus, s)
						changed = true
					} else {
						siteStatus[s] = "every normal path to a return registers the finalizer"
					}
				}
			}
		}
		if !changed {
			break
		}
	}
	// report: sites
	var keys []site
	for s := range siteStatus {
		if _, isM := mapper[s.fn]; !isM {
			keys = append(keys, s)
		}
	}
	sort.Slice(keys, func(i, j int) bool { return keys[i].call.Pos() < keys[j].call.Pos() })
	cnt := map[string]int{}
	for _, s := range keys {
		name := s.fn.String() + " → " + s.call.Common().StaticCallee().Name()
		cnt[name]++
		c.Discharge("R09.2", fmt.Sprintf("mapping site %s #%d", name, cnt[name]), s.call.Pos(), siteStatus[s])
	}
	// mappers need a caller that finalizes
	callers := map[*ssa.Function][]*ssa.Function{}
	for _, fn := range fns {
		for _, b := range fn.Blocks {
			for _, in := range b.Instrs {
				if call, ok := in.(*ssa.Call); ok {
					if sc := call.Common().StaticCallee(); sc != nil {
						callers[sc] = append(callers[sc], fn)
					}
				}
			}
		}
	}
	var ms []*ssa.Function
	for m := range mapper {
		ms = append(ms, m)
	}
	sort.Slice(ms, func(i, j int) bool { return ms[i].String() < ms[j].String() })
	for _, m := range ms {
		if len(callers[m]) == 0 {
			c.Violate("R09.2", "mapped segments of "+m.String()+" get a finalizer", m.Pos(),
				"the function maps executable memory (or calls one that does) and returns normally without registering the owner's finalizer, and no caller inside the package does it either ("+mapper[m]+"): on the cache-hit / compile path the code is either never unmapped or – when the owner type is shared – unmapped by another object's finalizer")
		} else {
			c.Discharge("R09.2", "mapper summary "+m.String(), m.Pos(), fmt.Sprintf("leaves finalization to its %d in-package caller(s), each checked as a mapping site", len(callers[m])))
		}
	}
}

// allocFinalized: every path from the allocation to a return passes a finalize site for T.
func allocFinalized(fn *ssa.Function, al *ssa.Alloc, sites map[*ssa.Call]*types.Named, T *types.Named) bool {
	has := func(b *ssa.BasicBlock, after int) bool {
		for i := after; i < len(b.Instrs); i++ {
			if call, ok := b.Instrs[i].(*ssa.Call); ok && sites[call] == T {
				return true
			}
		}
		return false
	}
	idx := 0
	for i, in := range al.Block().Instrs {
		if in == ssa.Instruction(al) {
			idx = i + 1
		}
	}
	seen := map[*ssa.BasicBlock]bool{}
	var visit func(b *ssa.BasicBlock, start int) bool
	visit = func(b *ssa.BasicBlock, start int) bool {
		if has(b, start) {
			return true
		}
		if len(b.Instrs) > 0 {
			if _, ok := b.Instrs[len(b.Instrs)-1].(*ssa.Return); ok {
				return false
			}
		}
		for _, s := range b.Succs {
			if seen[s] {
				continue
			}
			seen[s] = true
			if !visit(s, 0) {
				return false
			}
		}
		return true
	}
	return visit(al.Block(), idx)
}

// mappingDests: owner types in whose objects the result of the mapping call is stored (directly).
func mappingDests(call *ssa.Call, finOf map[*types.Named]*ssa.Function) []*types.Named {
	var out []*types.Named
	seen := map[ssa.Value]bool{}
	var ownerOf func(addr ssa.Value, d int) *types.Named
	ownerOf = func(addr ssa.Value, d int) *types.Named {
		if addr == nil || d > 8 {
			return nil
		}
		if p, ok := addr.Type().Underlying().(*types.Pointer); ok {
			if n := core.NamedOf(p.Elem()); n != nil && finOf[n] != nil && types.Identical(p.Elem(), n) {
				return n
			}
		}
		switch x := addr.(type) {
		case *ssa.FieldAddr:
			return ownerOf(x.X, d+1)
		case *ssa.IndexAddr:
			return ownerOf(x.X, d+1)
		case *ssa.UnOp:
			return ownerOf(x.X, d+1)
		}
		return nil
	}
	var follow func(v ssa.Value, d int)
	follow = func(v ssa.Value, d int) {
		if v == nil || seen[v] || d > 6 || v.Referrers() == nil {
			return
		}
		seen[v] = true
		for _, r := range *v.Referrers() {
			switch x := r.(type) {
			case *ssa.Extract:
				follow(x, d+1)
			case *ssa.Phi:
				follow(x, d+1)
			case *ssa.Store:
				if x.Val == v {
					if T := ownerOf(x.Addr, 0); T != nil {
						out = append(out, T)
					} else if al, ok := x.Addr.(*ssa.Alloc); ok {
						// local variable cell: follow loads
						for _, rr := range *al.Referrers() {
							if u, isU := rr.(*ssa.UnOp); isU {
								follow(u, d+1)
							}
						}
					}
				}
			case *ssa.MapUpdate:
				if x.Value == v {
					if T := ownerOf(x.Map, 0); T != nil {
						out = append(out, T)
					}
				}
			}
		}
	}
	follow(call, 0)
	return out
}

// ---------------------------------------------------------------------------------------------------------

type keeperLink struct {
	rel, typ, field string
	growOnly        bool
	why             string
}

var keeperLinks = []keeperLink{
	{"internal/wasm", "TableInstance", "involvingModuleInstances", true, "the only collector-visible tie between function references in a shared table and their defining instances"},
	{"internal/wasm", "ModuleInstance", "importedFuncrefGlobalOwners", true, "the only collector-visible tie between an imported funcref global's value (a raw pointer) and the interpreter instance that defines it"},
	{"internal/wasm", "GlobalInstance", "Me", false, "an importer reaches the exporter's module engine (value storage, function records) only through the shared global"},
	{"internal/wasm", "MemoryInstance", "ownerModuleEngine", false, "an importer's code holds the raw address of the owner's module context"},
	{"internal/wasm", "ModuleInstance", "Engine", false, "function objects and importers reach compiled code through the instance's engine"},
	{"internal/wasm", "ModuleInstance", "Tables", false, "imported tables are retained through the importer's list"},
	{"internal/wasm", "ModuleInstance", "Globals", false, "imported globals are retained through the importer's list"},
	{"internal/wasm", "ModuleInstance", "MemoryInstance", false, "the imported memory is retained through the importer"},
	{wzv, "moduleEngine", "parent", false, "instance → compiled module → executables (mapped code)"},
	{wzv, "moduleEngine", "localFunctionInstances", true, "function records whose raw addresses are in tables and globals"},
	{wzv, "moduleEngine", "importedFunctions", false, "keeps the module engines of imported functions whose raw addresses are in the module context"},
	{wzv, "moduleEngine", "opaque", false, "module context bytes addressed by raw pointers from importers and generated code"},
	{wzv, "compiledModule", "executables", false, "owner of the mapped code"},
	{wzv, "compiledModule", "sharedFunctions", false, "owner of the mapped builtin trampolines whose addresses every call engine carries"},
	{wzv, "callEngine", "parent", false, "function object → instance"},
	{"internal/engine/interpreter", "moduleEngine", "functions", false, "function records whose raw addresses are in tables and globals"},
	{"internal/engine/interpreter", "function", "parent", false, "function record → compiled body"},
	{"internal/engine/interpreter", "function", "moduleInstance", false, "function record → defining instance"},
}

var closeEntryNames = map[string]bool{
	"Close": true, "CloseWithExitCode": true, "closeWithExitCode": true, "CloseWithCtxErr": true, "ensureResourcesClosed": true,
	"DeleteCompiledModule": true, "deleteModule": true, "deleteCompiledFunctions": true, "deleteCompiledModuleFromSortedList": true,
}

func checkKeeperLinks(c *core.Ctx) {
	checkLinksNotWrittenOnClose(c, "R09.4", "keep-alive link", keeperLinks,
		"cutting it when one instance closes lets the collector free (and finalizers unmap) what other live instances still address by raw pointer")
}

func checkLinksNotWrittenOnClose(c *core.Ctx, rule, kind string, table []keeperLink, consequence string) {
	links := map[*types.Var]keeperLink{}
	for _, k := range table {
		f := structField(c, k.rel, k.typ, k.field)
		if f == nil {
			if c.Pkg(k.rel) != nil {
				c.Undecided(rule, kind+" "+k.typ+"."+k.field, 0, "field not found (renamed?): the table must be re-confirmed")
			}
			continue
		}
		links[f] = k
	}
	rels := []string{"", "internal/wasm", wzv, "internal/engine/interpreter"}
	// close-path reachability over the VTA call graph, restricted to wazero's own functions
	cg := c.VTA()
	reach := map[*ssa.Function]*ssa.Function{} // fn → predecessor
	var work []*ssa.Function
	all := moduleFns(c, rels...)
	inScope := map[*ssa.Function]bool{}
	for _, fn := range all {
		inScope[fn] = true
	}
	for _, fn := range all {
		if closeEntryNames[fn.Name()] && fn.Parent() == nil {
			reach[fn] = fn
			work = append(work, fn)
		}
	}
	c.Count(rule+"_close_entry_points", len(work))
	for len(work) > 0 {
		fn := work[0]
		work = work[1:]
		n := cg.Nodes[fn]
		var next []*ssa.Function
		if n != nil {
			for _, e := range n.Out {
				next = append(next, e.Callee.Func)
			}
		}
		for _, an := range fn.AnonFuncs {
			next = append(next, an)
		}
		sort.Slice(next, func(i, j int) bool { return next[i].String() < next[j].String() })
		for _, g := range next {
			if !inScope[g] || reach[g] != nil {
				continue
			}
			reach[g] = fn
			work = append(work, g)
		}
	}
	c.Count(rule+"_close_path_functions", len(reach))
	pathTo := func(fn *ssa.Function) string {
		var parts []string
		for i := 0; fn != nil && i < 12; i++ {
			parts = append([]string{fn.Name()}, parts...)
			if reach[fn] == fn {
				break
			}
			fn = reach[fn]
		}
		return strings.Join(parts, " → ")
	}
	type acc struct {
		closeWrites []string
		shrink      []string
		writes      int
	}
	res := map[*types.Var]*acc{}
	for f := range links {
		res[f] = &acc{}
	}
	for _, fn := range all {
		for _, b := range fn.Blocks {
			for _, in := range b.Instrs {
				st, ok := in.(*ssa.Store)
				if !ok {
					continue
				}
				// direct field store, or store into an element of the field's slice
				var fld *types.Var
				direct := false
				if fa, ok := st.Addr.(*ssa.FieldAddr); ok {
					fld = fieldOfAddr(fa)
					direct = true
				} else if ia, ok := st.Addr.(*ssa.IndexAddr); ok {
					if u, ok := ia.X.(*ssa.UnOp); ok {
						if fa, ok := u.X.(*ssa.FieldAddr); ok {
							fld = fieldOfAddr(fa)
						}
					}
				} else if fa2, ok := st.Addr.(*ssa.FieldAddr); ok {
					_ = fa2
				}
				if fld == nil {
					// store into a field of an element: x.f[i].g = v
					if fa, ok := st.Addr.(*ssa.FieldAddr); ok {
						if ia, ok := fa.X.(*ssa.IndexAddr); ok {
							if u, ok := ia.X.(*ssa.UnOp); ok {
								if fa0, ok := u.X.(*ssa.FieldAddr); ok {
									fld = fieldOfAddr(fa0)
								}
							}
						}
					}
				}
				k, isLink := links[fld]
				if !isLink {
					// x.f[i].g where direct field g isn't a link but container f is
					if fa, ok := st.Addr.(*ssa.FieldAddr); ok && direct {
						if ia, ok := fa.X.(*ssa.IndexAddr); ok {
							if u, ok := ia.X.(*ssa.UnOp); ok {
								if fa0, ok := u.X.(*ssa.FieldAddr); ok {
									if k2, is2 := links[fieldOfAddr(fa0)]; is2 {
										fld, k, isLink, direct = fieldOfAddr(fa0), k2, true, false
									}
								}
							}
						}
					}
					if !isLink {
						continue
					}
				}
				a := res[fld]
				a.writes++
				if reach[fn] != nil {
					a.closeWrites = append(a.closeWrites, fmt.Sprintf("%s (close path: %s)", c.Pos(st.Pos()), pathTo(fn)))
				}
				if k.growOnly && direct && !isAppendOfSelf(st.Val, fld) && !isFreshObject(st.Addr) {
					a.shrink = append(a.shrink, c.Pos(st.Pos())+" in "+fn.String())
				}
			}
		}
	}
	var fs []*types.Var
	for f := range links {
		fs = append(fs, f)
	}
	sort.Slice(fs, func(i, j int) bool {
		return links[fs[i]].typ+links[fs[i]].field < links[fs[j]].typ+links[fs[j]].field
	})
	for _, f := range fs {
		k, a := links[f], res[f]
		name := k.typ + "." + k.field
		c.Check(len(a.closeWrites) == 0, rule, kind+" "+name+" is not written on close paths", f.Pos(), fmt.Sprintf("%d write(s), none reachable from a Close/Delete entry point", a.writes),
			"it is written at "+strings.Join(a.closeWrites, "; ")+" – "+k.why+"; "+consequence)
		if k.growOnly {
			c.Check(len(a.shrink) == 0, rule, "keep-alive list "+name+" only grows", f.Pos(), "every assignment is append(<the same list>, …)",
				"the list is rebuilt / truncated at "+strings.Join(a.shrink, "; ")+": an instance whose function references may still be in use is dropped from it – "+k.why)
		}
	}
}

func fieldOfAddr(fa *ssa.FieldAddr) *types.Var {
	st, _ := derefStructT(fa.X.Type()).Underlying().(*types.Struct)
	if st == nil {
		return nil
	}
	return st.Field(fa.Field)
}

// isAppendOfSelf: v = append(load(&x.fld), …) with the first argument loaded from the same field (not a sub-slice).
func isAppendOfSelf(v ssa.Value, fld *types.Var) bool {
	call, ok := v.(*ssa.Call)
	if !ok {
		return false
	}
	b, ok := call.Common().Value.(*ssa.Builtin)
	if !ok || b.Name() != "append" || len(call.Common().Args) == 0 {
		return false
	}
	u, ok := call.Common().Args[0].(*ssa.UnOp)
	if !ok {
		return false
	}
	fa, ok := u.X.(*ssa.FieldAddr)
	return ok && fieldOfAddr(fa) == fld
}

// isFreshObject: the address is a field of an object allocated in this function (constructor initialisation).
func isFreshObject(addr ssa.Value) bool {
	fa, ok := addr.(*ssa.FieldAddr)
	if !ok {
		return false
	}
	_, isAlloc := fa.X.(*ssa.Alloc)
	return isAlloc
}

// ---------------------------------------------------------------------------------------------------------

// integerAddrExempt: sites whose keeper lives outside the function, one construct each.
var integerAddrExempt = map[string]string{
	"(*internal/engine/wazevo.moduleEngine).ResolveImportedMemory|importedModuleEngine": "the memory instance is retained by the importer's ModuleInstance.MemoryInstance (internal/wasm resolveImports) and the owner's module engine by MemoryInstance.ownerModuleEngine; both are in the R09.4 link table",
	"internal/engine/wazevo.buildHostModuleOpaque|m":                                    "the module is retained by compiledModule.module / ModuleInstance.Source of the instance that owns the returned bytes",
	"internal/engine/wazevo.buildHostModuleOpaque|listeners":                            "the slice is retained by moduleEngine.listeners, assigned from the same compiled.listeners by the only caller",
}

func checkIntegerAddresses(c *core.Ctx) {
	fns := moduleFns(c, wzv, "internal/engine/interpreter")
	n := 0
	for _, fn := range fns {
		per := map[string]int{}
		for _, b := range fn.Blocks {
			for _, in := range b.Instrs {
				cv, ok := in.(*ssa.Convert)
				if !ok {
					continue
				}
				bt, ok := cv.Type().Underlying().(*types.Basic)
				if !ok || bt.Kind() != types.Uintptr {
					continue
				}
				if xb, ok := cv.X.Type().Underlying().(*types.Basic); !ok || xb.Kind() != types.UnsafePointer {
					continue
				}
				if !integerEscapes(cv, 0, map[ssa.Value]bool{}) {
					continue
				}
				// the typed pointer behind the unsafe.Pointer
				var ptr ssa.Value
				if c2, ok := cv.X.(*ssa.Convert); ok {
					ptr = c2.X
				} else if c2, ok := cv.X.(*ssa.ChangeType); ok {
					ptr = c2.X
				}
				if ptr == nil {
					c.Undecided("R09.5", "integer address in "+fn.String(), cv.Pos(), "unsafe.Pointer operand is not a direct conversion of a typed pointer")
					continue
				}
				roots := addrRoots(ptr, 0, map[ssa.Value]bool{})
				n++
				var recv ssa.Value
				if fn.Signature.Recv() != nil && len(fn.Params) > 0 {
					recv = fn.Params[0]
				} else if fn.Parent() != nil && len(fn.FreeVars) > 0 {
					recv = nil
				}
				status, detail, construct := "", "", ""
				for _, r := range roots {
					switch x := r.(type) {
					case *ssa.Alloc:
						construct = "fresh " + strings.TrimPrefix(x.Type().String(), "*github.com/tetratelabs/wazero/")
						if x == ptr || derefsTo(ptr, x) {
							if storedElsewhere(x, cv) {
								status, detail = "ok", "the fresh record is stored in a collector-visible place before its address leaves"
							} else {
								status, detail = "bad", "the address of a freshly allocated record leaves as an integer but the record itself is stored nowhere: the collector frees it while tables, globals or generated code still hold the address"
							}
						} else {
							status, detail = "ok", "pointee reached through a local object"
						}
					case *ssa.Parameter:
						construct = x.Name()
						if x == recv || recv == nil && fn.Signature.Recv() == nil && len(fn.Params) > 0 && x == fn.Params[0] && isCallEngineLike(x) {
							status, detail = "ok", "pointee is owned by / reachable from the holder itself (receiver)"
						} else if recv != nil && holderEmbeddedIn(recv.Type(), x.Type()) {
							status, detail = "ok", "the holder is a value-typed field of "+x.Name()+"'s own struct: it lives and dies with the object whose addresses it records"
						} else if storedElsewhereParam(x, fn) {
							status, detail = "ok", "the foreign object "+x.Name()+" is stored in the holder alongside its raw address"
						} else if storedByEveryCaller(x, fn, fns) {
							status, detail = "ok", "the foreign object "+x.Name()+" is stored in the holder by the function(s) that hand it to this step"
						} else if why, ok := integerAddrExempt[strings.ReplaceAll(fn.String(), "github.com/tetratelabs/wazero/", "")+"|"+x.Name()]; ok {
							status, detail = "ok", "keeper outside the function: "+why
						} else {
							status, detail = "bad", "the raw address of something reachable from "+x.Name()+" is stored, but "+x.Name()+" itself is not stored in the holder: nothing collector-visible ties the holder to it once the other instance is closed and dropped"
						}
					case *ssa.Call:
						construct = "result of " + calleeName(x)
						if sc := x.Common().StaticCallee(); sc != nil && (sc.Name() == "MmapCodeSegment" || sc.Name() == "mmapExecutable") {
							status, detail = "ok", "address inside a mapped segment (not collector-managed; lifetime decided by R09.1/R09.2)"
						} else {
							status, detail = "undecided", "pointee is the result of a call whose ownership is not classified"
						}
					case *ssa.FreeVar:
						construct = x.Name()
						status, detail = "ok", "captured variable of the enclosing call (transient)"
					case *ssa.Global:
						construct = x.Name()
						status, detail = "ok", "package-level object"
					default:
						construct = fmt.Sprintf("%T", r)
						status, detail = "undecided", "pointee origin not classified: "+r.String()
					}
					if status != "ok" {
						break
					}
				}
				if len(roots) == 0 {
					status, detail, construct = "undecided", "no root found for the pointee", "?"
				}
				key := fmt.Sprintf("integer address of %s in %s", construct, fn.String())
				per[key]++
				key = fmt.Sprintf("%s #%d", key, per[key])
				switch status {
				case "ok":
					c.Discharge("R09.5", key, cv.Pos(), detail)
				case "bad":
					c.Violate("R09.5", key, cv.Pos(), detail)
				default:
					c.Undecided("R09.5", key, cv.Pos(), detail)
				}
			}
		}
	}
	c.Count("integer_address_sites", n)
}

func isCallEngineLike(p *ssa.Parameter) bool { return false }

// holderEmbeddedIn: the holder's struct type is the type of a value-typed field of the other object's struct.
func holderEmbeddedIn(holder, other types.Type) bool {
	hn := core.NamedOf(holder)
	st, _ := derefStructT(other).Underlying().(*types.Struct)
	if hn == nil || st == nil {
		return false
	}
	for i := 0; i < st.NumFields(); i++ {
		if types.Identical(st.Field(i).Type(), hn) {
			return true
		}
	}
	return false
}

// integerEscapes: the integer is returned, stored outside local variables, appended, or passed to a callee in which the
// corresponding parameter escapes (summaries, depth-limited); comparisons and arithmetic are not references.
func integerEscapes(v ssa.Value, d int, seen map[ssa.Value]bool) bool {
	if v == nil || seen[v] || d > 10 || v.Referrers() == nil {
		return false
	}
	seen[v] = true
	for _, r := range *v.Referrers() {
		switch x := r.(type) {
		case *ssa.Convert:
			if integerEscapes(x, d+1, seen) {
				return true
			}
		case *ssa.ChangeType:
			if integerEscapes(x, d+1, seen) {
				return true
			}
		case *ssa.Phi:
			if integerEscapes(x, d+1, seen) {
				return true
			}
		case *ssa.Return, *ssa.MapUpdate, *ssa.MakeInterface, *ssa.Send:
			return true
		case *ssa.Store:
			if x.Val != v {
				continue
			}
			if al, ok := x.Addr.(*ssa.Alloc); ok && !isStructAlloc(al) {
				// a local variable (possibly captured): follow its loads
				if cellEscapes(al, d+1, seen) {
					return true
				}
				continue
			}
			return true
		case *ssa.Call:
			com := x.Common()
			if b, ok := com.Value.(*ssa.Builtin); ok {
				if b.Name() == "append" {
					return true
				}
				continue
			}
			callee := com.StaticCallee()
			if callee == nil {
				return true // dynamic call: assume it keeps the value
			}
			if callee.Blocks == nil {
				// assembly / external: keeps nothing beyond the call, except the byte-order writers
				if strings.HasPrefix(callee.Name(), "Put") || strings.HasPrefix(callee.Name(), "Append") {
					return true
				}
				continue
			}
			if callee.Pkg != nil && !strings.HasPrefix(callee.Pkg.Pkg.Path(), "github.com/tetratelabs/wazero") {
				if strings.HasPrefix(callee.Name(), "Put") || strings.HasPrefix(callee.Name(), "Append") {
					return true
				}
				continue
			}
			for i, a := range com.Args {
				if a == v && i < len(callee.Params) {
					if integerEscapes(callee.Params[i], d+1, seen) {
						return true
					}
				}
			}
		case *ssa.BinOp:
			// arithmetic / comparison: an offset or a test, not a reference
		}
	}
	return false
}

func cellEscapes(al *ssa.Alloc, d int, seen map[ssa.Value]bool) bool {
	for _, r := range *al.Referrers() {
		switch x := r.(type) {
		case *ssa.UnOp:
			if integerEscapes(x, d, seen) {
				return true
			}
		case *ssa.MakeClosure:
			fn := x.Fn.(*ssa.Function)
			for i, bnd := range x.Bindings {
				if bnd == ssa.Value(al) && i < len(fn.FreeVars) {
					for _, rr := range *fn.FreeVars[i].Referrers() {
						if u, ok := rr.(*ssa.UnOp); ok && integerEscapes(u, d, seen) {
							return true
						}
					}
				}
			}
		}
	}
	return false
}

// addrRoots strips field/index/load steps and returns the base objects.
func addrRoots(v ssa.Value, d int, seen map[ssa.Value]bool) []ssa.Value {
	if v == nil || seen[v] || d > 16 {
		return nil
	}
	seen[v] = true
	switch x := v.(type) {
	case *ssa.FieldAddr:
		return addrRoots(x.X, d+1, seen)
	case *ssa.IndexAddr:
		return addrRoots(x.X, d+1, seen)
	case *ssa.Field:
		return addrRoots(x.X, d+1, seen)
	case *ssa.Index:
		return addrRoots(x.X, d+1, seen)
	case *ssa.Lookup:
		return addrRoots(x.X, d+1, seen)
	case *ssa.UnOp:
		if al, ok := x.X.(*ssa.Alloc); ok && !isStructAlloc(al) {
			// local variable cell: roots of whatever is stored in it
			var out []ssa.Value
			for _, r := range *al.Referrers() {
				if st, ok := r.(*ssa.Store); ok && st.Addr == ssa.Value(al) {
					out = append(out, addrRoots(st.Val, d+1, seen)...)
				}
			}
			if len(out) > 0 {
				return out
			}
		}
		return addrRoots(x.X, d+1, seen)
	case *ssa.Slice:
		return addrRoots(x.X, d+1, seen)
	case *ssa.TypeAssert:
		return addrRoots(x.X, d+1, seen)
	case *ssa.ChangeType:
		return addrRoots(x.X, d+1, seen)
	case *ssa.Convert:
		return addrRoots(x.X, d+1, seen)
	case *ssa.ChangeInterface:
		return addrRoots(x.X, d+1, seen)
	case *ssa.MakeInterface:
		return addrRoots(x.X, d+1, seen)
	case *ssa.Extract:
		return addrRoots(x.Tuple, d+1, seen)
	case *ssa.Phi:
		var out []ssa.Value
		for _, e := range x.Edges {
			out = append(out, addrRoots(e, d+1, seen)...)
		}
		return out
	case *ssa.Call:
		// accessor method on some object: the object is the root (m.getX())
		if sc := x.Common().StaticCallee(); sc != nil && sc.Signature.Recv() != nil && len(x.Common().Args) > 0 {
			return addrRoots(x.Common().Args[0], d+1, seen)
		}
		return []ssa.Value{x}
	}
	return []ssa.Value{v}
}

func isStructAlloc(al *ssa.Alloc) bool {
	_, ok := al.Type().(*types.Pointer).Elem().Underlying().(*types.Struct)
	return ok
}

func derefsTo(v ssa.Value, al *ssa.Alloc) bool {
	for i := 0; i < 6 && v != nil; i++ {
		if v == ssa.Value(al) {
			return true
		}
		switch x := v.(type) {
		case *ssa.FieldAddr:
			v = x.X
		case *ssa.IndexAddr:
			v = x.X
		default:
			return false
		}
	}
	return false
}

// storedElsewhere: the allocated record's address is stored / appended somewhere other than through the integer conversion.
func storedElsewhere(al *ssa.Alloc, except *ssa.Convert) bool {
	for _, r := range *al.Referrers() {
		switch x := r.(type) {
		case *ssa.Store:
			if x.Val == ssa.Value(al) {
				return true
			}
		case *ssa.MapUpdate:
			if x.Value == ssa.Value(al) {
				return true
			}
		case *ssa.Call:
			if b, ok := x.Common().Value.(*ssa.Builtin); ok && b.Name() == "append" {
				return true
			}
		case *ssa.Slice, *ssa.MakeInterface:
			return true
		}
	}
	// append(xs, lf) compiles to a store of lf into a fresh array that is then sliced
	return false
}

// storedElsewhereParam: the parameter (or a type-asserted form of it) is stored by the function.
// storedByEveryCaller: fn is a step of a split function: every call of fn in the package passes, for parameter p, a
// parameter of the caller that the caller stores (one level up).
func storedByEveryCaller(p *ssa.Parameter, fn *ssa.Function, fns []*ssa.Function) bool {
	idx := -1
	for i, q := range fn.Params {
		if q == p {
			idx = i
		}
	}
	if idx < 0 {
		return false
	}
	sites := 0
	for _, caller := range fns {
		for _, b := range caller.Blocks {
			for _, in := range b.Instrs {
				call, ok := in.(*ssa.Call)
				if !ok || call.Common().StaticCallee() != fn || caller == fn {
					continue
				}
				sites++
				args := call.Common().Args
				if idx >= len(args) {
					return false
				}
				if cp, ok := args[idx].(*ssa.Parameter); ok && storedElsewhereParam(cp, caller) {
					continue
				}
				// or the argument is reached through the caller's own receiver, which is also the receiver of fn: the pointee
				// is owned by / reachable from the holder itself
				if caller.Signature.Recv() != nil && fn.Signature.Recv() != nil && len(caller.Params) > 0 && args[0] == ssa.Value(caller.Params[0]) && idx > 0 {
					roots := addrRoots(args[idx], 0, map[ssa.Value]bool{})
					all := len(roots) > 0
					for _, r := range roots {
						if r != ssa.Value(caller.Params[0]) {
							all = false
						}
					}
					if all {
						continue
					}
				}
				return false
			}
		}
	}
	return sites > 0
}

func storedElsewhereParam(p *ssa.Parameter, fn *ssa.Function) bool {
	vals := map[ssa.Value]bool{p: true}
	for _, r := range *p.Referrers() {
		switch x := r.(type) {
		case *ssa.TypeAssert:
			vals[x] = true
			if x.CommaOk {
				for _, rr := range *x.Referrers() {
					if e, ok := rr.(*ssa.Extract); ok && e.Index == 0 {
						vals[e] = true
					}
				}
			}
		case *ssa.ChangeInterface, *ssa.ChangeType:
			vals[x.(ssa.Value)] = true
		}
	}
	for _, b := range fn.Blocks {
		for _, in := range b.Instrs {
			if st, ok := in.(*ssa.Store); ok && vals[st.Val] {
				return true
			}
		}
	}
	return false
}

// ---------------------------------------------------------------------------------------------------------

func checkOwnerFree(c *core.Ctx) {
	exp := c.Pkg("experimental")
	if exp == nil {
		c.Undecided("R09.6", "anchors", 0, "experimental package not loaded")
		return
	}
	lm, _ := exp.Types.Scope().Lookup("LinearMemory").(*types.TypeName)
	owner := structField(c, "internal/wasm", "MemoryInstance", "ownerModuleEngine")
	if lm == nil || owner == nil {
		c.Undecided("R09.6", "anchors", 0, "experimental.LinearMemory / MemoryInstance.ownerModuleEngine not found")
		return
	}
	n := 0
	for _, fn := range moduleFns(c, "internal/wasm", "", wzv, "internal/engine/interpreter") {
		for _, b := range fn.Blocks {
			for _, in := range b.Instrs {
				call, ok := in.(*ssa.Call)
				if !ok || !call.Common().IsInvoke() || call.Common().Method.Name() != "Free" {
					continue
				}
				if core.NamedOf(call.Common().Value.Type()) == nil || core.NamedOf(call.Common().Value.Type()).Obj() != lm {
					continue
				}
				n++
				loads := func(v ssa.Value) bool {
					u, ok := v.(*ssa.UnOp)
					if !ok {
						return false
					}
					fa, ok := u.X.(*ssa.FieldAddr)
					return ok && fieldOfAddr(fa) == owner
				}
				// a predicate of the package whose every true result is the owner comparison (ownsMemory)
				ownerPredicate := func(f *ssa.Function) bool {
					if f == nil || f.Blocks == nil || f.Pkg != fn.Pkg {
						return false
					}
					found := false
					var okVal func(v ssa.Value, d int) bool
					okVal = func(v ssa.Value, d int) bool {
						if d > 6 {
							return false
						}
						switch x := v.(type) {
						case *ssa.Const:
							return x.Value != nil && x.Value.String() == "false"
						case *ssa.BinOp:
							if x.Op == token.EQL && (loads(x.X) || loads(x.Y)) {
								found = true
								return true
							}
						case *ssa.Phi:
							for _, e := range x.Edges {
								if !okVal(e, d+1) {
									return false
								}
							}
							return true
						}
						return false
					}
					for _, bb := range f.Blocks {
						if r, ok := bb.Instrs[len(bb.Instrs)-1].(*ssa.Return); ok {
							if len(r.Results) != 1 || !okVal(r.Results[0], 0) {
								return false
							}
						}
					}
					return found
				}
				guarded := guardedBy(b, func(cond ssa.Value) int {
					if pc, isCall := cond.(*ssa.Call); isCall && ownerPredicate(pc.Common().StaticCallee()) {
						return 1
					}
					bo, ok := cond.(*ssa.BinOp)
					if !ok || (bo.Op != token.EQL && bo.Op != token.NEQ) {
						return 0
					}
					if loads(bo.X) || loads(bo.Y) {
						if bo.Op == token.EQL {
							return 1
						}
						return -1
					}
					return 0
				})
				c.Check(guarded, "R09.6", "LinearMemory.Free in "+fn.String(), call.Pos(), "dominated by a comparison of the memory's owner with the closing instance's engine",
					"the allocator's buffer is freed without checking that the closing instance owns the memory: closing an importer releases the buffer the exporter and other importers still read and write")
			}
		}
	}
	if n == 0 {
		c.Undecided("R09.6", "LinearMemory.Free call sites", 0, "no call found")
	}
}

// ---------------------------------------------------------------------------------------------------------
// R09.7: references of dynamic provenance stored into a table need a keep-alive registration.

func checkDynamicRefStores(c *core.Ctx) {
	refs := structField(c, "internal/wasm", "TableInstance", "References")
	if refs == nil {
		c.Undecided("R09.7", "anchors", 0, "TableInstance.References not found")
		return
	}
	growOnly := map[string]bool{}
	for _, k := range keeperLinks {
		if k.growOnly {
			growOnly[k.field] = true
		}
	}
	// does the node contain a registration: an assignment to a grow-only keep-alive list, or a call of a method that does
	registers := func(info *types.Info, n ast.Node) bool {
		found := false
		ast.Inspect(n, func(x ast.Node) bool {
			if as, ok := x.(*ast.AssignStmt); ok {
				for _, l := range as.Lhs {
					if f := core.FieldOf(info, l); f != nil && growOnly[f.Name()] {
						found = true
					}
				}
			}
			if call, ok := x.(*ast.CallExpr); ok {
				if f := core.Callee(info, call); f != nil {
					ln := strings.ToLower(f.Name())
					if strings.Contains(ln, "keepalive") || strings.Contains(ln, "involv") {
						found = true
					}
				}
			}
			return !found
		})
		return found
	}
	type armSite struct {
		what string
		pos  token.Pos
	}
	goSide := func(rel, engine string) {
		p := c.Pkg(rel)
		if p == nil {
			return
		}
		info := p.TypesInfo
		isRefsExpr := func(e ast.Expr, locals map[types.Object]bool) bool {
			hit := false
			ast.Inspect(e, func(x ast.Node) bool {
				switch y := x.(type) {
				case *ast.SelectorExpr:
					if info.Uses[y.Sel] == types.Object(refs) {
						hit = true
					}
				case *ast.Ident:
					if locals[info.Uses[y]] {
						hit = true
					}
				}
				return !hit
			})
			return hit
		}
		core.AllFuncDecls(p, func(fd *ast.FuncDecl) {
			ast.Inspect(fd.Body, func(x ast.Node) bool {
				cc, ok := x.(*ast.CaseClause)
				if !ok || len(cc.List) == 0 {
					return true
				}
				label := core.ExprStr(cc.List[0])
				// locals bound to (slices of) some table's References inside this arm
				locals := map[types.Object]bool{}
				own := false
				for iter := 0; iter < 3; iter++ {
					for _, s := range cc.Body {
						ast.Inspect(s, func(y ast.Node) bool {
							if _, nested := y.(*ast.CaseClause); nested {
								return false
							}
							if as, ok := y.(*ast.AssignStmt); ok && len(as.Lhs) == len(as.Rhs) {
								for i, r := range as.Rhs {
									if isRefsExpr(r, locals) {
										if id, ok := as.Lhs[i].(*ast.Ident); ok {
											if o := info.Defs[id]; o != nil {
												locals[o] = true
											} else if o := info.Uses[id]; o != nil {
												locals[o] = true
											}
										}
									}
								}
							}
							return true
						})
					}
				}
				var sites []armSite
				for _, s := range cc.Body {
					ast.Inspect(s, func(y ast.Node) bool {
						if _, nested := y.(*ast.CaseClause); nested {
							return false
						}
						switch z := y.(type) {
						case *ast.AssignStmt:
							for _, l := range z.Lhs {
								if ix, ok := l.(*ast.IndexExpr); ok && isRefsExpr(ix.X, locals) {
									sites = append(sites, armSite{"element store", z.Pos()})
								}
							}
						case *ast.CallExpr:
							if core.IsBuiltin(info, z, "copy") && len(z.Args) == 2 && isRefsExpr(z.Args[0], locals) {
								// own provenance: the source is one of the instance's element instances
								if strings.Contains(strings.ToLower(core.ExprStr(z.Args[1])), "element") {
									own = true
								} else {
									sites = append(sites, armSite{"bulk copy", z.Pos()})
								}
							}
							if f := core.Callee(info, z); f != nil && f.Name() == "Grow" && core.RecvNameOf(f) == "TableInstance" {
								sites = append(sites, armSite{"Grow with a reference argument", z.Pos()})
							}
						}
						return true
					})
				}
				if len(sites) == 0 {
					return true
				}
				_ = own
				reg := false
				for _, s := range cc.Body {
					if registers(info, s) {
						reg = true
					}
				}
				c.Check(reg, "R09.7", engine+" arm "+label+" stores a guest-provided reference into a table", sites[0].pos,
					"the arm registers the reference's defining instance in a keep-alive list of the table",
					fmt.Sprintf("%s (%d site(s)) without any keep-alive registration: a function reference obtained from another instance (as a value) and stored in this instance's private table does not keep its defining instance reachable; after that instance and its compiled module are closed and collected, call_indirect through the slot jumps into unmapped code (compiler) or reads a reused function record (interpreter)", sites[0].what, len(sites)))
				return true
			})
		})
	}
	goSide("internal/engine/interpreter", "interpreter")
	goSide(wzv, "compiler Go-side")

	// generated code: frontend arms writing table memory
	if p := c.Pkg("internal/engine/wazevo/frontend"); p != nil {
		info := p.TypesInfo
		core.AllFuncDecls(p, func(fd *ast.FuncDecl) {
			ast.Inspect(fd.Body, func(x ast.Node) bool {
				cc, ok := x.(*ast.CaseClause)
				if !ok || len(cc.List) == 0 {
					return true
				}
				label := core.ExprStr(cc.List[0])
				if !strings.HasPrefix(label, "wasm.Opcode") {
					return true
				}
				tableAddr, writes, ownSrc, exits := false, false, false, false
				var pos token.Pos
				for _, s := range cc.Body {
					ast.Inspect(s, func(y ast.Node) bool {
						if _, nested := y.(*ast.CaseClause); nested {
							return false
						}
						switch z := y.(type) {
						case *ast.CallExpr:
							if f := core.Callee(info, z); f != nil {
								switch {
								case f.Name() == "loadTableBaseAddr" || f.Name() == "lowerAccessTableWithBoundsCheck":
									tableAddr = true
								case f.Name() == "AsStore" || f.Name() == "callMemmove":
									writes = true
									if pos == 0 {
										pos = z.Pos()
									}
								}
							}
						case *ast.SelectorExpr:
							if strings.Contains(z.Sel.Name, "ElementInstances") {
								ownSrc = true
							}
							if strings.HasPrefix(z.Sel.Name, "ExitCode") || strings.Contains(z.Sel.Name, "TrampolineAddress") {
								exits = true
							}
						}
						return true
					})
				}
				if !tableAddr || !writes || ownSrc {
					return true
				}
				c.Check(exits, "R09.7", "compiler frontend arm "+label+" emits a store of a guest-provided reference into table memory", pos,
					"the arm leaves to the Go side, where a keep-alive registration can be made",
					"the generated code writes the reference straight into the table and never leaves to the Go side, so no keep-alive registration of the reference's defining instance is possible (same hazard as the interpreter arms)")
				return true
			})
		})
	}
}
