package props

import (
	"fmt"
	"go/ast"
	"go/token"
	"go/types"
	"golang.org/x/tools/go/packages"
	"sort"
	"strings"

	"golang.org/x/tools/go/ssa"

	"verif/checker/core"
)

// Rules added after the fourth round of seeded changes.

// isFlagValue reports whether v is a 0/1 value: the result of a call to a function from one bool to an integer, a
// conversion of one, or a phi of the constants 0 and 1.
func isFlagValue(v ssa.Value, depth int) bool {
	if depth > 4 {
		return false
	}
	switch x := v.(type) {
	case *ssa.Call:
		if f := x.Common().StaticCallee(); f != nil {
			sig := f.Signature
			if sig.Params().Len() == 1 && sig.Results().Len() == 1 {
				pb, _ := sig.Params().At(0).Type().Underlying().(*types.Basic)
				rb, _ := sig.Results().At(0).Type().Underlying().(*types.Basic)
				return pb != nil && pb.Kind() == types.Bool && rb != nil && rb.Info()&types.IsInteger != 0
			}
		}
	case *ssa.Convert:
		return isFlagValue(x.X, depth+1)
	case *ssa.Phi:
		for _, e := range x.Edges {
			k, ok := e.(*ssa.Const)
			if !ok || k.Value == nil || (k.Value.String() != "0" && k.Value.String() != "1") {
				return false
			}
		}
		return len(x.Edges) > 0
	}
	return false
}

// checkIDFlagsInjective (R12.10): the module identity keeps its boolean inputs apart: two 0/1 flags are never combined
// with an operator that maps different flag pairs to one value (|, +, ^, & of unshifted flags) before they are hashed.
func checkIDFlagsInjective(c *core.Ctx, fn *ssa.Function) {
	fns := []*ssa.Function{fn}
	for _, b := range fn.Blocks {
		for _, in := range b.Instrs {
			if call, ok := in.(*ssa.Call); ok {
				if f := call.Common().StaticCallee(); f != nil && f.Blocks != nil && f.Pkg == fn.Pkg {
					fns = append(fns, f)
				}
			}
		}
	}
	bad := ""
	var pos token.Pos
	n := 0
	for _, f := range fns {
		for _, b := range f.Blocks {
			for _, in := range b.Instrs {
				bo, ok := in.(*ssa.BinOp)
				if !ok {
					continue
				}
				switch bo.Op {
				case token.OR, token.ADD, token.XOR, token.AND:
				default:
					continue
				}
				n++
				if isFlagValue(bo.X, 0) && isFlagValue(bo.Y, 0) {
					bad = fmt.Sprintf("two 0/1 flags are combined with %s without being shifted apart in %s", bo.Op, f.Name())
					pos = bo.Pos()
				}
			}
		}
	}
	c.Check(bad == "", "R12.10", "identity inputs are kept apart (no two unshifted flags merged into one hashed byte)", pos,
		fmt.Sprintf("%d arithmetic combinations in the identity function and its helpers, none of two flag values", n),
		bad+": configurations that differ in which of the two options is set get the same identity and share cache entries and compiled code")
}

// listenerPresenceForm prints the way a boolean is derived from its function's parameters, through one level of helper.
func listenerPresenceForm(v ssa.Value, depth int) string {
	if depth > 6 {
		return "…"
	}
	switch x := v.(type) {
	case *ssa.Parameter:
		return "param:" + x.Type().String()
	case *ssa.Const:
		if x.Value == nil {
			return "nil"
		}
		return x.Value.String()
	case *ssa.BinOp:
		a, b := listenerPresenceForm(x.X, depth+1), listenerPresenceForm(x.Y, depth+1)
		op := x.Op
		// normalise 0 < len, len != 0, len >= 1 to len > 0
		if op == token.LSS && a == "0" {
			a, b, op = b, a, token.GTR
		}
		if op == token.NEQ && b == "0" && strings.HasPrefix(a, "len(") {
			op = token.GTR
		}
		if op == token.GEQ && b == "1" && strings.HasPrefix(a, "len(") {
			op, b = token.GTR, "0"
		}
		return "(" + a + " " + op.String() + " " + b + ")"
	case *ssa.Call:
		if bi, ok := x.Common().Value.(*ssa.Builtin); ok {
			var as []string
			for _, a := range x.Common().Args {
				as = append(as, listenerPresenceForm(a, depth+1))
			}
			return bi.Name() + "(" + strings.Join(as, ",") + ")"
		}
		if f := x.Common().StaticCallee(); f != nil {
			var as []string
			for _, a := range x.Common().Args {
				as = append(as, listenerPresenceForm(a, depth+1))
			}
			return "call " + f.String() + "(" + strings.Join(as, ",") + ")"
		}
	case *ssa.UnOp:
		return x.Op.String() + listenerPresenceForm(x.X, depth+1)
	case *ssa.ChangeType:
		return listenerPresenceForm(x.X, depth+1)
	}
	return fmt.Sprintf("opaque<%T at %d>", v, v.Pos())
}

// checkListenerPresenceAgrees (R12.11): the compile path and the cache-hit path lay the module context out from the same
// notion of "compiled with listeners": every NewModuleContextOffsetData call in the engine derives its flag the same way.
func checkListenerPresenceAgrees(c *core.Ctx) {
	forms := map[string][]string{}
	var pos token.Pos
	n := 0
	for _, fn := range moduleFns(c, "internal/engine/wazevo") {
		for _, b := range fn.Blocks {
			for _, in := range b.Instrs {
				call, ok := in.(*ssa.Call)
				if !ok {
					continue
				}
				f := call.Common().StaticCallee()
				if f == nil || f.Name() != "NewModuleContextOffsetData" || len(call.Common().Args) < 2 {
					continue
				}
				n++
				form := listenerPresenceForm(call.Common().Args[1], 0)
				forms[form] = append(forms[form], fn.Name())
				pos = call.Pos()
			}
		}
	}
	if n < 2 {
		c.Undecided("R12.11", "listener presence agreement", 0, fmt.Sprintf("%d NewModuleContextOffsetData call sites in the engine, expected the compile path and the cache-hit path", n))
		return
	}
	var keys []string
	for k := range forms {
		keys = append(keys, k+" in "+strings.Join(forms[k], ","))
	}
	sort.Strings(keys)
	c.Check(len(forms) == 1, "R12.11", "compile path and cache-hit path agree on whether the module has listeners", pos,
		fmt.Sprintf("%d call sites, one derivation: %s", n, strings.Join(keys, "; ")),
		"the module context layout is computed from different notions of listener presence ("+strings.Join(keys, "; ")+"): a module compiled on one path and loaded from the cache on the other has different offsets for the same machine code")
}

// checkReadViewCapped (R14.11): the view handed out by Memory.Read ends, by capacity too, where the checked range ends:
// with capacity reserved beyond the size (capacity-from-max, shared memories) an append on an uncapped view writes into
// pages that are not yet part of the memory, and a later grow exposes them non-zero.
func checkReadViewCapped(c *core.Ctx) {
	n := 0
	for _, fn := range moduleFns(c, "internal/wasm") {
		if fn.Name() != "Read" || fn.Signature.Recv() == nil || core.NamedOf(fn.Signature.Recv().Type()) == nil ||
			core.NamedOf(fn.Signature.Recv().Type()).Obj().Name() != "MemoryInstance" {
			continue
		}
		for _, b := range fn.Blocks {
			for _, in := range b.Instrs {
				ret, ok := in.(*ssa.Return)
				if !ok || len(ret.Results) == 0 {
					continue
				}
				sl, ok := ret.Results[0].(*ssa.Slice)
				if !ok {
					continue
				}
				n++
				ok2 := sl.Max != nil && sl.High != nil && sameSSA(sl.Max, sl.High)
				c.Check(ok2, "R14.11", fmt.Sprintf("MemoryInstance.Read view #%d is capped at its end", n), sl.Pos(),
					"three-index slice with capacity equal to the end of the checked range",
					"the returned slice keeps the capacity of the whole backing array: an append on it writes past the checked range, and past the current size when capacity is reserved from the maximum, so a later grow exposes non-zero pages")
			}
		}
	}
	if n == 0 {
		c.Undecided("R14.11", "MemoryInstance.Read view", 0, "no slice of the buffer returned by MemoryInstance.Read")
	}
}

// checkFSOnlyOfDirectories (R15.9): a WASI function takes the file system of a descriptor entry only once the entry is
// known to be a directory (or the file system is tested for nil): entries such as pre-opened listeners have none.
func checkFSOnlyOfDirectories(c *core.Ctx) {
	n := 0
	for _, fn := range moduleFns(c, "imports/wasi_snapshot_preview1") {
		// edges known to be "is a directory" / "has a file system" / "path resolved"
		var proof []*ssa.BasicBlock
		for _, b := range fn.Blocks {
			if len(b.Instrs) == 0 {
				continue
			}
			iff, ok := b.Instrs[len(b.Instrs)-1].(*ssa.If)
			if !ok {
				continue
			}
			cond, neg := iff.Cond, false
			if u, ok := cond.(*ssa.UnOp); ok && u.Op == token.NOT {
				cond, neg = u.X, true
			}
			good := -1
			switch x := cond.(type) {
			case *ssa.Extract:
				if call, ok := x.Tuple.(*ssa.Call); ok && x.Index == 0 && call.Common().IsInvoke() && call.Common().Method.Name() == "IsDir" {
					good = 0
				}
			case *ssa.BinOp:
				// f.FS != nil ; errno == 0 / errno != 0 of a path resolution
				isNil := func(v ssa.Value) bool { k, ok := v.(*ssa.Const); return ok && k.Value == nil }
				if (x.Op == token.NEQ || x.Op == token.EQL) && (isNil(x.Y) || isNil(x.X)) {
					other := x.X
					if isNil(x.X) {
						other = x.Y
					}
					if isFSLoad(other) {
						if x.Op == token.NEQ {
							good = 0
						} else {
							good = 1
						}
					}
				}
				if ex, ok := x.X.(*ssa.Extract); ok && (x.Op == token.NEQ || x.Op == token.EQL) {
					if call, ok := ex.Tuple.(*ssa.Call); ok {
						if f := call.Common().StaticCallee(); f != nil && returnsFS(f) {
							if k, ok := x.Y.(*ssa.Const); ok && k.Value != nil && k.Value.String() == "0" {
								if x.Op == token.EQL {
									good = 0
								} else {
									good = 1
								}
							}
						}
					}
				}
			}
			if good < 0 {
				continue
			}
			if neg {
				good = 1 - good
			}
			s := b.Succs[good]
			if len(s.Preds) == 1 {
				proof = append(proof, s)
			}
		}
		for _, b := range fn.Blocks {
			for _, in := range b.Instrs {
				v, ok := in.(ssa.Value)
				if !ok || !isFSLoad(v) || v.Referrers() == nil {
					continue
				}
				for _, u := range *v.Referrers() {
					what := ""
					switch x := u.(type) {
					case *ssa.Return:
						what = "returned"
					case *ssa.Call:
						if x.Common().IsInvoke() && x.Common().Value == v {
							what = "called (" + x.Common().Method.Name() + ")"
						} else {
							what = "passed on"
						}
					case *ssa.BinOp:
						continue // the nil test itself
					default:
						continue
					}
					n++
					ok2 := false
					for _, p := range proof {
						if p.Dominates(u.Block()) {
							ok2 = true
						}
					}
					c.Check(ok2, "R15.9", fmt.Sprintf("WASI %s: the file system of a descriptor entry is %s only for a directory", fn.Name(), what), u.Pos(),
						"dominated by the is-a-directory edge of IsDir, a nil test of the file system, or a successful path resolution",
						"the entry's file system is used on a path where the entry is not known to be a directory: a pre-opened TCP listener (pre-open, no file system) passed as the directory of a path_* call makes the host call a method on a nil interface – a Go runtime error instead of ENOTDIR")
				}
			}
		}
	}
	if n == 0 {
		c.Undecided("R15.9", "uses of FileEntry.FS in the WASI functions", 0, "none found")
	}
}

func isFSLoad(v ssa.Value) bool {
	u, ok := v.(*ssa.UnOp)
	if !ok || u.Op != token.MUL {
		return false
	}
	fa, ok := u.X.(*ssa.FieldAddr)
	if !ok {
		return false
	}
	st, _ := derefStructT(fa.X.Type()).Underlying().(*types.Struct)
	if st == nil || st.Field(fa.Field).Name() != "FS" {
		return false
	}
	n := core.NamedOf(fa.X.Type())
	return n != nil && n.Obj().Name() == "FileEntry"
}

// returnsFS: a function of the WASI package whose first result is a file system and last an errno (atPath).
func returnsFS(f *ssa.Function) bool {
	res := f.Signature.Results()
	if res.Len() < 2 {
		return false
	}
	n0, n1 := core.NamedOf(res.At(0).Type()), core.NamedOf(res.At(res.Len()-1).Type())
	return n0 != nil && n0.Obj().Name() == "FS" && n1 != nil && n1.Obj().Name() == "Errno"
}

// declOf returns the declaration of f in package p (nil for functions of other packages).
func declOf(p *packages.Package, f *types.Func) *ast.FuncDecl {
	var out *ast.FuncDecl
	core.AllFuncDecls(p, func(g *ast.FuncDecl) {
		if p.TypesInfo.Defs[g.Name] == types.Object(f) && g.Body != nil {
			out = g
		}
	})
	return out
}

// ---- call entries (R07.3 pre-check, R07.7): decided on SSA so that the form of the test (select/default inline, a
// predicate helper, a one-level helper doing the whole check) does not matter.

func ssaCalleeIs(call ssa.CallInstruction, f *types.Func) bool {
	sc := call.Common().StaticCallee()
	return sc != nil && sc.Object() == types.Object(f)
}

// instrBefore: a executes before b on some path of their (common) function and never after it on a path without loops.
func instrBefore(a, b ssa.Instruction) bool {
	if a.Block() == b.Block() {
		return instrIndex(a) < instrIndex(b)
	}
	return blockReaches(a.Block(), b.Block())
}

// consultsDone: the function contains a non-blocking receive from a Done() channel, itself or through a callee of its
// package (one level).
func consultsDone(fn *ssa.Function, depth int) bool {
	for _, b := range fn.Blocks {
		for _, in := range b.Instrs {
			switch x := in.(type) {
			case *ssa.Select:
				if x.Blocking {
					continue
				}
				for _, st := range x.States {
					if call, ok := st.Chan.(*ssa.Call); ok && call.Common().IsInvoke() && call.Common().Method.Name() == "Done" {
						return true
					}
				}
			case *ssa.Call:
				if f := x.Common().StaticCallee(); f != nil && f.Pkg == fn.Pkg && f.Blocks != nil && depth < 1 && consultsDone(f, depth+1) {
					return true
				}
			}
		}
	}
	return false
}

type callEntryFacts struct {
	entry    *ssa.Function
	watcher  ssa.Instruction
	pre      bool   // done context: closes with the context error and returns FailIfClosed's error, before the watcher
	polls    bool   // context not done: FailIfClosed consulted and used, before the watcher
	preWhere string // the function holding the pre-check
}

// callEntries returns the facts of every function of the package that starts the cancellation watcher.
func callEntries(c *core.Ctx, rel string, closeOnCancel, closeWithCtxErr, failIfClosed *types.Func) []*callEntryFacts {
	var out []*callEntryFacts
	fns := moduleFns(c, rel)
	sort.Slice(fns, func(i, j int) bool { return fns[i].String() < fns[j].String() })
	for _, fn := range fns {
		if fn.Parent() != nil {
			continue
		}
		var w ssa.Instruction
		for _, b := range fn.Blocks {
			for _, in := range b.Instrs {
				if call, ok := in.(ssa.CallInstruction); ok && ssaCalleeIs(call, closeOnCancel) {
					w = in
				}
			}
		}
		if w == nil {
			continue
		}
		f := &callEntryFacts{entry: fn, watcher: w}
		out = append(out, f)
		// the functions in which the check may live: the entry, and the helpers it calls before the watcher
		type cand struct {
			g    *ssa.Function
			site ssa.Instruction // nil for the entry itself
		}
		cands := []cand{{fn, nil}}
		for _, b := range fn.Blocks {
			for _, in := range b.Instrs {
				if call, ok := in.(*ssa.Call); ok {
					if h := call.Common().StaticCallee(); h != nil && h.Pkg == fn.Pkg && h.Blocks != nil && h != fn && instrBefore(in, w) {
						cands = append(cands, cand{h, in})
					}
				}
			}
		}
		for _, cd := range cands {
			g := cd.g
			inScope := func(in ssa.Instruction) bool { return cd.site != nil || !instrBefore(w, in) } // not after the watcher is started
			var k ssa.Instruction
			for _, b := range g.Blocks {
				for _, in := range b.Instrs {
					if call, ok := in.(ssa.CallInstruction); ok && ssaCalleeIs(call, closeWithCtxErr) && inScope(in) {
						k = in
					}
				}
			}
			for _, b := range g.Blocks {
				for _, in := range b.Instrs {
					call, ok := in.(*ssa.Call)
					if !ok || !ssaCalleeIs(call, failIfClosed) || !inScope(in) {
						continue
					}
					afterK := k != nil && (k.Block() == b && instrIndex(k) < instrIndex(in) || k.Block() != b && k.Block().Dominates(b))
					used := call.Referrers() != nil && len(*call.Referrers()) > 0
					if afterK {
						// returned on the done path
						for _, u := range *call.Referrers() {
							// (with a deferred recover the result is first stored in the named result)
							_, isRet := u.(*ssa.Return)
							if st, ok := u.(*ssa.Store); ok && st.Val == ssa.Value(call) {
								_, isRet = st.Addr.(*ssa.Alloc)
							}
							if isRet && consultsDone(g, 0) {
								f.pre, f.preWhere = true, g.Name()
							}
						}
					} else if used {
						f.polls = true
					}
				}
			}
		}
	}
	return out
}

// armScope returns the node itself and the bodies of the functions of package p called directly inside it (one level):
// what an arm does, whether inline or through a helper.
func armScope(p *packages.Package, n ast.Node) []ast.Node {
	out := []ast.Node{n}
	seen := map[*ast.FuncDecl]bool{}
	ast.Inspect(n, func(x ast.Node) bool {
		if call, ok := x.(*ast.CallExpr); ok {
			if f := core.Callee(p.TypesInfo, call); f != nil && f.Pkg() == p.Types {
				if hd := declOf(p, f); hd != nil && !seen[hd] {
					seen[hd] = true
					out = append(out, hd.Body)
				}
			}
		}
		return true
	})
	return out
}

// ---- rules added after the fifth round of seeded changes ----

// isLebDecode reports whether call decodes an unsigned LEB128 (leb128.DecodeUint32 / LoadUint32).
func isLebDecode(info *types.Info, call *ast.CallExpr) bool {
	f := core.Callee(info, call)
	return f != nil && f.Pkg() != nil && strings.HasSuffix(f.Pkg().Path(), "/leb128") && strings.Contains(f.Name(), "Uint32")
}

// checkReservedImmediatesOneByte (R03.18): where the validator demands that a decoded index immediate is zero (a reserved
// memory index), it also demands that it was encoded in one byte: both engines skip exactly one byte for it, so a longer
// encoding of zero makes them decode the padding as instructions that were never validated.
func checkReservedImmediatesOneByte(c *core.Ctx) {
	p := c.Pkg("internal/wasm")
	if p == nil {
		return
	}
	info := p.TypesInfo
	n := 0
	core.AllFuncDecls(p, func(fd *ast.FuncDecl) {
		// value and size results of the decodes of this function
		sizeOf := map[types.Object]types.Object{}
		ast.Inspect(fd.Body, func(x ast.Node) bool {
			as, ok := x.(*ast.AssignStmt)
			if !ok || len(as.Lhs) != 3 || len(as.Rhs) != 1 {
				return true
			}
			call, ok := as.Rhs[0].(*ast.CallExpr)
			if !ok || !isLebDecode(info, call) {
				return true
			}
			v, ok1 := as.Lhs[0].(*ast.Ident)
			s, ok2 := as.Lhs[1].(*ast.Ident)
			if !ok1 || !ok2 {
				return true
			}
			obj := func(id *ast.Ident) types.Object {
				if o := info.Defs[id]; o != nil {
					return o
				}
				return info.Uses[id]
			}
			if ov := obj(v); ov != nil {
				sizeOf[ov] = obj(s)
			}
			return true
		})
		if len(sizeOf) == 0 {
			return
		}
		ast.Inspect(fd.Body, func(x ast.Node) bool {
			is, ok := x.(*ast.IfStmt)
			if !ok || len(is.Body.List) == 0 {
				return true
			}
			if _, rejects := is.Body.List[0].(*ast.ReturnStmt); !rejects {
				return true
			}
			var val types.Object
			ast.Inspect(is.Cond, func(y ast.Node) bool {
				if be, ok := y.(*ast.BinaryExpr); ok && be.Op == token.NEQ {
					if id, ok := ast.Unparen(be.X).(*ast.Ident); ok {
						if k, isK := core.ConstVal(info, be.Y); isK && k == 0 {
							if _, dec := sizeOf[info.Uses[id]]; dec {
								val = info.Uses[id]
							}
						}
					}
				}
				return true
			})
			if val == nil {
				return true
			}
			n++
			size := sizeOf[val]
			sized := false
			scan := func(node ast.Node) {
				ast.Inspect(node, func(y ast.Node) bool {
					if be, ok := y.(*ast.BinaryExpr); ok && (be.Op == token.NEQ || be.Op == token.GTR) {
						if id, ok := ast.Unparen(be.X).(*ast.Ident); ok && size != nil && info.Uses[id] == size {
							if _, isK := core.ConstVal(info, be.Y); isK {
								sized = true
							}
						}
					}
					// or a helper of the package given the size (one level)
					if call, ok := y.(*ast.CallExpr); ok {
						if f := core.Callee(info, call); f != nil && f.Pkg() == p.Types {
							for _, a := range call.Args {
								if id, ok := ast.Unparen(a).(*ast.Ident); ok && size != nil && info.Uses[id] == size {
									if hd := declOf(p, f); hd != nil && comparesCount(info, hd.Body) {
										sized = true
									}
								}
							}
						}
					}
					return true
				})
			}
			scan(is.Cond)
			c.Check(sized, "R03.18", fmt.Sprintf("validator %s: reserved zero immediate #%d is required to be one byte long", fd.Name.Name, n), is.Pos(),
				"the rejecting condition also bounds the number of bytes the immediate was decoded from",
				"the validator accepts any LEB128 encoding of the reserved zero index (e.g. 80 80 00) while both engines skip exactly one byte for it: the padding bytes are then executed as opcodes that were never validated (compile-time panic `index out of range [-1]`, or code other than what was validated)")
			return true
		})
	})
	if n == 0 {
		c.Undecided("R03.18", "reserved zero immediates of the validator", 0, "no `decoded value != 0 → reject` found")
	}
}

// checkBrTableSkipsDefault (R03.19): where the interpreter's lowering skips the immediates of a br_table in dead code, it
// reads the default label too (count+1 labels): otherwise the default label is decoded as the next opcode.
func checkBrTableSkipsDefault(c *core.Ctx) {
	p := c.Pkg("internal/engine/interpreter")
	if p == nil {
		return
	}
	info := p.TypesInfo
	found := false
	core.AllFuncDecls(p, func(fd *ast.FuncDecl) {
		ast.Inspect(fd.Body, func(x ast.Node) bool {
			cc, ok := x.(*ast.CaseClause)
			if !ok || len(cc.List) == 0 || constNameOf(info, cc.List[0]) != "OpcodeBrTable" {
				return true
			}
			// the count: first result of the first decode of the arm
			var count types.Object
			ast.Inspect(cc, func(y ast.Node) bool {
				if as, ok := y.(*ast.AssignStmt); ok && count == nil && len(as.Lhs) == 3 && len(as.Rhs) == 1 {
					if call, ok := as.Rhs[0].(*ast.CallExpr); ok && isLebDecode(info, call) {
						if id, ok := as.Lhs[0].(*ast.Ident); ok {
							count = info.Defs[id]
						}
					}
				}
				return true
			})
			if count == nil {
				return true
			}
			// the dead-code branch: an if whose body only skips (loops over decodes, emits nothing)
			for _, st := range cc.Body {
				is, ok := st.(*ast.IfStmt)
				if !ok {
					continue
				}
				for _, sn := range armScope(p, is.Body) {
					var stmts []ast.Stmt
					if b, ok := sn.(*ast.BlockStmt); ok {
						stmts = b.List
					}
					for i, s2 := range stmts {
						fs, ok := s2.(*ast.ForStmt)
						if !ok || fs.Cond == nil {
							continue
						}
						decodes := false
						ast.Inspect(fs.Body, func(y ast.Node) bool {
							if call, ok := y.(*ast.CallExpr); ok && isLebDecode(info, call) {
								decodes = true
							}
							return true
						})
						be, ok := ast.Unparen(fs.Cond).(*ast.BinaryExpr)
						if !decodes || !ok {
							continue
						}
						found = true
						inclusive := be.Op == token.LEQ
						if be.Op == token.LSS {
							// count+1 as the bound, or one more decode after the loop
							if y, ok := ast.Unparen(be.Y).(*ast.BinaryExpr); ok && y.Op == token.ADD {
								if k, isK := core.ConstVal(info, y.Y); isK && k == 1 {
									inclusive = true
								}
							}
							for _, s3 := range stmts[i+1:] {
								ast.Inspect(s3, func(y ast.Node) bool {
									if call, ok := y.(*ast.CallExpr); ok && isLebDecode(info, call) {
										inclusive = true
									}
									return true
								})
							}
						}
						c.Check(inclusive, "R03.19", "interpreter lowering: a br_table in dead code skips its default label too", fs.Pos(),
							"the skipping loop reads count+1 labels",
							"the loop that skips the immediates of a br_table in unreachable code reads only `count` labels: the default label is then decoded as the next opcode – a valid module is refused ('type index out of range'), or the compilation panics, on the interpreter only")
					}
				}
			}
			return true
		})
	})
	if !found {
		c.Undecided("R03.19", "dead-code br_table skipping of the interpreter lowering", 0, "not found")
	}
}

// checkCondMapsAreInvolutions (R05.6): a total mapping of condition codes onto condition codes written as a switch
// (negation, operand swap) is an involution: f(f(c)) = c. A table copied from a sibling with one entry left unchanged is
// not.
func checkCondMapsAreInvolutions(c *core.Ctx) {
	n := 0
	for _, rel := range []string{"internal/engine/wazevo/backend/isa/amd64", "internal/engine/wazevo/backend/isa/arm64", "internal/engine/wazevo/ssa"} {
		p := c.Pkg(rel)
		if p == nil {
			continue
		}
		info := p.TypesInfo
		core.AllFuncDecls(p, func(fd *ast.FuncDecl) {
			if fd.Recv == nil || len(fd.Recv.List) != 1 || len(fd.Recv.List[0].Names) != 1 || fd.Type.Params.NumFields() != 0 || fd.Type.Results.NumFields() != 1 {
				return
			}
			rt := info.TypeOf(fd.Recv.List[0].Type)
			if rt == nil || !types.Identical(rt, info.TypeOf(fd.Type.Results.List[0].Type)) {
				return
			}
			if b, ok := rt.Underlying().(*types.Basic); !ok || b.Info()&types.IsInteger == 0 {
				return
			}
			if len(fd.Body.List) != 1 {
				return
			}
			sw, ok := fd.Body.List[0].(*ast.SwitchStmt)
			if !ok || sw.Tag == nil {
				return
			}
			if id, ok := ast.Unparen(sw.Tag).(*ast.Ident); !ok || info.Uses[id] != info.Defs[fd.Recv.List[0].Names[0]] {
				return
			}
			m := map[string]string{}
			identityDefault := false
			for _, s := range sw.Body.List {
				cc := s.(*ast.CaseClause)
				if len(cc.Body) != 1 {
					return
				}
				rs, ok := cc.Body[0].(*ast.ReturnStmt)
				if !ok || len(rs.Results) != 1 {
					if cc.List == nil {
						continue // default: panic
					}
					return
				}
				to := constNameOf(info, rs.Results[0])
				if cc.List == nil {
					if id, ok := rs.Results[0].(*ast.Ident); ok && info.Uses[id] == info.Defs[fd.Recv.List[0].Names[0]] {
						identityDefault = true
					}
					continue
				}
				if to == "" {
					return
				}
				for _, l := range cc.List {
					if from := constNameOf(info, l); from != "" {
						m[from] = to
					}
				}
			}
			if len(m) < 4 {
				return
			}
			n++
			var bad []string
			for from, to := range m {
				back, ok := m[to]
				if !ok && identityDefault {
					back = to
					ok = true
				}
				if ok && back != from {
					bad = append(bad, fmt.Sprintf("%s→%s→%s", from, to, back))
				}
			}
			sort.Strings(bad)
			c.Check(len(bad) == 0, "R05.6", fmt.Sprintf("%s %s.%s is an involution", core.Rel(p.PkgPath), types.TypeString(rt, func(*types.Package) string { return "" }), fd.Name.Name), fd.Pos(),
				fmt.Sprintf("%d entries, f(f(c)) = c for each", len(m)),
				"the table maps "+strings.Join(bad, ", ")+": negating or swapping a comparison twice must give the comparison back; one entry disagrees with its sibling, so a comparison lowered through this table computes another relation for some operands")
		})
	}
	if n == 0 {
		c.Undecided("R05.6", "condition-code mappings of the backends", 0, "none found")
	}
}

// checkExtendSignednessConsulted (R05.7): code that looks inside an extension instruction (ExtendData) consults whether it
// sign- or zero-extends, unless it has established that the instruction is exactly one of the two.
func checkExtendSignednessConsulted(c *core.Ctx) {
	n := 0
	for _, rel := range []string{"internal/engine/wazevo/ssa", "internal/engine/wazevo/backend", "internal/engine/wazevo/backend/isa/amd64", "internal/engine/wazevo/backend/isa/arm64", "internal/engine/wazevo/frontend"} {
		p := c.Pkg(rel)
		if p == nil {
			continue
		}
		info := p.TypesInfo
		core.AllFuncDecls(p, func(fd *ast.FuncDecl) {
			var stack []ast.Node
			ast.Inspect(fd.Body, func(x ast.Node) bool {
				if x == nil {
					stack = stack[:len(stack)-1]
					return true
				}
				stack = append(stack, x)
				as, ok := x.(*ast.AssignStmt)
				if !ok || len(as.Rhs) != 1 || len(as.Lhs) != 3 {
					return true
				}
				call, ok := as.Rhs[0].(*ast.CallExpr)
				if !ok {
					return true
				}
				if f := core.Callee(info, call); f == nil || f.Name() != "ExtendData" {
					return true
				}
				n++
				okc := true
				why := "the signedness result is bound and used"
				if id, isID := as.Lhs[2].(*ast.Ident); isID && id.Name == "_" {
					// which extend opcodes were established by the enclosing conditions?
					u, s := false, false
					for _, anc := range stack {
						var conds []ast.Expr
						switch a := anc.(type) {
						case *ast.IfStmt:
							conds = append(conds, a.Cond)
							if a.Init != nil {
								ast.Inspect(a.Init, func(z ast.Node) bool {
									if e, ok := z.(ast.Expr); ok {
										conds = append(conds, e)
										return false
									}
									return true
								})
							}
						case *ast.CaseClause:
							conds = append(conds, a.List...)
						}
						for _, e := range conds {
							ast.Inspect(e, func(z ast.Node) bool {
								if id, ok := z.(*ast.Ident); ok {
									switch id.Name {
									case "OpcodeUExtend":
										u = true
									case "OpcodeSExtend":
										s = true
									}
								}
								return true
							})
						}
					}
					okc = u != s
					why = "the signedness is discarded, but the enclosing conditions establish exactly one extend opcode"
				}
				c.Check(okc, "R05.7", fmt.Sprintf("%s: use #%d of the operands of an extension consults its signedness", core.FuncName(p, fd), n), as.Pos(), why,
					"`"+core.ExprStr(as.Rhs[0])+"` discards whether the instruction sign- or zero-extends, and the enclosing conditions admit both (or neither) of OpcodeSExtend/OpcodeUExtend: a rewrite valid for the zero extension only (e.g. `ext(x) & mask = ext(x)`) is applied to sign extensions too and yields 0xffffffff80000000 where 0x80000000 is specified")
				return true
			})
		})
	}
	if n == 0 {
		c.Undecided("R05.7", "uses of Instruction.ExtendData", 0, "none found")
	}
}

// mutexKey names the mutex a Lock/Unlock call acts on: the field it is, and the struct that has it.
func mutexKey(call ssa.CallInstruction) (key string, op string) {
	cm := call.Common()
	f := cm.StaticCallee()
	if f == nil || f.Pkg == nil || f.Pkg.Pkg.Path() != "sync" || len(cm.Args) == 0 {
		return "", ""
	}
	switch f.Name() {
	case "Lock", "RLock":
		op = "lock"
	case "Unlock", "RUnlock":
		op = "unlock"
	default:
		return "", ""
	}
	if fa, ok := cm.Args[0].(*ssa.FieldAddr); ok {
		if st, _ := derefStructT(fa.X.Type()).Underlying().(*types.Struct); st != nil {
			owner := ""
			if n := core.NamedOf(fa.X.Type()); n != nil {
				owner = n.Obj().Name()
			}
			return owner + "." + st.Field(fa.Field).Name(), op
		}
	}
	return "?", op
}

// checkNoPanicWithLockHeld (R06.10): an explicit panic (a trap) is never raised while a mutex taken in the same function,
// and not released by a deferred call, is held: the trap is recovered at the call boundary, the mutex stays locked, and
// every later operation on the object (atomics of a shared memory, Grow) blocks for ever.
func checkNoPanicWithLockHeld(c *core.Ctx) {
	n, locks := 0, 0
	fns := moduleFns(c, "internal/engine/interpreter", "internal/wasm", "internal/engine/wazevo")
	sort.Slice(fns, func(i, j int) bool { return fns[i].String() < fns[j].String() })
	for _, fn := range fns {
		deferred := map[string]bool{}
		has := false
		for _, b := range fn.Blocks {
			for _, in := range b.Instrs {
				if ci, ok := in.(ssa.CallInstruction); ok {
					k, op := mutexKey(ci)
					if _, isDefer := in.(*ssa.Defer); isDefer && op == "unlock" {
						deferred[k] = true
					} else if op == "lock" {
						has = true
					}
				}
			}
		}
		if !has {
			continue
		}
		// must-hold sets, forward over the CFG
		type set map[string]bool
		in := map[*ssa.BasicBlock]set{}
		out := map[*ssa.BasicBlock]set{}
		transfer := func(b *ssa.BasicBlock, s set, report bool) set {
			cur := set{}
			for k := range s {
				cur[k] = true
			}
			for _, ins := range b.Instrs {
				switch x := ins.(type) {
				case *ssa.Call:
					k, op := mutexKey(x)
					if op == "lock" && !deferred[k] {
						cur[k] = true
						if report {
							locks++
						}
					} else if op == "unlock" {
						delete(cur, k)
					}
				case *ssa.Panic:
					// assertions ("BUG: …" strings) end the process' trust in the runtime anyway; traps are error values
					if mi, ok := x.X.(*ssa.MakeInterface); ok {
						if b, isB := mi.X.Type().Underlying().(*types.Basic); isB && b.Info()&types.IsString != 0 {
							continue
						}
					}
					if report {
						n++
						var held []string
						for k := range cur {
							held = append(held, k)
						}
						sort.Strings(held)
						if len(held) > 0 {
							c.Violate("R06.10", fmt.Sprintf("%s: no trap is raised while %s is held", core.SSAFuncName(fn), strings.Join(held, ", ")), x.Pos(),
								"the function panics (a trap, recovered at the call boundary) on a path on which "+strings.Join(held, ", ")+" was locked and not unlocked, and no deferred call releases it: the mutex stays locked after the trap, and every later atomic operation or grow of that memory blocks for ever")
						}
					}
				}
			}
			return cur
		}
		for changed, iter := true, 0; changed && iter < 50; iter++ {
			changed = false
			for _, b := range fn.Blocks {
				var s set
				if len(b.Preds) == 0 {
					s = set{}
				} else {
					first := true
					for _, p := range b.Preds {
						o, ok := out[p]
						if !ok {
							continue // not yet computed: optimistic
						}
						if first {
							s = set{}
							for k := range o {
								s[k] = true
							}
							first = false
						} else {
							for k := range s {
								if !o[k] {
									delete(s, k)
								}
							}
						}
					}
					if s == nil {
						s = set{}
					}
				}
				in[b] = s
				o := transfer(b, s, false)
				if prev, ok := out[b]; !ok || len(prev) != len(o) {
					out[b] = o
					changed = true
				} else {
					for k := range o {
						if !prev[k] {
							out[b] = o
							changed = true
						}
					}
				}
			}
		}
		for _, b := range fn.Blocks {
			transfer(b, in[b], true)
		}
	}
	c.Count("explicit_panics_in_locking_functions", n)
	if locks == 0 {
		c.Undecided("R06.10", "mutexes locked without a deferred unlock", 0, "none found in the engines and internal/wasm")
		return
	}
	c.Discharge("R06.10", "no explicit panic while a mutex without deferred unlock is held", 0,
		fmt.Sprintf("%d lock sites without deferred unlock, %d explicit panics in those functions examined (violations are listed separately)", locks, n))
}

// checkOverflowUnwindOrder (R20.14): on the stack-overflow exit path the address tested for "inside the Before trampoline"
// is the innermost unwound return address, i.e. it is read before that address is dropped from the list.
func checkOverflowUnwindOrder(c *core.Ctx) {
	n := 0
	beforePreds := beforeTrampolinePredicates(c)
	for _, fn := range moduleFns(c, "internal/engine/wazevo") {
		for _, b := range fn.Blocks {
			for _, in := range b.Instrs {
				call, ok := in.(*ssa.Call)
				if !ok {
					continue
				}
				f := call.Common().StaticCallee()
				if f == nil || !beforePreds[f] || len(call.Common().Args) < 2 {
					continue
				}
				// the argument: element 0 of a slice
				arg := call.Common().Args[len(call.Common().Args)-1]
				ld, ok := arg.(*ssa.UnOp)
				if !ok {
					continue
				}
				ia, ok := ld.X.(*ssa.IndexAddr)
				if !ok {
					continue
				}
				n++
				// walk the slice value back: it must not have been advanced ([k:] with k>0) since it was unwound
				advanced := ""
				var walk func(v ssa.Value, d int)
				seen := map[ssa.Value]bool{}
				walk = func(v ssa.Value, d int) {
					if v == nil || seen[v] || d > 12 {
						return
					}
					seen[v] = true
					switch x := v.(type) {
					case *ssa.Slice:
						if x.Low != nil {
							if k, isK := x.Low.(*ssa.Const); !isK || k.Value == nil || k.Value.String() != "0" {
								advanced = c.Pos(x.Pos())
							}
						}
						walk(x.X, d+1)
					case *ssa.Phi:
						for _, e := range x.Edges {
							walk(e, d+1)
						}
					case *ssa.UnOp:
						// a local spilled to memory: the values stored into it that reach here
						if al, ok := x.X.(*ssa.Alloc); ok && al.Referrers() != nil {
							for _, r := range *al.Referrers() {
								if st, ok := r.(*ssa.Store); ok && st.Addr == ssa.Value(al) && (st.Block() != x.Block() && st.Block().Dominates(x.Block()) || st.Block() == x.Block() && instrIndex(st) < instrIndex(x)) {
									// only the last dominating store is the value; approximated by the closest one
									_ = st
								}
							}
							var best *ssa.Store
							for _, r := range *al.Referrers() {
								if st, ok := r.(*ssa.Store); ok && st.Addr == ssa.Value(al) {
									before := st.Block() == x.Block() && instrIndex(st) < instrIndex(x) || st.Block() != x.Block() && st.Block().Dominates(x.Block())
									if before && (best == nil || best.Block().Dominates(st.Block()) && (best.Block() != st.Block() || instrIndex(best) < instrIndex(st))) {
										best = st
									}
								}
							}
							if best != nil {
								walk(best.Val, d+1)
							}
						}
					}
				}
				walk(ia.X, 0)
				c.Check(advanced == "", "R20.14", core.SSAFuncName(fn)+": the Before-trampoline test reads the innermost unwound return address", call.Pos(),
					"element 0 of the unwound list, before anything was dropped from its front",
					"the list of return addresses was advanced (at "+advanced+") before its first element is tested for 'inside the Before trampoline': the test looks at the caller's address, the case 'the stack was exhausted on the way to f's Before' is never recognised and f receives Abort without a preceding Before")
			}
		}
	}
	if n == 0 {
		c.Undecided("R20.14", "Before-trampoline test of the stack-overflow exit path", 0, "not found")
	}
}

// checkUnwindCompleteness (R20.15): the stack iterator decides that the whole stack was unwound by comparing what the
// bounded unwinder returned with the very limit it was given; the unwinder counts the entries already in the buffer.
func checkUnwindCompleteness(c *core.Ctx) {
	p := c.Pkg("internal/engine/wazevo")
	if p == nil {
		return
	}
	info := p.TypesInfo
	n := 0
	core.AllFuncDecls(p, func(fd *ast.FuncDecl) {
		var dst string
		var limit types.Object
		var callEnd token.Pos
		ast.Inspect(fd.Body, func(x ast.Node) bool {
			as, ok := x.(*ast.AssignStmt)
			if !ok || len(as.Lhs) != 1 || len(as.Rhs) != 1 {
				return true
			}
			call, ok := as.Rhs[0].(*ast.CallExpr)
			if !ok {
				return true
			}
			if f := core.Callee(info, call); f == nil || f.Name() != "unwindStackUpTo" || len(call.Args) < 2 {
				return true
			}
			if id, ok := ast.Unparen(call.Args[len(call.Args)-1]).(*ast.Ident); ok {
				limit = info.Uses[id]
			}
			dst, callEnd = core.ExprStr(as.Lhs[0]), as.End()
			return true
		})
		if dst == "" || limit == nil {
			return
		}
		localDef := map[types.Object]ast.Expr{}
		ast.Inspect(fd.Body, func(x ast.Node) bool {
			if as, ok := x.(*ast.AssignStmt); ok && as.Tok == token.DEFINE && len(as.Lhs) == len(as.Rhs) {
				for i, l := range as.Lhs {
					if id, ok := l.(*ast.Ident); ok && info.Defs[id] != nil {
						localDef[info.Defs[id]] = as.Rhs[i]
					}
				}
			}
			return true
		})
		ast.Inspect(fd.Body, func(x ast.Node) bool {
			is, ok := x.(*ast.IfStmt)
			if !ok || is.Pos() < callEnd {
				return true
			}
			be, ok := ast.Unparen(is.Cond).(*ast.BinaryExpr)
			if !ok {
				return true
			}
			lhs, rhs, op := be.X, be.Y, be.Op
			if id, ok := ast.Unparen(lhs).(*ast.Ident); ok && info.Uses[id] == limit {
				lhs, rhs = rhs, lhs
				switch op {
				case token.GTR:
					op = token.LSS
				case token.GEQ:
					op = token.LEQ
				case token.LSS:
					op = token.GTR
				case token.LEQ:
					op = token.GEQ
				}
			}
			id, ok := ast.Unparen(rhs).(*ast.Ident)
			if !ok || info.Uses[id] != limit {
				return true
			}
			if l, ok := ast.Unparen(lhs).(*ast.Ident); ok {
				if d, ok := localDef[info.Uses[l]]; ok {
					lhs = d
				}
			}
			n++
			want := "len(" + dst + ")"
			got := core.ExprStr(ast.Unparen(lhs))
			c.Check(got == want && (op == token.LSS || op == token.GEQ), "R20.15", core.FuncName(p, fd)+": 'the whole stack was unwound' compares the unwinder's result with its limit", is.Pos(),
				"`"+core.ExprStr(is.Cond)+"`: the length of what unwindStackUpTo returned against the limit it was given",
				"the completeness test is `"+core.ExprStr(is.Cond)+"`, not `"+want+" < limit`: unwindStackUpTo stops when the buffer – including the entries it already held – reaches the limit, so with a pre-seeded entry the test is always true, the iterator never unwinds further and a listener sees a stack truncated after the first window")
			return true
		})
	})
	if n == 0 {
		c.Undecided("R20.15", "completeness test after the bounded unwinder", 0, "not found")
	}
}

// checkVectorShiftImmediateMasked (R05.8): in the amd64 vector-shift lowerings a shift count that goes into the immediate
// of a packed shift is a literal or is reduced modulo the lane width first: packed shifts do not mask their count.
func checkVectorShiftImmediateMasked(c *core.Ctx) {
	p := c.Pkg("internal/engine/wazevo/backend/isa/amd64")
	if p == nil {
		return
	}
	info := p.TypesInfo
	n := 0
	core.AllFuncDecls(p, func(fd *ast.FuncDecl) {
		if ln := strings.ToLower(fd.Name.Name); !strings.HasPrefix(ln, "lowerv") || !(strings.Contains(ln, "shl") || strings.Contains(ln, "shr")) {
			return
		}
		ast.Inspect(fd.Body, func(x ast.Node) bool {
			call, ok := x.(*ast.CallExpr)
			if !ok {
				return true
			}
			f := core.Callee(info, call)
			if f == nil || f.Name() != "asXmmRmiReg" || len(call.Args) < 2 {
				return true
			}
			op, ok := ast.Unparen(call.Args[1]).(*ast.CallExpr)
			if !ok {
				return true
			}
			if g := core.Callee(info, op); g == nil || g.Name() != "newOperandImm32" || len(op.Args) != 1 {
				return true
			}
			n++
			arg := op.Args[0]
			_, isK := core.ConstVal(info, arg)
			masked := false
			ast.Inspect(arg, func(y ast.Node) bool {
				if be, ok := y.(*ast.BinaryExpr); ok && (be.Op == token.AND || be.Op == token.REM) {
					masked = true
				}
				return true
			})
			c.Check(isK || masked, "R05.8", fmt.Sprintf("amd64 %s: immediate count #%d of a packed shift is a literal or masked", fd.Name.Name, n), call.Pos(),
				"the immediate is a compile-time literal or reduced modulo the lane width",
				"`"+core.ExprStr(arg)+"` goes into the imm8 of a packed shift as it is: the instruction does not reduce its count modulo the lane width (a count ≥ the lane width gives 0), while WebAssembly specifies the count modulo the lane width")
			return true
		})
	})
	if n == 0 {
		c.Discharge("R05.8", "amd64 vector shifts take no run-time-derived immediate count", 0, "no packed shift with an immediate operand in the vector-shift lowerings")
	}
}

// hostBodyCall recognises the call of a Go host function's body: `f.Call(…, stack)` on an api.GoFunction /
// api.GoModuleFunction, or a helper that is handed such a function together with the stack (one level). It returns the
// index of the stack argument (-1 if there is none).
func hostBodyCall(info *types.Info, call *ast.CallExpr) (bool, int) {
	isHostFn := func(t types.Type) bool {
		if t == nil {
			return false
		}
		s := t.String()
		return strings.HasSuffix(s, "api.GoFunction") || strings.HasSuffix(s, "api.GoModuleFunction")
	}
	if se, ok := call.Fun.(*ast.SelectorExpr); ok && se.Sel.Name == "Call" && isHostFn(info.TypeOf(se.X)) {
		return true, len(call.Args) - 1
	}
	handed := false
	stack := -1
	for i, a := range call.Args {
		t := info.TypeOf(a)
		if isHostFn(t) {
			handed = true
		}
		if t != nil {
			if sl, ok := t.Underlying().(*types.Slice); ok && basicKind(sl.Elem()) == types.Uint64 {
				stack = i
			}
		}
	}
	if handed {
		if f := core.Callee(info, call); f != nil {
			return true, stack
		}
	}
	return false, -1
}

// exprMentions reports whether the expression mentions a selector/identifier called name, directly or through a local of
// the function body that is bound (`x := …`) to an expression mentioning it (depth 3).
func exprMentions(info *types.Info, body ast.Node, e ast.Node, name string) bool {
	localDef := map[types.Object]ast.Expr{}
	if body != nil {
		ast.Inspect(body, func(n ast.Node) bool {
			if as, ok := n.(*ast.AssignStmt); ok && as.Tok == token.DEFINE && len(as.Lhs) == len(as.Rhs) {
				for i, l := range as.Lhs {
					if id, ok := l.(*ast.Ident); ok && info.Defs[id] != nil {
						localDef[info.Defs[id]] = as.Rhs[i]
					}
				}
			}
			return true
		})
	}
	var walk func(n ast.Node, d int) bool
	walk = func(n ast.Node, d int) bool {
		found := false
		ast.Inspect(n, func(x ast.Node) bool {
			switch y := x.(type) {
			case *ast.SelectorExpr:
				if y.Sel.Name == name {
					found = true
				}
			case *ast.Ident:
				if y.Name == name {
					found = true
				} else if def, ok := localDef[info.Uses[y]]; ok && d < 3 && walk(def, d+1) {
					found = true
				}
			}
			return !found
		})
		return found
	}
	return walk(e, 0)
}

// ---- rules added after the sixth round of seeded changes ----

// checkPositionalReadRestoresOffset (R16.11): a positional read emulated on a seekable file (Seek, Read, Seek back) restores
// the offset on every path on which it reads: the deferred restore stands in the block that reads, not under a condition.
func checkPositionalReadRestoresOffset(c *core.Ctx) {
	p := c.Pkg("internal/sysfs")
	if p == nil {
		return
	}
	info := p.TypesInfo
	n := 0
	core.AllFuncDecls(p, func(fd *ast.FuncDecl) {
		// deferred calls that seek (a literal or a named function of the package)
		var stack []ast.Node
		ast.Inspect(fd.Body, func(x ast.Node) bool {
			if x == nil {
				stack = stack[:len(stack)-1]
				return true
			}
			stack = append(stack, x)
			ds, ok := x.(*ast.DeferStmt)
			if !ok {
				return true
			}
			var body ast.Node
			if lit, ok := ds.Call.Fun.(*ast.FuncLit); ok {
				body = lit.Body
			} else if f := core.Callee(info, ds.Call); f != nil && f.Pkg() == p.Types {
				if hd := declOf(p, f); hd != nil {
					body = hd.Body
				}
			}
			if body == nil {
				return true
			}
			seeks := false
			ast.Inspect(body, func(y ast.Node) bool {
				if call, ok := y.(*ast.CallExpr); ok {
					if se, ok := call.Fun.(*ast.SelectorExpr); ok && se.Sel.Name == "Seek" {
						seeks = true
					}
				}
				return true
			})
			if !seeks {
				return true
			}
			// the statement list the defer stands in
			var list []ast.Stmt
			for i := len(stack) - 2; i >= 0 && list == nil; i-- {
				switch b := stack[i].(type) {
				case *ast.BlockStmt:
					list = b.List
				case *ast.CaseClause:
					list = b.Body
				}
			}
			// the reads of the function that come after the defer
			var reads []*ast.CallExpr
			ast.Inspect(fd.Body, func(y ast.Node) bool {
				if call, ok := y.(*ast.CallExpr); ok && call.Pos() > ds.End() {
					if se, ok := call.Fun.(*ast.SelectorExpr); ok && se.Sel.Name == "Read" && len(call.Args) == 1 {
						reads = append(reads, call)
					}
				}
				return true
			})
			if len(reads) == 0 {
				return true
			}
			n++
			covered := true
			for _, r := range reads {
				in := false
				for _, st := range list {
					if st.Pos() <= r.Pos() && r.End() <= st.End() {
						in = true
					}
				}
				if !in {
					covered = false
				}
			}
			c.Check(covered, "R16.11", core.FuncName(p, fd)+": the offset moved for a positional read is restored on every path that reads", ds.Pos(),
				"the deferred Seek stands in the statement list that contains the Read",
				"the deferred Seek that puts the offset back is registered under a condition while the Read that follows is not: when the condition does not hold (the requested offset equals the current one) the read advances the descriptor's offset, so fd_pread moves the position later fd_read/fd_tell see")
			return true
		})
	})
	if n == 0 {
		c.Undecided("R16.11", "positional read emulated with Seek in internal/sysfs", 0, "no deferred Seek followed by a Read found")
	}
}

// checkNoSharedSpareCapacity (R11.6): no package-level slice of the run-time packages shared by all instances has spare
// capacity: an append on an alias of it writes the one shared backing array.
func checkNoSharedSpareCapacity(c *core.Ctx) {
	n := 0
	var bad []string
	var pos token.Pos
	for _, rel := range []string{"internal/sys", "internal/sysfs", "imports/wasi_snapshot_preview1", "internal/wasm", "internal/descriptor", "internal/engine/interpreter", "internal/engine/wazevo"} {
		p := c.Pkg(rel)
		if p == nil {
			continue
		}
		info := p.TypesInfo
		for _, f := range p.Syntax {
			for _, d := range f.Decls {
				gd, ok := d.(*ast.GenDecl)
				if !ok || gd.Tok != token.VAR {
					continue
				}
				for _, sp := range gd.Specs {
					vs := sp.(*ast.ValueSpec)
					for i, nm := range vs.Names {
						if i >= len(vs.Values) {
							continue
						}
						t := info.TypeOf(nm)
						if t == nil {
							continue
						}
						if _, isSlice := t.Underlying().(*types.Slice); !isSlice {
							continue
						}
						n++
						call, ok := ast.Unparen(vs.Values[i]).(*ast.CallExpr)
						if !ok || !core.IsBuiltin(info, call, "make") || len(call.Args) != 3 {
							continue
						}
						l, okL := core.ConstVal(info, call.Args[1])
						k, okK := core.ConstVal(info, call.Args[2])
						if !okL || !okK || k > l {
							bad = append(bad, fmt.Sprintf("%s.%s = %s at %s", core.Rel(p.PkgPath), nm.Name, core.ExprStr(call), c.Pos(nm.Pos())))
							pos = nm.Pos()
						}
					}
				}
			}
		}
	}
	c.Check(len(bad) == 0, "R11.6", "no package-level slice of the run-time packages has spare capacity", pos,
		fmt.Sprintf("%d package-level slices, none made with a capacity above its length", n),
		strings.Join(bad, "; ")+": every instance that appends to a value derived from it writes the same backing array – entries of one instance (directory listings, …) show up in another")
}

// checkPinnedFieldsNotReassigned (R09.10): a field of the instance whose elements' addresses the compiler records as raw
// integers in the module context (`&inst.F[0]`) is never reassigned on a close path: functions of live importers still run
// through those addresses after the instance is closed.
func checkPinnedFieldsNotReassigned(c *core.Ctx) {
	mi := namedIn(c, "internal/wasm", "ModuleInstance")
	if mi == nil {
		return
	}
	// pinned fields: uintptr(unsafe.Pointer(&X.F[k])) with X a ModuleInstance, in the compiler
	pinned := map[*types.Var]token.Pos{}
	for _, fn := range moduleFns(c, wzv) {
		for _, b := range fn.Blocks {
			for _, in := range b.Instrs {
				cv, ok := in.(*ssa.Convert)
				if !ok {
					continue
				}
				if xb, ok := cv.X.Type().Underlying().(*types.Basic); !ok || xb.Kind() != types.UnsafePointer {
					continue
				}
				var ptr ssa.Value
				switch c2 := cv.X.(type) {
				case *ssa.Convert:
					ptr = c2.X
				case *ssa.ChangeType:
					ptr = c2.X
				}
				ia, ok := ptr.(*ssa.IndexAddr)
				if !ok {
					continue
				}
				ld, ok := ia.X.(*ssa.UnOp)
				if !ok {
					continue
				}
				fa, ok := ld.X.(*ssa.FieldAddr)
				if !ok || core.NamedOf(fa.X.Type()) != mi {
					continue
				}
				if f := fieldOfAddr(fa); f != nil {
					pinned[f] = cv.Pos()
				}
			}
		}
	}
	if len(pinned) == 0 {
		c.Undecided("R09.10", "fields whose element addresses the compiler records", 0, "none found")
		return
	}
	// close paths: what the resource-release function and the Close* methods reach inside internal/wasm (depth 3)
	reach := map[*ssa.Function]bool{}
	var work []*ssa.Function
	for _, fn := range moduleFns(c, "internal/wasm") {
		if fn.Signature.Recv() != nil && core.NamedOf(fn.Signature.Recv().Type()) == mi {
			nm := fn.Name()
			if nm == "ensureResourcesClosed" || strings.HasPrefix(nm, "Close") || strings.HasPrefix(nm, "closeWith") {
				reach[fn] = true
				work = append(work, fn)
			}
		}
	}
	for d := 0; d < 3; d++ {
		var next []*ssa.Function
		for _, fn := range work {
			for _, b := range fn.Blocks {
				for _, in := range b.Instrs {
					if call, ok := in.(ssa.CallInstruction); ok {
						if sc := call.Common().StaticCallee(); sc != nil && sc.Blocks != nil && sc.Pkg == fn.Pkg && !reach[sc] {
							reach[sc] = true
							next = append(next, sc)
						}
					}
				}
			}
		}
		work = next
	}
	var names []string
	for f := range pinned {
		names = append(names, f.Name())
	}
	sort.Strings(names)
	var bad []string
	var pos token.Pos
	var fns []*ssa.Function
	for fn := range reach {
		fns = append(fns, fn)
	}
	sort.Slice(fns, func(i, j int) bool { return fns[i].String() < fns[j].String() })
	for _, fn := range fns {
		for _, b := range fn.Blocks {
			for _, in := range b.Instrs {
				if st, ok := in.(*ssa.Store); ok {
					if fa, ok := st.Addr.(*ssa.FieldAddr); ok && core.NamedOf(fa.X.Type()) == mi {
						if f := fieldOfAddr(fa); f != nil {
							if _, isPinned := pinned[f]; isPinned {
								bad = append(bad, fmt.Sprintf("%s assigned in %s at %s", f.Name(), fn.Name(), c.Pos(st.Pos())))
								pos = st.Pos()
							}
						}
					}
				}
			}
		}
	}
	c.Check(len(bad) == 0, "R09.10", "instance fields pinned by raw element addresses ("+strings.Join(names, ", ")+") are not reassigned on close paths", pos,
		fmt.Sprintf("%d close-path functions of ModuleInstance examined, no assignment to a pinned field", len(reach)),
		strings.Join(bad, "; ")+": the compiler's module context holds &field[0] as a plain integer, and functions that live importers took from the closed instance keep running: their memory.init/table.init then read freed and reused heap")
}

// ---- rules added after the seventh round of seeded changes ----

// checkReusedFrameNamesCallee (R01.16): where the interpreter re-uses a call frame for a tail call (resets its pc), it also
// records the callee in the frame: the next tail call from that frame sizes its drop by the frame's function.
func checkReusedFrameNamesCallee(c *core.Ctx) {
	p := c.Pkg("internal/engine/interpreter")
	if p == nil {
		return
	}
	info := p.TypesInfo
	n := 0
	core.AllFuncDecls(p, func(fd *ast.FuncDecl) {
		ast.Inspect(fd.Body, func(x ast.Node) bool {
			cc, ok := x.(*ast.CaseClause)
			if !ok || len(cc.List) == 0 || !strings.Contains(constNameOf(info, cc.List[0]), "TailCall") {
				return true
			}
			resets, names := false, false
			var pos token.Pos
			for _, sn := range armScope(p, cc) {
				ast.Inspect(sn, func(y ast.Node) bool {
					as, ok := y.(*ast.AssignStmt)
					if !ok {
						return true
					}
					for i, l := range as.Lhs {
						f := core.FieldOf(info, l)
						if f == nil {
							continue
						}
						if ow := core.NamedOf(info.TypeOf(l.(*ast.SelectorExpr).X)); ow == nil || ow.Obj().Name() != "callFrame" {
							continue
						}
						switch f.Name() {
						case "pc":
							if i < len(as.Rhs) || len(as.Rhs) == 1 {
								r := as.Rhs[len(as.Rhs)-1]
								if i < len(as.Rhs) {
									r = as.Rhs[i]
								}
								if k, isK := core.ConstVal(info, r); isK && k == 0 {
									resets, pos = true, as.Pos()
								}
							}
						case "f":
							names = true
						}
					}
					return true
				})
			}
			if !resets {
				return true
			}
			n++
			c.Check(names, "R01.16", "interpreter arm "+constNameOf(info, cc.List[0])+": a frame re-used for a tail call records the callee", pos,
				"the arm (or the method it calls) assigns frame.f where it resets frame.pc",
				"the frame is re-used (pc reset to 0) without frame.f being set to the callee: the next tail call from this frame computes what to drop from the previous function's parameter count, and the caller's locals and operands are read one or more slots off (interpreter only)")
			return true
		})
	})
	if n == 0 {
		c.Undecided("R01.16", "interpreter tail-call arms that re-use the frame", 0, "none found")
	}
}

// checkNameIndexesBounded (R03.20): an index taken from a decoded name map (NameAssoc.Index, never validated by the
// decoder) is compared with a length before it indexes a slice.
func checkNameIndexesBounded(c *core.Ctx) {
	n := 0
	for _, rel := range []string{"internal/wasm", "internal/wasmdebug", "internal/engine/interpreter", "internal/engine/wazevo"} {
		p := c.Pkg(rel)
		if p == nil {
			continue
		}
		info := p.TypesInfo
		isNameIndex := func(e ast.Expr) string {
			r := ""
			ast.Inspect(e, func(y ast.Node) bool {
				if se, ok := y.(*ast.SelectorExpr); ok && se.Sel.Name == "Index" {
					if ow := core.NamedOf(info.TypeOf(se.X)); ow != nil && ow.Obj().Name() == "NameAssoc" {
						r = core.ExprStr(se)
					}
				}
				return true
			})
			return r
		}
		core.AllFuncDecls(p, func(fd *ast.FuncDecl) {
			var stack []ast.Node
			ast.Inspect(fd.Body, func(x ast.Node) bool {
				if x == nil {
					stack = stack[:len(stack)-1]
					return true
				}
				stack = append(stack, x)
				ix, ok := x.(*ast.IndexExpr)
				if !ok {
					return true
				}
				if _, isSlice := info.TypeOf(ix.X).Underlying().(*types.Slice); !isSlice {
					return true
				}
				sel := isNameIndex(ix.Index)
				if sel == "" {
					return true
				}
				n++
				bounded := false
				for _, anc := range stack {
					if is, ok := anc.(*ast.IfStmt); ok && is.Body.Pos() <= ix.Pos() && ix.End() <= is.Body.End() {
						ast.Inspect(is.Cond, func(y ast.Node) bool {
							if be, ok := y.(*ast.BinaryExpr); ok && (be.Op == token.LSS || be.Op == token.LEQ || be.Op == token.GTR || be.Op == token.GEQ) {
								if strings.Contains(core.ExprStr(be), sel) {
									bounded = true
								}
							}
							return true
						})
					}
				}
				c.Check(bounded, "R03.20", fmt.Sprintf("%s: slice index #%d taken from a decoded name map is bounded", core.FuncName(p, fd), n), ix.Pos(),
					"the indexing stands under a comparison of "+sel+" with a bound",
					"`"+core.ExprStr(ix)+"` indexes a slice with an index of the name section, which the decoder never validates (sparse or out-of-range local names are legal input), without a comparison with the slice's length: building the function definitions of a valid module panics with index out of range – in the trap path the panic escapes Call")
				return true
			})
		})
	}
	c.Count("name_map_index_uses", n)
	if n == 0 {
		c.Discharge("R03.20", "no slice is indexed by an index of a decoded name map", 0, "no use found")
	}
}

// checkRexByteRegisterSiblings (R05.9): the amd64 encoder forces a REX prefix for byte operands in the registers whose
// encoding is 4..7 (spl, bpl, sil, dil): every site that decides this uses the same range.
func checkRexByteRegisterSiblings(c *core.Ctx) {
	p := c.Pkg("internal/engine/wazevo/backend/isa/amd64")
	if p == nil {
		return
	}
	info := p.TypesInfo
	type site struct {
		pos  token.Pos
		form string
	}
	var sites []site
	rangeOf := func(cond ast.Expr, body *ast.BlockStmt) string {
		lo, hi := int64(-1), int64(-1)
		extra := ""
		var scan func(e ast.Node, d int)
		scan = func(e ast.Node, d int) {
			ast.Inspect(e, func(y ast.Node) bool {
				switch z := y.(type) {
				case *ast.BinaryExpr:
					if k, isK := core.ConstVal(info, z.Y); isK {
						switch z.Op {
						case token.GEQ:
							lo = k
						case token.GTR:
							lo = k + 1
						case token.LEQ:
							hi = k
						case token.LSS:
							hi = k - 1
						case token.NEQ, token.EQL:
							extra += fmt.Sprintf(" %s%d", z.Op, k)
						}
					}
				case *ast.CallExpr:
					// a predicate of the package (one level)
					if f := core.Callee(info, z); f != nil && f.Pkg() == p.Types && d < 1 {
						if hd := declOf(p, f); hd != nil && len(hd.Body.List) <= 3 {
							scan(hd.Body, d+1)
						}
					}
				}
				return true
			})
		}
		scan(cond, 0)
		_ = body
		if lo >= 0 && hi >= 0 {
			return fmt.Sprintf("encoding in [%d,%d]%s", lo, hi, extra)
		}
		return ""
	}
	core.AllFuncDecls(p, func(fd *ast.FuncDecl) {
		var stack []ast.Node
		ast.Inspect(fd.Body, func(x ast.Node) bool {
			if x == nil {
				stack = stack[:len(stack)-1]
				return true
			}
			stack = append(stack, x)
			call, ok := x.(*ast.CallExpr)
			if !ok {
				return true
			}
			se, ok := call.Fun.(*ast.SelectorExpr)
			if !ok || se.Sel.Name != "always" {
				return true
			}
			if t := info.TypeOf(se.X); t == nil || !strings.HasSuffix(t.String(), "rexInfo") {
				return true
			}
			// the innermost guard
			for i := len(stack) - 2; i >= 0; i-- {
				switch g := stack[i].(type) {
				case *ast.IfStmt:
					if g.Body.Pos() <= call.Pos() && call.End() <= g.Body.End() {
						init := ""
						if g.Init != nil {
							init = "init"
						}
						_ = init
						var condNodes ast.Expr = g.Cond
						f := rangeOf(condNodes, g.Body)
						if f == "" {
							f = "if " + core.ExprStr(g.Cond)
						}
						sites = append(sites, site{call.Pos(), f})
						return true
					}
				case *ast.CaseClause:
					if len(g.List) > 0 {
						if _, isK := core.ConstVal(info, g.List[0]); isK || constNameOf(info, g.List[0]) != "" {
							// a switch over registers: which ones?
							var names []string
							for _, l := range g.List {
								names = append(names, core.ExprStr(l))
							}
							// only when the switch is about a register (not an operand kind / opcode)
							if t := info.TypeOf(g.List[0]); t != nil && strings.Contains(t.String(), "RealReg") {
								sort.Strings(names)
								sites = append(sites, site{call.Pos(), "registers {" + strings.Join(names, ",") + "}"})
								return true
							}
						}
					}
				case *ast.FuncDecl, *ast.FuncLit:
					return true
				}
			}
			return true
		})
	})
	count := map[string]int{}
	for _, s := range sites {
		count[s.form]++
	}
	major, mn := "", 0
	for f, k := range count {
		if k > mn || (k == mn && f < major) {
			major, mn = f, k
		}
	}
	if len(sites) < 3 {
		c.Undecided("R05.9", "conditional REX prefixes of the amd64 encoder", 0, fmt.Sprintf("only %d guarded rexInfo.always() sites found", len(sites)))
		return
	}
	var bad []string
	var pos token.Pos
	for _, s := range sites {
		if s.form != major && (strings.HasPrefix(major, "encoding in") && (strings.HasPrefix(s.form, "registers") || strings.HasPrefix(s.form, "encoding in"))) {
			bad = append(bad, s.form+" at "+c.Pos(s.pos))
			pos = s.pos
		}
	}
	c.Check(len(bad) == 0, "R05.9", "amd64 encoder: every site that forces a REX prefix for a byte register uses the same register range", pos,
		fmt.Sprintf("%d guarded sites, %d of the form `%s`", len(sites), mn, major),
		fmt.Sprintf("%d sites decide it with `%s`, but: %s – a byte operand in a register left out is encoded as one of the legacy high-byte registers (%%sil read as %%dh), so i32.extend8_s and byte loads/stores of that register compute with bits 8..15 of another register", mn, major, strings.Join(bad, "; ")))
}

// checkHostCallTypesStateless (R08.14): what computes the types by which the compiler normalises the slots of a host call
// keeps no state in the call engine: the types are read from the callee's module context at every call.
func checkHostCallTypesStateless(c *core.Ctx) {
	ce := namedIn(c, wzv, "callEngine")
	if ce == nil {
		return
	}
	n := 0
	for _, fn := range moduleFns(c, wzv) {
		if fn.Parent() != nil {
			continue
		}
		// functions that hand out value types or a function type
		res := fn.Signature.Results()
		if res.Len() != 1 {
			continue
		}
		rt := res.At(0).Type().String()
		if !strings.HasSuffix(rt, "[]byte") && !strings.HasSuffix(rt, "api.ValueType") && !strings.HasSuffix(rt, "wasm.ValueType") && !strings.HasSuffix(rt, "wasm.FunctionType") {
			continue
		}
		if !strings.Contains(strings.ToLower(fn.Name()), "type") {
			continue
		}
		n++
		bad := ""
		var pos token.Pos
		for _, b := range fn.Blocks {
			for _, in := range b.Instrs {
				if st, ok := in.(*ssa.Store); ok {
					if fa, ok := st.Addr.(*ssa.FieldAddr); ok && core.NamedOf(fa.X.Type()) == ce {
						if f := fieldOfAddr(fa); f != nil {
							bad, pos = f.Name(), st.Pos()
						}
					}
				}
			}
		}
		c.Check(bad == "", "R08.14", core.SSAFuncName(fn)+" keeps no state in the call engine", pos,
			"the types are computed from its arguments only",
			"the function that yields the types of a host call remembers them in callEngine."+bad+": a cached entry keyed by less than the callee (e.g. the exit code, which names a function only within its host module) normalises the next call's slots by another function's types – a 64-bit argument loses its upper half")
	}
	if n == 0 {
		c.Undecided("R08.14", "functions yielding the types of a host call", 0, "none found")
	}
}

// checkFakeClockHostIndependent (R18.10): the default (fake) clock, random and sleep sources of internal/platform do not
// depend on the host: no reference to time.Local, the environment, or the real clock in the fake sources and in the
// package-level values they read.
func checkFakeClockHostIndependent(c *core.Ctx) {
	fns := moduleFns(c, "internal/platform")
	if len(fns) == 0 {
		return
	}
	// the fake sources, the functions they reach inside the package, and the package initialiser of what they read
	reach := map[*ssa.Function]bool{}
	var work []*ssa.Function
	for _, fn := range fns {
		if strings.Contains(fn.Name(), "Fake") || fn.Name() == "init" {
			top := fn
			for top.Parent() != nil {
				top = top.Parent()
			}
			if !reach[fn] {
				reach[fn] = true
				work = append(work, fn)
			}
		}
	}
	for len(work) > 0 {
		fn := work[len(work)-1]
		work = work[:len(work)-1]
		for _, b := range fn.Blocks {
			for _, in := range b.Instrs {
				if call, ok := in.(ssa.CallInstruction); ok {
					if sc := call.Common().StaticCallee(); sc != nil && sc.Blocks != nil && sc.Pkg == fn.Pkg && !reach[sc] {
						reach[sc] = true
						work = append(work, sc)
					}
				}
				if mc, ok := in.(*ssa.MakeClosure); ok {
					if f, ok := mc.Fn.(*ssa.Function); ok && !reach[f] {
						reach[f] = true
						work = append(work, f)
					}
				}
			}
		}
	}
	var bad []string
	var pos token.Pos
	n := 0
	var list []*ssa.Function
	for fn := range reach {
		list = append(list, fn)
	}
	sort.Slice(list, func(i, j int) bool { return list[i].String() < list[j].String() })
	for _, fn := range list {
		n++
		for _, b := range fn.Blocks {
			for _, in := range b.Instrs {
				for _, op := range in.Operands(nil) {
					if g, ok := (*op).(*ssa.Global); ok && g.Pkg != nil && g.Pkg.Pkg.Path() == "time" && g.Name() == "Local" {
						bad = append(bad, "time.Local read in "+fn.Name()+" at "+c.Pos(in.Pos()))
						pos = in.Pos()
					}
				}
				if call, ok := in.(ssa.CallInstruction); ok {
					if sc := call.Common().StaticCallee(); sc != nil && sc.Pkg != nil {
						switch sc.Pkg.Pkg.Path() + "." + sc.Name() {
						case "time.Now", "time.LoadLocation", "os.Getenv", "os.LookupEnv", "os.Hostname":
							// (the package initialiser legitimately reads the real clock for the real monotonic source)
							if fn.Name() != "init" {
								bad = append(bad, sc.Pkg.Pkg.Path()+"."+sc.Name()+" called in "+fn.Name()+" at "+c.Pos(in.Pos()))
								pos = in.Pos()
							}
						}
					}
				}
			}
		}
	}
	c.Check(len(bad) == 0, "R18.10", "the default (fake) sources of internal/platform do not depend on the host", pos,
		fmt.Sprintf("%d functions (fake sources, what they reach, the package initialiser): no time.Local, environment or real-clock reference", n),
		strings.Join(bad, "; ")+": what a guest observes under the default configuration (clock_time_get, …) then depends on the host's time zone or environment, and differs between processes")
}

// beforeTrampolinePredicates: the functions of the compiler that decide "is this address inside a Before trampoline": they
// take an address and range over the Before trampolines (whatever they are called).
func beforeTrampolinePredicates(c *core.Ctx) map[*ssa.Function]bool {
	out := map[*ssa.Function]bool{}
	for _, fn := range moduleFns(c, wzv) {
		if fn.Parent() != nil || fn.Signature.Results().Len() != 1 {
			continue
		}
		if b, ok := fn.Signature.Results().At(0).Type().Underlying().(*types.Basic); !ok || b.Kind() != types.Bool {
			continue
		}
		takesAddr := false
		for i := 0; i < fn.Signature.Params().Len(); i++ {
			if b, ok := fn.Signature.Params().At(i).Type().Underlying().(*types.Basic); ok && b.Kind() == types.Uintptr {
				takesAddr = true
			}
		}
		if !takesAddr {
			continue
		}
		for _, b := range fn.Blocks {
			for _, in := range b.Instrs {
				if fa, ok := in.(*ssa.FieldAddr); ok {
					if f := fieldOfAddr(fa); f != nil && f.Name() == "listenerBeforeTrampolines" {
						out[fn] = true
					}
				}
			}
		}
	}
	return out
}

// checkBeforePredicateOnlyBefore (R20.16): the predicate by which the stack-overflow exit path recognises "the stack ran out
// on the way to a function's Before" looks at the Before trampolines only: a function whose After trampoline overflowed had
// its Before and must get Abort.
func checkBeforePredicateOnlyBefore(c *core.Ctx) {
	preds := beforeTrampolinePredicates(c)
	if len(preds) == 0 {
		c.Undecided("R20.16", "Before-trampoline predicate of the compiler", 0, "no function taking an address and ranging over the Before trampolines found")
		return
	}
	for fn := range preds {
		after := token.NoPos
		for _, b := range fn.Blocks {
			for _, in := range b.Instrs {
				if fa, ok := in.(*ssa.FieldAddr); ok {
					if f := fieldOfAddr(fa); f != nil && f.Name() == "listenerAfterTrampolines" {
						after = fa.Pos()
					}
				}
			}
		}
		c.Check(after == token.NoPos, "R20.16", "the Before-trampoline predicate looks at the Before trampolines only", fn.Pos(),
			"no reference to the After trampolines",
			"the predicate used to skip the function whose Before was not reached also matches the After trampolines (at "+c.Pos(after)+"): when the stack runs out in an After trampoline the function – which had its Before – is skipped and gets neither After nor Abort")
	}
}

// ---- rules added after the eighth round of seeded changes ----

// checkDirentWindowBoundary (R16.12): the dirent cache refuses a position only when it lies strictly before its window: the
// first position of the window is re-read when the entry there did not fit the guest's buffer.
func checkDirentWindowBoundary(c *core.Ctx) {
	p := c.Pkg("internal/sys")
	if p == nil {
		return
	}
	info := p.TypesInfo
	n := 0
	core.AllFuncDecls(p, func(fd *ast.FuncDecl) {
		if core.RecvName(fd) != "DirentCache" || fd.Type.Params.NumFields() < 1 {
			return
		}
		var pos types.Object
		if len(fd.Type.Params.List) > 0 && len(fd.Type.Params.List[0].Names) > 0 {
			pos = info.Defs[fd.Type.Params.List[0].Names[0]]
		}
		if pos == nil || basicKind(pos.Type()) != types.Uint64 {
			return
		}
		ast.Inspect(fd.Body, func(x ast.Node) bool {
			is, ok := x.(*ast.IfStmt)
			if !ok {
				return true
			}
			be, ok := ast.Unparen(is.Cond).(*ast.BinaryExpr)
			if !ok {
				return true
			}
			// pos compared with the start of the window (a local computed from the count read and the cached length)
			l, lok := ast.Unparen(be.X).(*ast.Ident)
			r, rok := ast.Unparen(be.Y).(*ast.Ident)
			if !lok || !rok {
				return true
			}
			op := be.Op
			var other *ast.Ident
			if info.Uses[l] == pos {
				other = r
			} else if info.Uses[r] == pos {
				other = l
				switch op {
				case token.GTR:
					op = token.LSS
				case token.GEQ:
					op = token.LEQ
				case token.LSS:
					op = token.GTR
				case token.LEQ:
					op = token.GEQ
				}
			} else {
				return true
			}
			if !exprMentions(info, fd.Body, other, "countRead") {
				return true
			}
			// the branch that refuses the position
			refuses, returns := false, false
			ast.Inspect(is.Body, func(y ast.Node) bool {
				switch z := y.(type) {
				case *ast.ReturnStmt:
					returns = true
					for _, res := range z.Results {
						if nm := constNameOf(info, res); nm != "" && nm != "nil" {
							refuses = true
						}
					}
				case *ast.AssignStmt:
					// a named errno result set to an error constant before a bare return
					for _, r := range z.Rhs {
						if nm := constNameOf(info, r); nm != "" && nm != "nil" && strings.HasPrefix(nm, "E") {
							refuses = true
						}
					}
				}
				return true
			})
			refuses = refuses && returns
			if !refuses || (op != token.LSS && op != token.LEQ) {
				return true
			}
			n++
			c.Check(op == token.LSS, "R16.12", "DirentCache."+fd.Name.Name+": only positions strictly before the cached window are refused", is.Pos(),
				"`"+core.ExprStr(is.Cond)+"` is a strict comparison",
				"`"+core.ExprStr(is.Cond)+"` also refuses the first position of the window: fd_readdir at a cookie whose first entry did not fit the buffer (reported as truncated) cannot be repeated with a larger buffer – it answers ENOENT and the entry is never delivered")
			return true
		})
	})
	if n == 0 {
		c.Undecided("R16.12", "window test of the dirent cache", 0, "not found")
	}
}

// checkInsertKeyAbsolute (R16.13): when the descriptor table scans its occupancy words from an offset, the key it hands out
// is computed from the absolute word index (relative index + offset).
func checkInsertKeyAbsolute(c *core.Ctx) {
	n := 0
	for _, fn := range moduleFns(c, "internal/descriptor") {
		base := fn
		if fn.Origin() != nil {
			base = fn.Origin()
		}
		if base.Name() != "Insert" || fn.Parent() != nil {
			continue
		}
		// the scanned slice: masks[offset:]
		var offset ssa.Value
		for _, b := range fn.Blocks {
			for _, in := range b.Instrs {
				if sl, ok := in.(*ssa.Slice); ok && sl.Low != nil {
					if k, isK := sl.Low.(*ssa.Const); !isK || k.Value == nil || k.Value.String() != "0" {
						offset = sl.Low
					}
				}
			}
		}
		if offset == nil {
			continue
		}
		for _, b := range fn.Blocks {
			for _, in := range b.Instrs {
				mul, ok := in.(*ssa.BinOp)
				if !ok || mul.Op != token.MUL {
					continue
				}
				var word ssa.Value
				if k, isK := mul.Y.(*ssa.Const); isK && k.Value != nil && k.Value.String() == "64" {
					word = mul.X
				} else if k, isK := mul.X.(*ssa.Const); isK && k.Value != nil && k.Value.String() == "64" {
					word = mul.Y
				}
				if word == nil {
					continue
				}
				n++
				abs := false
				seen := map[ssa.Value]bool{}
				var walk func(v ssa.Value, d int)
				walk = func(v ssa.Value, d int) {
					if v == nil || seen[v] || d > 6 {
						return
					}
					seen[v] = true
					switch x := v.(type) {
					case *ssa.Convert:
						walk(x.X, d+1)
					case *ssa.ChangeType:
						walk(x.X, d+1)
					case *ssa.BinOp:
						if x.Op == token.ADD && (x.X == offset || x.Y == offset) {
							abs = true
						}
						walk(x.X, d+1)
						walk(x.Y, d+1)
					case *ssa.Phi:
						for _, e := range x.Edges {
							walk(e, d+1)
						}
					}
				}
				walk(word, 0)
				c.Check(abs, "R16.13", fmt.Sprintf("%s: key #%d is computed from the absolute word index", core.SSAFuncName(fn), n), mul.Pos(),
					"the word index multiplied by 64 includes the scan offset",
					"the key is computed from the index relative to the scanned sub-slice, without the offset the scan started from: the insertion that grows the table returns a key of the first word (descriptor 0 instead of 64) and overwrites the entry that is open there")
			}
		}
	}
	if n == 0 {
		c.Undecided("R16.13", "key computation of the descriptor table's Insert", 0, "not found")
	}
}

// ---- rules added after the ninth round of seeded changes ----

// checkElementIndexesCheckedForEveryMode (R03.21): the range check of the function (and global) indexes of an element
// segment is made for every segment, whatever its mode: ref.func is validated only against the set of declared indexes.
func checkElementIndexesCheckedForEveryMode(c *core.Ctx) {
	p := c.Pkg("internal/wasm")
	if p == nil {
		return
	}
	info := p.TypesInfo
	n := 0
	core.AllFuncDecls(p, func(fd *ast.FuncDecl) {
		ast.Inspect(fd.Body, func(x ast.Node) bool {
			var body *ast.BlockStmt
			var over ast.Expr
			switch l := x.(type) {
			case *ast.RangeStmt:
				body, over = l.Body, l.X
			default:
				return true
			}
			if !strings.HasSuffix(core.ExprStr(over), "ElementSection") {
				return true
			}
			// the loop that range-checks the init indexes: it contains a loop over an Init list with an error return
			first := -1
			for i, st := range body.List {
				if rs, ok := st.(*ast.RangeStmt); ok && strings.HasSuffix(core.ExprStr(rs.X), ".Init") {
					rets := false
					ast.Inspect(rs.Body, func(y ast.Node) bool {
						if r, ok := y.(*ast.ReturnStmt); ok && len(r.Results) > 0 {
							rets = true
						}
						return true
					})
					if rets && first < 0 {
						first = i
					}
				}
			}
			if first < 0 {
				return true
			}
			n++
			skip := ""
			for _, st := range body.List[:first] {
				is, ok := st.(*ast.IfStmt)
				if !ok {
					continue
				}
				leaves := false
				ast.Inspect(is.Body, func(y ast.Node) bool {
					if b, ok := y.(*ast.BranchStmt); ok && (b.Tok == token.CONTINUE || b.Tok == token.BREAK) {
						leaves = true
					}
					return true
				})
				if leaves {
					skip = "`if " + core.ExprStr(is.Cond) + "` at " + c.Pos(is.Pos())
				}
			}
			_ = info
			c.Check(skip == "", "R03.21", core.FuncName(p, fd)+": the indexes of every element segment are range-checked, whatever its mode", x.Pos(),
				"no segment is skipped before the loop that checks its init indexes",
				skip+" skips segments before their function indexes are range-checked: `ref.func N` is validated only against the set of indexes that occur in element segments, so a declarative segment naming a function that does not exist makes FunctionInstanceReference index out of range at run time")
			return true
		})
	})
	if n == 0 {
		c.Undecided("R03.21", "range check of element segment indexes", 0, "not found")
	}
}

// checkLookupUsesDefiningEngine (R04.17): the host-side call_indirect (ModuleInstance.LookupFunction) creates the function
// object with the engine of the instance that DEFINES the function: the index it got back is an index of that instance.
func checkLookupUsesDefiningEngine(c *core.Ctx) {
	n := 0
	for _, fn := range moduleFns(c, "internal/wasm") {
		if fn.Parent() != nil || fn.Signature.Recv() == nil || len(fn.Params) == 0 {
			continue
		}
		// a method that asks its engine to look a table slot up (result: defining instance, index) and then creates functions
		var lookup *ssa.Call
		for _, b := range fn.Blocks {
			for _, in := range b.Instrs {
				if call, ok := in.(*ssa.Call); ok && call.Common().IsInvoke() && call.Common().Method.Name() == "LookupFunction" {
					lookup = call
				}
			}
		}
		if lookup == nil {
			continue
		}
		for _, b := range fn.Blocks {
			for _, in := range b.Instrs {
				call, ok := in.(*ssa.Call)
				if !ok || !call.Common().IsInvoke() || call.Common().Method.Name() != "NewFunction" {
					continue
				}
				n++
				// the engine value: load of <instance>.Engine – which instance?
				fromReceiver := false
				if ld, ok := call.Common().Value.(*ssa.UnOp); ok {
					if fa, ok := ld.X.(*ssa.FieldAddr); ok && fa.X == ssa.Value(fn.Params[0]) {
						fromReceiver = true
					}
				}
				c.Check(!fromReceiver, "R04.17", core.SSAFuncName(fn)+": the looked-up function is created by the engine of the instance that defines it", call.Pos(),
					"NewFunction is called on the engine of the instance returned by the lookup",
					"NewFunction(index) is called on the receiver's engine, but index is the function's index in the instance that defines it (the one the table slot refers to): through a shared table the same slot resolves to another function depending on which instance it is looked up through")
			}
		}
	}
	if n == 0 {
		c.Undecided("R04.17", "host-side table lookup", 0, "no method calling Engine.LookupFunction and NewFunction found")
	}
}

// checkConstLabelSlotsPaired (R05.10): each memoised constant of the amd64 backend has its own slot: a slot is always used
// with the same data, and a data block with the same slot.
func checkConstLabelSlotsPaired(c *core.Ctx) {
	p := c.Pkg("internal/engine/wazevo/backend/isa/amd64")
	if p == nil {
		return
	}
	info := p.TypesInfo
	slotData, dataSlot := map[string]map[string]token.Pos{}, map[string]map[string]token.Pos{}
	n := 0
	core.AllFuncDecls(p, func(fd *ast.FuncDecl) {
		ast.Inspect(fd.Body, func(x ast.Node) bool {
			call, ok := x.(*ast.CallExpr)
			if !ok || len(call.Args) != 2 {
				return true
			}
			f := core.Callee(info, call)
			if f == nil || !strings.Contains(strings.ToLower(f.Name()), "constlabel") {
				return true
			}
			u, ok := ast.Unparen(call.Args[0]).(*ast.UnaryExpr)
			if !ok || u.Op != token.AND {
				return true
			}
			slot, data := core.ExprStr(u.X), core.ExprStr(call.Args[1])
			n++
			if slotData[slot] == nil {
				slotData[slot] = map[string]token.Pos{}
			}
			if dataSlot[data] == nil {
				dataSlot[data] = map[string]token.Pos{}
			}
			slotData[slot][data] = call.Pos()
			dataSlot[data][slot] = call.Pos()
			return true
		})
	})
	if n < 4 {
		c.Undecided("R05.10", "memoised constants of the amd64 backend", 0, fmt.Sprintf("only %d uses found", n))
		return
	}
	var bad []string
	var pos token.Pos
	for slot, ds := range slotData {
		if len(ds) > 1 {
			var names []string
			for d, ps := range ds {
				names = append(names, d)
				pos = ps
			}
			sort.Strings(names)
			bad = append(bad, "slot "+slot+" is used with "+strings.Join(names, " and "))
		}
	}
	for data, ss := range dataSlot {
		if len(ss) > 1 {
			var names []string
			for s2, ps := range ss {
				names = append(names, s2)
				pos = ps
			}
			sort.Strings(names)
			bad = append(bad, "constant "+data+" is memoised in "+strings.Join(names, " and "))
		}
	}
	sort.Strings(bad)
	c.Check(len(bad) == 0, "R05.10", "amd64: every memoised constant has its own slot", pos,
		fmt.Sprintf("%d uses, slot and data are paired one to one", n),
		strings.Join(bad, "; ")+": whichever use is lowered first in a function decides the bytes behind the label, the other instruction computes with the wrong constant (only when both occur in one function)")
}

// checkFramePushedBeforeEntryPoll (R20.17): the interpreter pushes the frame of a function before its entry-time poll of the
// closed flag: the function has had its Before by then, and Abort is delivered to the functions that have a frame.
func checkFramePushedBeforeEntryPoll(c *core.Ctx) {
	p := c.Pkg("internal/engine/interpreter")
	if p == nil {
		return
	}
	loop := interpExecLoopName(p)
	n := 0
	for _, fn := range moduleFns(c, "internal/engine/interpreter") {
		if fn.Parent() != nil || fn.Name() != loop {
			continue
		}
		var push, poll ssa.Instruction
		pollsClosed := func(f *ssa.Function, depth int) bool {
			if f == nil {
				return false
			}
			if f.Name() == "FailIfClosed" {
				return true
			}
			if depth > 0 || f.Blocks == nil || f.Pkg != fn.Pkg {
				return false
			}
			for _, b := range f.Blocks {
				for _, in := range b.Instrs {
					if call, ok := in.(*ssa.Call); ok {
						if sc := call.Common().StaticCallee(); sc != nil && sc.Name() == "FailIfClosed" {
							return true
						}
					}
				}
			}
			return false
		}
		// in program order of the function's entry region: the first push and the first poll
		for _, b := range fn.Blocks {
			for _, in := range b.Instrs {
				call, ok := in.(*ssa.Call)
				if !ok {
					continue
				}
				sc := call.Common().StaticCallee()
				if sc == nil {
					continue
				}
				if sc.Name() == "pushFrame" && push == nil {
					push = in
				}
				if pollsClosed(sc, 0) && poll == nil {
					poll = in
				}
			}
		}
		if push == nil || poll == nil {
			continue
		}
		n++
		before := instrBefore(push, poll) && !instrBefore(poll, push)
		c.Check(before, "R20.17", "interpreter "+fn.Name()+": the frame is pushed before the entry-time poll of the closed flag", push.Pos(),
			"pushFrame precedes the first FailIfClosed of the function",
			"the closed flag is polled (and may panic) before the frame of the entered function is pushed: the function got its Before, but the unwinding delivers Abort only to functions with a frame, so it receives neither After nor Abort")
	}
	if n == 0 {
		c.Undecided("R20.17", "interpreter function entry (pushFrame and the entry poll)", 0, "not found")
	}
}

// checkTableSlicesResizedTogether (R15.10): the descriptor table keeps two parallel slices (a presence bitmap and the
// items, 64 per bitmap word); Lookup bounds the key by one and indexes the other, Delete the other way round. A function
// that replaces the header of one of them (re-slice, append, grow) without replacing the other's breaks the length
// relation every accessor relies on: a later call with a key in the gap indexes out of range in the host.
func checkTableSlicesResizedTogether(c *core.Ctx) {
	// One body per source function (instantiations of a generic method share its position).
	byPos := map[token.Pos]*ssa.Function{}
	var order []token.Pos
	for _, fn := range moduleFns(c, "internal/descriptor") {
		if fn.Parent() != nil {
			continue
		}
		if _, ok := byPos[fn.Pos()]; !ok {
			byPos[fn.Pos()] = fn
			order = append(order, fn.Pos())
		}
	}
	direct := map[token.Pos]map[int]token.Pos{}
	callees := map[token.Pos]map[token.Pos]bool{}
	callers := map[token.Pos]map[token.Pos]bool{}
	var tbl *types.Struct
	for _, pos := range order {
		fn := byPos[pos]
		direct[pos] = map[int]token.Pos{}
		callees[pos] = map[token.Pos]bool{}
		var visit func(f *ssa.Function)
		visit = func(f *ssa.Function) {
			for _, b := range f.Blocks {
				for _, in := range b.Instrs {
					if mc, ok := in.(*ssa.MakeClosure); ok {
						if af, ok := mc.Fn.(*ssa.Function); ok {
							visit(af)
						}
					}
					if ci, ok := in.(ssa.CallInstruction); ok {
						if sc := ci.Common().StaticCallee(); sc != nil {
							if _, same := byPos[sc.Pos()]; same && sc.Pos() != pos {
								callees[pos][sc.Pos()] = true
							}
						}
					}
					s, ok := in.(*ssa.Store)
					if !ok {
						continue
					}
					fa, ok := s.Addr.(*ssa.FieldAddr)
					if !ok {
						continue
					}
					pt, ok := fa.X.Type().Underlying().(*types.Pointer)
					if !ok {
						continue
					}
					sty, ok := pt.Elem().Underlying().(*types.Struct)
					if !ok {
						continue
					}
					if named, ok := pt.Elem().(*types.Named); !ok || named.Obj().Pkg() == nil || !strings.HasSuffix(named.Obj().Pkg().Path(), "internal/descriptor") {
						continue
					}
					if _, isSlice := sty.Field(fa.Field).Type().Underlying().(*types.Slice); !isSlice {
						continue
					}
					tbl = sty
					if _, seen := direct[pos][fa.Field]; !seen {
						direct[pos][fa.Field] = s.Pos()
					}
				}
			}
		}
		visit(fn)
	}
	for p, cs := range callees {
		for q := range cs {
			if callers[q] == nil {
				callers[q] = map[token.Pos]bool{}
			}
			callers[q][p] = true
		}
	}
	var tableFields []int
	if tbl != nil {
		for i := 0; i < tbl.NumFields(); i++ {
			if _, isSlice := tbl.Field(i).Type().Underlying().(*types.Slice); isSlice {
				tableFields = append(tableFields, i)
			}
		}
	}
	if tbl == nil || len(tableFields) < 2 {
		c.Undecided("R15.10", "descriptor table", 0, "no function of internal/descriptor replaces a slice field of a table with two parallel slices (anchor: the function that grows the table)")
		return
	}
	// total[f]: the slice fields replaced by f or by a function of the package it calls.
	total := map[token.Pos]map[int]token.Pos{}
	for _, pos := range order {
		total[pos] = map[int]token.Pos{}
		for k, v := range direct[pos] {
			total[pos][k] = v
		}
	}
	for changed := true; changed; {
		changed = false
		for _, pos := range order {
			for q := range callees[pos] {
				for k, v := range total[q] {
					if _, ok := total[pos][k]; !ok {
						total[pos][k] = v
						changed = true
					}
				}
			}
		}
	}
	complete := func(pos token.Pos) bool { return len(total[pos]) == len(tableFields) }
	// A step that replaces only one slice is fine when every function that calls it (transitively) completes the pair.
	var completedByCallers func(pos token.Pos, seen map[token.Pos]bool) bool
	completedByCallers = func(pos token.Pos, seen map[token.Pos]bool) bool {
		if complete(pos) {
			return true
		}
		if seen[pos] {
			return true
		}
		seen[pos] = true
		if len(callers[pos]) == 0 {
			return false
		}
		for g := range callers[pos] {
			if !completedByCallers(g, seen) {
				return false
			}
		}
		return true
	}
	for _, pos := range order {
		if len(direct[pos]) == 0 {
			continue
		}
		fn := byPos[pos]
		var missing []string
		var at token.Pos
		for _, i := range tableFields {
			if _, ok := total[pos][i]; !ok {
				missing = append(missing, tbl.Field(i).Name())
			} else {
				at = total[pos][i]
			}
		}
		name := fn.Name()
		if fn.Origin() != nil {
			name = fn.Origin().Name()
		}
		c.Check(completedByCallers(pos, map[token.Pos]bool{}), "R15.10", "internal/descriptor."+name+" resizes the parallel slices of the descriptor table together", at,
			fmt.Sprintf("all %d slice fields of the table are replaced by this function, the steps it calls, or every function that calls it", len(tableFields)),
			fmt.Sprintf("the function replaces the header of one slice of the table but not of %s (nor does a caller): the accessors bound a key by the length of one slice and index the other (Lookup, Delete), so after this function a descriptor number in the gap indexes out of range in the host instead of giving EBADF", strings.Join(missing, ", ")))
	}
}
