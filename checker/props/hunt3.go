package props

import (
	"fmt"
	"go/ast"
	"go/token"
	"go/types"
	"golang.org/x/tools/go/packages"
	"sort"
	"strings"

	"golang.org/x/tools/go/ssa"

	"verif/checker/core"
)

// Rules added after the fourth round of seeded changes.

// isFlagValue reports whether v is a 0/1 value: the result of a call to a function from one bool to an integer, a
// conversion of one, or a phi of the constants 0 and 1.
func isFlagValue(v ssa.Value, depth int) bool {
	if depth > 4 {
		return false
	}
	switch x := v.(type) {
	case *ssa.Call:
		if f := x.Common().StaticCallee(); f != nil {
			sig := f.Signature
			if sig.Params().Len() == 1 && sig.Results().Len() == 1 {
				pb, _ := sig.Params().At(0).Type().Underlying().(*types.Basic)
				rb, _ := sig.Results().At(0).Type().Underlying().(*types.Basic)
				return pb != nil && pb.Kind() == types.Bool && rb != nil && rb.Info()&types.IsInteger != 0
			}
		}
	case *ssa.Convert:
		return isFlagValue(x.X, depth+1)
	case *ssa.Phi:
		for _, e := range x.Edges {
			k, ok := e.(*ssa.Const)
			if !ok || k.Value == nil || (k.Value.String() != "0" && k.Value.String() != "1") {
				return false
			}
		}
		return len(x.Edges) > 0
	}
	return false
}

// checkIDFlagsInjective (R12.10): the module identity keeps its boolean inputs apart: two 0/1 flags are never combined
// with an operator that maps different flag pairs to one value (|, +, ^, & of unshifted flags) before they are hashed.
func checkIDFlagsInjective(c *core.Ctx, fn *ssa.Function) {
	fns := []*ssa.Function{fn}
	for _, b := range fn.Blocks {
		for _, in := range b.Instrs {
			if call, ok := in.(*ssa.Call); ok {
				if f := call.Common().StaticCallee(); f != nil && f.Blocks != nil && f.Pkg == fn.Pkg {
					fns = append(fns, f)
				}
			}
		}
	}
	bad := ""
	var pos token.Pos
	n := 0
	for _, f := range fns {
		for _, b := range f.Blocks {
			for _, in := range b.Instrs {
				bo, ok := in.(*ssa.BinOp)
				if !ok {
					continue
				}
				switch bo.Op {
				case token.OR, token.ADD, token.XOR, token.AND:
				default:
					continue
				}
				n++
				if isFlagValue(bo.X, 0) && isFlagValue(bo.Y, 0) {
					bad = fmt.Sprintf("two 0/1 flags are combined with %s without being shifted apart in %s", bo.Op, f.Name())
					pos = bo.Pos()
				}
			}
		}
	}
	c.Check(bad == "", "R12.10", "identity inputs are kept apart (no two unshifted flags merged into one hashed byte)", pos,
		fmt.Sprintf("%d arithmetic combinations in the identity function and its helpers, none of two flag values", n),
		bad+": configurations that differ in which of the two options is set get the same identity and share cache entries and compiled code")
}

// listenerPresenceForm prints the way a boolean is derived from its function's parameters, through one level of helper.
func listenerPresenceForm(v ssa.Value, depth int) string {
	if depth > 6 {
		return "…"
	}
	switch x := v.(type) {
	case *ssa.Parameter:
		return "param:" + x.Type().String()
	case *ssa.Const:
		if x.Value == nil {
			return "nil"
		}
		return x.Value.String()
	case *ssa.BinOp:
		a, b := listenerPresenceForm(x.X, depth+1), listenerPresenceForm(x.Y, depth+1)
		op := x.Op
		// normalise 0 < len, len != 0, len >= 1 to len > 0
		if op == token.LSS && a == "0" {
			a, b, op = b, a, token.GTR
		}
		if op == token.NEQ && b == "0" && strings.HasPrefix(a, "len(") {
			op = token.GTR
		}
		if op == token.GEQ && b == "1" && strings.HasPrefix(a, "len(") {
			op, b = token.GTR, "0"
		}
		return "(" + a + " " + op.String() + " " + b + ")"
	case *ssa.Call:
		if bi, ok := x.Common().Value.(*ssa.Builtin); ok {
			var as []string
			for _, a := range x.Common().Args {
				as = append(as, listenerPresenceForm(a, depth+1))
			}
			return bi.Name() + "(" + strings.Join(as, ",") + ")"
		}
		if f := x.Common().StaticCallee(); f != nil {
			var as []string
			for _, a := range x.Common().Args {
				as = append(as, listenerPresenceForm(a, depth+1))
			}
			return "call " + f.String() + "(" + strings.Join(as, ",") + ")"
		}
	case *ssa.UnOp:
		return x.Op.String() + listenerPresenceForm(x.X, depth+1)
	case *ssa.ChangeType:
		return listenerPresenceForm(x.X, depth+1)
	}
	return fmt.Sprintf("opaque<%T at %d>", v, v.Pos())
}

// checkListenerPresenceAgrees (R12.11): the compile path and the cache-hit path lay the module context out from the same
// notion of "compiled with listeners": every NewModuleContextOffsetData call in the engine derives its flag the same way.
func checkListenerPresenceAgrees(c *core.Ctx) {
	forms := map[string][]string{}
	var pos token.Pos
	n := 0
	for _, fn := range moduleFns(c, "internal/engine/wazevo") {
		for _, b := range fn.Blocks {
			for _, in := range b.Instrs {
				call, ok := in.(*ssa.Call)
				if !ok {
					continue
				}
				f := call.Common().StaticCallee()
				if f == nil || f.Name() != "NewModuleContextOffsetData" || len(call.Common().Args) < 2 {
					continue
				}
				n++
				form := listenerPresenceForm(call.Common().Args[1], 0)
				forms[form] = append(forms[form], fn.Name())
				pos = call.Pos()
			}
		}
	}
	if n < 2 {
		c.Undecided("R12.11", "listener presence agreement", 0, fmt.Sprintf("%d NewModuleContextOffsetData call sites in the engine, expected the compile path and the cache-hit path", n))
		return
	}
	var keys []string
	for k := range forms {
		keys = append(keys, k+" in "+strings.Join(forms[k], ","))
	}
	sort.Strings(keys)
	c.Check(len(forms) == 1, "R12.11", "compile path and cache-hit path agree on whether the module has listeners", pos,
		fmt.Sprintf("%d call sites, one derivation: %s", n, strings.Join(keys, "; ")),
		"the module context layout is computed from different notions of listener presence ("+strings.Join(keys, "; ")+"): a module compiled on one path and loaded from the cache on the other has different offsets for the same machine code")
}

// checkReadViewCapped (R14.11): the view handed out by Memory.Read ends, by capacity too, where the checked range ends:
// with capacity reserved beyond the size (capacity-from-max, shared memories) an append on an uncapped view writes into
// pages that are not yet part of the memory, and a later grow exposes them non-zero.
func checkReadViewCapped(c *core.Ctx) {
	n := 0
	for _, fn := range moduleFns(c, "internal/wasm") {
		if fn.Name() != "Read" || fn.Signature.Recv() == nil || core.NamedOf(fn.Signature.Recv().Type()) == nil ||
			core.NamedOf(fn.Signature.Recv().Type()).Obj().Name() != "MemoryInstance" {
			continue
		}
		for _, b := range fn.Blocks {
			for _, in := range b.Instrs {
				ret, ok := in.(*ssa.Return)
				if !ok || len(ret.Results) == 0 {
					continue
				}
				sl, ok := ret.Results[0].(*ssa.Slice)
				if !ok {
					continue
				}
				n++
				ok2 := sl.Max != nil && sl.High != nil && sameSSA(sl.Max, sl.High)
				c.Check(ok2, "R14.11", fmt.Sprintf("MemoryInstance.Read view #%d is capped at its end", n), sl.Pos(),
					"three-index slice with capacity equal to the end of the checked range",
					"the returned slice keeps the capacity of the whole backing array: an append on it writes past the checked range, and past the current size when capacity is reserved from the maximum, so a later grow exposes non-zero pages")
			}
		}
	}
	if n == 0 {
		c.Undecided("R14.11", "MemoryInstance.Read view", 0, "no slice of the buffer returned by MemoryInstance.Read")
	}
}

// checkFSOnlyOfDirectories (R15.9): a WASI function takes the file system of a descriptor entry only once the entry is
// known to be a directory (or the file system is tested for nil): entries such as pre-opened listeners have none.
func checkFSOnlyOfDirectories(c *core.Ctx) {
	n := 0
	for _, fn := range moduleFns(c, "imports/wasi_snapshot_preview1") {
		// edges known to be "is a directory" / "has a file system" / "path resolved"
		var proof []*ssa.BasicBlock
		for _, b := range fn.Blocks {
			if len(b.Instrs) == 0 {
				continue
			}
			iff, ok := b.Instrs[len(b.Instrs)-1].(*ssa.If)
			if !ok {
				continue
			}
			cond, neg := iff.Cond, false
			if u, ok := cond.(*ssa.UnOp); ok && u.Op == token.NOT {
				cond, neg = u.X, true
			}
			good := -1
			switch x := cond.(type) {
			case *ssa.Extract:
				if call, ok := x.Tuple.(*ssa.Call); ok && x.Index == 0 && call.Common().IsInvoke() && call.Common().Method.Name() == "IsDir" {
					good = 0
				}
			case *ssa.BinOp:
				// f.FS != nil ; errno == 0 / errno != 0 of a path resolution
				isNil := func(v ssa.Value) bool { k, ok := v.(*ssa.Const); return ok && k.Value == nil }
				if (x.Op == token.NEQ || x.Op == token.EQL) && (isNil(x.Y) || isNil(x.X)) {
					other := x.X
					if isNil(x.X) {
						other = x.Y
					}
					if isFSLoad(other) {
						if x.Op == token.NEQ {
							good = 0
						} else {
							good = 1
						}
					}
				}
				if ex, ok := x.X.(*ssa.Extract); ok && (x.Op == token.NEQ || x.Op == token.EQL) {
					if call, ok := ex.Tuple.(*ssa.Call); ok {
						if f := call.Common().StaticCallee(); f != nil && returnsFS(f) {
							if k, ok := x.Y.(*ssa.Const); ok && k.Value != nil && k.Value.String() == "0" {
								if x.Op == token.EQL {
									good = 0
								} else {
									good = 1
								}
							}
						}
					}
				}
			}
			if good < 0 {
				continue
			}
			if neg {
				good = 1 - good
			}
			s := b.Succs[good]
			if len(s.Preds) == 1 {
				proof = append(proof, s)
			}
		}
		for _, b := range fn.Blocks {
			for _, in := range b.Instrs {
				v, ok := in.(ssa.Value)
				if !ok || !isFSLoad(v) || v.Referrers() == nil {
					continue
				}
				for _, u := range *v.Referrers() {
					what := ""
					switch x := u.(type) {
					case *ssa.Return:
						what = "returned"
					case *ssa.Call:
						if x.Common().IsInvoke() && x.Common().Value == v {
							what = "called (" + x.Common().Method.Name() + ")"
						} else {
							what = "passed on"
						}
					case *ssa.BinOp:
						continue // the nil test itself
					default:
						continue
					}
					n++
					ok2 := false
					for _, p := range proof {
						if p.Dominates(u.Block()) {
							ok2 = true
						}
					}
					c.Check(ok2, "R15.9", fmt.Sprintf("WASI %s: the file system of a descriptor entry is %s only for a directory", fn.Name(), what), u.Pos(),
						"dominated by the is-a-directory edge of IsDir, a nil test of the file system, or a successful path resolution",
						"the entry's file system is used on a path where the entry is not known to be a directory: a pre-opened TCP listener (pre-open, no file system) passed as the directory of a path_* call makes the host call a method on a nil interface – a Go runtime error instead of ENOTDIR")
				}
			}
		}
	}
	if n == 0 {
		c.Undecided("R15.9", "uses of FileEntry.FS in the WASI functions", 0, "none found")
	}
}

func isFSLoad(v ssa.Value) bool {
	u, ok := v.(*ssa.UnOp)
	if !ok || u.Op != token.MUL {
		return false
	}
	fa, ok := u.X.(*ssa.FieldAddr)
	if !ok {
		return false
	}
	st, _ := derefStructT(fa.X.Type()).Underlying().(*types.Struct)
	if st == nil || st.Field(fa.Field).Name() != "FS" {
		return false
	}
	n := core.NamedOf(fa.X.Type())
	return n != nil && n.Obj().Name() == "FileEntry"
}

// returnsFS: a function of the WASI package whose first result is a file system and last an errno (atPath).
func returnsFS(f *ssa.Function) bool {
	res := f.Signature.Results()
	if res.Len() < 2 {
		return false
	}
	n0, n1 := core.NamedOf(res.At(0).Type()), core.NamedOf(res.At(res.Len()-1).Type())
	return n0 != nil && n0.Obj().Name() == "FS" && n1 != nil && n1.Obj().Name() == "Errno"
}

// declOf returns the declaration of f in package p (nil for functions of other packages).
func declOf(p *packages.Package, f *types.Func) *ast.FuncDecl {
	var out *ast.FuncDecl
	core.AllFuncDecls(p, func(g *ast.FuncDecl) {
		if p.TypesInfo.Defs[g.Name] == types.Object(f) && g.Body != nil {
			out = g
		}
	})
	return out
}

// ---- call entries (R07.3 pre-check, R07.7): decided on SSA so that the form of the test (select/default inline, a
// predicate helper, a one-level helper doing the whole check) does not matter.

func ssaCalleeIs(call ssa.CallInstruction, f *types.Func) bool {
	sc := call.Common().StaticCallee()
	return sc != nil && sc.Object() == types.Object(f)
}

// instrBefore: a executes before b on some path of their (common) function and never after it on a path without loops.
func instrBefore(a, b ssa.Instruction) bool {
	if a.Block() == b.Block() {
		return instrIndex(a) < instrIndex(b)
	}
	return blockReaches(a.Block(), b.Block())
}

// consultsDone: the function contains a non-blocking receive from a Done() channel, itself or through a callee of its
// package (one level).
func consultsDone(fn *ssa.Function, depth int) bool {
	for _, b := range fn.Blocks {
		for _, in := range b.Instrs {
			switch x := in.(type) {
			case *ssa.Select:
				if x.Blocking {
					continue
				}
				for _, st := range x.States {
					if call, ok := st.Chan.(*ssa.Call); ok && call.Common().IsInvoke() && call.Common().Method.Name() == "Done" {
						return true
					}
				}
			case *ssa.Call:
				if f := x.Common().StaticCallee(); f != nil && f.Pkg == fn.Pkg && f.Blocks != nil && depth < 1 && consultsDone(f, depth+1) {
					return true
				}
			}
		}
	}
	return false
}

type callEntryFacts struct {
	entry    *ssa.Function
	watcher  ssa.Instruction
	pre      bool   // done context: closes with the context error and returns FailIfClosed's error, before the watcher
	polls    bool   // context not done: FailIfClosed consulted and used, before the watcher
	preWhere string // the function holding the pre-check
}

// callEntries returns the facts of every function of the package that starts the cancellation watcher.
func callEntries(c *core.Ctx, rel string, closeOnCancel, closeWithCtxErr, failIfClosed *types.Func) []*callEntryFacts {
	var out []*callEntryFacts
	fns := moduleFns(c, rel)
	sort.Slice(fns, func(i, j int) bool { return fns[i].String() < fns[j].String() })
	for _, fn := range fns {
		if fn.Parent() != nil {
			continue
		}
		var w ssa.Instruction
		for _, b := range fn.Blocks {
			for _, in := range b.Instrs {
				if call, ok := in.(ssa.CallInstruction); ok && ssaCalleeIs(call, closeOnCancel) {
					w = in
				}
			}
		}
		if w == nil {
			continue
		}
		f := &callEntryFacts{entry: fn, watcher: w}
		out = append(out, f)
		// the functions in which the check may live: the entry, and the helpers it calls before the watcher
		type cand struct {
			g    *ssa.Function
			site ssa.Instruction // nil for the entry itself
		}
		cands := []cand{{fn, nil}}
		for _, b := range fn.Blocks {
			for _, in := range b.Instrs {
				if call, ok := in.(*ssa.Call); ok {
					if h := call.Common().StaticCallee(); h != nil && h.Pkg == fn.Pkg && h.Blocks != nil && h != fn && instrBefore(in, w) {
						cands = append(cands, cand{h, in})
					}
				}
			}
		}
		for _, cd := range cands {
			g := cd.g
			inScope := func(in ssa.Instruction) bool { return cd.site != nil || !instrBefore(w, in) } // not after the watcher is started
			var k ssa.Instruction
			for _, b := range g.Blocks {
				for _, in := range b.Instrs {
					if call, ok := in.(ssa.CallInstruction); ok && ssaCalleeIs(call, closeWithCtxErr) && inScope(in) {
						k = in
					}
				}
			}
			for _, b := range g.Blocks {
				for _, in := range b.Instrs {
					call, ok := in.(*ssa.Call)
					if !ok || !ssaCalleeIs(call, failIfClosed) || !inScope(in) {
						continue
					}
					afterK := k != nil && (k.Block() == b && instrIndex(k) < instrIndex(in) || k.Block() != b && k.Block().Dominates(b))
					used := call.Referrers() != nil && len(*call.Referrers()) > 0
					if afterK {
						// returned on the done path
						for _, u := range *call.Referrers() {
							// (with a deferred recover the result is first stored in the named result)
							_, isRet := u.(*ssa.Return)
							if st, ok := u.(*ssa.Store); ok && st.Val == ssa.Value(call) {
								_, isRet = st.Addr.(*ssa.Alloc)
							}
							if isRet && consultsDone(g, 0) {
								f.pre, f.preWhere = true, g.Name()
							}
						}
					} else if used {
						f.polls = true
					}
				}
			}
		}
	}
	return out
}

// armScope returns the node itself and the bodies of the functions of package p called directly inside it (one level):
// what an arm does, whether inline or through a helper.
func armScope(p *packages.Package, n ast.Node) []ast.Node {
	out := []ast.Node{n}
	seen := map[*ast.FuncDecl]bool{}
	ast.Inspect(n, func(x ast.Node) bool {
		if call, ok := x.(*ast.CallExpr); ok {
			if f := core.Callee(p.TypesInfo, call); f != nil && f.Pkg() == p.Types {
				if hd := declOf(p, f); hd != nil && !seen[hd] {
					seen[hd] = true
					out = append(out, hd.Body)
				}
			}
		}
		return true
	})
	return out
}
