package props

import (
	"fmt"
	"go/ast"
	"go/token"
	"go/types"
	"strings"

	"golang.org/x/tools/go/ssa"

	"verif/checker/core"
)

// C16 WASI file operations behave like a POSIX-style reference model (structural clauses only).

func init() {
	core.Register(&core.Property{
		ID:    "C16",
		Level: "other",
		Explanation: "Behaviour of call sequences against a reference model is NOT decided (no sound static argument in reach). Decided are five structural necessary conditions, each of which, when broken, yields a concrete sequence that deviates from the model: " +
			"(R16.1) no closed entry stays in the descriptor table – after closing the file of an entry obtained by Lookup(k) every successful path deletes or replaces slot k, an entry re-inserted under another key is guarded by a test that the keys differ (renumbering onto itself is a no-op), and closing the context resets the table; " +
			"(R16.2) the directory cookie reaches the dirent cache as the guest's 64-bit value (no narrowing); (R16.3) descriptor allocation scans the occupancy words from word 0 (lowest-free) and grows by one word only when all are full; " +
			"(R16.4) fd_readdir's reported bufused depends on the truncation indicator (an entry that does not fit is reported as truncated, not as end of directory); (R16.5) the dirent cache returns cached entries only after the refill test (a short result means end of directory); (R16.6) the dirent cache never reduces the requested count, because fd_readdir asks for one entry more than fits and reads a short answer as end-of-directory.",
		Rules: []core.Rule{
			{ID: "R16.12", Template: "T-BOUND", Text: "the dirent cache refuses only positions strictly before its window", Min: 1},
			{ID: "R16.13", Template: "T-BOUND", Text: "the descriptor table computes the key it hands out from the absolute word index", Min: 1},
			{ID: "R16.11", Template: "T-MUSTPASS", Text: "a positional read emulated with Seek restores the offset on every path that reads", Min: 1},
			{ID: "R16.10", Template: "T-MUSTPASS", Text: "fd_readdir at cookie 0 rewinds and drops the cached window on every path", Min: 1},
			{ID: "R16.9", Template: "T-TYPESTATE", Text: "fd_renumber: no failing return after the source entry left the table (same analysis as C15 R15.7)", Min: 1},
			{ID: "R16.8", Template: "T-MUSTPASS", Text: "Close of a sysfs file type closes the host object it wraps (genuine defect found and fixed: TCP connections)", Min: 3},
			{ID: "R16.7", Template: "T-CONSULT", Text: "the dirent cache takes only an empty read for the end of the directory (genuine defect found and fixed)", Min: 2},
			{ID: "R16.1", Template: "T-TYPESTATE", Text: "closed entries leave the table; re-insertion under a different key is guarded by key inequality; context close resets the table", Min: 4},
			{ID: "R16.2", Template: "T-WIDTH", Text: "cookie passed to the dirent cache without narrowing", Min: 1},
			{ID: "R16.3", Template: "T-CONSULT", Text: "Insert scans from word 0", Min: 1},
			{ID: "R16.4", Template: "T-CONSULT", Text: "bufused depends on the truncation indicator", Min: 1},
			{ID: "R16.6", Template: "T-NONINTERF", Text: "the dirent cache never reduces the requested count (fd_readdir derives end-of-directory from a short answer)", Min: 1},
			{ID: "R16.5", Template: "T-MUSTPASS", Text: "cached dirents are returned only after the populate step or the refill test", Min: 1},
		},
		Run: runC16,
		Controls: []core.Control{
			{Name: "dirent-window-start-refused", File: "internal/sys/fs.go", Old: "\tif pos < cacheStart {", New: "\tif pos <= cacheStart {", Rule: "R16.12", Substr: "strictly before"},
			{Name: "insert-key-from-relative-index", File: "internal/descriptor/table.go", Old: "\t\t\tindex += offset\n\t\t\tkey = Key(index)*64 + Key(shift)\n", New: "\t\t\tkey = Key(index)*64 + Key(shift)\n\t\t\tindex += offset\n", Rule: "R16.13", Substr: "absolute"},
			{Name: "pread-restore-only-after-seek", File: "internal/sysfs/file.go", Old: "\t\tdefer func() { _, _ = rs.Seek(currentOffset, io.SeekStart) }()\n", New: "", Old2: "\t\t\tif _, err = rs.Seek(off, io.SeekStart); err != nil {\n\t\t\t\treturn 0, fileError(f, f.closed, experimentalsys.UnwrapOSError(err))\n\t\t\t}\n", New2: "\t\t\tif _, err = rs.Seek(off, io.SeekStart); err != nil {\n\t\t\t\treturn 0, fileError(f, f.closed, experimentalsys.UnwrapOSError(err))\n\t\t\t}\n\t\t\tdefer func() { _, _ = rs.Seek(currentOffset, io.SeekStart) }()\n", Rule: "R16.11", Substr: "positional read"},
			{Name: "rewind-skipped-for-full-window", File: "internal/sys/fs.go", Old: "\t\tif _, errno = d.f.Seek(0, io.SeekStart); errno != 0 {\n\t\t\treturn\n\t\t}\n\t\td.dirents = nil // dump cache\n", New: "\t\tif d.countRead == uint64(len(d.dirents)) {\n\t\t\tbreak\n\t\t}\n\t\tif _, errno = d.f.Seek(0, io.SeekStart); errno != 0 {\n\t\t\treturn\n\t\t}\n\t\td.dirents = nil // dump cache\n", Rule: "R16.10", Substr: "position 0"},
			{Name: "renumber-fails-after-delete", File: "internal/sys/fs.go", Old: "\tc.openedFiles.Delete(from)\n", New: "\tc.openedFiles.Delete(from)\n\tif to > 1<<20 {\n\t\treturn sys.EBADF\n\t}\n", Rule: "R16.9", Substr: ""},
			{Name: "conn-close-only-shuts-down", File: "internal/sysfs/sock.go", Old: "\treturn experimentalsys.UnwrapOSError(f.tc.Close())\n", New: "\treturn f.Shutdown(socketapi.SHUT_RDWR)\n", Rule: "R16.8", Substr: "tcpConnFile"},
			{Name: "eof-from-short-read", File: "internal/sys/fs.go", Old: "\t\t\t// A short count is not the end: Readdir skips entries which vanished while it read.\n\t\t\td.dirents = append(d.dirents, dirents...)", New: "\t\t\td.eof = countRead < countToRead\n\t\t\td.dirents = append(d.dirents, dirents...)", Rule: "R16.7", Substr: "end of directory"},
			{Name: "dirent-count-clamped", File: "internal/sys/fs.go", Old: "\tif n == 0 {\n\t\treturn // special case no entries.\n\t}\n", New: "\tif n == 0 {\n\t\treturn // special case no entries.\n\t} else if n > 256 {\n\t\tn = 256\n\t}\n", Rule: "R16.6", Substr: "requested count"},
			{Name: "renumber-self", File: "internal/sys/fs.go", Old: "\t} else if from == to {\n\t\treturn 0 // Renumbering onto itself is a no-op: closing \"to\" would close the file being moved.\n\t}", New: "\t}", Rule: "R16.1", Substr: "Renumber"},
			{Name: "closefile-keeps-entry", File: "internal/sys/fs.go", Old: "\tc.openedFiles.Delete(fd)\n\treturn errno\n}", New: "\treturn errno\n}", Rule: "R16.1", Substr: "CloseFile"},
			{Name: "context-close-keeps-table", File: "internal/sys/fs.go", Old: "\tc.openedFiles = FileTable{}\n", New: "", Rule: "R16.1", Substr: "Close"},
			{Name: "cookie-narrowed", File: "imports/wasi_snapshot_preview1/fs.go", Old: "dirents, errno := dir.Read(cookie, maxDirEntries)", New: "dirents, errno := dir.Read(uint64(uint32(cookie)), maxDirEntries)", Rule: "R16.2", Substr: "cookie"},
			{Name: "insert-scan-from-hint", File: "internal/descriptor/table.go", Old: "func (t *Table[Key, Item]) Insert(item Item) (key Key, ok bool) {\n\toffset := 0\n", New: "func (t *Table[Key, Item]) Insert(item Item) (key Key, ok bool) {\n\toffset := len(t.masks) / 2\n", Rule: "R16.3", Substr: "Insert"},
			{Name: "readdir-truncation-as-eof", File: "imports/wasi_snapshot_preview1/fs.go", Old: "\tbufused := bufToWrite\n\tif truncatedLen > 0 {\n\t\tbufused = bufLen\n\t}\n", New: "\tbufused := bufToWrite\n", Rule: "R16.4", Substr: "bufused"},
			{Name: "dirent-cache-fast-path", File: "internal/sys/fs.go", Old: "\t} else if posInCache := pos - cacheStart; posInCache != 0 {", New: "\t} else if posInCache := pos - cacheStart; posInCache == 0 && len(d.dirents) != 0 {\n\t\treturn d.cachedDirents(n), 0\n\t} else if posInCache != 0 {", Rule: "R16.5", Substr: "Read"},
		},
		Configs: []core.BuildCfg{{GOOS: "windows", GOARCH: "amd64"}, {GOOS: "darwin", GOARCH: "arm64"}},
	})
}

func calleeName(ci ssa.CallInstruction) string {
	cc := ci.Common()
	if cc.IsInvoke() {
		return cc.Method.Name()
	}
	if f := cc.StaticCallee(); f != nil {
		return f.Name()
	}
	return ""
}

// tableCall reports whether ci is a call of descriptor.Table method name (possibly through FSContext wrappers named alike).
func tableMethod(ci ssa.CallInstruction) string {
	f := ci.Common().StaticCallee()
	if f == nil {
		return ""
	}
	o := f
	if f.Origin() != nil {
		o = f.Origin()
	}
	if o.Signature.Recv() == nil {
		return ""
	}
	n := core.NamedOf(o.Signature.Recv().Type())
	if n == nil || n.Obj().Pkg() == nil {
		return ""
	}
	if strings.HasSuffix(n.Obj().Pkg().Path(), "/internal/descriptor") && n.Obj().Name() == "Table" {
		return o.Name()
	}
	return ""
}

func runC16(c *core.Ctx) {
	checkDirentEOF(c)
	checkRewindUnconditional(c)
	checkTableKeysAs(c, "", "R16.9")
	checkPositionalReadRestoresOffset(c)
	checkDirentWindowBoundary(c)
	checkInsertKeyAbsolute(c)
	checkCloseReachesHostObject(c)
	c.SSA()
	checkCountNotClamped(c)
	sysFns := moduleFns(c, "internal/sys")
	// lookups: value → key
	type lk struct {
		key ssa.Value
	}
	checkedClose := 0
	for _, fn := range sysFns {
		entries := map[ssa.Value]lk{} // *FileEntry values obtained from Lookup(k)
		for _, b := range fn.Blocks {
			for _, in := range b.Instrs {
				ex, ok := in.(*ssa.Extract)
				if !ok || ex.Index != 0 {
					continue
				}
				call, ok := ex.Tuple.(*ssa.Call)
				if !ok {
					continue
				}
				name := tableMethod(call)
				if name == "" {
					// FSContext.LookupFile wrapper
					if f := call.Common().StaticCallee(); f != nil && f.Name() == "LookupFile" {
						name = "Lookup"
					}
				}
				if name == "Lookup" {
					args := call.Common().Args
					entries[ex] = lk{args[len(args)-1]}
				}
			}
		}
		if len(entries) == 0 {
			continue
		}
		// closes of entry.File
		for _, b := range fn.Blocks {
			for _, in := range b.Instrs {
				call, ok := in.(*ssa.Call)
				if !ok || !call.Common().IsInvoke() || call.Common().Method.Name() != "Close" {
					continue
				}
				// receiver = load(FieldAddr(entry, File))
				ld, ok := call.Common().Value.(*ssa.UnOp)
				if !ok {
					continue
				}
				fa, ok := ld.X.(*ssa.FieldAddr)
				if !ok {
					continue
				}
				e, ok := entries[fa.X]
				if !ok {
					continue
				}
				checkedClose++
				// the branch on which this very Close failed is exempt: only the success edge of a test of its result is followed
				failedEdgePruned := func(res ssa.Value) func(b *ssa.BasicBlock) []*ssa.BasicBlock {
					return func(b *ssa.BasicBlock) []*ssa.BasicBlock {
						if len(b.Instrs) == 0 {
							return b.Succs
						}
						iff, ok := b.Instrs[len(b.Instrs)-1].(*ssa.If)
						if !ok {
							return b.Succs
						}
						bo, ok := iff.Cond.(*ssa.BinOp)
						if !ok || (bo.Op != token.NEQ && bo.Op != token.EQL) {
							return b.Succs
						}
						isZero := func(v ssa.Value) bool { k, ok := v.(*ssa.Const); return ok && k.Value != nil && k.Int64() == 0 }
						if (bo.X == res && isZero(bo.Y)) || (bo.Y == res && isZero(bo.X)) {
							if bo.Op == token.NEQ {
								return b.Succs[1:] // result != 0 → failed: follow the false edge only
							}
							return b.Succs[:1]
						}
						return b.Succs
					}
				}
				pathsSuccs = failedEdgePruned(ssa.Value(call))
				// forward search: every path to a Return passes a Delete(k)/InsertAt(_,k) — except returns of the close error
				bad := pathsMissing(fn, call, func(i ssa.Instruction) bool {
					ci, ok := i.(ssa.CallInstruction)
					if !ok {
						return false
					}
					switch tableMethod(ci) {
					case "Delete", "InsertAt":
						args := ci.Common().Args
						return sameValue(args[len(args)-1], e.key)
					}
					return false
				}, func(r *ssa.Return) bool {
					// exempt: the return on the branch where this very Close failed (its result is non-zero)
					return guardedBy(r.Block(), func(cond ssa.Value) int {
						bo, ok := cond.(*ssa.BinOp)
						if !ok || (bo.Op != token.NEQ && bo.Op != token.EQL) {
							return 0
						}
						isZero := func(v ssa.Value) bool { k, ok := v.(*ssa.Const); return ok && k.Value != nil && k.Int64() == 0 }
						if (bo.X == ssa.Value(call) && isZero(bo.Y)) || (bo.Y == ssa.Value(call) && isZero(bo.X)) {
							if bo.Op == token.NEQ {
								return 1
							}
							return -1
						}
						return 0
					})
				})
				pathsSuccs = nil
				// the close is an extracted step (closeRenumberTarget): the slot is replaced by the function that calls it
				if bad != token.NoPos {
					if kp, isParam := e.key.(*ssa.Parameter); isParam {
						kidx := -1
						for i, q := range fn.Params {
							if q == kp {
								kidx = i
							}
						}
						// after the close the step reports success only
						okStep := kidx >= 0 && pathsMissing(fn, call, func(ssa.Instruction) bool { return false }, func(r *ssa.Return) bool {
							for _, v := range r.Results {
								if k, ok := v.(*ssa.Const); !ok || k.Value == nil || k.Int64() != 0 {
									return false
								}
							}
							return true
						}) == token.NoPos
						sites := 0
						for _, caller := range sysFns {
							for _, cb := range caller.Blocks {
								for _, cin := range cb.Instrs {
									cc, ok := cin.(*ssa.Call)
									if !ok || cc.Common().StaticCallee() != fn || caller == fn {
										continue
									}
									sites++
									karg := cc.Common().Args[kidx]
									pathsSuccs = failedEdgePruned(ssa.Value(cc))
									if pathsMissing(caller, cc, func(i ssa.Instruction) bool {
										ci, ok := i.(ssa.CallInstruction)
										if !ok {
											return false
										}
										switch tableMethod(ci) {
										case "Delete", "InsertAt":
											args := ci.Common().Args
											return sameValue(args[len(args)-1], karg)
										}
										return false
									}, func(*ssa.Return) bool { return false }) != token.NoPos {
										okStep = false
									}
									pathsSuccs = nil
								}
							}
						}
						if okStep && sites > 0 {
							bad = token.NoPos
						}
					}
				}
				key := fmt.Sprintf("closed entry leaves slot in %s", core.SSAFuncName(fn))
				c.Check(bad == token.NoPos, "R16.1", key, call.Pos(), "every successful path after closing the entry's file deletes or replaces its slot",
					fmt.Sprintf("after closing the file of the entry looked up under %s, a path reaches the return at %s without deleting or replacing that slot: a closed entry stays in the descriptor table", e.key.Name(), c.Pos(bad)))
			}
		}
		// re-insertion of a looked-up entry under another key
		for _, b := range fn.Blocks {
			for _, in := range b.Instrs {
				ci, ok := in.(ssa.CallInstruction)
				if !ok || tableMethod(ci) != "InsertAt" {
					continue
				}
				args := ci.Common().Args // recv, item, key
				item, k2 := args[len(args)-2], args[len(args)-1]
				e, ok := entries[item]
				if !ok {
					continue
				}
				guarded := guardedBy(b, func(cond ssa.Value) int {
					bo, ok := cond.(*ssa.BinOp)
					if !ok || (bo.Op != token.EQL && bo.Op != token.NEQ) {
						return 0
					}
					if (sameValue(bo.X, e.key) && sameValue(bo.Y, k2)) || (sameValue(bo.Y, e.key) && sameValue(bo.X, k2)) {
						if bo.Op == token.EQL {
							return -1
						}
						return 1
					}
					return 0
				})
				// only required when the function may close the entry stored under k2 (a Close of a Lookup(k2) entry exists)
				closesTarget := false
				for ev, l := range entries {
					if sameValue(l.key, k2) && ev != item {
						closesTarget = true
					}
				}
				if !closesTarget {
					// … or hands k2 to a step of the package that looks the entry up and closes its file
					for _, bb := range fn.Blocks {
						for _, ii := range bb.Instrs {
							hc, ok := ii.(*ssa.Call)
							if !ok {
								continue
							}
							h := hc.Common().StaticCallee()
							if h == nil || h.Blocks == nil || h.Pkg != fn.Pkg || h == fn {
								continue
							}
							for ai, a := range hc.Common().Args {
								if !sameValue(a, k2) || ai >= len(h.Params) {
									continue
								}
								looks, closes := false, false
								for _, hb := range h.Blocks {
									for _, hi := range hb.Instrs {
										if cl, ok := hi.(*ssa.Call); ok {
											nm := tableMethod(cl)
											if nm == "" {
												if f := cl.Common().StaticCallee(); f != nil && f.Name() == "LookupFile" {
													nm = "Lookup"
												}
											}
											if nm == "Lookup" {
												args := cl.Common().Args
												if args[len(args)-1] == ssa.Value(h.Params[ai]) {
													looks = true
												}
											}
											if cl.Common().IsInvoke() && cl.Common().Method.Name() == "Close" {
												closes = true
											}
										}
									}
								}
								if looks && closes {
									closesTarget = true
								}
							}
						}
					}
				}
				if closesTarget {
					c.Check(guarded, "R16.1", "self-renumber guard in "+core.SSAFuncName(fn), in.Pos(), "moving an entry onto another key is dominated by a test that the keys differ",
						"the entry looked up under one key is re-inserted under another key whose current entry this function closes, without a dominating test that the keys differ: with equal keys the moved file itself is closed and stays in the table")
				}
			}
		}
	}
	if checkedClose < 2 {
		c.Undecided("R16.1", "close sites", 0, fmt.Sprintf("only %d Close-of-looked-up-entry sites found in internal/sys", checkedClose))
	}
	// context close resets the table: function that ranges over the table closing files must assign / reset the table afterwards
	for _, fn := range sysFns {
		if fn.Parent() != nil {
			continue
		}
		ranges := false
		for _, b := range fn.Blocks {
			for _, in := range b.Instrs {
				if ci, ok := in.(ssa.CallInstruction); ok && tableMethod(ci) == "Range" {
					// the closure closes files
					for _, a := range ci.Common().Args {
						// the visitor: a function literal, a function value, or a bound method (whose wrapper calls the method)
						var visitors []*ssa.Function
						switch v := a.(type) {
						case *ssa.MakeClosure:
							if f, ok := v.Fn.(*ssa.Function); ok {
								visitors = append(visitors, f)
							}
						case *ssa.Function:
							visitors = append(visitors, v)
						}
						for i := 0; i < len(visitors) && i < 4; i++ {
							for _, bb := range visitors[i].Blocks {
								for _, ii := range bb.Instrs {
									if cl, ok := ii.(*ssa.Call); ok {
										if cl.Common().IsInvoke() && cl.Common().Method.Name() == "Close" {
											ranges = true
										} else if sc := cl.Common().StaticCallee(); sc != nil && sc.Blocks != nil && i == 0 {
											visitors = append(visitors, sc)
										}
									}
								}
							}
						}
					}
				}
			}
		}
		if !ranges {
			continue
		}
		resets := false
		for _, b := range fn.Blocks {
			for _, in := range b.Instrs {
				switch x := in.(type) {
				case *ssa.Store:
					if fa, ok := x.Addr.(*ssa.FieldAddr); ok {
						if st, _ := derefStructT(fa.X.Type()).Underlying().(*types.Struct); st != nil && strings.Contains(st.Field(fa.Field).Type().String(), "descriptor.Table") {
							resets = true
						}
					}
				case ssa.CallInstruction:
					if tableMethod(x) == "Reset" {
						resets = true
					}
				}
			}
		}
		c.Check(resets, "R16.1", "context close resets the table in "+core.SSAFuncName(fn), fn.Pos(), "after closing every entry the table is replaced or reset", "all files are closed but the entries stay in the table: descriptors of a closed context still resolve to closed files")
	}

	// ---- R16.2 cookie width, R16.4 bufused depends on truncation (fd_readdir)
	var readdir *ssa.Function
	for _, fn := range wasiFuncs(c) {
		for _, b := range fn.Blocks {
			for _, in := range b.Instrs {
				if ci, ok := in.(ssa.CallInstruction); ok {
					if f := ci.Common().StaticCallee(); f != nil && f.Name() == "Read" && f.Signature.Recv() != nil && core.IsNamed(f.Signature.Recv().Type(), core.Module+"/internal/sys", "DirentCache") {
						readdir = fn
						// cookie argument: must be a uint64 loaded from the params slice without conversions
						arg := ci.Common().Args[1]
						ok2 := false
						if ld, ok := arg.(*ssa.UnOp); ok && ld.Op == token.MUL {
							if ia, ok := ld.X.(*ssa.IndexAddr); ok {
								if _, isParam := ia.X.(*ssa.Parameter); isParam {
									ok2 = true
								}
							}
						}
						c.Check(ok2, "R16.2", "cookie passed to the dirent cache in "+core.SSAFuncName(fn), ci.Pos(), "the guest's 64-bit cookie is passed unchanged", "the cookie given to the dirent cache is not the guest's 64-bit parameter as is (narrowing/arithmetic): cookies above 2^32 alias earlier positions")
					}
				}
			}
		}
	}
	if readdir == nil {
		c.Undecided("R16.2", "fd_readdir", 0, "no WASI function calls DirentCache.Read")
	} else {
		// R16.4: the value written through WriteUint32Le to the result pointer depends on the 3rd result of the sizing helper;
		// the function itself, or the step of it that writes the result (one level)
		{
			hasBoth := func(fn *ssa.Function) bool {
				t, w := false, false
				for _, b := range fn.Blocks {
					for _, in := range b.Instrs {
						if ex, ok := in.(*ssa.Extract); ok && ex.Index == 2 {
							if call, ok := ex.Tuple.(*ssa.Call); ok && call.Common().StaticCallee() != nil && call.Common().StaticCallee().Signature.Results().Len() == 3 {
								t = true
							}
						}
						if call, ok := in.(*ssa.Call); ok && call.Common().IsInvoke() && call.Common().Method.Name() == "WriteUint32Le" {
							w = true
						}
					}
				}
				return t && w
			}
			if !hasBoth(readdir) {
				for _, b := range readdir.Blocks {
					for _, in := range b.Instrs {
						if call, ok := in.(*ssa.Call); ok {
							if sc := call.Common().StaticCallee(); sc != nil && sc.Blocks != nil && sc.Pkg == readdir.Pkg && hasBoth(sc) {
								readdir = sc
							}
						}
					}
				}
			}
		}
		var trunc ssa.Value
		for _, b := range readdir.Blocks {
			for _, in := range b.Instrs {
				if ex, ok := in.(*ssa.Extract); ok && ex.Index == 2 {
					if call, ok := ex.Tuple.(*ssa.Call); ok && call.Common().StaticCallee() != nil && call.Common().StaticCallee().Signature.Results().Len() == 3 {
						trunc = ex
					}
				}
			}
		}
		var written ssa.Value
		var wpos token.Pos
		for _, b := range readdir.Blocks {
			for _, in := range b.Instrs {
				if call, ok := in.(*ssa.Call); ok && call.Common().IsInvoke() && call.Common().Method.Name() == "WriteUint32Le" {
					written = call.Common().Args[1]
					wpos = call.Pos()
				}
			}
		}
		if trunc == nil || written == nil {
			c.Undecided("R16.4", "bufused in "+core.SSAFuncName(readdir), readdir.Pos(), "truncation indicator or the bufused write not found")
		} else {
			dep := false
			// data dependence, or a phi whose controlling branch tests the indicator
			seen := map[ssa.Value]bool{}
			var walk func(v ssa.Value)
			walk = func(v ssa.Value) {
				if v == nil || seen[v] {
					return
				}
				seen[v] = true
				if v == trunc {
					dep = true
					return
				}
				if phi, ok := v.(*ssa.Phi); ok {
					// control dependence: some predecessor's dominating If tests trunc
					for _, pred := range phi.Block().Preds {
						for _, ib := range readdir.Blocks {
							if len(ib.Instrs) == 0 {
								continue
							}
							if iff, ok := ib.Instrs[len(ib.Instrs)-1].(*ssa.If); ok && (ib == pred || ib.Dominates(pred)) {
								if bo, ok := iff.Cond.(*ssa.BinOp); ok && (bo.X == trunc || bo.Y == trunc) {
									dep = true
								}
							}
						}
					}
				}
				if in, ok := v.(ssa.Instruction); ok {
					var ops [8]*ssa.Value
					for _, op := range in.Operands(ops[:0]) {
						if op != nil && *op != nil {
							walk(*op)
						}
					}
				}
			}
			walk(written)
			c.Check(dep, "R16.4", "bufused depends on truncation in "+core.SSAFuncName(readdir), wpos, "the reported bufused is decided by the truncation indicator",
				"the reported bufused does not depend on the truncation indicator: an entry that does not fit is reported with bufused < buf_len, i.e. as the end of the directory, and is skipped")
		}
	}

	// ---- R16.3 Insert scans from word 0
	if dp := c.SSAPkg("internal/descriptor"); dp != nil {
		found := false
		for _, fn := range moduleFns(c, "internal/descriptor") {
			base := fn
			if fn.Origin() != nil {
				base = fn.Origin()
			}
			if base.Name() != "Insert" || fn.Parent() != nil {
				continue
			}
			found = true
			ok := false
			why := "no scan over the occupancy words found"
			for _, b := range fn.Blocks {
				for _, in := range b.Instrs {
					sl, isSl := in.(*ssa.Slice)
					if !isSl || sl.Low == nil {
						continue
					}
					// low bound: phi(0 from entry, len(masks) after growth)
					vals := flattenPhi(sl.Low)
					zero := false
					other := true
					for _, v := range vals {
						if k, isK := v.(*ssa.Const); isK && k.Int64() == 0 {
							zero = true
							continue
						}
						if call, isCall := v.(*ssa.Call); isCall {
							if bi, isB := call.Common().Value.(*ssa.Builtin); isB && bi.Name() == "len" {
								continue // restart after growing at the old length
							}
						}
						other = false
						why = fmt.Sprintf("the scan of the occupancy words starts at %s (%s), not at word 0: a freed low descriptor is not reused and the lowest-free rule breaks", v.Name(), c.Pos(v.Pos()))
					}
					if zero && other {
						ok = true
					}
				}
			}
			c.Check(ok, "R16.3", "lowest-free scan in "+core.SSAFuncName(fn), fn.Pos(), "the scan starts at word 0 and restarts at the old length only after growing", why)
		}
		if !found {
			c.Undecided("R16.3", "descriptor.Table.Insert", 0, "Insert not found")
		}
	}

	// ---- R16.5 dirent cache: cached entries only after populate or refill test
	for _, fn := range sysFns {
		if fn.Name() != "Read" || fn.Signature.Recv() == nil || !core.IsNamed(fn.Signature.Recv().Type(), core.Module+"/internal/sys", "DirentCache") {
			continue
		}
		// blocks that call Readdir
		var readdirBlocks []*ssa.BasicBlock
		for _, b := range fn.Blocks {
			for _, in := range b.Instrs {
				if call, ok := in.(*ssa.Call); ok && call.Common().IsInvoke() && call.Common().Method.Name() == "Readdir" {
					readdirBlocks = append(readdirBlocks, b)
				}
			}
		}
		// need-more tests: If-blocks whose condition depends on "n minus something" (how many more entries to read)
		var nParam ssa.Value
		for _, p := range fn.Params {
			if basicKind(p.Type()) == types.Uint32 {
				nParam = p
			}
		}
		var dependsOnSub func(v ssa.Value, depth int, sawSub bool) bool
		dependsOnSub = func(v ssa.Value, depth int, sawSub bool) bool {
			if v == nil || depth > 8 {
				return false
			}
			if v == nParam {
				return sawSub
			}
			switch x := v.(type) {
			case *ssa.BinOp:
				sub := sawSub || x.Op == token.SUB
				return dependsOnSub(x.X, depth+1, sub) || dependsOnSub(x.Y, depth+1, sub)
			case *ssa.UnOp:
				return dependsOnSub(x.X, depth+1, sawSub)
			case *ssa.Convert:
				return dependsOnSub(x.X, depth+1, sawSub)
			case *ssa.Phi:
				for _, e := range x.Edges {
					if dependsOnSub(e, depth+1, sawSub) {
						return true
					}
				}
			}
			return false
		}
		var tests []*ssa.BasicBlock
		for _, ib := range fn.Blocks {
			if len(ib.Instrs) == 0 {
				continue
			}
			if iff, ok := ib.Instrs[len(ib.Instrs)-1].(*ssa.If); ok && dependsOnSub(iff.Cond, 0, false) {
				tests = append(tests, ib)
			}
		}
		_ = readdirBlocks
		n := 0
		var bad []string
		for _, b := range fn.Blocks {
			for _, in := range b.Instrs {
				call, ok := in.(*ssa.Call)
				if !ok {
					continue
				}
				f := call.Common().StaticCallee()
				if f == nil || f.Signature.Recv() == nil || !core.IsNamed(f.Signature.Recv().Type(), core.Module+"/internal/sys", "DirentCache") || f == fn {
					continue
				}
				if f.Signature.Results().Len() != 1 {
					continue
				}
				n++
				ok2 := false
				for _, t := range tests {
					if t == b || t.Dominates(b) {
						ok2 = true
					}
				}
				if !ok2 {
					bad = append(bad, "cached entries returned at "+c.Pos(call.Pos())+" on a path that never asked whether more entries must be read: a short result is taken for the end of the directory")
				}
			}
		}
		if n == 0 || len(tests) == 0 {
			c.Undecided("R16.5", "dirent cache "+core.SSAFuncName(fn), fn.Pos(), fmt.Sprintf("return sites=%d refill tests=%d", n, len(tests)))
		} else {
			c.Check(len(bad) == 0, "R16.5", "refill test before cached result in "+core.SSAFuncName(fn), fn.Pos(), fmt.Sprintf("%d return site(s), each dominated by a need-more test", n), strings.Join(bad, "; "))
		}
	}
}

// pathsMissing searches forward from instruction start; returns the position of a Return reachable without passing an
// instruction satisfying hit (and not exempt), or NoPos.
// pathsSuccs, when set, restricts the successors pathsMissing follows (pruning of edges that are exempt).
var pathsSuccs func(b *ssa.BasicBlock) []*ssa.BasicBlock

func pathsMissing(fn *ssa.Function, start ssa.Instruction, hit func(ssa.Instruction) bool, exempt func(*ssa.Return) bool) token.Pos {
	type st struct {
		b   *ssa.BasicBlock
		idx int
	}
	seen := map[*ssa.BasicBlock]bool{}
	var bad token.Pos
	var walk func(b *ssa.BasicBlock, from int)
	walk = func(b *ssa.BasicBlock, from int) {
		if bad != token.NoPos {
			return
		}
		for i := from; i < len(b.Instrs); i++ {
			in := b.Instrs[i]
			if hit(in) {
				return
			}
			if r, ok := in.(*ssa.Return); ok {
				if !exempt(r) {
					bad = r.Pos()
					if bad == token.NoPos {
						bad = fn.Pos()
					}
				}
				return
			}
			if _, ok := in.(*ssa.Panic); ok {
				return
			}
		}
		succs := b.Succs
		if pathsSuccs != nil {
			succs = pathsSuccs(b)
		}
		for _, s := range succs {
			if !seen[s] {
				seen[s] = true
				walk(s, 0)
			}
		}
	}
	b := start.Block()
	idx := 0
	for i, in := range b.Instrs {
		if in == start {
			idx = i + 1
		}
	}
	walk(b, idx)
	return bad
}

// ---- R16.6 the dirent cache honours the requested count: it is never reduced on the way ----

func checkCountNotClamped(c *core.Ctx) {
	p := c.Pkg("internal/sys")
	if p == nil {
		return
	}
	info := p.TypesInfo
	n := 0
	core.AllFuncDecls(p, func(fd *ast.FuncDecl) {
		if core.RecvName(fd) != "DirentCache" || fd.Type.Params == nil || fd.Type.Results == nil {
			return
		}
		// the read method: returns a slice of dirents and takes an unsigned count
		retsDirents := false
		for _, r := range fd.Type.Results.List {
			if t := info.Types[r.Type].Type; t != nil && strings.Contains(t.String(), "Dirent") {
				retsDirents = true
			}
		}
		if !retsDirents {
			return
		}
		var counts []types.Object
		for _, f := range fd.Type.Params.List {
			for _, nm := range f.Names {
				if o := info.Defs[nm]; o != nil && basicKind(o.Type()) == types.Uint32 {
					counts = append(counts, o)
				}
			}
		}
		for _, cnt := range counts {
			n++
			var bad []string
			ast.Inspect(fd.Body, func(x ast.Node) bool {
				switch y := x.(type) {
				case *ast.AssignStmt:
					for _, l := range y.Lhs {
						if id, ok := ast.Unparen(l).(*ast.Ident); ok && info.Uses[id] == cnt {
							bad = append(bad, "`"+core.ExprStr(y.Lhs[0])+" "+y.Tok.String()+" "+core.ExprStr(y.Rhs[0])+"` at "+c.Pos(y.Pos()))
						}
					}
				case *ast.IncDecStmt:
					if id, ok := ast.Unparen(y.X).(*ast.Ident); ok && info.Uses[id] == cnt {
						bad = append(bad, "`"+core.ExprStr(y.X)+y.Tok.String()+"` at "+c.Pos(y.Pos()))
					}
				}
				return true
			})
			c.Check(len(bad) == 0, "R16.6", "the requested count of "+core.FuncName(p, fd)+" is never reduced", fd.Pos(), "the parameter is only read",
				"the count is overwritten ("+strings.Join(bad, "; ")+"): fd_readdir asks for one entry more than fits into the guest's buffer and takes a short answer as the end of the directory, so a clamped count silently drops every later entry")
		}
	})
	if n == 0 {
		c.Undecided("R16.6", "dirent cache read method", 0, "no DirentCache method returning dirents with a uint32 count found")
	}
}
