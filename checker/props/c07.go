package props

import (
	"fmt"
	"go/ast"
	"go/token"
	"go/types"
	"sort"
	"strings"

	"golang.org/x/tools/go/packages"
	"golang.org/x/tools/go/ssa"

	"verif/checker/core"
)

// C07 Close-on-context-done always stops a running guest.

func init() {
	core.Register(&core.Property{
		ID:    "C07",
		Level: "other",
		Explanation: "Structural clause decided completely, for every guest program: every cycle of guest control flow that does not grow a bounded stack contains a termination check. The cycle-forming opcodes of the enabled feature set are exactly loop, return_call and return_call_indirect " +
			"(br/br_if/br_table only branch backwards to loop headers; call/call_indirect grow the call stack, which is bounded). Checked in both engines: (R07.1) the lowering arm of each of the three opcodes emits the check operation under exactly the close-on-context-done flag, positioned inside the cycle " +
			"(last in the loop-header arm; before the tail-call operation; the interpreter's imported-function fallback emits a regular call and is exempt); (R07.2) the Go side of the check calls FailIfClosed and panics with its error, and FailIfClosed builds the exit error from the closed word; " +
			"(R07.3) both call entries, under the flag, test ctx.Done() first, start the watcher and defer its cancel; the watcher maps Canceled/DeadlineExceeded to their exit codes. (R07.4) the Go side of the check polls the module the watcher closes (same access path from the call engine; a genuine interpreter defect – only the immediate caller's module was polled – was found and fixed); (R07.5) on the context-done path the closed flag is published before anything that takes the store lock. NOT decided: promptness (time), scheduling of the watcher goroutine, correctness of the emitted machine code of the check.",
		Assumptions: []string{"the list of cycle-forming opcodes is complete for the validator's accepted control instructions (kept honest by C01 R01.1 when built)", "call-stack depth is bounded in both engines (C06 R06.5)"},
		Rules: []core.Rule{
			{ID: "R07.6", Template: "T-MUSTPASS", Text: "entering a function polls the closed flag under the termination flag (interpreter: genuine defect found and fixed; compiler: known finding)", Min: 2},
			{ID: "R07.7", Template: "T-MUSTPASS", Text: "a call entry polls the closed flag itself, not only ctx.Done (genuine defect found and fixed)", Min: 2},
			{ID: "R07.0", Template: "anchor", Text: "flag fields = struct fields the ensureTermination parameter of Engine.CompileModule flows into; check marker = the operation kind / trampoline slot whose Go side calls FailIfClosed", Min: 4},
			{ID: "R07.1", Template: "T-MUSTPASS", Text: "each cycle-forming opcode's lowering emits the termination check under exactly the flag, inside the cycle", Min: 6},
			{ID: "R07.2", Template: "T-MUSTPASS", Text: "the Go side of the check calls FailIfClosed and panics with its error; FailIfClosed returns an exit error carrying the high half of the closed word", Min: 3},
			{ID: "R07.3", Template: "T-MUSTPASS", Text: "call entries: ctx.Done pre-check, watcher started under the flag with its cancel deferred; watcher maps both context errors to their exit codes", Min: 6},
			{ID: "R07.4", Template: "T-SIBLING", Text: "the Go side of the check consults the module the watcher closes (same access path from the call engine) – genuine interpreter defect found and fixed", Min: 2},
			{ID: "R07.5", Template: "T-MUSTPASS", Text: "on the context-done path the closed flag is published before anything that takes the store lock", Min: 1},
		},
		Run: runC07,
		Controls: []core.Control{
			{Name: "interpreter-function-entry-not-polled", File: "internal/engine/interpreter/interpreter.go", Old: "\tif f.parent.ensureTermination {\n\t\t// The lowering only puts the check of the exit code at loop headers and tail calls, but a recursion which never\n\t\t// gets deep (f(n){f(n-1); f(n-1)}), or a cycle through a host function calling back, consists of plain calls\n\t\t// only: every cycle in the call graph enters a function.\n\t\t// This is the same check as operationKindBuiltinFunctionCheckExitCode below.\n\t\tif err := m.FailIfClosed(); err != nil {\n\t\t\tpanic(err)\n\t\t}\n\t\tif root := ce.f.moduleInstance; root != m {\n\t\t\tif err := root.FailIfClosed(); err != nil {\n\t\t\t\tpanic(err)\n\t\t\t}\n\t\t}\n\t}\n", New: "", Rule: "R07.6", Substr: "interpreter"},
			{Name: "call-entry-ignores-closed-flag", File: "internal/engine/wazevo/call_engine.go", Old: "\t\t\tif err := m.FailIfClosed(); err != nil {\n\t\t\t\treturn err\n\t\t\t}\n\t\t}\n\t}\n\n\tvar paramResultPtr", New: "\t\t}\n\t}\n\n\tvar paramResultPtr", Rule: "R07.7", Substr: "compiler"},
			{Name: "interp-loop-check-removed", File: "internal/engine/interpreter/compiler.go", Old: "\t\tif c.ensureTermination {\n\t\t\tc.emit(newOperationBuiltinFunctionCheckExitCode())\n\t\t}\n\tcase wasm.OpcodeIf:", New: "\tcase wasm.OpcodeIf:", Rule: "R07.1", Substr: "interpreter loop"},
			{Name: "wazevo-loop-check-removed", File: "internal/engine/wazevo/frontend/lower.go", Old: "\t\tif c.ensureTermination {\n\t\t\tc.insertModuleExitCodeCheck()\n\t\t}\n\tcase wasm.OpcodeIf:", New: "\tcase wasm.OpcodeIf:", Rule: "R07.1", Substr: "wazevo loop"},
			{Name: "interp-tailcall-check-removed", File: "internal/engine/interpreter/compiler.go", Old: "\t\t\tif c.ensureTermination {\n\t\t\t\tc.emit(newOperationBuiltinFunctionCheckExitCode())\n\t\t\t}\n\t\t\tc.emit(newOperationTailCallReturnCall(index))", New: "\t\t\tc.emit(newOperationTailCallReturnCall(index))", Rule: "R07.1", Substr: "interpreter return_call"},
			{Name: "wazevo-tailcall-indirect-check-removed", File: "internal/engine/wazevo/frontend/lower.go", Old: "func (c *Compiler) lowerTailCallReturnCallIndirect(typeIndex, tableIndex uint32) {\n\t// A tail call does not grow the call stack, so a cycle of them is a loop.\n\tif c.ensureTermination {\n\t\tc.insertModuleExitCodeCheck()\n\t}\n", New: "func (c *Compiler) lowerTailCallReturnCallIndirect(typeIndex, tableIndex uint32) {\n", Rule: "R07.1", Substr: "wazevo"},
			{Name: "wazevo-loop-check-extra-condition", File: "internal/engine/wazevo/frontend/lower.go", Old: "\t\tif c.ensureTermination {\n\t\t\tc.insertModuleExitCodeCheck()\n\t\t}\n\tcase wasm.OpcodeIf:", New: "\t\tif c.ensureTermination && len(bt.Params) == 0 {\n\t\t\tc.insertModuleExitCodeCheck()\n\t\t}\n\tcase wasm.OpcodeIf:", Rule: "R07.1", Substr: "wazevo loop"},
			{Name: "interp-check-does-not-panic", File: "internal/engine/interpreter/interpreter.go", Old: "\t\t\tif err := m.FailIfClosed(); err != nil {\n\t\t\t\tpanic(err)\n\t\t\t}\n\t\t\t// m is the module of the immediate caller.", New: "\t\t\t_ = m.FailIfClosed()\n\t\t\t// m is the module of the immediate caller.", Old2: "\t\t\t\tif err := root.FailIfClosed(); err != nil {\n\t\t\t\t\tpanic(err)\n\t\t\t\t}\n", New2: "\t\t\t\t_ = root.FailIfClosed()\n", Rule: "R07.2", Substr: "interpreter"},
			{Name: "interp-check-conditional", File: "internal/engine/interpreter/interpreter.go", Old: "\t\t\tif err := m.FailIfClosed(); err != nil {\n\t\t\t\tpanic(err)\n\t\t\t}\n\t\t\t// m is the module of the immediate caller.", New: "\t\t\tif m.Closed.Load()>>32 != 0 {\n\t\t\t\tif err := m.FailIfClosed(); err != nil {\n\t\t\t\t\tpanic(err)\n\t\t\t\t}\n\t\t\t}\n\t\t\t// m is the module of the immediate caller.", Rule: "R07.2", Substr: "interpreter"},
			{Name: "interp-check-only-immediate-caller", File: "internal/engine/interpreter/interpreter.go", Old: "\t\t\tif root := ce.f.moduleInstance; root != m {\n\t\t\t\tif err := root.FailIfClosed(); err != nil {\n\t\t\t\t\tpanic(err)\n\t\t\t\t}\n\t\t\t}\n", New: "", Rule: "R07.4", Substr: "interpreter"},
			{Name: "watcher-unregisters-before-flag", File: "internal/wasm/module_instance.go", Old: "\tif !m.setExitCode(exitCode, exitCodeFlagResourceNotClosed) {\n\t\treturn nil // not an error to have already closed\n\t}\n\t_ = m.s.deleteModule(m)\n\treturn nil\n", New: "\t_ = m.s.deleteModule(m)\n\tm.setExitCode(exitCode, exitCodeFlagResourceNotClosed)\n\treturn nil\n", Rule: "R07.5", Substr: "closed flag"},
			{Name: "interp-precheck-does-not-close", File: "internal/engine/interpreter/interpreter.go", Old: "\t\t\tm.CloseWithCtxErr(ctx)\n\t\t\treturn nil, m.FailIfClosed()\n", New: "\t\t\treturn nil, ctx.Err()\n", Rule: "R07.3", Substr: "pre-check"},
			{Name: "wazevo-watcher-not-started", File: "internal/engine/wazevo/call_engine.go", Old: "\tif ensureTermination {\n\t\tdone := m.CloseModuleOnCanceledOrTimeout(ctx)\n\t\tdefer done()\n\t}\n", New: "", Rule: "R07.3", Substr: "wazevo"},
			{Name: "watcher-deadline-unmapped", File: "internal/wasm/module_instance.go", Old: "\t\t\tcase errors.Is(ctx.Err(), context.DeadlineExceeded):\n\t\t\t\t// TODO: figure out how to report error here.\n\t\t\t\t_ = m.closeWithExitCodeWithoutClosingResource(sys.ExitCodeDeadlineExceeded)\n", New: "", Rule: "R07.3", Substr: "DeadlineExceeded"},
		},
		Configs: []core.BuildCfg{{GOOS: "linux", GOARCH: "arm64"}, {GOOS: "darwin", GOARCH: "arm64"}},
	})
}

type c07Engine struct {
	name      string
	enginePkg string // package of the wasm.Engine implementation and call entry
	lowerPkg  string // package of the lowering dispatcher
}

func constObj(p *packages.Package, name string) types.Object {
	if p == nil {
		return nil
	}
	return p.Types.Scope().Lookup(name)
}

// engineImpl finds the struct type in pkg whose pointer implements wasm.Engine.
func engineImpl(c *core.Ctx, rel string) *types.Named {
	_, eng := lookupIface(c, "internal/wasm", "Engine")
	p := c.Pkg(rel)
	if p == nil || eng == nil {
		return nil
	}
	for _, n := range p.Types.Scope().Names() {
		tn, ok := p.Types.Scope().Lookup(n).(*types.TypeName)
		if !ok {
			continue
		}
		named, _ := tn.Type().(*types.Named)
		if named == nil {
			continue
		}
		if _, isStruct := named.Underlying().(*types.Struct); isStruct && types.Implements(types.NewPointer(named), eng) {
			return named
		}
	}
	return nil
}

func mainClause(refs []core.ClauseRef) *core.ClauseRef {
	var best *core.ClauseRef
	// the lowering dispatcher is the largest function that has such a clause (signature tables are much smaller)
	size := func(r *core.ClauseRef) int { return int(r.Fn.End() - r.Fn.Pos()) }
	for i := range refs {
		if best == nil || size(&refs[i]) > size(best) || (size(&refs[i]) == size(best) && len(refs[i].Switch.Body.List) > len(best.Switch.Body.List)) {
			best = &refs[i]
		}
	}
	return best
}

func runC07(c *core.Ctx) {
	checkEveryCyclePolls(c)
	checkWatcherModule(c)
	checkFlagBeforeLock(c)
	wasmP := c.Pkg("internal/wasm")
	opLoop, opRC, opRCI, opCall := constObj(wasmP, "OpcodeLoop"), constObj(wasmP, "OpcodeTailCallReturnCall"), constObj(wasmP, "OpcodeTailCallReturnCallIndirect"), constObj(wasmP, "OpcodeCall")
	if opLoop == nil || opRC == nil || opRCI == nil || opCall == nil {
		c.Undecided("R07.0", "opcodes", 0, "wasm.OpcodeLoop / OpcodeTailCallReturnCall(Indirect) / OpcodeCall not found")
		return
	}
	var failIfClosed, closeOnCancel, closeWithCtxErr *types.Func
	if mi, _ := wasmP.Types.Scope().Lookup("ModuleInstance").Type().(*types.Named); mi != nil {
		failIfClosed = core.ImplMethod(wasmP.Types, mi, "FailIfClosed")
		closeOnCancel = core.ImplMethod(wasmP.Types, mi, "CloseModuleOnCanceledOrTimeout")
		closeWithCtxErr = core.ImplMethod(wasmP.Types, mi, "CloseWithCtxErr")
	}
	if failIfClosed == nil || closeOnCancel == nil || closeWithCtxErr == nil {
		c.Undecided("R07.0", "module-instance-methods", 0, "FailIfClosed / CloseModuleOnCanceledOrTimeout / CloseWithCtxErr not found on wasm.ModuleInstance")
		return
	}
	engines := []c07Engine{
		{"interpreter", "internal/engine/interpreter", "internal/engine/interpreter"},
		{"wazevo", "internal/engine/wazevo", "internal/engine/wazevo/frontend"},
	}
	for _, e := range engines {
		ep, lp := c.Pkg(e.enginePkg), c.Pkg(e.lowerPkg)
		if ep == nil || lp == nil {
			if e.name == "interpreter" {
				c.Undecided("R07.0", e.name, 0, "engine package not loaded")
			}
			continue
		}
		// ---- flag fields
		impl := engineImpl(c, e.enginePkg)
		if impl == nil {
			c.Undecided("R07.0", e.name+" engine type", 0, "no type implementing wasm.Engine")
			continue
		}
		cmObj := core.ImplMethod(ep.Types, impl, "CompileModule")
		var cmFn *ssa.Function
		if cmObj != nil {
			cmFn = c.SSA().FuncValue(cmObj)
		}
		if cmFn == nil || len(cmFn.Params) < 5 {
			c.Undecided("R07.0", e.name+" CompileModule", 0, "CompileModule(ctx, module, listeners, ensureTermination) not found")
			continue
		}
		flag := core.ParamFlowFields(cmFn, len(cmFn.Params)-1)
		flagObjs := map[types.Object]bool{}
		var names []string
		for f := range flag {
			flagObjs[f] = true
			names = append(names, f.Pkg().Name()+"."+f.Name())
		}
		sort.Strings(names)
		if len(flag) == 0 {
			c.Violate("R07.0", e.name+" flag fields", cmFn.Pos(), "the ensureTermination argument of CompileModule is stored nowhere: the lowering cannot depend on it")
			continue
		}
		c.Discharge("R07.0", e.name+" flag fields", cmFn.Pos(), strings.Join(names, ", "))

		// ---- check marker and emitters
		markers := map[types.Object]bool{}
		var goSide []core.ClauseRef // clauses (Go side of the check) that call FailIfClosed
		if e.name == "interpreter" {
			core.AllFuncDecls(ep, func(fd *ast.FuncDecl) {
				ast.Inspect(fd.Body, func(n ast.Node) bool {
					sw, ok := n.(*ast.SwitchStmt)
					if !ok || len(sw.Body.List) < 50 {
						return true
					}
					for _, s := range sw.Body.List {
						cc := s.(*ast.CaseClause)
						if core.CallsAny(ep.TypesInfo, cc, map[*types.Func]bool{failIfClosed: true}) == nil {
							// … or through a one-level helper of the package
							via := false
							ast.Inspect(cc, func(z ast.Node) bool {
								if call, ok := z.(*ast.CallExpr); ok {
									for _, h := range calledHelpers(ep, call, fd) {
										if len(h.Body.List) <= 12 && core.CallsAny(ep.TypesInfo, h.Body, map[*types.Func]bool{failIfClosed: true}) != nil {
											via = true
										}
									}
								}
								return true
							})
							if !via {
								continue
							}
						}
						for _, l := range cc.List {
							if tv, ok := ep.TypesInfo.Types[l]; ok && tv.Value != nil {
								switch x := ast.Unparen(l).(type) {
								case *ast.Ident:
									markers[ep.TypesInfo.Uses[x]] = true
								case *ast.SelectorExpr:
									markers[ep.TypesInfo.Uses[x.Sel]] = true
								}
								goSide = append(goSide, core.ClauseRef{Pkg: ep, Fn: fd, Switch: sw, Clause: cc})
							}
						}
					}
					return true
				})
			})
		} else {
			if api := c.Pkg("internal/engine/wazevo/wazevoapi"); api != nil {
				if o := api.Types.Scope().Lookup("ExecutionContextOffsetCheckModuleExitCodeTrampolineAddress"); o != nil {
					markers[o] = true
				}
				if ec := api.Types.Scope().Lookup("ExitCodeCheckModuleExitCode"); ec != nil {
					for _, r := range core.FindCaseClauses(ep, ec) {
						goSide = append(goSide, r)
					}
				}
			}
		}
		if len(markers) == 0 {
			c.Violate("R07.0", e.name+" check marker", 0, "no operation kind / trampoline slot whose Go side calls FailIfClosed exists: nothing can interrupt a running guest")
			continue
		}
		var mnames []string
		for m := range markers {
			mnames = append(mnames, m.Name())
		}
		c.Discharge("R07.0", e.name+" check marker", 0, strings.Join(mnames, ", "))

		// emitters: functions of the lowering package (other than the dispatcher itself) that reference a marker
		checkFns := map[*types.Func]bool{}
		core.AllFuncDecls(lp, func(fd *ast.FuncDecl) {
			if len(fd.Body.List) > 40 {
				return // the dispatcher and the execution loop are not "emitters"
			}
			if core.RefsAny(lp.TypesInfo, fd.Body, markers) {
				if f, ok := lp.TypesInfo.Defs[fd.Name].(*types.Func); ok {
					// an emitter either returns the operation (a struct of this package) or emits in place (no result)
					res := f.Type().(*types.Signature).Results()
					if res.Len() == 0 {
						checkFns[f] = true
					} else if res.Len() == 1 {
						if _, isStruct := res.At(0).Type().Underlying().(*types.Struct); isStruct {
							checkFns[f] = true
						}
					}
				}
			}
		})
		isEmission := func(n ast.Node) bool {
			return core.RefsAny(lp.TypesInfo, n, markers) || core.CallsAny(lp.TypesInfo, n, checkFns) != nil
		}
		// guardedCheck: 1 = correctly guarded / unconditional, -1 = check under a different condition, 0 = not a check
		var guardedCheck func(s ast.Stmt) (int, string)
		inHelper := false
		guardedCheck = func(s ast.Stmt) (int, string) {
			switch x := s.(type) {
			case *ast.ExprStmt:
				if isEmission(x) {
					return 1, "unconditional"
				}
				// a helper of the package that is nothing but the guarded check (insertTerminationCheck): one level
				if call, ok := x.X.(*ast.CallExpr); ok && !inHelper {
					if f := core.Callee(lp.TypesInfo, call); f != nil && f.Pkg() == lp.Types {
						if hd := declOf(lp, f); hd != nil && len(hd.Body.List) <= 3 {
							inHelper = true
							verdict, why := 0, ""
							for _, hs := range hd.Body.List {
								if v, w := guardedCheck(hs); v < 0 || (v > 0 && verdict == 0) {
									verdict, why = v, w+" (in "+hd.Name.Name+")"
								}
							}
							inHelper = false
							if verdict != 0 {
								return verdict, why
							}
						}
					}
				}
			case *ast.IfStmt:
				hasTop := false
				for _, b := range x.Body.List {
					if es, ok := b.(*ast.ExprStmt); ok && isEmission(es) {
						hasTop = true
					}
				}
				if !hasTop {
					return 0, ""
				}
				if x.Init != nil || x.Else != nil {
					return -1, "check inside an if with init/else"
				}
				if f := core.FieldOf(lp.TypesInfo, x.Cond); f != nil && flag[f] {
					return 1, "under " + f.Name()
				}
				return -1, "check emitted under the condition `" + core.ExprStr(x.Cond) + "` instead of exactly the close-on-context-done flag"
			}
			return 0, ""
		}

		// ---- R07.1 loop
		loopRef := mainClause(core.FindCaseClauses(lp, opLoop))
		if loopRef == nil {
			c.Undecided("R07.1", e.name+" loop", 0, "no lowering arm for wasm.OpcodeLoop found")
		} else {
			body := loopRef.Clause.Body
			idx, why := -1, ""
			verdict := 0
			scanBody := func() {
				idx, why, verdict = -1, "", 0
				for i, s := range body {
					if v, w := guardedCheck(s); v != 0 {
						idx, verdict, why = i, v, w
					}
				}
			}
			scanBody()
			if idx < 0 {
				// the reachable part of the arm was moved into a method (enterLoop): its statements are the arm's
				ast.Inspect(loopRef.Clause, func(n ast.Node) bool {
					if call, ok := n.(*ast.CallExpr); ok && idx < 0 {
						if f := core.Callee(lp.TypesInfo, call); f != nil && f.Pkg() == lp.Types && !checkFns[f] {
							if hd := declOf(lp, f); hd != nil {
								saved := body
								body = hd.Body.List
								scanBody()
								if idx < 0 {
									body = saved
								}
							}
						}
					}
					return true
				})
			}
			switch {
			case idx < 0:
				c.Violate("R07.1", e.name+" loop", loopRef.Clause.Pos(), "the loop-header arm emits no termination check: a guest loop can never be interrupted")
			case verdict < 0:
				c.Violate("R07.1", e.name+" loop", body[idx].Pos(), why)
			default:
				bad := ""
				for _, s := range body[idx+1:] {
					if !core.IsJump(lp.TypesInfo, s) {
						bad = "statements follow the check in the loop arm (" + c.Pos(s.Pos()) + "): the check may be emitted before the loop header instead of inside the loop"
					}
				}
				c.Check(bad == "", "R07.1", e.name+" loop", body[idx].Pos(), "check emitted "+why+" as the last step of the loop-header arm", bad)
			}
		}

		// ---- R07.1 tail calls
		if e.name == "interpreter" {
			// constructors used by the regular call arm
			callCtors := map[*types.Func]bool{}
			if cr := mainClause(core.FindCaseClauses(lp, opCall)); cr != nil {
				ast.Inspect(cr.Clause, func(n ast.Node) bool {
					if call, ok := n.(*ast.CallExpr); ok {
						if f := core.Callee(lp.TypesInfo, call); f != nil && f.Pkg() == lp.Types && len(call.Args) <= 2 {
							if sig, ok := f.Type().(*types.Signature); ok && sig.Results().Len() == 1 && sig.Recv() == nil {
								callCtors[f] = true
							}
						}
					}
					return true
				})
			}
			// the operation struct type: result type of the emitters
			var opType types.Type
			for f := range checkFns {
				if sig := f.Type().(*types.Signature); sig.Results().Len() == 1 {
					if opType != nil && !types.Identical(opType, sig.Results().At(0).Type()) {
						c.Undecided("R07.0", e.name+" operation type", f.Pos(), "check emitters return different types")
					}
					opType = sig.Results().At(0).Type()
				}
			}
			for _, oc := range []struct {
				obj  types.Object
				name string
			}{{opRC, "return_call"}, {opRCI, "return_call_indirect"}} {
				ref := mainClause(core.FindCaseClauses(lp, oc.obj))
				key := e.name + " " + oc.name
				if ref == nil {
					c.Undecided("R07.1", key, 0, "no lowering arm found")
					continue
				}
				if opType == nil {
					c.Undecided("R07.1", key, ref.Clause.Pos(), "operation type unknown (no check emitter)")
					continue
				}
				isOpEmission := func(s ast.Stmt) (*ast.CallExpr, bool) {
					es, ok := s.(*ast.ExprStmt)
					if !ok {
						return nil, false
					}
					call, ok := es.X.(*ast.CallExpr)
					if !ok {
						return nil, false
					}
					for _, a := range call.Args {
						if tv, ok := lp.TypesInfo.Types[a]; ok && types.Identical(tv.Type, opType) {
							return call, true
						}
					}
					return nil, false
				}
				var bad []string
				lists := 0
				var visit func(list []ast.Stmt, inheritedCheck bool)
				visit = func(list []ast.Stmt, inherited bool) {
					hasCheck := inherited
					exempt := false
					for _, s := range list {
						if call, ok := isOpEmission(s); ok && core.CallsAny(lp.TypesInfo, call, callCtors) != nil {
							exempt = true // regular call fallback: grows the call stack
						}
					}
					counted := false
					for _, s := range list {
						if v, w := guardedCheck(s); v > 0 {
							hasCheck = true
							continue
						} else if v < 0 {
							bad = append(bad, w+" at "+c.Pos(s.Pos()))
							continue
						}
						if _, ok := isOpEmission(s); ok && !isEmission(s) {
							if !counted {
								lists++
								counted = true
							}
							if !exempt && !hasCheck {
								bad = append(bad, "operation emitted at "+c.Pos(s.Pos())+" without a preceding termination check (tail calls do not grow the stack: a tail-call cycle runs forever)")
							}
						}
						// nested lists
						switch x := s.(type) {
						case *ast.IfStmt:
							visit(x.Body.List, hasCheck)
							if eb, ok := x.Else.(*ast.BlockStmt); ok {
								visit(eb.List, hasCheck)
							} else if ei, ok := x.Else.(*ast.IfStmt); ok {
								visit([]ast.Stmt{ei}, hasCheck)
							}
						case *ast.BlockStmt:
							visit(x.List, hasCheck)
						case *ast.ForStmt:
							visit(x.Body.List, hasCheck)
						case *ast.RangeStmt:
							visit(x.Body.List, hasCheck)
						case *ast.SwitchStmt:
							for _, cs := range x.Body.List {
								visit(cs.(*ast.CaseClause).Body, hasCheck)
							}
						}
					}
				}
				visit(ref.Clause.Body, false)
				if lists == 0 {
					c.Undecided("R07.1", key, ref.Clause.Pos(), "no operation emission recognised in the arm")
					continue
				}
				c.Check(len(bad) == 0, "R07.1", key, ref.Clause.Pos(), fmt.Sprintf("%d emitting statement list(s); every non-fallback emission preceded by the guarded check", lists), strings.Join(bad, "; "))
			}
		} else {
			// wazevo: every emission of a tail-call SSA instruction in the frontend is preceded by the guarded check
			type site struct {
				fd   *ast.FuncDecl
				call *ast.CallExpr
				name string
			}
			var sites []site
			core.AllFuncDecls(lp, func(fd *ast.FuncDecl) {
				ast.Inspect(fd.Body, func(n ast.Node) bool {
					if call, ok := n.(*ast.CallExpr); ok {
						if f := core.Callee(lp.TypesInfo, call); f != nil && f.Pkg() != nil && strings.HasSuffix(f.Pkg().Path(), "/wazevo/ssa") && strings.Contains(f.Name(), "TailCall") && strings.HasPrefix(f.Name(), "As") {
							sites = append(sites, site{fd, call, f.Name()})
						}
					}
					return true
				})
			})
			lowerers := map[*types.Func]bool{}
			for _, s := range sites {
				ok := false
				why := ""
				for _, lpz := range core.EnclosingLists(s.fd.Body, s.call) {
					for _, prev := range lpz.List[:lpz.Index] {
						if v, w := guardedCheck(prev); v > 0 {
							ok = true
						} else if v < 0 {
							why = w
						}
					}
				}
				if f, isF := lp.TypesInfo.Defs[s.fd.Name].(*types.Func); isF {
					lowerers[f] = true
				}
				c.Check(ok, "R07.1", fmt.Sprintf("wazevo %s in %s", s.name, core.FuncName(lp, s.fd)), s.call.Pos(),
					"tail-call instruction emitted after the guarded termination check",
					"tail-call instruction emitted without a preceding termination check under the flag (tail calls do not grow the stack: a tail-call cycle runs forever) "+why)
			}
			for _, oc := range []struct {
				obj  types.Object
				name string
			}{{opRC, "return_call"}, {opRCI, "return_call_indirect"}} {
				ref := mainClause(core.FindCaseClauses(lp, oc.obj))
				if ref == nil {
					c.Undecided("R07.1", "wazevo "+oc.name+" arm", 0, "no lowering arm found")
					continue
				}
				direct := false
				for _, s := range sites {
					if s.call.Pos() >= ref.Clause.Pos() && s.call.End() <= ref.Clause.End() {
						direct = true
					}
				}
				reaches := direct || core.CallsAny(lp.TypesInfo, ref.Clause, lowerers) != nil
				c.Check(reaches, "R07.1", "wazevo "+oc.name+" arm", ref.Clause.Pos(), "arm lowers through a checked tail-call emitter",
					"arm does not go through any of the checked tail-call emitters: its lowering is not covered by the termination-check rule")
			}
		}

		// ---- R07.2 Go side of the check
		if len(goSide) == 0 {
			c.Violate("R07.2", e.name+" go-side", 0, "no arm of the Go-side dispatch handles the termination check")
		}
		for _, g := range goSide {
			// if err := m.FailIfClosed(); err != nil { panic(err) }
			ok := false
			topLevel := map[ast.Node]bool{}
			for _, s := range g.Clause.Body {
				topLevel[s] = true
			}
			// the arm may delegate to a one-level helper called unconditionally: its top-level statements count as the arm's
			var scan []ast.Node
			scan = append(scan, g.Clause)
			for _, st := range g.Clause.Body {
				if es, ok := st.(*ast.ExprStmt); ok {
					if call, ok := es.X.(*ast.CallExpr); ok {
						for _, h := range calledHelpers(g.Pkg, call, g.Fn) {
							for _, hs := range h.Body.List {
								topLevel[hs] = true
							}
							scan = append(scan, h.Body)
						}
					}
				}
			}
			for _, root := range scan {
				ast.Inspect(root, func(n ast.Node) bool {
					is, isIf := n.(*ast.IfStmt)
					if !isIf || is.Init == nil || !topLevel[is] {
						return true // the check must run unconditionally whenever the arm runs
					}
					as, isAs := is.Init.(*ast.AssignStmt)
					if !isAs || len(as.Lhs) != 1 || len(as.Rhs) != 1 {
						return true
					}
					call, isCall := as.Rhs[0].(*ast.CallExpr)
					if !isCall || core.Callee(g.Pkg.TypesInfo, call) != failIfClosed {
						return true
					}
					errObj := g.Pkg.TypesInfo.Defs[as.Lhs[0].(*ast.Ident)]
					be, isBin := is.Cond.(*ast.BinaryExpr)
					if !isBin || be.Op != token.NEQ {
						return true
					}
					for _, s := range is.Body.List {
						if es, isES := s.(*ast.ExprStmt); isES {
							if pc, isC := es.X.(*ast.CallExpr); isC && core.IsBuiltin(g.Pkg.TypesInfo, pc, "panic") && len(pc.Args) == 1 {
								if id, isID := pc.Args[0].(*ast.Ident); isID && g.Pkg.TypesInfo.Uses[id] == errObj {
									ok = true
								}
							}
						}
					}
					return true
				})
			}
			c.Check(ok, "R07.2", e.name+" go-side in "+core.FuncName(g.Pkg, g.Fn), g.Clause.Pos(), "calls FailIfClosed and panics with its error",
				"the Go side of the termination check does not unconditionally call FailIfClosed and panic with its error: a closed module (e.g. closed with exit code 0) keeps running")
		}
	}

	// ---- R07.2 FailIfClosed builds the exit error from the closed word
	if fn := c.SSA().FuncValue(failIfClosed); fn != nil {
		ok := false
		for _, b := range fn.Blocks {
			for _, in := range b.Instrs {
				call, isCall := in.(*ssa.Call)
				if !isCall {
					continue
				}
				callee := call.Common().StaticCallee()
				if callee == nil || callee.Name() != "NewExitError" || len(call.Common().Args) != 1 {
					continue
				}
				// argument = uint32(closed >> 32) where closed is the loaded closed word
				v := call.Common().Args[0]
				isLoad := func(x ssa.Value) bool {
					ld, isLd := x.(*ssa.Call)
					return isLd && ld.Common().StaticCallee() != nil && ld.Common().StaticCallee().Name() == "Load"
				}
				// highHalfOf(x): x is uint32(y >> 32); returns y
				highHalfOf := func(x ssa.Value) ssa.Value {
					if cv, isCv := x.(*ssa.Convert); isCv {
						x = cv.X
					}
					if bo, isBo := x.(*ssa.BinOp); isBo && bo.Op == token.SHR {
						if k, isK := bo.Y.(*ssa.Const); isK && k.Uint64() == 32 {
							return bo.X
						}
					}
					return nil
				}
				if y := highHalfOf(v); y != nil && isLoad(y) {
					ok = true
				}
				// through a helper `func(closed uint64) uint32 { return uint32(closed >> 32) }` applied to the loaded word
				if hc, isCall := v.(*ssa.Call); isCall && len(hc.Common().Args) == 1 && isLoad(hc.Common().Args[0]) {
					if h := hc.Common().StaticCallee(); h != nil && len(h.Blocks) == 1 && len(h.Params) == 1 {
						if r, isR := h.Blocks[0].Instrs[len(h.Blocks[0].Instrs)-1].(*ssa.Return); isR && len(r.Results) == 1 {
							if y := highHalfOf(r.Results[0]); y == ssa.Value(h.Params[0]) {
								ok = true
							}
						}
					}
				}
			}
		}
		c.Check(ok, "R07.2", "FailIfClosed exit code", fn.Pos(), "returns sys.NewExitError(uint32(closed >> 32))", "FailIfClosed does not build its error from the high half of the closed word: the exit code for the cause is lost")
	}

	// ---- R07.3 call entries and watcher
	for _, e := range engines {
		ep := c.Pkg(e.enginePkg)
		if ep == nil {
			continue
		}
		impl := engineImpl(c, e.enginePkg)
		if impl == nil {
			continue
		}
		cmFn := c.SSA().FuncValue(core.ImplMethod(ep.Types, impl, "CompileModule"))
		if cmFn == nil {
			continue
		}
		flag := core.ParamFlowFields(cmFn, len(cmFn.Params)-1)
		n := 0
		core.AllFuncDecls(ep, func(fd *ast.FuncDecl) {
			wcall := core.CallsAny(ep.TypesInfo, fd.Body, map[*types.Func]bool{closeOnCancel: true})
			if wcall == nil {
				return
			}
			n++
			name := core.FuncName(ep, fd)
			// locals assigned from the flag
			flagLocals := map[types.Object]bool{}
			ast.Inspect(fd.Body, func(x ast.Node) bool {
				if as, ok := x.(*ast.AssignStmt); ok && len(as.Lhs) == 1 && len(as.Rhs) == 1 {
					if f := core.FieldOf(ep.TypesInfo, as.Rhs[0]); f != nil && flag[f] {
						if id, ok := as.Lhs[0].(*ast.Ident); ok {
							if o := ep.TypesInfo.Defs[id]; o != nil {
								flagLocals[o] = true
							}
						}
					}
				}
				return true
			})
			isFlag := func(e ast.Expr) bool {
				if f := core.FieldOf(ep.TypesInfo, e); f != nil && flag[f] {
					return true
				}
				if id, ok := ast.Unparen(e).(*ast.Ident); ok && flagLocals[ep.TypesInfo.Uses[id]] {
					return true
				}
				return false
			}
			// (a) watcher under the flag, its result deferred in the same block
			watcherOK, preOK := false, false
			var watcherPos, prePos token.Pos
			ast.Inspect(fd.Body, func(x ast.Node) bool {
				is, ok := x.(*ast.IfStmt)
				if !ok || !isFlag(is.Cond) {
					return true
				}
				var doneObj types.Object
				for _, s := range is.Body.List {
					switch y := s.(type) {
					case *ast.AssignStmt:
						if len(y.Rhs) == 1 {
							if call, ok := y.Rhs[0].(*ast.CallExpr); ok && core.Callee(ep.TypesInfo, call) == closeOnCancel {
								if id, ok := y.Lhs[0].(*ast.Ident); ok {
									doneObj = ep.TypesInfo.Defs[id]
								}
							}
						}
					case *ast.DeferStmt:
						if id, ok := y.Call.Fun.(*ast.Ident); ok && doneObj != nil && ep.TypesInfo.Uses[id] == doneObj {
							watcherOK = true
							watcherPos = y.Pos()
						}
						if call, ok := y.Call.Fun.(*ast.CallExpr); ok && core.Callee(ep.TypesInfo, call) == closeOnCancel {
							watcherOK = true
							watcherPos = y.Pos()
						}
					case *ast.SelectStmt:
						// (b) pre-check: select { case <-ctx.Done(): CloseWithCtxErr; return ...FailIfClosed() ; default: }
						for _, cl := range y.Body.List {
							cc := cl.(*ast.CommClause)
							if cc.Comm == nil {
								continue
							}
							if core.CallsAny(ep.TypesInfo, cc, map[*types.Func]bool{closeWithCtxErr: true}) != nil {
								for _, bs := range cc.Body {
									if rs, ok := bs.(*ast.ReturnStmt); ok && core.CallsAny(ep.TypesInfo, rs, map[*types.Func]bool{failIfClosed: true}) != nil {
										preOK = true
										prePos = y.Pos()
									}
								}
							}
						}
					}
				}
				return true
			})
			c.Check(watcherOK, "R07.3", e.name+" watcher in "+name, wcall.Pos(), "watcher started under the flag and its cancel deferred",
				"CloseModuleOnCanceledOrTimeout is not started under exactly the flag with its cancel function deferred")
			_, _ = prePos, watcherPos
			preOK = false
			if tf, _ := ep.TypesInfo.Defs[fd.Name].(*types.Func); tf != nil {
				for _, ef := range callEntries(c, e.enginePkg, closeOnCancel, closeWithCtxErr, failIfClosed) {
					if ef.entry.Object() == types.Object(tf) && ef.pre {
						preOK = true
					}
				}
			}
			c.Check(preOK, "R07.3", e.name+" pre-check in "+name, fd.Pos(), "ctx.Done() tested first: closes with the context error and returns FailIfClosed's error",
				"no ctx.Done() pre-check (close with the context error and return) before the guest is entered")
		})
		if n == 0 {
			c.Violate("R07.3", e.name+" watcher", 0, "no call entry of this engine starts the cancellation watcher: cancelling the context or passing the deadline never closes the module")
		}
	}
	// watcher mapping
	ctxP := c.All["context"]
	sysP := c.Pkg("sys")
	if ctxP != nil && sysP != nil {
		pairs := []struct{ errName, codeName string }{{"Canceled", "ExitCodeContextCanceled"}, {"DeadlineExceeded", "ExitCodeDeadlineExceeded"}}
		core.AllFuncDecls(wasmP, func(fd *ast.FuncDecl) {
			refsCtxErr := false
			for _, p := range pairs {
				if core.RefsAny(wasmP.TypesInfo, fd.Body, map[types.Object]bool{ctxP.Types.Scope().Lookup(p.errName): true}) {
					refsCtxErr = true
				}
			}
			if !refsCtxErr {
				return
			}
			for _, p := range pairs {
				errObj := ctxP.Types.Scope().Lookup(p.errName)
				codeObj := sysP.Types.Scope().Lookup(p.codeName)
				ok := false
				ast.Inspect(fd.Body, func(n ast.Node) bool {
					// an arm: a case clause, or a branch of an if/else-if chain
					var cc struct {
						List []ast.Expr
						Body []ast.Stmt
					}
					switch arm := n.(type) {
					case *ast.CaseClause:
						cc.List, cc.Body = arm.List, arm.Body
					case *ast.IfStmt:
						cc.List, cc.Body = []ast.Expr{arm.Cond}, arm.Body.List
					default:
						return true
					}
					inLabel := false
					for _, l := range cc.List {
						if core.RefsAny(wasmP.TypesInfo, l, map[types.Object]bool{errObj: true}) {
							// the classified error must be ctx.Err(): errors.Is(ctx.Err(), context.X)
							if call, isCall := ast.Unparen(l).(*ast.CallExpr); isCall && len(call.Args) == 2 {
								arg := ast.Unparen(call.Args[0])
								if id, isID := arg.(*ast.Ident); isID {
									// follow one local definition
									obj := wasmP.TypesInfo.Uses[id]
									ast.Inspect(fd.Body, func(m ast.Node) bool {
										if as, isAs := m.(*ast.AssignStmt); isAs && len(as.Lhs) == len(as.Rhs) {
											for i, lh := range as.Lhs {
												if li, isLI := lh.(*ast.Ident); isLI && (wasmP.TypesInfo.Defs[li] == obj || wasmP.TypesInfo.Uses[li] == obj) && obj != nil {
													arg = ast.Unparen(as.Rhs[i])
												}
											}
										}
										return true
									})
								}
								if calleeIs(wasmP.TypesInfo, arg, "context", "Context", "Err") {
									inLabel = true
								}
							}
						}
					}
					if inLabel {
						for _, s := range cc.Body {
							if core.RefsAny(wasmP.TypesInfo, s, map[types.Object]bool{codeObj: true}) {
								ok = true
							}
						}
					}
					return true
				})
				c.Check(ok, "R07.3", fmt.Sprintf("%s maps context.%s", core.FuncName(wasmP, fd), p.errName), fd.Pos(),
					"arm for context."+p.errName+" closes with sys."+p.codeName, "no arm tests errors.Is(ctx.Err(), context."+p.errName+") and closes with sys."+p.codeName+": that cause never closes the module (or closes it with the wrong exit code; classifying anything but ctx.Err(), e.g. context.Cause, misses custom causes)")
			}
		})
	}
}

// ---- R07.4 the check consults the module the watcher closes ----

// accessPath resolves an expression to a path from the method receiver ("recv.f.moduleInstance"), following
// single-assignment local variables; "param:<name>" for parameters, "" if not resolvable.
func accessPath(info *types.Info, fd *ast.FuncDecl, e ast.Expr) string {
	defs := map[types.Object]ast.Expr{}
	ast.Inspect(fd.Body, func(x ast.Node) bool {
		if as, ok := x.(*ast.AssignStmt); ok && as.Tok == token.DEFINE && len(as.Lhs) == len(as.Rhs) {
			for i, l := range as.Lhs {
				if id, ok := l.(*ast.Ident); ok {
					if o := info.Defs[id]; o != nil {
						defs[o] = as.Rhs[i]
					}
				}
			}
		}
		if is, ok := x.(*ast.IfStmt); ok {
			if as, ok := is.Init.(*ast.AssignStmt); ok && as.Tok == token.DEFINE && len(as.Lhs) == len(as.Rhs) {
				for i, l := range as.Lhs {
					if id, ok := l.(*ast.Ident); ok {
						if o := info.Defs[id]; o != nil {
							defs[o] = as.Rhs[i]
						}
					}
				}
			}
		}
		return true
	})
	var recv types.Object
	if fd.Recv != nil && len(fd.Recv.List) == 1 && len(fd.Recv.List[0].Names) == 1 {
		recv = info.Defs[fd.Recv.List[0].Names[0]]
	}
	params := map[types.Object]bool{}
	for _, f := range fd.Type.Params.List {
		for _, n := range f.Names {
			params[info.Defs[n]] = true
		}
	}
	var rec func(e ast.Expr, d int) string
	rec = func(e ast.Expr, d int) string {
		if d > 8 {
			return ""
		}
		switch x := ast.Unparen(e).(type) {
		case *ast.Ident:
			o := info.Uses[x]
			switch {
			case o == recv && recv != nil:
				return "recv"
			case params[o]:
				return "param:" + x.Name
			}
			if def, ok := defs[o]; ok {
				return rec(def, d+1)
			}
		case *ast.SelectorExpr:
			if b := rec(x.X, d+1); b != "" {
				return b + "." + x.Sel.Name
			}
		}
		return ""
	}
	return rec(e, 0)
}

func checkWatcherModule(c *core.Ctx) {
	for _, e := range []struct{ name, rel, marker string }{
		{"interpreter", "internal/engine/interpreter", "operationKindBuiltinFunctionCheckExitCode"},
		{"compiler", "internal/engine/wazevo", "ExitCodeCheckModuleExitCode"},
	} {
		p := c.Pkg(e.rel)
		if p == nil {
			continue
		}
		info := p.TypesInfo
		var watch []string
		var watchPos token.Pos
		var checked []string
		var armPos token.Pos
		core.AllFuncDecls(p, func(fd *ast.FuncDecl) {
			ast.Inspect(fd.Body, func(x ast.Node) bool {
				switch y := x.(type) {
				case *ast.CallExpr:
					if se, ok := y.Fun.(*ast.SelectorExpr); ok && se.Sel.Name == "CloseModuleOnCanceledOrTimeout" {
						if pth := accessPath(info, fd, se.X); pth != "" {
							watch = append(watch, pth)
							watchPos = y.Pos()
						}
					}
				case *ast.CaseClause:
					for _, l := range y.List {
						if constNameOf(info, l) == e.marker {
							armPos = y.Pos()
							ast.Inspect(y, func(z ast.Node) bool {
								if call, ok := z.(*ast.CallExpr); ok {
									if se, ok := call.Fun.(*ast.SelectorExpr); ok && se.Sel.Name == "FailIfClosed" {
										checked = append(checked, accessPath(info, fd, se.X))
									}
									// a helper method of the same receiver that does the polling (one level): its access paths
									// are relative to the same receiver
									for _, h := range calledHelpers(p, call, fd) {
										ast.Inspect(h.Body, func(w ast.Node) bool {
											if c2, ok := w.(*ast.CallExpr); ok {
												if s2, ok := c2.Fun.(*ast.SelectorExpr); ok && s2.Sel.Name == "FailIfClosed" {
													pth := accessPath(info, h, s2.X)
													// a parameter of the helper stands for the argument passed at the call
													if strings.HasPrefix(pth, "param:") {
														idx := 0
														for _, fl := range h.Type.Params.List {
															for _, nm := range fl.Names {
																if "param:"+nm.Name == pth && idx < len(call.Args) {
																	pth = accessPath(info, fd, call.Args[idx])
																}
																idx++
															}
														}
													}
													checked = append(checked, pth)
												}
											}
											return true
										})
									}
								}
								return true
							})
						}
					}
				}
				return true
			})
		})
		if len(watch) == 0 || armPos == 0 {
			c.Undecided("R07.4", e.name+" watcher / check arm", 0, "CloseModuleOnCanceledOrTimeout call or the check arm not found")
			continue
		}
		ok := true
		for _, w := range watch {
			found := false
			for _, k := range checked {
				if k == w {
					found = true
				}
			}
			if !found {
				ok = false
			}
		}
		c.Check(ok, "R07.4", e.name+": the termination check consults the module the watcher closes", armPos,
			"watcher on "+strings.Join(watch, ", ")+"; check arm calls FailIfClosed on "+strings.Join(checked, ", "),
			"the watcher (started at "+c.Pos(watchPos)+") closes "+strings.Join(watch, ", ")+" but the check arm polls only "+strings.Join(checked, ", ")+": inside an imported function that calls a local one the polled module is not the one that gets closed, and a loop there never stops after the context is done")
	}
}

// ---- R07.5 the closed flag is published before anything that takes the store lock ----

func checkFlagBeforeLock(c *core.Ctx) {
	p := c.Pkg("internal/wasm")
	if p == nil {
		return
	}
	info := p.TypesInfo
	// functions that take Store.mux (directly)
	locks := map[string]bool{}
	core.AllFuncDecls(p, func(fd *ast.FuncDecl) {
		if core.RecvName(fd) != "Store" {
			return
		}
		ast.Inspect(fd.Body, func(x ast.Node) bool {
			if call, ok := x.(*ast.CallExpr); ok {
				if se, ok := call.Fun.(*ast.SelectorExpr); ok && (se.Sel.Name == "Lock" || se.Sel.Name == "RLock") && strings.HasSuffix(core.ExprStr(se.X), ".mux") {
					locks[fd.Name.Name] = true
				}
			}
			return true
		})
	})
	n := 0
	core.AllFuncDecls(p, func(fd *ast.FuncDecl) {
		if core.RecvName(fd) != "ModuleInstance" {
			return
		}
		// functions on the context-done path that both publish the flag and unregister
		var flagPos, lockPos token.Pos
		var lockName string
		ast.Inspect(fd.Body, func(x ast.Node) bool {
			if call, ok := x.(*ast.CallExpr); ok {
				if f := core.Callee(info, call); f != nil {
					if f.Name() == "setExitCode" && flagPos == 0 {
						flagPos = call.Pos()
					}
					if core.RecvNameOf(f) == "Store" && locks[f.Name()] && lockPos == 0 {
						lockPos, lockName = call.Pos(), f.Name()
					}
				}
			}
			return true
		})
		if flagPos == 0 || lockPos == 0 {
			return
		}
		n++
		c.Check(flagPos < lockPos, "R07.5", "closed flag before "+lockName+" in "+core.FuncName(p, fd), fd.Pos(), "setExitCode precedes the call that takes the store lock",
			"the function takes the store lock ("+lockName+") before it publishes the closed flag: while another goroutine holds the store lock (e.g. Runtime.Close waiting in a CloseNotifier) a cancellation is never delivered to the running guest")
	})
	if n == 0 {
		c.Undecided("R07.5", "context-done path", 0, "no ModuleInstance method both sets the exit code and calls a locking Store method")
	}
}

// calledHelpers returns the declarations, in package p, of the function called by call (empty for other packages, builtins
// and for from itself).
func calledHelpers(p *packages.Package, call *ast.CallExpr, from *ast.FuncDecl) []*ast.FuncDecl {
	f := core.Callee(p.TypesInfo, call)
	if f == nil {
		return nil
	}
	var out []*ast.FuncDecl
	core.AllFuncDecls(p, func(g *ast.FuncDecl) {
		if p.TypesInfo.Defs[g.Name] == types.Object(f) && g != from && g.Body != nil {
			out = append(out, g)
		}
	})
	return out
}
