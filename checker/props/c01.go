package props

import (
	"fmt"
	"go/ast"
	"go/token"
	"go/types"
	"regexp"
	"sort"
	"strings"

	"golang.org/x/tools/go/ssa"

	"verif/checker/core"
)

// C01 Compiler and interpreter agree on every valid program (structural clauses).

func init() {
	core.Register(&core.Property{
		ID:    "C01",
		Level: "other",
		Explanation: "Decided (necessary conditions; breaking one makes some valid program diverge, crash or be rejected by one engine only): (R01.1) every opcode the validator accepts has an arm in the interpreter's lowering and in the compiler frontend; (R01.2) every interpreter operation kind has an arm in the execution loop, except six kinds that rely on the pc-advancing default for a stated reason; " +
			"(R01.3) every SSA opcode that can be emitted has side-effect and return-type table entries and an arm in the amd64 and arm64 lowering; (R01.5) the interpreter keeps 32-bit values zero-extended on its 64-bit stack: in arms tagged with a 32-bit type every pushed value is a conversion of an unsigned ≤32-bit value or a small constant (kinds whose tag names the source type are listed); " +
			"(R01.6) every indirect call emitted by the frontend is preceded on all paths by the store of the caller's module context (helper summaries see through wrappers); (R01.7) the amd64 fusion of `and` into TEST for a comparison with zero only matches the zero as the right-hand operand (genuine defect found and fixed). " +
			"(R01.8) both engines check and access exactly the number of bytes the instruction's mnemonic dictates (same analysis as C02 R02.1/R02.6). (R01.9) both engines test alignment and bounds of an atomic access in the same order – they do not (compiler: bounds first, interpreter: alignment first), demonstrated and recorded as a known finding; (R01.10) memory-writing, atomic and control-transfer SSA opcodes are classified strict and trapping ones keep their trap class; (R01.11) the bounds-check elision cache is merged conservatively at joins (C02 R02.7). The 32-bit slot normalisation at the Go boundary is decided under C08 (R08.9). (R01.12) the register allocator stores a virtual register at the point where it takes its real register to make room, so values modified in place by two-address instructions and temporaries defined twice reach their spill slot (genuine defects found and fixed: copysign, bitselect, f64x2.convert_low_i32x4_u); (R01.13) what that store does not cover – the register of an SSA value, which may lose its real register at a call or block boundary – is never modified in place by an amd64 lowering; (R01.14) amd64 instructions that keep part of their destination declare it as used (genuine defects found and fixed: the xmm conditional move used by select, MOVSD in f64x2.replace_lane). NOT decided: semantic equivalence of the two pipelines, register allocation, encodings, the arm64 flag fusion (see DESIGN.md: suspected but not demonstrable without arm64 hardware).",
		Rules: []core.Rule{
			{ID: "R01.1", Template: "T-EXHAUST", Text: "validator-accepted opcodes ⊆ arms of both engines' dispatchers", Min: 8},
			{ID: "R01.2", Template: "T-EXHAUST", Text: "every operation kind has an execution arm or a listed reason to rely on the default", Min: 150},
			{ID: "R01.3", Template: "T-EXHAUST", Text: "every emittable SSA opcode has table entries and an arm in both backends", Min: 400},
			{ID: "R01.5", Template: "T-REPR", Text: "32-bit tagged arms push zero-extended values", Min: 25},
			{ID: "R01.16", Template: "T-CONSULT", Text: "interpreter: a frame re-used for a tail call records the callee", Min: 1},
			{ID: "R01.6", Template: "T-MUSTPASS", Text: "indirect call emissions are preceded by the caller-module-context store", Min: 6},
			{ID: "R01.7", Template: "T-REPR", Text: "amd64 and→TEST fusion matches the zero on the right-hand side only", Min: 2},
			{ID: "R01.9", Template: "T-SIBLING", Text: "both engines test alignment and bounds of an atomic access in the same order (known finding: they do not)", Min: 1},
			{ID: "R01.10", Template: "T-SIBLING", Text: "memory-writing, atomic and control SSA opcodes are classified strict, trapping ones keep their trap", Min: 25},
			{ID: "R01.11", Template: "T-MUSTPASS", Text: "the bounds-check elision cache is merged conservatively at joins (same analysis as C02 R02.7)", Min: 2},
			{ID: "R01.12", Template: "T-MUSTPASS", Text: "the register allocator stores a virtual register at the point where it takes its real register (genuine defects found and fixed: in-place modifications and second definitions were lost)", Min: 1},
			{ID: "R01.13", Template: "T-TYPESTATE", Text: "amd64 lowerings modify in place only temporaries of the same lowering, never the register of an SSA value", Min: 1},
			{ID: "R01.14", Template: "T-REPR", Text: "amd64 instructions that keep part of their destination declare it as used (genuine defects found and fixed: xmmCMov, MOVSD register form)", Min: 1},
			{ID: "R01.15", Template: "T-SIBLING", Text: "memory.atomic.wait tests the memory's sharedness after the address checks on both engines (genuine defect found and fixed)", Min: 1},
			{ID: "R01.8", Template: "T-WIDTH", Text: "both engines check and access the number of bytes the instruction's mnemonic dictates", Min: 200},
		},
		Run: runC01,
		Controls: []core.Control{
			{Name: "tail-call-frame-keeps-old-function", File: "internal/engine/interpreter/interpreter.go", Old: "\tframe.f = f\n\tframe.base = len(ce.stack)\n", New: "\tframe.base = len(ce.stack)\n", Old2: "\tbody = frame.f.parent.body\n\tbodyLen = uint64(len(body))\n\treturn body, bodyLen\n", New2: "\tbody = f.parent.body\n\tbodyLen = uint64(len(body))\n\treturn body, bodyLen\n", Rule: "R01.16", Substr: "re-used"},
			{Name: "wait-sharedness-tested-first", File: "internal/engine/interpreter/interpreter.go", Old: "\t\t\toffset := ce.popMemoryOffset(op)\n\n\t\t\tswitch unsignedType(op.B1) {\n\t\t\tcase unsignedTypeI32:\n\t\t\t\tif offset%4 != 0 {", New: "\t\t\toffset := ce.popMemoryOffset(op)\n\t\t\tif !memoryInst.Shared {\n\t\t\t\tpanic(wasmruntime.ErrRuntimeExpectedSharedMemory)\n\t\t\t}\n\n\t\t\tswitch unsignedType(op.B1) {\n\t\t\tcase unsignedTypeI32:\n\t\t\t\tif offset%4 != 0 {", Rule: "R01.15", Substr: "wait"},
			{Name: "eviction-without-store", File: "internal/engine/wazevo/backend/regalloc/regalloc.go", Old: "\t\t\t\t\ta.storeEvicted(f, instr)\n\t\t\t\t\tvs.recordReload(f, blk)", New: "\t\t\t\t\tvs.recordReload(f, blk)", Rule: "R01.12", Substr: "evicted"},
			{Name: "bitselect-finishes-in-result-register", File: "internal/engine/wazevo/backend/isa/amd64/machine.go", Old: "\tpor.asXmmRmR(sseOpcodePor, newOperandReg(yAndNotC), tmpX)\n\tm.insert(por)\n\n\tm.copyTo(tmpX, rd)", New: "\tm.copyTo(tmpX, rd)\n\tpor.asXmmRmR(sseOpcodePor, newOperandReg(yAndNotC), rd)\n\tm.insert(por)", Rule: "R01.13", Substr: "lowerVbitselect"},
			{Name: "xmmcmov-declared-pure-definition", File: "internal/engine/wazevo/backend/isa/amd64/instr.go", Old: "\txmmCMov:                defKindNone,", New: "\txmmCMov:                defKindOp2,", Rule: "R01.14", Substr: "xmmCMov", Old2: "\txmmCMov:                useKindOp1Op2Reg,", New2: "\txmmCMov:                useKindOp1,"},
			{Name: "replace-lane-movsd-as-definition", File: "internal/engine/wazevo/backend/isa/amd64/machine_vec.go", Old: "m.insert(m.allocateInstr().asXmmRmR(sseOpcodeMovsd, yy, tmpDst))", New: "m.insert(m.allocateInstr().asXmmUnaryRmR(sseOpcodeMovsd, yy, tmpDst))", Rule: "R01.14", Substr: "lowerInsertLane"},
			{Name: "atomic-rmw-not-strict", File: "internal/engine/wazevo/ssa/instructions.go", Old: "\tOpcodeAtomicRmw:                   sideEffectStrict,", New: "\tOpcodeAtomicRmw:                   sideEffectTraps,", Rule: "R01.10", Substr: "OpcodeAtomicRmw"},
			{Name: "sdiv-loses-its-trap", File: "internal/engine/wazevo/ssa/instructions.go", Old: "\tOpcodeSdiv:                        sideEffectTraps,", New: "\tOpcodeSdiv:                        sideEffectNone,", Rule: "R01.10", Substr: "OpcodeSdiv"},
			{Name: "merge-keeps-larger-bound", File: "internal/engine/wazevo/frontend/frontend.go", Old: "\t\t\t\t\tif cb.bound < minBound {\n\t\t\t\t\t\tminBound = cb.bound\n\t\t\t\t\t}", New: "\t\t\t\t\tif cb.bound > minBound || minBound == math.MaxUint64 {\n\t\t\t\t\t\tminBound = cb.bound\n\t\t\t\t\t}", Rule: "R01.11", Substr: "minimum"},
			{Name: "store64-lane-checked-as-4", File: "internal/engine/wazevo/frontend/lower.go", Old: "storeOp, lane, opSize = ssa.OpcodeStore, ssa.VecLaneI64x2, 8", New: "storeOp, lane, opSize = ssa.OpcodeStore, ssa.VecLaneI64x2, 4", Rule: "R01.8", Substr: "OpcodeVecV128Store64Lane"},
			{Name: "frontend-arm-removed", File: "internal/engine/wazevo/frontend/lower.go", Old: "\tcase wasm.OpcodeI32Rotr, wasm.OpcodeI64Rotr:\n", New: "\tcase wasm.OpcodeI64Rotr:\n", Rule: "R01.1", Substr: "wazevo"},
			{Name: "interp-exec-arm-removed", File: "internal/engine/interpreter/interpreter.go", Old: "\t\tcase operationKindSignExtend32From16:\n\t\t\tv := uint32(int16(ce.popValue()))\n\t\t\tce.pushValue(uint64(v))\n\t\t\tframe.pc++\n", New: "", Rule: "R01.2", Substr: "operationKindSignExtend32From16"},
			{Name: "arm64-ssa-arm-removed", File: "internal/engine/wazevo/backend/isa/arm64/lower_instr.go", Old: "\tcase ssa.OpcodeVbandnot:\n", New: "\tcase ssa.OpcodeVbandnot + 200:\n", Rule: "R01.3", Substr: "OpcodeVbandnot"},
			{Name: "side-effect-entry-removed", File: "internal/engine/wazevo/ssa/instructions.go", Old: "\tOpcodeSExtend:                     sideEffectNone,\n", New: "", Rule: "R01.3", Substr: "OpcodeSExtend"},
			{Name: "trunc-pushes-sign-extended", File: "internal/engine/interpreter/interpreter.go", Old: "\t\t\t\t\tce.pushValue(uint64(uint32(int32(v))))\n\t\t\t\tcase signedInt64:\n\t\t\t\t\tv := math.Trunc(math.Float64frombits(ce.popValue()))", New: "\t\t\t\t\tce.pushValue(uint64(int32(v)))\n\t\t\t\tcase signedInt64:\n\t\t\t\t\tv := math.Trunc(math.Float64frombits(ce.popValue()))", Rule: "R01.5", Substr: "ITruncFromF"},
			{Name: "load8-pushes-sign-extended", File: "internal/engine/interpreter/interpreter.go", Old: "\t\t\tcase signedInt32:\n\t\t\t\tce.pushValue(uint64(uint32(int8(val))))", New: "\t\t\tcase signedInt32:\n\t\t\t\tce.pushValue(uint64(int8(val)))", Rule: "R01.5", Substr: "Load8"},
			{Name: "call-indirect-store-deduplicated", File: "internal/engine/wazevo/frontend/lower.go", Old: "\tc.storeCallerModuleContext()\n\n\treturn executablePtr, typ, args\n}", New: "\tif c.ssaBuilder.CurrentBlock() != c.ssaBuilder.EntryBlock() {\n\t\tc.storeCallerModuleContext()\n\t}\n\n\treturn executablePtr, typ, args\n}", Rule: "R01.6", Substr: "lowerCallIndirect"},
			{Name: "imported-call-without-store", File: "internal/engine/wazevo/frontend/lower.go", Old: "\t\t// into execContext.callerModuleContextPtr in case when the callee is a Go function.\n\t\tc.storeCallerModuleContext()\n\t\tvar fi int", New: "\t\tvar fi int", Rule: "R01.6", Substr: "lowerCall"},
			{Name: "test-fusion-with-zero-on-the-left", File: "internal/engine/wazevo/backend/isa/amd64/machine.go", Old: "\tif y.IsFromInstr() && y.Instr.Constant() && y.Instr.ConstantVal() == 0 {\n\t\tif m.c.MatchInstr(x, ssa.OpcodeBand) {", New: "\tif x.IsFromInstr() && x.Instr.Constant() && x.Instr.ConstantVal() == 0 {\n\t\tif m.c.MatchInstr(y, ssa.OpcodeBand) {\n\t\t\ttarget = y\n\t\t\tgot = true\n\t\t}\n\t}\n\tif y.IsFromInstr() && y.Instr.Constant() && y.Instr.ConstantVal() == 0 {\n\t\tif m.c.MatchInstr(x, ssa.OpcodeBand) {", Rule: "R01.7", Substr: "amd64"},
		},
		Configs: []core.BuildCfg{{GOOS: "linux", GOARCH: "arm64"}},
	})
}

func runC01(c *core.Ctx) {
	checkReusedFrameNamesCallee(c)
	checkOpcodeCoverage(c, "R01.1")
	checkOperationKinds(c)
	checkSSAOpcodes(c)
	checkI32ZeroExtension(c)
	checkCallerContextStore(c)
	checkTestFusion(c)
	// both engines access the number of bytes the mnemonic dictates (shared with C02 R02.1 / R02.6)
	checkFrontendAccessWidths(c, "R01.8")
	checkInterpreterWidths(c, "R01.8")
	checkAtomicCheckOrder(c)
	checkSideEffectClasses(c)
	checkElisionMerge(c, "R01.11")
	checkAmd64LoweringDiscipline(c)
	checkWaitSharednessOrder(c)
}

// ---------------------------------------------------------------------------------------------------------
// R01.2

var kindsOnDefault = map[string]string{
	"operationKindLabel":                 "position marker resolved to addresses before execution; stepping over it is its meaning",
	"operationKindI32ReinterpretFromF32": "identity on the 64-bit slot representation (the lowering emits nothing for it)",
	"operationKindI64ReinterpretFromF64": "identity on the 64-bit slot representation (the lowering emits nothing for it)",
	"operationKindF32ReinterpretFromI32": "identity on the 64-bit slot representation (the lowering emits nothing for it)",
	"operationKindF64ReinterpretFromI64": "identity on the 64-bit slot representation (the lowering emits nothing for it)",
	"operationKindEnd":                   "sentinel closing the enumeration, never constructed",
}

func checkOperationKinds(c *core.Ctx) {
	p := c.Pkg("internal/engine/interpreter")
	if p == nil {
		c.Undecided("R01.2", "interpreter", 0, "package not loaded")
		return
	}
	info := p.TypesInfo
	kt := p.Types.Scope().Lookup("operationKind")
	if kt == nil {
		c.Undecided("R01.2", "operationKind", 0, "type not found")
		return
	}
	var kinds []*types.Const
	for _, n := range p.Types.Scope().Names() {
		if k, ok := p.Types.Scope().Lookup(n).(*types.Const); ok && types.Identical(k.Type(), kt.Type()) {
			kinds = append(kinds, k)
		}
	}
	var exec *ast.FuncDecl
	core.AllFuncDecls(p, func(fd *ast.FuncDecl) {
		if fd.Name.Name == interpExecLoopName(p) {
			exec = fd
		}
	})
	if exec == nil || len(kinds) < 100 {
		c.Undecided("R01.2", "execution loop", 0, "callNativeFunc / kinds not found")
		return
	}
	// the execution switch: the largest switch in exec whose labels are operation kinds
	var sw *ast.SwitchStmt
	ast.Inspect(exec.Body, func(x ast.Node) bool {
		if s, ok := x.(*ast.SwitchStmt); ok {
			n := 0
			for _, cs := range s.Body.List {
				for _, l := range cs.(*ast.CaseClause).List {
					if o := constObjOf(info, l); o != nil && types.Identical(o.Type(), kt.Type()) {
						n++
					}
				}
			}
			if n > 50 && (sw == nil || len(s.Body.List) > len(sw.Body.List)) {
				sw = s
			}
		}
		return true
	})
	if sw == nil {
		c.Undecided("R01.2", "execution switch", exec.Pos(), "not found")
		return
	}
	have := map[types.Object]bool{}
	defaultAdvances := false
	for _, cs := range sw.Body.List {
		cc := cs.(*ast.CaseClause)
		if cc.List == nil {
			ast.Inspect(cc, func(y ast.Node) bool {
				if inc, ok := y.(*ast.IncDecStmt); ok && inc.Tok == token.INC && strings.HasSuffix(core.ExprStr(inc.X), ".pc") {
					defaultAdvances = true
				}
				return true
			})
		}
		for _, l := range cc.List {
			if o := constObjOf(info, l); o != nil {
				have[o] = true
			}
		}
	}
	// constructed kinds: assigned to a Kind field in a constructor
	constructed := map[types.Object]bool{}
	core.AllFuncDecls(p, func(fd *ast.FuncDecl) {
		if !strings.HasPrefix(fd.Name.Name, "newOperation") {
			return
		}
		ast.Inspect(fd.Body, func(y ast.Node) bool {
			if kv, ok := y.(*ast.KeyValueExpr); ok {
				if id, ok := kv.Key.(*ast.Ident); ok && id.Name == "Kind" {
					if o := constObjOf(info, kv.Value); o != nil {
						constructed[o] = true
					}
				}
			}
			return true
		})
	})
	for _, k := range kinds {
		name := k.Name()
		construct := "execution arm for " + name
		switch {
		case have[k]:
			c.Discharge("R01.2", construct, sw.Pos(), "case present")
		case kindsOnDefault[name] != "":
			ok := defaultAdvances
			if name == "operationKindEnd" {
				ok = !constructed[k]
			}
			c.Check(ok, "R01.2", construct, sw.Pos(), "relies on the default arm (pc++): "+kindsOnDefault[name], "listed as relying on the default, but the default arm does not advance the pc / the sentinel is constructed")
		default:
			c.Violate("R01.2", construct, sw.Pos(), "the lowering can emit "+name+" but the execution loop has no arm for it: the default arm silently skips the operation (operands stay on the stack, no result is pushed) while the compiler executes it")
		}
	}
}

// ---------------------------------------------------------------------------------------------------------
// R01.3

func checkSSAOpcodes(c *core.Ctx) {
	sp := c.Pkg("internal/engine/wazevo/ssa")
	if sp == nil {
		c.Undecided("R01.3", "ssa", 0, "package not loaded")
		return
	}
	ot := sp.Types.Scope().Lookup("Opcode")
	if ot == nil {
		c.Undecided("R01.3", "ssa.Opcode", 0, "type not found")
		return
	}
	var ops []*types.Const
	for _, n := range sp.Types.Scope().Names() {
		if k, ok := sp.Types.Scope().Lookup(n).(*types.Const); ok && types.Identical(k.Type(), ot.Type()) && strings.HasPrefix(n, "Opcode") {
			ops = append(ops, k)
		}
	}
	// emittable: assigned to the opcode field in the ssa package, or referenced by the frontend
	emittable := map[types.Object]string{}
	core.AllFuncDecls(sp, func(fd *ast.FuncDecl) {
		ast.Inspect(fd.Body, func(y ast.Node) bool {
			if as, ok := y.(*ast.AssignStmt); ok && len(as.Lhs) == 1 && len(as.Rhs) == 1 {
				if f := core.FieldOf(sp.TypesInfo, as.Lhs[0]); f != nil && f.Name() == "opcode" {
					if o := constObjOf(sp.TypesInfo, as.Rhs[0]); o != nil {
						emittable[o] = "assigned in " + fd.Name.Name
					}
				}
			}
			return true
		})
	})
	if fp := c.Pkg("internal/engine/wazevo/frontend"); fp != nil {
		for id, o := range fp.TypesInfo.Uses {
			if k, ok := o.(*types.Const); ok && types.Identical(k.Type(), ot.Type()) {
				if emittable[k] == "" {
					emittable[k] = "used by the frontend at " + c.Pos(id.Pos())
				}
			}
		}
	}
	// tables in the ssa package
	tableKeys := func(varName string) map[types.Object]bool {
		out := map[types.Object]bool{}
		for _, f := range sp.Syntax {
			ast.Inspect(f, func(y ast.Node) bool {
				vs, ok := y.(*ast.ValueSpec)
				if !ok || len(vs.Names) != 1 || vs.Names[0].Name != varName || len(vs.Values) != 1 {
					return true
				}
				if cl, ok := vs.Values[0].(*ast.CompositeLit); ok {
					for _, e := range cl.Elts {
						if kv, ok := e.(*ast.KeyValueExpr); ok {
							if o := constObjOf(sp.TypesInfo, kv.Key); o != nil {
								out[o] = true
							}
						}
					}
				}
				return true
			})
		}
		return out
	}
	sideEff, retTypes := tableKeys("instructionSideEffects"), tableKeys("instructionReturnTypes")
	if len(sideEff) < 100 || len(retTypes) < 100 {
		c.Undecided("R01.3", "ssa tables", 0, fmt.Sprintf("instructionSideEffects has %d keys, instructionReturnTypes %d", len(sideEff), len(retTypes)))
		return
	}
	// arms per backend: case labels anywhere in the isa package plus the shared backend package
	arms := map[string]map[types.Object]bool{}
	shared := map[types.Object]bool{}
	if bp := c.Pkg("internal/engine/wazevo/backend"); bp != nil {
		for _, f := range bp.Syntax {
			ast.Inspect(f, func(y ast.Node) bool {
				if cc, ok := y.(*ast.CaseClause); ok {
					for _, l := range cc.List {
						if o := constObjOf(bp.TypesInfo, l); o != nil {
							shared[o] = true
						}
					}
				}
				return true
			})
		}
	}
	for _, isa := range []string{"amd64", "arm64"} {
		p := c.Pkg("internal/engine/wazevo/backend/isa/" + isa)
		if p == nil {
			continue
		}
		set := map[types.Object]bool{}
		for _, f := range p.Syntax {
			ast.Inspect(f, func(y ast.Node) bool {
				if cc, ok := y.(*ast.CaseClause); ok {
					for _, l := range cc.List {
						if o := constObjOf(p.TypesInfo, l); o != nil {
							set[o] = true
						}
					}
				}
				return true
			})
		}
		arms[isa] = set
	}
	n := 0
	for _, k := range ops {
		why, ok := emittable[k]
		if !ok {
			continue
		}
		n++
		c.Check(sideEff[k], "R01.3", "side-effect entry for "+k.Name(), k.Pos(), "registered", "no entry in instructionSideEffects ("+why+"): compiling any function that uses it panics with `side effect info not registered`, on the compiler only")
		c.Check(retTypes[k], "R01.3", "return-type entry for "+k.Name(), k.Pos(), "registered", "no entry in instructionReturnTypes ("+why+"): the instruction's results get no type")
		for _, isa := range []string{"amd64", "arm64"} {
			if arms[isa] == nil {
				continue
			}
			c.Check(arms[isa][k] || shared[k], "R01.3", isa+" lowering arm for "+k.Name(), k.Pos(), "case present", "no case for it in the "+isa+" backend ("+why+"): lowering panics (TODO) for valid programs on this architecture only")
		}
	}
	c.Count("emittable_ssa_opcodes", n)
}

// ---------------------------------------------------------------------------------------------------------
// R01.5

var tags32 = map[string]bool{
	"signedInt32": true, "signedUint32": true, "unsignedTypeI32": true, "unsignedTypeF32": true, "signedTypeInt32": true,
	"signedTypeUint32": true, "signedTypeFloat32": true, "unsignedInt32": true, "f32": true,
}

// kinds in which a 32-bit tag names the *source* operand while the result is 64 bits wide
var tagNamesSource = map[string]string{
	"operationKindFConvertFromI":     "B1 tags the integer source; the f64 result is a full 64-bit pattern",
	"operationKindITruncFromF":       "the outer switch tags the float source (f32); the inner one tags the result and is checked",
	"operationKindF64PromoteFromF32": "result is f64",
}

func checkI32ZeroExtension(c *core.Ctx) {
	p := c.Pkg("internal/engine/interpreter")
	if p == nil {
		return
	}
	info := p.TypesInfo
	var exec *ast.FuncDecl
	core.AllFuncDecls(p, func(fd *ast.FuncDecl) {
		if fd.Name.Name == interpExecLoopName(p) {
			exec = fd
		}
	})
	if exec == nil {
		c.Undecided("R01.5", "execution loop", 0, "callNativeFunc not found")
		return
	}
	clean := func(e ast.Expr, defs map[types.Object]ast.Expr) (bool, string) {
		var rec func(e ast.Expr, d int) (bool, string)
		rec = func(e ast.Expr, d int) (bool, string) {
			e = ast.Unparen(e)
			if tv, ok := info.Types[e]; ok && tv.Value != nil {
				if v, ok := core.ConstVal(info, e); ok && v >= 0 && v <= 0xffffffff {
					return true, ""
				}
				return false, "constant " + tv.Value.String()
			}
			if call, ok := e.(*ast.CallExpr); ok && len(call.Args) == 1 {
				if tv, ok := info.Types[call.Fun]; ok && tv.IsType() {
					// conversion to uint64 (or to an unsigned ≤32-bit type, then implicitly widened by the caller)
					at := info.Types[call.Args[0]].Type
					if at != nil {
						if b, ok := at.Underlying().(*types.Basic); ok && b.Info()&types.IsInteger != 0 {
							small := b.Kind() == types.Uint32 || b.Kind() == types.Uint16 || b.Kind() == types.Uint8
							if small {
								return true, ""
							}
							if b.Kind() == types.Bool {
								return true, ""
							}
							return false, "uint64(" + b.Name() + " value `" + core.ExprStr(call.Args[0]) + "`)"
						}
					}
				}
			}
			if id, ok := e.(*ast.Ident); ok && d < 3 {
				if o := info.Uses[id]; o != nil {
					if def, ok := defs[o]; ok {
						return rec(def, d+1)
					}
				}
			}
			// a helper all of whose returns are clean
			if call, ok := e.(*ast.CallExpr); ok {
				if f := core.Callee(info, call); f != nil {
					if okH, known := helperReturnsClean32(c, f, 0); known && okH {
						return true, ""
					}
				}
			}
			return false, "`" + core.ExprStr(e) + "`"
		}
		return rec(e, 0)
	}
	n := 0
	var walk func(kind string, tag string, is32 bool, stmts []ast.Stmt, defs map[types.Object]ast.Expr)
	walk = func(kind, tag string, is32 bool, stmts []ast.Stmt, defs map[types.Object]ast.Expr) {
		for _, st := range stmts {
			ast.Inspect(st, func(y ast.Node) bool {
				switch z := y.(type) {
				case *ast.AssignStmt:
					if len(z.Lhs) == len(z.Rhs) {
						for i, l := range z.Lhs {
							if id, ok := l.(*ast.Ident); ok {
								if o := info.Defs[id]; o != nil {
									defs[o] = z.Rhs[i]
								} else if o := info.Uses[id]; o != nil {
									delete(defs, o) // reassigned: unknown
								}
							}
						}
					}
				case *ast.IfStmt:
					// `if T(op.B1) == <32-bit tag>` makes the then-branch a 32-bit arm
					if be, ok := ast.Unparen(z.Cond).(*ast.BinaryExpr); ok && be.Op == token.EQL {
						nm := constNameOf(info, be.Y)
						if nm == "" {
							nm = constNameOf(info, be.X)
						}
						if o := constObjOf(info, be.Y); o != nil || constObjOf(info, be.X) != nil {
							if strings.HasPrefix(nm, "signed") || strings.HasPrefix(nm, "unsigned") || nm == "f32" || nm == "f64" {
								if z.Init != nil {
									walk(kind, tag, is32, []ast.Stmt{z.Init}, defs)
								}
								walk(kind, nm, tags32[nm], z.Body.List, defs)
								switch el := z.Else.(type) {
								case *ast.BlockStmt:
									walk(kind, "not "+nm, false, el.List, defs)
								case *ast.IfStmt:
									walk(kind, tag, is32, []ast.Stmt{el}, defs)
								}
								return false
							}
						}
					}
				case *ast.SwitchStmt:
					for _, cs := range z.Body.List {
						cc := cs.(*ast.CaseClause)
						t, all32, any := tag, is32, false
						for _, l := range cc.List {
							nm := constNameOf(info, l)
							if o := constObjOf(info, l); o != nil {
								if _, isTag := o.Type().(*types.Named); isTag && (strings.HasPrefix(nm, "signed") || strings.HasPrefix(nm, "unsigned") || nm == "f32" || nm == "f64") {
									if !any {
										all32 = true
									}
									any = true
									t = nm
									if !tags32[nm] {
										all32 = false
									}
								}
							}
						}
						if !any {
							all32 = is32
						}
						walk(kind, t, all32, cc.Body, defs)
					}
					return false
				case *ast.CallExpr:
					if !is32 {
						return true
					}
					if f := core.Callee(info, z); f != nil && f.Name() == "pushValue" && len(z.Args) == 1 {
						n++
						ok, why := clean(z.Args[0], defs)
						construct := fmt.Sprintf("%s/%s push `%s`", kind, tag, core.ExprStr(z.Args[0]))
						if len(construct) > 150 {
							construct = construct[:150] + "…"
						}
						if ok {
							c.Discharge("R01.5", construct, z.Pos(), "zero-extended by construction")
						} else if why2, ex := tagNamesSource[kind]; ex && !strings.HasPrefix(tag, "signedInt") && !strings.HasPrefix(tag, "signedUint") || (ex && kind != "operationKindITruncFromF") {
							c.Discharge("R01.5", construct, z.Pos(), "tag names the source type: "+why2)
						} else {
							c.Violate("R01.5", construct, z.Pos(), "an arm tagged with a 32-bit type pushes "+why+", which is not zero-extended by construction: later i32 comparisons, br_if, br_table and memory addressing read the whole 64-bit slot and take a different path than the compiler")
						}
					}
				}
				return true
			})
		}
	}
	ast.Inspect(exec.Body, func(x ast.Node) bool {
		cc, ok := x.(*ast.CaseClause)
		if !ok {
			return true
		}
		for _, l := range cc.List {
			nm := constNameOf(info, l)
			if strings.HasPrefix(nm, "operationKind") {
				by32 := strings.Contains(nm, "SignExtend32From") || nm == "operationKindI32WrapFromI64"
				t := ""
				if by32 {
					t = "i32 result by name"
				}
				walk(nm, t, by32, cc.Body, map[types.Object]ast.Expr{})
				return false
			}
		}
		return true
	})
	c.Count("tagged_32bit_push_sites", n)
}

// ---------------------------------------------------------------------------------------------------------
// R01.6

func checkCallerContextStore(c *core.Ctx) {
	c.SSA()
	const rel = "internal/engine/wazevo/frontend"
	p := c.Pkg(rel)
	fns := moduleFns(c, rel)
	if p == nil || len(fns) == 0 {
		c.Undecided("R01.6", "frontend", 0, "package not loaded")
		return
	}
	// the store emitter: the function that uses ExecutionContextOffsetCallerModuleContextPtr
	var storeName string
	core.AllFuncDecls(p, func(fd *ast.FuncDecl) {
		ast.Inspect(fd.Body, func(y ast.Node) bool {
			if se, ok := y.(*ast.SelectorExpr); ok && se.Sel.Name == "ExecutionContextOffsetCallerModuleContextPtr" {
				storeName = fd.Name.Name
			}
			return true
		})
	})
	if storeName == "" {
		c.Undecided("R01.6", "anchor", 0, "no function uses ExecutionContextOffsetCallerModuleContextPtr")
		return
	}
	byName := map[string]*ssa.Function{}
	for _, fn := range fns {
		if fn.Parent() == nil {
			byName[fn.Name()] = fn
		}
	}
	store := byName[storeName]
	// always(F): every path from entry to a return passes a call of the store emitter or of an always-function
	always := map[*ssa.Function]bool{store: true}
	passes := func(fn *ssa.Function) bool {
		if len(fn.Blocks) == 0 {
			return false
		}
		seen := map[*ssa.BasicBlock]bool{}
		var visit func(b *ssa.BasicBlock) bool
		visit = func(b *ssa.BasicBlock) bool {
			for _, in := range b.Instrs {
				if call, ok := in.(*ssa.Call); ok && always[call.Common().StaticCallee()] {
					return true
				}
			}
			if len(b.Instrs) > 0 {
				if _, ok := b.Instrs[len(b.Instrs)-1].(*ssa.Return); ok {
					return false
				}
			}
			for _, s := range b.Succs {
				if seen[s] {
					continue
				}
				seen[s] = true
				if !visit(s) {
					return false
				}
			}
			return true
		}
		return visit(fn.Blocks[0])
	}
	for changed := true; changed; {
		changed = false
		for _, fn := range fns {
			if fn.Parent() == nil && !always[fn] && fn != store && passes(fn) {
				always[fn] = true
				changed = true
			}
		}
	}
	// note: the store emitter itself must be straight-line
	storeStraight := true
	for _, b := range store.Blocks {
		if _, ok := b.Instrs[len(b.Instrs)-1].(*ssa.If); ok {
			storeStraight = false
		}
	}
	c.Check(storeStraight, "R01.6", "the store emitter "+storeName+" is unconditional", store.Pos(), "straight-line", "the function that emits the store of the caller's module context has conditional paths: some calls are not preceded by the store")

	exempt := map[string]string{
		"insertModuleExitCodeCheck": "the termination check trampoline uses the call engine's own module, not the caller's context",
	}
	n := 0
	for _, fn := range fns {
		for _, b := range fn.Blocks {
			for i, in := range b.Instrs {
				call, ok := in.(*ssa.Call)
				if !ok {
					continue
				}
				sc := call.Common().StaticCallee()
				if sc == nil || (sc.Name() != "AsCallIndirect" && sc.Name() != "AsTailCallReturnCallIndirect") {
					continue
				}
				n++
				construct := fmt.Sprintf("%s emission in %s", sc.Name(), fn.Name())
				if why, ok := exempt[fn.Name()]; ok {
					c.Discharge("R01.6", construct+" (exempt)", call.Pos(), why)
					continue
				}
				// (1) an always-call dominates the emission
				okDom := false
				for _, b2 := range fn.Blocks {
					for j, in2 := range b2.Instrs {
						if k, ok := in2.(*ssa.Call); ok && always[k.Common().StaticCallee()] {
							if (b2 == b && j < i) || (b2 != b && b2.Dominates(b)) {
								okDom = true
							}
						}
					}
				}
				// (2) guarded by a bool result of a helper in which every `true` return passes the store
				if !okDom {
					okDom = guardedBy(b, func(cond ssa.Value) int {
						e, ok := cond.(*ssa.Extract)
						if !ok {
							return 0
						}
						hc, ok := e.Tuple.(*ssa.Call)
						if !ok {
							return 0
						}
						h := hc.Common().StaticCallee()
						if h == nil {
							return 0
						}
						if trueReturnsPassStore(h, e.Index, always) {
							return 1
						}
						if hd := core.FuncDecl(p, "Compiler", h.Name()); hd != nil {
							if astTrueReturnsPass(p.TypesInfo, hd, e.Index, func(call *ast.CallExpr) bool {
								f := core.Callee(p.TypesInfo, call)
								if f == nil {
									return false
								}
								g := byName[f.Name()]
								return g != nil && always[g]
							}) {
								return 1
							}
						}
						return 0
					})
				}
				c.Check(okDom, "R01.6", construct, call.Pos(), "preceded on every path by the store of the caller's module context",
					"an indirect call (the callee may be a Go host function or a function of another instance) is emitted on a path where the caller's module context was not stored first: the host function sees the module of an earlier call as its caller and reads or writes that module's memory")
			}
		}
	}
	c.Count("indirect_call_emissions", n)
}

// trueReturnsPassStore: in h, every return whose idx-th result may be true is dominated by an always-call.
func trueReturnsPassStore(h *ssa.Function, idx int, always map[*ssa.Function]bool) bool {
	if len(h.Blocks) == 0 {
		return false
	}
	found := false
	for _, b := range h.Blocks {
		r, ok := b.Instrs[len(b.Instrs)-1].(*ssa.Return)
		if !ok || idx >= len(r.Results) {
			continue
		}
		if k, ok := r.Results[idx].(*ssa.Const); ok && k.Value != nil && k.Value.String() == "false" {
			continue
		}
		found = true
		dom := false
		for _, b2 := range h.Blocks {
			for _, in2 := range b2.Instrs {
				if k, ok := in2.(*ssa.Call); ok && always[k.Common().StaticCallee()] {
					if b2 == b || b2.Dominates(b) {
						dom = true
					}
				}
			}
		}
		if !dom && !correlatedStore(h, b, always) {
			return false
		}
	}
	return found
}

// correlatedStore: the block is only reached under a condition value V (it is dominated by the V-edge of a branch), and an
// earlier branch on the very same value V passed an always-call on every path of its V-side: `if imported { store }` …
// `if !imported { return false }; return true`.
func correlatedStore(h *ssa.Function, ret *ssa.BasicBlock, always map[*ssa.Function]bool) bool {
	type edge struct {
		from *ssa.BasicBlock
		cond ssa.Value
		idx  int
	}
	var edges []edge
	for _, b := range h.Blocks {
		if len(b.Instrs) == 0 {
			continue
		}
		if iff, ok := b.Instrs[len(b.Instrs)-1].(*ssa.If); ok {
			for i := 0; i < 2; i++ {
				edges = append(edges, edge{b, iff.Cond, i})
			}
		}
	}
	for _, e2 := range edges {
		s2 := e2.from.Succs[e2.idx]
		if len(s2.Preds) != 1 || !(s2 == ret || s2.Dominates(ret)) {
			continue
		}
		for _, e1 := range edges {
			if e1.cond != e2.cond || e1.idx != e2.idx || e1.from == e2.from || !e1.from.Dominates(e2.from) {
				continue
			}
			s1 := e1.from.Succs[e1.idx]
			if len(s1.Preds) != 1 {
				continue
			}
			// every path from s1 to the second branch passes an always-call
			seen := map[*ssa.BasicBlock]bool{}
			var visit func(b *ssa.BasicBlock) bool
			visit = func(b *ssa.BasicBlock) bool {
				for _, in := range b.Instrs {
					if call, ok := in.(*ssa.Call); ok && always[call.Common().StaticCallee()] {
						return true
					}
				}
				if b == e2.from {
					return false
				}
				for _, s := range b.Succs {
					if seen[s] {
						continue
					}
					seen[s] = true
					if !visit(s) {
						return false
					}
				}
				return len(b.Succs) > 0
			}
			if visit(s1) {
				return true
			}
		}
	}
	return false
}

// ---------------------------------------------------------------------------------------------------------
// R01.7

func checkTestFusion(c *core.Ctx) {
	p := c.Pkg("internal/engine/wazevo/backend/isa/amd64")
	if p == nil {
		return
	}
	info := p.TypesInfo
	found := false
	core.AllFuncDecls(p, func(fd *ast.FuncDecl) {
		// the fusion helper: matches OpcodeBand and emits a TEST (asCmpRmiR with cmp=false)
		matchesBand, emitsTest := false, false
		ast.Inspect(fd.Body, func(y ast.Node) bool {
			if call, ok := y.(*ast.CallExpr); ok {
				if f := core.Callee(info, call); f != nil {
					if f.Name() == "MatchInstr" && len(call.Args) == 2 && constNameOf(info, call.Args[1]) == "OpcodeBand" {
						matchesBand = true
					}
					if f.Name() == "asCmpRmiR" && len(call.Args) > 0 && core.ExprStr(call.Args[0]) == "false" {
						emitsTest = true
					}
				}
			}
			return true
		})
		if !matchesBand || !emitsTest || fd.Type.Params == nil {
			return
		}
		found = true
		var params []types.Object
		for _, f := range fd.Type.Params.List {
			for _, nm := range f.Names {
				params = append(params, info.Defs[nm])
			}
		}
		if len(params) < 2 {
			c.Undecided("R01.7", "amd64 fusion helper "+fd.Name.Name, fd.Pos(), "fewer than two operand parameters")
			return
		}
		var bad []string
		zeroTests := 0
		ast.Inspect(fd.Body, func(y ast.Node) bool {
			be, ok := y.(*ast.BinaryExpr)
			if !ok || be.Op != token.EQL {
				return true
			}
			call, ok := ast.Unparen(be.X).(*ast.CallExpr)
			if !ok {
				return true
			}
			se, ok := call.Fun.(*ast.SelectorExpr)
			if !ok || se.Sel.Name != "ConstantVal" {
				return true
			}
			if v, ok := core.ConstVal(info, be.Y); !ok || v != 0 {
				return true
			}
			// root identifier of the receiver chain
			var root *ast.Ident
			ast.Inspect(se.X, func(z ast.Node) bool {
				if id, ok := z.(*ast.Ident); ok && root == nil {
					root = id
				}
				return true
			})
			if root == nil {
				return true
			}
			zeroTests++
			if info.Uses[root] == params[0] {
				bad = append(bad, c.Pos(be.Pos()))
			}
			return true
		})
		c.Check(len(bad) == 0 && zeroTests > 0, "R01.7", "amd64 "+fd.Name.Name+" matches the zero constant on the right-hand operand only", fd.Pos(),
			fmt.Sprintf("%d zero test(s), all on the second operand", zeroTests),
			"the helper also fuses when the zero is the LEFT operand ("+strings.Join(bad, ", ")+"): TEST sets the flags of (a&b) − 0, i.e. of the comparison with swapped operands, so `0 <cond> (a&b)` branches the wrong way for every condition except eq/ne")
		// call sites pass the comparison's operands in order
		core.AllFuncDecls(p, func(g *ast.FuncDecl) {
			ast.Inspect(g.Body, func(y ast.Node) bool {
				call, ok := y.(*ast.CallExpr)
				if !ok || len(call.Args) != 2 {
					return true
				}
				if f := core.Callee(info, call); f == nil || f.Name() != fd.Name.Name {
					return true
				}
				// find `a, b, _ := X.IcmpData()` and the definitions of the two arguments
				order := icmpOperandOrder(info, g, call)
				c.Check(order == 1, "R01.7", "call of "+fd.Name.Name+" in "+g.Name.Name+" passes the comparison operands in order", call.Pos(), "first, second",
					"the operands of the comparison are passed swapped or their origin is not the IcmpData pair: the right-hand-zero rule would apply to the wrong operand")
				return true
			})
		})
	})
	if !found {
		c.Discharge("R01.7", "amd64 has no and→TEST fusion helper", 0, "nothing to check: comparisons with zero go through the generic path")
	}
	sort.Strings(nil)
}

// icmpOperandOrder: 1 if call's args derive from the first and second result of IcmpData in that order, -1 swapped, 0 unknown.
func icmpOperandOrder(info *types.Info, g *ast.FuncDecl, call *ast.CallExpr) int {
	var first, second types.Object
	ast.Inspect(g.Body, func(y ast.Node) bool {
		as, ok := y.(*ast.AssignStmt)
		if !ok || len(as.Rhs) != 1 || len(as.Lhs) < 2 {
			return true
		}
		if c2, ok := as.Rhs[0].(*ast.CallExpr); ok {
			if se, ok := c2.Fun.(*ast.SelectorExpr); ok && se.Sel.Name == "IcmpData" && as.Pos() < call.Pos() {
				if a, ok := as.Lhs[0].(*ast.Ident); ok {
					first = info.Defs[a]
				}
				if b, ok := as.Lhs[1].(*ast.Ident); ok {
					second = info.Defs[b]
				}
			}
		}
		return true
	})
	if first == nil || second == nil {
		return 0
	}
	// definitions of local variables: v := f(x)
	defs := map[types.Object]ast.Expr{}
	ast.Inspect(g.Body, func(y ast.Node) bool {
		if as, ok := y.(*ast.AssignStmt); ok && len(as.Lhs) == len(as.Rhs) {
			for i, l := range as.Lhs {
				if id, ok := l.(*ast.Ident); ok {
					if o := info.Defs[id]; o != nil {
						defs[o] = as.Rhs[i]
					}
				}
			}
		}
		return true
	})
	origin := func(e ast.Expr) types.Object {
		for d := 0; d < 4; d++ {
			var found types.Object
			ast.Inspect(e, func(z ast.Node) bool {
				if id, ok := z.(*ast.Ident); ok {
					if o := info.Uses[id]; o == first || o == second {
						found = o
					}
				}
				return found == nil
			})
			if found != nil {
				return found
			}
			id, ok := ast.Unparen(e).(*ast.Ident)
			if !ok {
				return nil
			}
			def, ok := defs[info.Uses[id]]
			if !ok {
				return nil
			}
			e = def
		}
		return nil
	}
	a, b := origin(call.Args[0]), origin(call.Args[1])
	switch {
	case a == first && b == second:
		return 1
	case a == second && b == first:
		return -1
	}
	return 0
}

// ---------------------------------------------------------------------------------------------------------
// AST path exploration with comparison atoms: does every return whose idx-th result is the literal `true` pass a target call?

type cmpAtom struct{ x, y, op string } // canonical: op is "<" or "=="

func canonCmp(be *ast.BinaryExpr) (cmpAtom, bool, bool) { // atom, value-when-cond-true, ok
	x, y := core.ExprStr(be.X), core.ExprStr(be.Y)
	switch be.Op {
	case token.LSS:
		return cmpAtom{x, y, "<"}, true, true
	case token.GEQ:
		return cmpAtom{x, y, "<"}, false, true
	case token.GTR:
		return cmpAtom{y, x, "<"}, true, true
	case token.LEQ:
		return cmpAtom{y, x, "<"}, false, true
	case token.EQL:
		return cmpAtom{x, y, "=="}, true, true
	case token.NEQ:
		return cmpAtom{x, y, "=="}, false, true
	}
	return cmpAtom{}, false, false
}

func astTrueReturnsPass(info *types.Info, fd *ast.FuncDecl, idx int, isTarget func(*ast.CallExpr) bool) bool {
	// atoms that occur at least twice (only those can correlate two branches)
	count := map[cmpAtom]int{}
	ast.Inspect(fd.Body, func(n ast.Node) bool {
		if is, ok := n.(*ast.IfStmt); ok {
			if be, ok := ast.Unparen(is.Cond).(*ast.BinaryExpr); ok {
				if a, _, ok := canonCmp(be); ok {
					count[a]++
				}
			}
		}
		return true
	})
	var atoms []cmpAtom
	for a, n := range count {
		if n >= 2 {
			atoms = append(atoms, a)
		}
	}
	sort.Slice(atoms, func(i, j int) bool { return atoms[i].x+atoms[i].op+atoms[i].y < atoms[j].x+atoms[j].op+atoms[j].y })
	if len(atoms) > 6 {
		atoms = atoms[:6]
	}
	containsTarget := func(n ast.Node) bool {
		hit := false
		ast.Inspect(n, func(x ast.Node) bool {
			if _, isLit := x.(*ast.FuncLit); isLit {
				return false
			}
			if call, ok := x.(*ast.CallExpr); ok && isTarget(call) {
				hit = true
			}
			return !hit
		})
		return hit
	}
	okAll, sawTrue := true, false
	for v := 0; v < 1<<uint(len(atoms)); v++ {
		val := map[cmpAtom]bool{}
		for i, a := range atoms {
			val[a] = v>>uint(i)&1 == 1
		}
		// walk returns (passed-after, terminated)
		var walk func(list []ast.Stmt, passed bool) (bool, bool)
		walk = func(list []ast.Stmt, passed bool) (bool, bool) {
			for _, s := range list {
				switch x := s.(type) {
				case *ast.ReturnStmt:
					if idx < len(x.Results) {
						if id, ok := ast.Unparen(x.Results[idx]).(*ast.Ident); ok && id.Name == "true" {
							sawTrue = true
							if !passed {
								okAll = false
							}
						} else if !(ok && id.Name == "false") {
							// a computed value: treat as possibly true
							if id2, ok2 := ast.Unparen(x.Results[idx]).(*ast.Ident); !ok2 || id2.Name != "false" {
								sawTrue = true
								if !passed {
									okAll = false
								}
							}
						}
					}
					return passed, true
				case *ast.IfStmt:
					if x.Init != nil && containsTarget(x.Init) {
						passed = true
					}
					decided, value := false, false
					if be, ok := ast.Unparen(x.Cond).(*ast.BinaryExpr); ok {
						if a, whenTrue, ok := canonCmp(be); ok {
							if vv, known := val[a]; known {
								decided, value = true, vv == whenTrue
							}
						}
					}
					var elseList []ast.Stmt
					switch el := x.Else.(type) {
					case *ast.BlockStmt:
						elseList = el.List
					case *ast.IfStmt:
						elseList = []ast.Stmt{el}
					}
					if decided {
						var term bool
						if value {
							passed, term = walk(x.Body.List, passed)
						} else {
							passed, term = walk(elseList, passed)
						}
						if term {
							return passed, true
						}
						continue
					}
					p1, t1 := walk(x.Body.List, passed)
					p2, t2 := walk(elseList, passed)
					switch {
					case t1 && t2:
						return passed, true
					case t1:
						passed = p2
					case t2:
						passed = p1
					default:
						passed = p1 && p2
					}
				case *ast.BlockStmt:
					var term bool
					passed, term = walk(x.List, passed)
					if term {
						return passed, true
					}
				case *ast.ForStmt, *ast.RangeStmt, *ast.SwitchStmt, *ast.TypeSwitchStmt, *ast.SelectStmt:
					// may or may not execute: a target inside does not count, returns inside are checked with the current state
					ast.Inspect(x, func(n ast.Node) bool {
						if r, ok := n.(*ast.ReturnStmt); ok {
							walk([]ast.Stmt{r}, passed)
						}
						return true
					})
				default:
					if containsTarget(s) {
						passed = true
					}
				}
			}
			return passed, false
		}
		walk(fd.Body.List, false)
	}
	return okAll && sawTrue
}

// helperReturnsClean32: every return expression of f (a wazero function) is a conversion of an unsigned ≤32-bit value,
// a small constant, or a call of such a helper.
func helperReturnsClean32(c *core.Ctx, f *types.Func, depth int) (clean, known bool) {
	if depth > 2 || f.Pkg() == nil {
		return false, false
	}
	for _, p := range c.WazeroPkgs() {
		if p.Types != f.Pkg() {
			continue
		}
		var fd *ast.FuncDecl
		core.AllFuncDecls(p, func(d *ast.FuncDecl) {
			if p.TypesInfo.Defs[d.Name] == types.Object(f) {
				fd = d
			}
		})
		if fd == nil || fd.Body == nil {
			return false, false
		}
		info := p.TypesInfo
		all, n := true, 0
		// named results assigned then returned bare are not followed
		ast.Inspect(fd.Body, func(x ast.Node) bool {
			if _, isLit := x.(*ast.FuncLit); isLit {
				return false
			}
			r, ok := x.(*ast.ReturnStmt)
			if !ok {
				return true
			}
			if len(r.Results) == 0 {
				all = false
				return true
			}
			n++
			e := ast.Unparen(r.Results[0])
			if tv, ok := info.Types[e]; ok && tv.Value != nil {
				if v, ok := core.ConstVal(info, e); ok && v >= 0 && v <= 0xffffffff {
					return true
				}
				all = false
				return true
			}
			if call, ok := e.(*ast.CallExpr); ok && len(call.Args) == 1 {
				if tv, ok := info.Types[call.Fun]; ok && tv.IsType() {
					if at := info.Types[call.Args[0]].Type; at != nil {
						if b, ok := at.Underlying().(*types.Basic); ok && (b.Kind() == types.Uint32 || b.Kind() == types.Uint16 || b.Kind() == types.Uint8) {
							return true
						}
					}
					all = false
					return true
				}
			}
			if call, ok := e.(*ast.CallExpr); ok {
				if g := core.Callee(info, call); g != nil {
					if okG, kn := helperReturnsClean32(c, g, depth+1); kn && okG {
						return true
					}
				}
			}
			all = false
			return true
		})
		return all && n > 0, true
	}
	return false, false
}

// ---------------------------------------------------------------------------------------------------------
// R01.10 side-effect classes of the SSA opcodes

var reStrictOp = regexp.MustCompile(`^Opcode(Store|Istore\d+|Atomic\w+|Call\w*|TailCall\w+|Fence|ExitWithCode|ExitIfTrueWithCode|Return|Jump|Brz|Brnz|BrTable)$`)
var reTrapOp = regexp.MustCompile(`^Opcode(Sdiv|Udiv|Srem|Urem|FcvtToSint|FcvtToUint)$`)

func checkSideEffectClasses(c *core.Ctx) {
	sp := c.Pkg("internal/engine/wazevo/ssa")
	if sp == nil {
		return
	}
	info := sp.TypesInfo
	class := map[string]string{}
	for _, f := range sp.Syntax {
		ast.Inspect(f, func(y ast.Node) bool {
			vs, ok := y.(*ast.ValueSpec)
			if !ok || len(vs.Names) != 1 || vs.Names[0].Name != "instructionSideEffects" || len(vs.Values) != 1 {
				return true
			}
			if cl, ok := vs.Values[0].(*ast.CompositeLit); ok {
				for _, e := range cl.Elts {
					if kv, ok := e.(*ast.KeyValueExpr); ok {
						class[constNameOf(info, kv.Key)] = constNameOf(info, kv.Value)
					}
				}
			}
			return true
		})
	}
	if len(class) < 100 {
		c.Undecided("R01.10", "instructionSideEffects", 0, "table not found")
		return
	}
	var names []string
	for k := range class {
		names = append(names, k)
	}
	sort.Strings(names)
	n := 0
	for _, k := range names {
		switch {
		case reStrictOp.MatchString(k):
			n++
			c.Check(class[k] == "sideEffectStrict", "R01.10", "side-effect class of "+k+" is strict", 0, "sideEffectStrict",
				"the opcode writes memory, synchronises or transfers control but is classified "+class[k]+": it no longer starts an instruction group, so the backend may fold an earlier load into an instruction after it (or dead-code elimination may drop it) – the compiler reorders a load with a store/atomic and returns a different value than the interpreter")
		case reTrapOp.MatchString(k):
			n++
			c.Check(class[k] == "sideEffectTraps" || class[k] == "sideEffectStrict", "R01.10", "side-effect class of "+k+" keeps its trap", 0, class[k],
				"a trapping opcode is classified "+class[k]+": if its result is unused it is removed together with its trap")
		}
	}
	c.Count("classified_side_effect_opcodes", n)
}

// ---------------------------------------------------------------------------------------------------------
// R01.9 both engines test alignment and bounds of an atomic access in the same order

func checkAtomicCheckOrder(c *core.Ctx) {
	fp, ip := c.Pkg("internal/engine/wazevo/frontend"), c.Pkg("internal/engine/interpreter")
	if fp == nil || ip == nil {
		return
	}
	// compiler: in the atomic address helper, which comes first – the bounds-checking helper or the alignment check?
	compilerOrder := ""
	var cpos token.Pos
	setupFns, _ := boundsHelpers(fp)
	// the alignment check: the method that emits the unaligned-atomic exit
	alignFns := map[*types.Func]bool{}
	core.AllFuncDecls(fp, func(fd *ast.FuncDecl) {
		ast.Inspect(fd.Body, func(x ast.Node) bool {
			if se, ok := x.(*ast.SelectorExpr); ok && se.Sel.Name == "ExitCodeUnalignedAtomic" {
				if f, ok := fp.TypesInfo.Defs[fd.Name].(*types.Func); ok {
					alignFns[f] = true
				}
			}
			return true
		})
	})
	core.AllFuncDecls(fp, func(fd *ast.FuncDecl) {
		var bounds, align token.Pos
		ast.Inspect(fd.Body, func(x ast.Node) bool {
			if call, ok := x.(*ast.CallExpr); ok {
				if f := core.Callee(fp.TypesInfo, call); f != nil {
					if setupFns[f] && bounds == 0 {
						bounds = call.Pos()
					}
					if alignFns[f] && align == 0 {
						align = call.Pos()
					}
				}
			}
			return true
		})
		if bounds != 0 && align != 0 {
			cpos = fd.Pos()
			if bounds < align {
				compilerOrder = "bounds, then alignment"
			} else {
				compilerOrder = "alignment, then bounds"
			}
		}
	})
	// interpreter: in the atomic load arm, the unaligned panic vs the accessor / out-of-bounds panic
	interpOrder := ""
	info := ip.TypesInfo
	core.AllFuncDecls(ip, func(fd *ast.FuncDecl) {
		if fd.Name.Name != interpExecLoopName(ip) {
			return
		}
		ast.Inspect(fd.Body, func(x ast.Node) bool {
			cc, ok := x.(*ast.CaseClause)
			if !ok || len(cc.List) == 0 || constNameOf(info, cc.List[0]) != "operationKindAtomicLoad" {
				return true
			}
			var unal, oob token.Pos
			ast.Inspect(cc, func(y ast.Node) bool {
				if se, ok := y.(*ast.SelectorExpr); ok {
					if se.Sel.Name == "ErrRuntimeUnalignedAtomic" && unal == 0 {
						unal = se.Pos()
					}
					if se.Sel.Name == "ErrRuntimeOutOfBoundsMemoryAccess" && oob == 0 {
						oob = se.Pos()
					}
				}
				return true
			})
			if unal != 0 && oob != 0 {
				if unal < oob {
					interpOrder = "alignment, then bounds"
				} else {
					interpOrder = "bounds, then alignment"
				}
			}
			return false
		})
	})
	if compilerOrder == "" || interpOrder == "" {
		c.Undecided("R01.9", "atomic check order", 0, "could not locate the checks (compiler: "+compilerOrder+", interpreter: "+interpOrder+")")
		return
	}
	c.Check(compilerOrder == interpOrder, "R01.9", "both engines test alignment and bounds of an atomic access in the same order", cpos, compilerOrder,
		"the compiler checks "+compilerOrder+" while the interpreter checks "+interpOrder+": an atomic access that is both unaligned and out of bounds traps with `out of bounds memory access` on one engine and `unaligned atomic` on the other")
}
