package props

import (
	"go/token"
	"go/types"
	"sort"
	"strings"

	"golang.org/x/tools/go/ssa"

	"verif/checker/core"
)

// ---- R04.14 – R04.16 (defects found by the bug hunt of the last session) ----

func checkBaseline3C04(c *core.Ctx) {
	c.SSA()
	giNamed := namedIn(c, "internal/wasm", "GlobalInstance")
	fns := moduleFns(c, "internal/wasm")

	// R04.14: a method of GlobalInstance that reads the captured value (Val/ValHi) consults the ownership field (Me):
	// once an engine owns the global, Val is only the initial value.
	if giNamed != nil {
		st := giNamed.Underlying().(*types.Struct)
		n := 0
		for _, fn := range fns {
			if fn.Signature.Recv() == nil || core.NamedOf(fn.Signature.Recv().Type()) != giNamed || fn.Parent() != nil {
				continue
			}
			readsVal, consultsMe, delegates := token.NoPos, false, false
			var walk func(f *ssa.Function)
			walk = func(f *ssa.Function) {
				for _, b := range f.Blocks {
					for _, in := range b.Instrs {
						switch x := in.(type) {
						case *ssa.FieldAddr:
							if core.NamedOf(x.X.Type()) != giNamed {
								continue
							}
							switch st.Field(x.Field).Name() {
							case "Val", "ValHi":
								if len(fn.Params) == 0 || x.X != fn.Params[0] {
									continue // the captured value of another global (e.g. an imported one in an initialiser): R04.3, C03 R03.2
								}
								for _, r := range *x.Referrers() {
									if u, ok := r.(*ssa.UnOp); ok && u.Op == token.MUL {
										readsVal = x.Pos()
									}
								}
							case "Me":
								consultsMe = true
							}
						case *ssa.Call:
							if sc := x.Common().StaticCallee(); sc != nil && sc.Signature.Recv() != nil && core.NamedOf(sc.Signature.Recv().Type()) == giNamed {
								delegates = true
							}
						}
					}
				}
				for _, an := range f.AnonFuncs {
					walk(an)
				}
			}
			walk(fn)
			if readsVal == token.NoPos {
				continue
			}
			n++
			c.Check(consultsMe, "R04.14", "method "+core.SSAFuncName(fn)+" reads the captured value only after consulting the owner (Me)", fn.Pos(),
				"Me is consulted in the same method", "reads GlobalInstance.Val at "+c.Pos(readsVal)+" without consulting Me: with the compiler the live value is in the defining instance's module context and Val stays at the initial value, so the method reports a stale value after a global.set")
			_ = delegates
		}
		c.Count("global_methods_reading_val", n)
		if n == 0 {
			c.Undecided("R04.14", "GlobalInstance methods reading Val", 0, "none found")
		}
	}

	// R04.15: the i32 result of the constant-expression evaluator is an unsigned address/offset: every use goes through a
	// conversion to an unsigned 32-bit type first (no signed comparison, no sign-extending widening).
	{
		var eval []*ssa.Function
		for _, fn := range fns {
			// semantic anchor: a function taking a *ConstantExpression and returning int32
			if fn.Parent() != nil || fn.Signature.Results().Len() != 1 || basicKind(fn.Signature.Results().At(0).Type()) != types.Int32 {
				continue
			}
			takes := false
			for i := 0; i < fn.Signature.Params().Len(); i++ {
				if nm := core.NamedOf(fn.Signature.Params().At(i).Type()); nm != nil && nm.Obj().Name() == "ConstantExpression" {
					takes = true
				}
			}
			if takes {
				eval = append(eval, fn)
			}
		}
		if len(eval) == 0 {
			c.Undecided("R04.15", "i32 constant-expression evaluator", 0, "not found")
		}
		n := 0
		for _, fn := range fns {
			for _, b := range fn.Blocks {
				for _, in := range b.Instrs {
					call, ok := in.(*ssa.Call)
					if !ok {
						continue
					}
					sc := call.Common().StaticCallee()
					isEval := false
					for _, e := range eval {
						if sc == e {
							isEval = true
						}
					}
					if !isEval {
						continue
					}
					n++
					var bad []string
					for _, r := range *call.Referrers() {
						if cv, ok := r.(*ssa.Convert); ok {
							if k := basicKind(cv.Type()); k == types.Uint32 {
								continue
							}
							bad = append(bad, "converted to "+cv.Type().String()+" (sign-extending) at "+c.Pos(cv.Pos()))
							continue
						}
						if bo, ok := r.(*ssa.BinOp); ok {
							bad = append(bad, "used signed in `"+bo.Op.String()+"` at "+c.Pos(bo.Pos()))
							continue
						}
						if _, ok := r.(*ssa.DebugRef); ok {
							continue
						}
						bad = append(bad, "used as int32 at "+c.Pos(r.Pos()))
					}
					sort.Strings(bad)
					c.Check(len(bad) == 0, "R04.15", "offset evaluated in "+core.SSAFuncName(fn)+" is interpreted as an unsigned 32-bit value", call.Pos(),
						"every use converts to uint32 first", strings.Join(bad, "; ")+": segment offsets are unsigned 32-bit addresses; as a signed value every offset ≥ 2^31 is negative and an in-bounds segment is refused (or, widened with its sign, checked against the wrong bound)")
				}
			}
		}
		c.Count("const_expr_i32_uses", n)
	}

	// R04.16: instantiation writes the active element segments before the active data segments (a trapping data segment
	// leaves the element segments applied, specification exec/modules instantiation steps).
	{
		var dataW, elemW []*ssa.Function
		for _, fn := range fns {
			if fn.Parent() != nil {
				continue
			}
			takesData, takesElem := false, false
			for i := 0; i < fn.Signature.Params().Len(); i++ {
				if sl, ok := fn.Signature.Params().At(i).Type().Underlying().(*types.Slice); ok {
					if nm := core.NamedOf(sl.Elem()); nm != nil {
						switch nm.Obj().Name() {
						case "DataSegment":
							takesData = true
						case "ElementSegment":
							takesElem = true
						}
					}
				}
			}
			if !takesData && !takesElem {
				continue
			}
			copies, storesRef := false, false
			loadsRefs, storesParam := false, false
			// the function itself, or the helpers of the package it calls (one level), do the writing
			scope := []*ssa.Function{fn}
			for _, b := range fn.Blocks {
				for _, in := range b.Instrs {
					if call, ok := in.(*ssa.Call); ok {
						if sc := call.Common().StaticCallee(); sc != nil && sc.Blocks != nil && sc.Pkg == fn.Pkg && sc != fn {
							scope = append(scope, sc)
						}
					}
				}
			}
			for _, sf := range scope {
				for _, b := range sf.Blocks {
					for _, in := range b.Instrs {
						switch x := in.(type) {
						case *ssa.Call:
							if bi, ok := x.Common().Value.(*ssa.Builtin); ok && bi.Name() == "copy" {
								copies = true
							}
						case *ssa.FieldAddr:
							if st, ok := derefStructT(x.X.Type()).Underlying().(*types.Struct); ok && st.Field(x.Field).Name() == "References" && sf == fn {
								loadsRefs = true
							}
						case *ssa.Store:
							if ia, ok := x.Addr.(*ssa.IndexAddr); ok {
								// the slice loaded from a table's References field
								if ld, ok := ia.X.(*ssa.UnOp); ok && ld.Op == token.MUL {
									if fa, ok := ld.X.(*ssa.FieldAddr); ok {
										if st, ok := derefStructT(fa.X.Type()).Underlying().(*types.Struct); ok && st.Field(fa.Field).Name() == "References" {
											storesRef = true
										}
									}
								}
								// … or, in a helper, the slice it was handed by a function that took it from a table
								if _, isParam := ia.X.(*ssa.Parameter); isParam && sf != fn {
									storesParam = true
								}
							}
						}
					}
				}
			}
			if loadsRefs && storesParam {
				storesRef = true
			}
			if takesData && copies {
				dataW = append(dataW, fn)
			}
			if takesElem && storesRef {
				elemW = append(elemW, fn)
			}
		}
		found := false
		for _, fn := range fns {
			var dc, ec *ssa.Call
			for _, b := range fn.Blocks {
				for _, in := range b.Instrs {
					if call, ok := in.(*ssa.Call); ok {
						sc := call.Common().StaticCallee()
						for _, d := range dataW {
							if sc == d {
								dc = call
							}
						}
						for _, e := range elemW {
							if sc == e {
								ec = call
							}
						}
					}
				}
			}
			if dc == nil || ec == nil {
				continue
			}
			found = true
			elemFirst := ec.Block().Dominates(dc.Block()) && (ec.Block() != dc.Block() || instrIndex(ec) < instrIndex(dc))
			c.Check(elemFirst, "R04.16", "instantiation applies active element segments before active data segments", fn.Pos(),
				"the element-segment writer dominates the data-segment writer in "+core.SSAFuncName(fn),
				"in "+core.SSAFuncName(fn)+" the data segments are written (and may fail the instantiation) at "+c.Pos(dc.Pos())+" before the element segments at "+c.Pos(ec.Pos())+": when a data segment is out of bounds the element segments are never applied, although the specification applies them first and keeps them")
		}
		if !found {
			c.Undecided("R04.16", "instantiation order of element and data segments", 0, "no function calling both segment writers found")
		}
	}
}

func instrIndex(in ssa.Instruction) int {
	for i, x := range in.Block().Instrs {
		if x == in {
			return i
		}
	}
	return -1
}
