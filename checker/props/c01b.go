package props

import (
	"fmt"
	"go/ast"
	"go/token"
	"go/types"
	"sort"
	"strings"

	"golang.org/x/tools/go/packages"

	"verif/checker/core"
)

// ---- R01.12 – R01.14: the amd64 lowerings and the register allocator agree on what a virtual register is ----
//
// The allocator (backend/regalloc) stores a spilled register after its definition and reloads it from that slot; the amd64
// lowerings emit two-address instructions which modify a register in place without that being a definition, and define some
// temporaries twice. Demonstrated on this tree (all fixed): select on floats/vectors, f64x2.replace_lane 0,
// f64x2.convert_low_i32x4_u, fNN.copysign and v128.bitselect returned wrong values when an operand had to be reloaded in
// the middle of the lowered sequence (seeded/C01-hunt/d1,d3,d5,d6). The repaired contract, checked here:
//
//	R01.12 when the allocator takes the real register of a virtual register to make room, it stores that register at that
//	       point (so in-place modifications and second definitions reach the slot);
//	R01.13 what is not covered by that store – a register that loses its real register at a call or at a block boundary –
//	       is never modified in place: in-place modification only targets temporaries of the same lowering, or a result
//	       register whose only later use in that lowering is none (it is the last instruction of the sequence on it);
//	R01.14 an instruction whose machine semantics keep part of its destination declares it as used: the conditional move
//	       pseudo instruction, and pure-definition forms carrying a merging SSE opcode into a vector temporary.

type amd64Ctor struct {
	kind     string
	op1, op2 int // parameter indexes flowing into op1 / op2 (-1: none)
}

type loweringEvent struct {
	pos      token.Pos
	what     string // "def" | "mod" | "use"
	temp     types.Object
	ctx      []branchArm
	text     string
	operands map[types.Object]bool
}

type branchArm struct {
	node ast.Node
	arm  int
}

func compatible(a, b []branchArm) bool {
	for _, x := range a {
		for _, y := range b {
			if x.node == y.node && x.arm != y.arm {
				return false
			}
		}
	}
	return true
}

func amd64Tables(p *packages.Package) (ctors map[string]amd64Ctor, defK, useK map[string]string) {
	info := p.TypesInfo
	ctors = map[string]amd64Ctor{}
	defK, useK = map[string]string{}, map[string]string{}
	core.AllFuncDecls(p, func(fd *ast.FuncDecl) {
		if core.RecvName(fd) != "instruction" || !strings.HasPrefix(fd.Name.Name, "as") {
			return
		}
		params := map[types.Object]int{}
		idx := 0
		for _, f := range fd.Type.Params.List {
			for _, n := range f.Names {
				params[info.Defs[n]] = idx
				idx++
			}
		}
		c := amd64Ctor{op1: -1, op2: -1}
		paramIn := func(e ast.Expr) int {
			r := -1
			ast.Inspect(e, func(x ast.Node) bool {
				if id, ok := x.(*ast.Ident); ok {
					if i, ok := params[info.Uses[id]]; ok {
						r = i
					}
				}
				return true
			})
			return r
		}
		ast.Inspect(fd.Body, func(x ast.Node) bool {
			as, ok := x.(*ast.AssignStmt)
			if !ok || len(as.Lhs) != 1 || len(as.Rhs) != 1 {
				return true
			}
			se, ok := as.Lhs[0].(*ast.SelectorExpr)
			if !ok {
				return true
			}
			switch se.Sel.Name {
			case "kind":
				if id, ok := as.Rhs[0].(*ast.Ident); ok {
					c.kind = id.Name
				}
			case "op1":
				c.op1 = paramIn(as.Rhs[0])
			case "op2":
				c.op2 = paramIn(as.Rhs[0])
			}
			return true
		})
		if c.kind != "" {
			ctors[fd.Name.Name] = c
		}
	})
	for _, f := range p.Syntax {
		ast.Inspect(f, func(x ast.Node) bool {
			vs, ok := x.(*ast.ValueSpec)
			if !ok || len(vs.Names) != 1 || len(vs.Values) != 1 {
				return true
			}
			var dst map[string]string
			switch vs.Names[0].Name {
			case "defKinds":
				dst = defK
			case "useKinds":
				dst = useK
			default:
				return true
			}
			if cl, ok := vs.Values[0].(*ast.CompositeLit); ok {
				for _, e := range cl.Elts {
					if kv, ok := e.(*ast.KeyValueExpr); ok {
						if k, ok := kv.Key.(*ast.Ident); ok {
							if v, ok := kv.Value.(*ast.Ident); ok {
								dst[k.Name] = v.Name
							}
						}
					}
				}
			}
			return true
		})
	}
	return
}

// kinds whose op2 is written in place although it is declared as a use only; compare-only kinds are not writers
var amd64CompareOnly = map[string]bool{"cmpRmiR": true, "xmmCmpRmR": true}

// SSE opcodes whose register-to-register form keeps part of the destination register (Intel SDM: the scalar moves and
// conversions merge into the destination's upper part)
var amd64MergingOpcodes = map[string]bool{
	"sseOpcodeMovss": true, "sseOpcodeMovsd": true, "sseOpcodeCvtss2sd": true, "sseOpcodeCvtsd2ss": true,
	"sseOpcodeCvtsi2ss": true, "sseOpcodeCvtsi2sd": true, "sseOpcodeRoundss": true, "sseOpcodeRoundsd": true,
	"sseOpcodeSqrtss": true, "sseOpcodeSqrtsd": true,
}

func checkAmd64LoweringDiscipline(c *core.Ctx) {
	p := c.Pkg("internal/engine/wazevo/backend/isa/amd64")
	if p == nil {
		return
	}
	info := p.TypesInfo
	ctors, defK, useK := amd64Tables(p)
	if len(ctors) < 30 || len(defK) < 30 || len(useK) < 30 {
		c.Undecided("R01.12", "amd64 instruction constructors and def/use tables", 0, fmt.Sprintf("only %d constructors, %d def kinds, %d use kinds extracted", len(ctors), len(defK), len(useK)))
		return
	}
	// ---- R01.14 (a): a pseudo instruction that conditionally writes its destination uses it
	for k := range defK {
		if strings.Contains(strings.ToLower(k), "cmov") {
			c.Check(defK[k] == "defKindNone" && strings.Contains(useK[k], "Op2"), "R01.14", "amd64 instruction kind "+k+" declares its destination as used", 0,
				"defKindNone and "+useK[k], "declared "+defK[k]+"/"+useK[k]+": a conditional move keeps the destination when the condition is false, so the value moved there before must be an input of it; declared as a pure definition, the allocator may hand that register to the reload of the other operand and give the 'definition' a fresh one (select on f32/f64/v128 returned an unrelated register)")
		}
	}
	isVReg := func(t types.Type) bool { return t != nil && strings.HasSuffix(t.String(), "regalloc.VReg") }
	nTemps, nFuncs, nMulti, nInPlace, nSSA := 0, 0, 0, 0, 0
	core.AllFuncDecls(p, func(fd *ast.FuncDecl) {
		if core.RecvName(fd) != "machine" || fd.Body == nil {
			return
		}
		// temporaries: locals of type VReg initialised by AllocateVReg / copyToTmp
		temps := map[types.Object]string{} // → element type text when known
		vecTemp := map[types.Object]bool{}
		ssaRegs := map[types.Object]bool{}
		ast.Inspect(fd.Body, func(x ast.Node) bool {
			as, ok := x.(*ast.AssignStmt)
			if !ok || len(as.Lhs) != len(as.Rhs) {
				return true
			}
			for i, l := range as.Lhs {
				id, ok := l.(*ast.Ident)
				if !ok {
					continue
				}
				call, ok := as.Rhs[i].(*ast.CallExpr)
				if !ok {
					continue
				}
				f := core.Callee(info, call)
				if f != nil && f.Name() == "VRegOf" {
					if o := info.Defs[id]; o != nil && isVReg(o.Type()) {
						ssaRegs[o] = true
						temps[o] = "VRegOf"
					}
					continue
				}
				if f == nil || (f.Name() != "AllocateVReg" && f.Name() != "copyToTmp") {
					continue
				}
				o := info.Defs[id]
				if o == nil {
					o = info.Uses[id]
				}
				if o == nil || !isVReg(o.Type()) {
					continue
				}
				temps[o] = f.Name()
				if f.Name() == "AllocateVReg" && len(call.Args) == 1 && strings.Contains(core.ExprStr(call.Args[0]), "V128") {
					vecTemp[o] = true
				}
				if f.Name() == "copyToTmp" {
					// a copy of a vector operand: the operand variable's name convention is not reliable; decided per use below
					vecTemp[o] = vecTemp[o] || strings.Contains(strings.ToLower(fd.Name.Name), "lane") || strings.HasPrefix(fd.Name.Name, "lowerV")
				}
			}
			return true
		})
		nFuncs++
		nTemps += len(temps)
		// operand aliases: `xx := newOperandReg(tmp)`
		tempIn := func(e ast.Expr) types.Object {
			var r types.Object
			ast.Inspect(e, func(x ast.Node) bool {
				if id, ok := x.(*ast.Ident); ok {
					if o := info.Uses[id]; o != nil {
						if _, ok := temps[o]; ok {
							r = o
						}
					}
				}
				return true
			})
			return r
		}
		// events in source order with their branch context
		var events []loweringEvent
		var emits []loweringEvent // every emitted instruction with its operand set
		var inlineMods []loweringEvent
		var walk func(n ast.Node, ctx []branchArm)
		record := func(call *ast.CallExpr, ctx []branchArm) {
			f := core.Callee(info, call)
			if f == nil {
				return
			}
			ops := map[types.Object]bool{}
			for _, a := range call.Args {
				if t := tempIn(a); t != nil {
					// all temporaries mentioned in the arguments
					ast.Inspect(a, func(x ast.Node) bool {
						if id, ok := x.(*ast.Ident); ok {
							if o := info.Uses[id]; o != nil {
								if _, ok := temps[o]; ok {
									ops[o] = true
								}
							}
						}
						return true
					})
				}
			}
			name := f.Name()
			if ct, ok := ctors[name]; ok {
				emits = append(emits, loweringEvent{pos: call.Pos(), ctx: ctx, text: name, operands: ops})
				if ct.op2 >= 0 && ct.op2 < len(call.Args) {
					// an SSA value's register named inline
					inlineSSA := false
					ast.Inspect(call.Args[ct.op2], func(x ast.Node) bool {
						if cl, ok := x.(*ast.CallExpr); ok {
							if f := core.Callee(info, cl); f != nil && f.Name() == "VRegOf" {
								inlineSSA = true
							}
						}
						return true
					})
					if inlineSSA && defK[ct.kind] != "defKindOp2" && !amd64CompareOnly[ct.kind] && strings.Contains(useK[ct.kind], "Op2") {
						inlineMods = append(inlineMods, loweringEvent{pos: call.Pos(), text: name})
					}
					if t := tempIn(call.Args[ct.op2]); t != nil {
						switch {
						case defK[ct.kind] == "defKindOp2":
							events = append(events, loweringEvent{pos: call.Pos(), what: "def", temp: t, ctx: ctx, text: name})
							// R01.14 (b): a merging opcode carried by a pure-definition form into a vector temporary
							if len(call.Args) > 0 && amd64MergingOpcodes[constNameOf(info, call.Args[0])] && vecTemp[t] && ct.op1 >= 0 && ct.op1 < len(call.Args) {
								if ot := info.Types[call.Args[ct.op1]].Type; ot != nil && !strings.Contains(core.ExprStr(call.Args[ct.op1]), "Mem") {
									events = append(events, loweringEvent{pos: call.Pos(), what: "merge", temp: t, ctx: ctx, text: name + "(" + constNameOf(info, call.Args[0]) + ")"})
								}
							}
						case !amd64CompareOnly[ct.kind] && strings.Contains(useK[ct.kind], "Op2"):
							events = append(events, loweringEvent{pos: call.Pos(), what: "mod", temp: t, ctx: ctx, text: name})
						default:
							events = append(events, loweringEvent{pos: call.Pos(), what: "use", temp: t, ctx: ctx, text: name})
						}
					}
				}
				if ct.op1 >= 0 && ct.op1 < len(call.Args) {
					ast.Inspect(call.Args[ct.op1], func(x ast.Node) bool {
						if id, ok := x.(*ast.Ident); ok {
							if o := info.Uses[id]; o != nil {
								if _, ok := temps[o]; ok {
									events = append(events, loweringEvent{pos: call.Pos(), what: "use", temp: o, ctx: ctx, text: name})
								}
							}
						}
						return true
					})
				}
				return
			}
			switch name {
			case "copyTo":
				emits = append(emits, loweringEvent{pos: call.Pos(), ctx: ctx, text: name, operands: ops})
				if len(call.Args) == 2 {
					if t := tempIn(call.Args[0]); t != nil {
						events = append(events, loweringEvent{pos: call.Pos(), what: "use", temp: t, ctx: ctx, text: name})
					}
					if t := tempIn(call.Args[1]); t != nil {
						events = append(events, loweringEvent{pos: call.Pos(), what: "def", temp: t, ctx: ctx, text: name})
					}
				}
			case "copyToTmp":
				emits = append(emits, loweringEvent{pos: call.Pos(), ctx: ctx, text: name, operands: ops})
				if len(call.Args) == 1 {
					if t := tempIn(call.Args[0]); t != nil {
						events = append(events, loweringEvent{pos: call.Pos(), what: "use", temp: t, ctx: ctx, text: name})
					}
				}
			case "lowerFconst", "lowerIconst", "lowerVconst", "insertLoadConstant":
				emits = append(emits, loweringEvent{pos: call.Pos(), ctx: ctx, text: name, operands: ops})
				if len(call.Args) > 0 {
					if t := tempIn(call.Args[0]); t != nil {
						events = append(events, loweringEvent{pos: call.Pos(), what: "def", temp: t, ctx: ctx, text: name})
					}
				}
			}
		}
		walk = func(n ast.Node, ctx []branchArm) {
			switch y := n.(type) {
			case nil:
				return
			case *ast.IfStmt:
				if y.Init != nil {
					walk(y.Init, ctx)
				}
				walk(y.Cond, ctx)
				walk(y.Body, append(append([]branchArm{}, ctx...), branchArm{y, 0}))
				if y.Else != nil {
					walk(y.Else, append(append([]branchArm{}, ctx...), branchArm{y, 1}))
				}
				return
			case *ast.SwitchStmt:
				if y.Init != nil {
					walk(y.Init, ctx)
				}
				for i, cs := range y.Body.List {
					for _, st := range cs.(*ast.CaseClause).Body {
						walk(st, append(append([]branchArm{}, ctx...), branchArm{y, i}))
					}
				}
				return
			case *ast.TypeSwitchStmt:
				for i, cs := range y.Body.List {
					for _, st := range cs.(*ast.CaseClause).Body {
						walk(st, append(append([]branchArm{}, ctx...), branchArm{y, i}))
					}
				}
				return
			case *ast.FuncLit:
				return
			case *ast.CallExpr:
				// arguments first (nested constructor calls: m.insert(m.allocateInstr().asX(...)))
				for _, a := range y.Args {
					walk(a, ctx)
				}
				walk(y.Fun, ctx)
				record(y, ctx)
				return
			}
			// generic traversal in source order
			var kids []ast.Node
			ast.Inspect(n, func(x ast.Node) bool {
				if x == n {
					return true
				}
				if x != nil {
					kids = append(kids, x)
				}
				return false
			})
			for _, k := range kids {
				walk(k, ctx)
			}
		}
		walk(fd.Body, nil)
		for _, e := range inlineMods {
			nSSA++
			c.Violate("R01.13", "amd64 "+fd.Name.Name+": a result register named inline is not modified in place", e.pos,
				e.text+" modifies the register of an SSA value (m.c.VRegOf(…)) in place: a value that loses its real register at a call or a block boundary is reloaded from the slot written after its definition, i.e. without this modification")
		}
		sort.SliceStable(events, func(i, j int) bool { return events[i].pos < events[j].pos })
		sort.SliceStable(emits, func(i, j int) bool { return emits[i].pos < emits[j].pos })

		names := map[types.Object]string{}
		for o := range temps {
			names[o] = o.Name()
		}
		var tlist []types.Object
		for o := range temps {
			tlist = append(tlist, o)
		}
		sort.Slice(tlist, func(i, j int) bool { return tlist[i].Pos() < tlist[j].Pos() })
		for _, t := range tlist {
			var evs []loweringEvent
			for _, e := range events {
				if e.temp == t {
					evs = append(evs, e)
				}
			}
			construct := "amd64 " + fd.Name.Name + ": temporary " + t.Name()
			if ssaRegs[t] {
				// R01.13: the register of an SSA value is not modified in place
				for _, e := range evs {
					if e.what == "mod" {
						nSSA++
						c.Violate("R01.13", "amd64 "+fd.Name.Name+": the result register "+t.Name()+" is not modified in place", e.pos,
							e.text+" modifies "+t.Name()+" (the register of an SSA value, from VRegOf) in place: a value that loses its real register at a call or a block boundary is reloaded from the slot written after its definition, i.e. without this modification; compute into a temporary and copy the result")
					}
				}
				continue
			}
			// informational: the hazards which the allocator's eviction store (R01.12) covers
			ndefs := 0
			if temps[t] == "copyToTmp" {
				ndefs++
			}
			mods := 0
			for _, e := range evs {
				switch e.what {
				case "def":
					ndefs++
				case "mod":
					mods++
				}
			}
			if ndefs > 1 {
				nMulti++
			}
			if mods > 0 {
				nInPlace++
			}
			// R01.14 (b)
			for _, e := range evs {
				if e.what != "merge" {
					continue
				}
				// only when the register holds something to keep: an earlier definition other than "uninitialised"
				holds := temps[t] == "copyToTmp"
				for _, d := range evs {
					if d.what == "def" && d.pos < e.pos && d.text != "asDefineUninitializedReg" && compatible(d.ctx, e.ctx) {
						holds = true
					}
				}
				if holds {
					c.Violate("R01.14", construct+" is not merged into by a pure-definition form", e.pos,
						e.text+" writes only the low part of its destination register and keeps the rest, but the form declares the destination as defined, not used: when the source operand is reloaded into the register holding the vector, the 'definition' gets a fresh register and the kept lanes are garbage")
				}
			}
		}
	})
	c.Count("amd64_temporaries_defined_more_than_once", nMulti)
	c.Count("amd64_temporaries_modified_in_place", nInPlace)
	c.Discharge("R01.13", "amd64 lowerings modify in place only temporaries of the same lowering", 0, fmt.Sprintf("%d temporaries modified in place, %d defined more than once (both covered by the eviction store of R01.12), %d result registers modified in place", nInPlace, nMulti, nSSA))
	c.Discharge("R01.14", "amd64 lowerings do not merge into a vector temporary through a pure-definition form", 0, "every asXmmUnaryRmR* with a merging opcode (movss/movsd/cvt*/round*/sqrt* register forms) targets a scalar or a freshly defined register")
	checkEvictionStores(c)
	c.Count("amd64_lowering_functions_with_temporaries", nFuncs)
	c.Count("amd64_lowering_temporaries", nTemps)
	if nTemps < 50 {
		c.Undecided("R01.12", "amd64 lowering temporaries", 0, fmt.Sprintf("only %d temporaries found", nTemps))
	}
}

// checkEvictionStores (R01.12): whenever the allocator takes the real register of a virtual register to make room, it stores
// that virtual register at that point.
func checkEvictionStores(c *core.Ctx) {
	const rel = "internal/engine/wazevo/backend/regalloc"
	p := c.Pkg(rel)
	if p == nil {
		c.Undecided("R01.12", "register allocator", 0, "package not loaded")
		return
	}
	info := p.TypesInfo
	// functions that (directly) call Function.StoreRegisterBefore
	stores := map[string]bool{}
	core.AllFuncDecls(p, func(fd *ast.FuncDecl) {
		ast.Inspect(fd.Body, func(x ast.Node) bool {
			if call, ok := x.(*ast.CallExpr); ok {
				if se, ok := call.Fun.(*ast.SelectorExpr); ok && se.Sel.Name == "StoreRegisterBefore" {
					stores[fd.Name.Name] = true
				}
			}
			return true
		})
	})
	// the evicting function: releases a real register it chose among occupied ones (contains both a scan of regsInUse
	// and a releaseRealReg call, and returns a RealReg)
	var evict *ast.FuncDecl
	core.AllFuncDecls(p, func(fd *ast.FuncDecl) {
		if fd.Type.Results == nil || len(fd.Type.Results.List) != 1 || !strings.HasSuffix(core.ExprStr(fd.Type.Results.List[0].Type), "RealReg") {
			return
		}
		rel, scans := false, false
		ast.Inspect(fd.Body, func(x ast.Node) bool {
			switch y := x.(type) {
			case *ast.CallExpr:
				if se, ok := y.Fun.(*ast.SelectorExpr); ok && se.Sel.Name == "releaseRealReg" {
					rel = true
				}
			case *ast.SelectorExpr:
				if y.Sel.Name == "lastUse" {
					scans = true
				}
			}
			return true
		})
		if rel && scans {
			evict = fd
		}
	})
	if evict == nil {
		c.Undecided("R01.12", "the allocator's evicting function", 0, "not found (a function returning a RealReg that scans last uses and releases a register)")
		return
	}
	// (i) it stores itself before releasing, or (ii) it records the evicted register in a field and every caller stores it
	storesItself := false
	var recorded string
	ast.Inspect(evict.Body, func(x ast.Node) bool {
		switch y := x.(type) {
		case *ast.CallExpr:
			if se, ok := y.Fun.(*ast.SelectorExpr); ok && (se.Sel.Name == "StoreRegisterBefore" || stores[se.Sel.Name]) {
				storesItself = true
			}
		case *ast.AssignStmt:
			if len(y.Lhs) == 1 && len(y.Rhs) == 1 {
				if se, ok := y.Lhs[0].(*ast.SelectorExpr); ok {
					if call, ok := y.Rhs[0].(*ast.CallExpr); ok {
						if f := core.Callee(info, call); f != nil && f.Name() == "SetRealReg" {
							recorded = se.Sel.Name
						}
					}
				}
			}
		}
		return true
	})
	if storesItself {
		c.Discharge("R01.12", "the allocator stores a virtual register whose real register it takes", evict.Pos(), evict.Name.Name+" calls StoreRegisterBefore before releasing the register")
		return
	}
	if recorded == "" {
		c.Violate("R01.12", "the allocator stores a virtual register whose real register it takes", evict.Pos(),
			evict.Name.Name+" releases the real register of a live virtual register without storing it or recording it for its caller: the later reload reads the slot written after the register's definition, so a value modified in place since (two-address instructions) or defined a second time is lost (copysign, bitselect and f64x2.convert_low_i32x4_u returned wrong values)")
		return
	}
	// the function that stores the recorded register
	var flusher string
	core.AllFuncDecls(p, func(fd *ast.FuncDecl) {
		if !stores[fd.Name.Name] {
			return
		}
		ast.Inspect(fd.Body, func(x ast.Node) bool {
			if se, ok := x.(*ast.SelectorExpr); ok && se.Sel.Name == recorded {
				flusher = fd.Name.Name
			}
			return true
		})
	})
	n := 0
	core.AllFuncDecls(p, func(fd *ast.FuncDecl) {
		for _, l := range blocksOf(fd.Body) {
			for i, st := range l.List {
				calls := false
				ast.Inspect(st, func(x ast.Node) bool {
					if call, ok := x.(*ast.CallExpr); ok {
						if f := core.Callee(info, call); f != nil && f.Name() == evict.Name.Name {
							calls = true
						}
					}
					return true
				})
				if !calls {
					continue
				}
				// nested statement lists are visited on their own
				switch st.(type) {
				case *ast.IfStmt, *ast.ForStmt, *ast.RangeStmt, *ast.SwitchStmt, *ast.TypeSwitchStmt, *ast.BlockStmt, *ast.CaseClause, *ast.CommClause, *ast.SelectStmt:
					continue // nested statement lists are visited on their own
				}
				n++
				ok := false
				if i+1 < len(l.List) && flusher != "" {
					ast.Inspect(l.List[i+1], func(x ast.Node) bool {
						if call, ok2 := x.(*ast.CallExpr); ok2 {
							if f := core.Callee(info, call); f != nil && f.Name() == flusher {
								ok = true
							}
						}
						return true
					})
				}
				c.Check(ok, "R01.12", "the register evicted for "+fd.Name.Name+" (call #"+fmt.Sprint(n)+" of "+evict.Name.Name+") is stored before it is reused", st.Pos(),
					"the next statement calls "+flusher+", which stores the recorded register before the instruction",
					"the call of "+evict.Name.Name+" is not followed by the store of the evicted register ("+recorded+"): the later reload reads the slot written after the register's definition, so a value modified in place since, or defined a second time, is lost")
			}
		}
	})
	if n == 0 {
		c.Undecided("R01.12", "callers of "+evict.Name.Name, 0, "none found")
	}
}

// checkWaitSharednessOrder (R01.15): the compiler tests the address of memory.atomic.wait in generated code (bounds,
// alignment) before it leaves for the Go side, where the memory's sharedness is tested; the interpreter must therefore test
// sharedness after its address checks too, or an address with one problem traps with a different kind.
func checkWaitSharednessOrder(c *core.Ctx) {
	fp, ip, wp := c.Pkg("internal/engine/wazevo/frontend"), c.Pkg("internal/engine/interpreter"), c.Pkg(wzv)
	if fp == nil || ip == nil || wp == nil {
		return
	}
	// compiler side: the sharedness test lives on the Go side (the exit-code loop), i.e. after the generated checks
	goSide := false
	core.AllFuncDecls(wp, func(fd *ast.FuncDecl) {
		ast.Inspect(fd.Body, func(x ast.Node) bool {
			if se, ok := x.(*ast.SelectorExpr); ok && se.Sel.Name == "ErrRuntimeExpectedSharedMemory" {
				goSide = true
			}
			return true
		})
	})
	inFrontend := false
	core.AllFuncDecls(fp, func(fd *ast.FuncDecl) {
		ast.Inspect(fd.Body, func(x ast.Node) bool {
			if se, ok := x.(*ast.SelectorExpr); ok && strings.Contains(se.Sel.Name, "ExpectedSharedMemory") {
				inFrontend = true
			}
			return true
		})
	})
	if !goSide || inFrontend {
		c.Notef("R01.15: the compiler tests sharedness in generated code (or not on the Go side): the order rule for the interpreter does not apply as written")
		c.Discharge("R01.15", "memory.atomic.wait: sharedness is tested after the address checks on both engines", 0, "compiler structure changed: not compared")
		return
	}
	info := ip.TypesInfo
	found := false
	core.AllFuncDecls(ip, func(fd *ast.FuncDecl) {
		if fd.Name.Name != interpExecLoopName(ip) {
			return
		}
		ast.Inspect(fd.Body, func(x ast.Node) bool {
			cc, ok := x.(*ast.CaseClause)
			if !ok || len(cc.List) == 0 || constNameOf(info, cc.List[0]) != "operationKindAtomicMemoryWait" {
				return true
			}
			found = true
			// the sequence of trap kinds in source order, with the bodies of package-level helpers called from the arm
			// spliced in at the call (one level)
			var seq []string
			var walkSeq func(n ast.Node, depth int)
			walkSeq = func(n ast.Node, depth int) {
				ast.Inspect(n, func(y ast.Node) bool {
					switch z := y.(type) {
					case *ast.SelectorExpr:
						switch z.Sel.Name {
						case "ErrRuntimeExpectedSharedMemory", "ErrRuntimeUnalignedAtomic", "ErrRuntimeOutOfBoundsMemoryAccess":
							seq = append(seq, z.Sel.Name)
						}
					case *ast.CallExpr:
						if f := core.Callee(info, z); f != nil && depth < 1 {
							core.AllFuncDecls(ip, func(g *ast.FuncDecl) {
								if info.Defs[g.Name] == types.Object(f) && g.Name.Name != interpExecLoopName(ip) {
									walkSeq(g.Body, depth+1)
								}
							})
						}
					}
					return true
				})
			}
			walkSeq(cc, 0)
			shared, lastAddr := 0, 0
			before := map[string]bool{}
			for i, k := range seq {
				if k == "ErrRuntimeExpectedSharedMemory" {
					if shared == 0 {
						shared = i + 1
					}
				} else if shared == 0 {
					before[k] = true
				}
			}
			// both address checks (alignment and bounds) precede the first sharedness test
			if before["ErrRuntimeUnalignedAtomic"] && before["ErrRuntimeOutOfBoundsMemoryAccess"] {
				lastAddr = 1
			}
			c.Check(shared != 0 && lastAddr != 0, "R01.15", "memory.atomic.wait: sharedness is tested after the address checks on both engines", cc.Pos(),
				"the interpreter's first sharedness test follows an alignment and bounds test, as in the compiler (generated address checks, then the Go-side sharedness test)",
				"the interpreter tests the memory's sharedness before the alignment and bounds of the address, the compiler after them: on a non-shared memory an unaligned (or out-of-bounds) address traps with 'expected shared memory' on one engine and 'unaligned atomic' ('out of bounds memory access') on the other")
			return false
		})
	})
	if !found {
		c.Undecided("R01.15", "interpreter arm of memory.atomic.wait", 0, "not found")
	}
}
