package props

import (
	"fmt"
	"go/ast"
	"go/token"
	"go/types"
	"sort"
	"strings"

	"golang.org/x/tools/go/ssa"

	"verif/checker/core"
)

// C15 WASI calls are safe for any argument values (structural clauses).

func init() {
	core.Register(&core.Property{
		ID:    "C15",
		Level: "other",
		Explanation: "Decided (necessary conditions, for every argument value): (R15.1) WASI code touches guest memory only through the bounds-checked api.Memory accessors (no selector of MemoryInstance.Buffer under imports/); " +
			"(R15.2) the slice handed out by Memory.Read is never used when the read failed (every use is dominated by the ok branch; clear(nil) is recognised as harmless); (R15.3) a Read length computed by 32-bit multiplication/shift of a guest value is either guarded by a comparison of that value with a constant bound, " +
			"or no loop of the function is bounded by the unwrapped value (the buffer is walked with the wrapped length); (R15.4) no allocation sized by a guest value happens before a successful bounds-checked access of that size, and the descriptor number chosen by the guest is bounded before it sizes the table; " +
			"(R15.5) the errno mapping covers every experimental/sys.Errno constant; (R15.7) after an entry was removed from the descriptor table no failing return is feasible (callee failure conditions are excluded by dominating checks). " +
			"NOT decided: absence of every Go run-time error in the 46 functions (nil dereference, division, type assertion).",
		Rules: []core.Rule{
			{ID: "R15.10", Template: "T-PAIR", Text: "the parallel slices of the descriptor table (presence bitmap, items) are only ever resized together", Min: 1},
			{ID: "R15.9", Template: "T-CONSULT", Text: "the file system of a descriptor entry is used only once the entry is known to be a directory (IsDir edge, nil test, or successful path resolution)", Min: 2},
			{ID: "R15.8", Template: "error discipline", Text: "the result of every guest-memory write of a WASI function is checked (genuine defects found and fixed: sock_accept, sock_recv, sock_send)", Min: 1},
			{ID: "R15.1", Template: "T-WHOCALLS", Text: "no direct access to MemoryInstance.Buffer in imports/", Min: 1},
			{ID: "R15.2", Template: "error discipline", Text: "uses of a Memory.Read result are dominated by the ok branch", Min: 10},
			{ID: "R15.3", Template: "T-WIDTH", Text: "wrap-prone 32-bit length arithmetic on guest values is guarded or consistently wrapped", Min: 3},
			{ID: "R15.4", Template: "T-TAINT", Text: "guest values size no allocation / descriptor table before a bound is established", Min: 2},
			{ID: "R15.5", Template: "T-EXHAUST", Text: "ToErrno covers every sys.Errno constant", Min: 1},
			{ID: "R15.7", Template: "T-TYPESTATE", Text: "no feasible failure after an entry was removed from the descriptor table", Min: 1},
		},
		Run: runC15,
		Controls: []core.Control{
			{Name: "table-shrinks-bitmap-only", File: "internal/descriptor/table.go", Old: "\t\t\tt.masks[index] = mask & ^uint64(1<<shift)\n", New: "\t\t\tt.masks[index] = mask & ^uint64(1<<shift)\n\t\t\tfor n := len(t.masks); n > 1 && t.masks[n-1] == 0; n-- {\n\t\t\t\tt.masks = t.masks[:n-1]\n\t\t\t}\n", Rule: "R15.10", Substr: "Delete"},
			{Name: "atpath-preopen-before-isdir", File: "imports/wasi_snapshot_preview1/fs.go", Old: "\t} else if isDir, errno := f.File.IsDir(); errno != 0 {\n\t\treturn nil, \"\", errno\n", New: "\t} else if f.IsPreopen && fd > 2 {\n\t\treturn f.FS, pathName, 0\n\t} else if isDir, errno := f.File.IsDir(); errno != 0 {\n\t\treturn nil, \"\", errno\n", Rule: "R15.9", Substr: "atPath"},
			{Name: "sock-accept-result-unchecked", File: "imports/wasi_snapshot_preview1/sock.go", Old: "\t\tif !mem.WriteUint32Le(resultFd, uint32(connFD)) {\n\t\t\t// The guest cannot learn the descriptor: do not leave the connection in its table.\n\t\t\t_ = fsc.CloseFile(connFD)\n\t\t\treturn sys.EFAULT\n\t\t}\n", New: "\t\tmem.WriteUint32Le(resultFd, uint32(connFD))\n", Rule: "R15.8", Substr: "sockAcceptFn"},
			{Name: "direct-buffer-access", File: "imports/wasi_snapshot_preview1/random.go", Old: "\trandomBytes, ok := mod.Memory().Read(buf, bufLen)\n\tif !ok { // out-of-range\n\t\treturn sys.EFAULT\n\t}\n", New: "\tmemBuf := mod.(*wasm.ModuleInstance).MemoryInstance.Buffer\n\tok := uint64(buf)+uint64(bufLen) <= uint64(len(memBuf))\n\tif !ok { // out-of-range\n\t\treturn sys.EFAULT\n\t}\n\trandomBytes := memBuf[buf : buf+bufLen]\n", Rule: "R15.1", Substr: "Buffer"},
			{Name: "use-before-ok", File: "imports/wasi_snapshot_preview1/fs.go", Old: "\tbuf, ok := mod.Memory().Read(resultFdstat, 24)\n\tif !ok {\n\t\treturn experimentalsys.EFAULT\n\t}\n", New: "\tbuf, ok := mod.Memory().Read(resultFdstat, 24)\n\tbuf[0] = 0\n\tif !ok {\n\t\treturn experimentalsys.EFAULT\n\t}\n", Rule: "R15.2", Substr: "fdFdstatGetFn"},
			{Name: "poll-guard-removed", File: "imports/wasi_snapshot_preview1/poll.go", Old: "\tif nsubscriptions > math.MaxUint32/48 {\n\t\treturn sys.EFAULT\n\t}\n", New: "\t_ = math.MaxUint32\n", Rule: "R15.3", Substr: "pollOneoffFn"},
			{Name: "writev-index-loop", File: "imports/wasi_snapshot_preview1/fs.go", Old: "\tfor iovsPos := uint32(0); iovsPos < iovsStop; iovsPos += 8 {\n\t\toffset := le.Uint32(iovsBuf[iovsPos:])\n\t\tl := le.Uint32(iovsBuf[iovsPos+4:])\n\n\t\tb, ok := mem.Read(offset, l)\n\t\tif !ok {\n\t\t\treturn 0, experimentalsys.EFAULT\n\t\t}\n\t\tn, errno := writer(b)", New: "\tfor i := uint32(0); i < iovsCount; i++ {\n\t\toffset := le.Uint32(iovsBuf[i*8:])\n\t\tl := le.Uint32(iovsBuf[i*8+4:])\n\n\t\tb, ok := mem.Read(offset, l)\n\t\tif !ok {\n\t\t\treturn 0, experimentalsys.EFAULT\n\t\t}\n\t\tn, errno := writer(b)", Rule: "R15.3", Substr: "writev", Old2: "\tvar nwritten uint32\n\tif iovsCount > math.MaxUint32>>3 { // iovsCount * 8 would wrap around: such an array fits in no memory.\n\t\treturn 0, experimentalsys.EFAULT\n\t}\n", New2: "\tvar nwritten uint32\n"},
			{Name: "dirent-cache-reserves-guest-count", File: "internal/sys/fs.go", Old: "\t\t// Try to read more, which could fail.\n\t\tif dirents, errno = d.f.Readdir(countToRead); errno != 0 {", New: "\t\td.dirents = append(make([]sys.Dirent, 0, len(d.dirents)+countToRead), d.dirents...)\n\t\t// Try to read more, which could fail.\n\t\tif dirents, errno = d.f.Readdir(countToRead); errno != 0 {", Rule: "R15.4", Substr: "DirentCache"},
			{Name: "writev-gathers-sum-of-lengths", File: "imports/wasi_snapshot_preview1/fs.go", Old: "\tfor iovsPos := uint32(0); iovsPos < iovsStop; iovsPos += 8 {\n\t\toffset := le.Uint32(iovsBuf[iovsPos:])\n\t\tl := le.Uint32(iovsBuf[iovsPos+4:])\n\n\t\tb, ok := mem.Read(offset, l)\n\t\tif !ok {\n\t\t\treturn 0, experimentalsys.EFAULT\n\t\t}\n\t\tn, errno := writer(b)", New: "\tvar total uint64\n\tfor p := uint32(0); p < iovsStop; p += 8 {\n\t\ttotal += uint64(le.Uint32(iovsBuf[p+4:]))\n\t}\n\tgathered := make([]byte, 0, total)\n\t_ = gathered\n\tfor iovsPos := uint32(0); iovsPos < iovsStop; iovsPos += 8 {\n\t\toffset := le.Uint32(iovsBuf[iovsPos:])\n\t\tl := le.Uint32(iovsBuf[iovsPos+4:])\n\n\t\tb, ok := mem.Read(offset, l)\n\t\tif !ok {\n\t\t\treturn 0, experimentalsys.EFAULT\n\t\t}\n\t\tn, errno := writer(b)", Rule: "R15.4", Substr: "writev"},
			{Name: "random-allocates-first", File: "imports/wasi_snapshot_preview1/random.go", Old: "\trandomBytes, ok := mod.Memory().Read(buf, bufLen)\n\tif !ok { // out-of-range\n\t\treturn sys.EFAULT\n\t}\n", New: "\ttmp := make([]byte, bufLen)\n\t_ = tmp\n\trandomBytes, ok := mod.Memory().Read(buf, bufLen)\n\tif !ok { // out-of-range\n\t\treturn sys.EFAULT\n\t}\n", Rule: "R15.4", Substr: "randomGetFn"},
			{Name: "errno-unmapped", File: "internal/wasip1/errno.go", Old: "\tcase sys.EROFS:\n\t\treturn ErrnoRofs\n", New: "", Rule: "R15.5", Substr: "ToErrno"},
			{Name: "insertat-can-fail-after-delete", File: "internal/descriptor/table.go", Old: "\tif key < 0 {\n\t\treturn false\n\t}\n\tindex := uint(key) / 64\n\tif diff", New: "\tif key < 0 || key > 1<<20 {\n\t\treturn false\n\t}\n\tindex := uint(key) / 64\n\tif diff", Rule: "R15.7", Substr: "Renumber"},
		},
		Configs: []core.BuildCfg{{GOOS: "windows", GOARCH: "amd64"}, {GOOS: "darwin", GOARCH: "arm64"}},
	})
}

func isMemoryRead(call *ssa.Call) bool {
	cc := call.Common()
	if cc.IsInvoke() {
		return cc.Method.Name() == "Read" && core.IsNamed(cc.Value.Type(), core.Module+"/api", "Memory") && cc.Signature().Results().Len() == 2
	}
	if f := cc.StaticCallee(); f != nil && f.Name() == "Read" && f.Signature.Recv() != nil {
		return core.IsNamed(f.Signature.Recv().Type(), core.Module+"/internal/wasm", "MemoryInstance")
	}
	return false
}

// derivesFromParams: v is computed from a load of the []uint64 parameter slice (guest argument) or from a uint32
// parameter of a helper that receives guest values.
func guestDerived(v ssa.Value, depth int, seen map[ssa.Value]bool) bool {
	if v == nil || depth > 12 || seen[v] {
		return false
	}
	seen[v] = true
	switch x := v.(type) {
	case *ssa.Parameter:
		k := basicKind(x.Type())
		return k == types.Uint32 || k == types.Uint64 || k == types.Int32 || k == types.Int64
	case *ssa.UnOp:
		if x.Op == token.MUL {
			if ia, ok := x.X.(*ssa.IndexAddr); ok {
				if p, ok := ia.X.(*ssa.Parameter); ok {
					if sl, ok := p.Type().Underlying().(*types.Slice); ok && basicKind(sl.Elem()) == types.Uint64 {
						return true
					}
				}
			}
			return false
		}
		return guestDerived(x.X, depth+1, seen)
	case *ssa.Convert:
		return guestDerived(x.X, depth+1, seen)
	case *ssa.BinOp:
		return guestDerived(x.X, depth+1, seen) || guestDerived(x.Y, depth+1, seen)
	case *ssa.Phi:
		for _, e := range x.Edges {
			if guestDerived(e, depth+1, seen) {
				return true
			}
		}
	case *ssa.Extract:
		return guestDerived(x.Tuple, depth+1, seen)
	case *ssa.Call:
		// a number decoded from guest memory (an iovec length, a subscription field) is as guest-controlled as a parameter
		return decodesGuestNumber(x)
	}
	return false
}

// decodesGuestNumber: le.Uint16/32/64(buf) of encoding/binary, or Memory.ReadUint16Le/ReadUint32Le/ReadUint64Le/ReadByte.
func decodesGuestNumber(call *ssa.Call) bool {
	var fn *types.Func
	if call.Call.IsInvoke() {
		fn = call.Call.Method
	} else if sc := call.Call.StaticCallee(); sc != nil {
		fn, _ = sc.Object().(*types.Func)
	}
	if fn == nil || fn.Pkg() == nil {
		return false
	}
	switch fn.Pkg().Path() {
	case "encoding/binary":
		switch fn.Name() {
		case "Uint16", "Uint32", "Uint64":
			return true
		}
	case "github.com/tetratelabs/wazero/api":
		switch fn.Name() {
		case "ReadUint16Le", "ReadUint32Le", "ReadUint64Le", "ReadByte":
			return true
		}
	}
	return false
}

func runC15(c *core.Ctx) {
	checkWasiOutputsChecked(c)
	checkFSOnlyOfDirectories(c)
	c.SSA()
	checkTableSlicesResizedTogether(c)
	c.SSA()
	wasiRel := "imports/wasi_snapshot_preview1"
	fns := moduleFns(c, wasiRel)
	if len(fns) < 50 {
		c.Undecided("R15.2", "wasi package", 0, fmt.Sprintf("only %d functions found", len(fns)))
		return
	}
	bufField := structField(c, "internal/wasm", "MemoryInstance", "Buffer")

	// ---- R15.1
	{
		var sites []string
		var pkgs []string
		for _, p := range c.WazeroPkgs() {
			if strings.Contains(p.PkgPath, "/imports/") {
				pkgs = append(pkgs, core.Rel(p.PkgPath))
			}
		}
		for _, fn := range moduleFns(c, pkgs...) {
			for _, b := range fn.Blocks {
				for _, in := range b.Instrs {
					switch x := in.(type) {
					case *ssa.FieldAddr:
						if st, _ := derefStructT(x.X.Type()).Underlying().(*types.Struct); st != nil && st.Field(x.Field) == bufField {
							sites = append(sites, core.SSAFuncName(fn)+" at "+c.Pos(x.Pos()))
						}
					case *ssa.Field:
						if st, _ := x.X.Type().Underlying().(*types.Struct); st != nil && st.Field(x.Field) == bufField {
							sites = append(sites, core.SSAFuncName(fn)+" at "+c.Pos(x.Pos()))
						}
					}
				}
			}
		}
		sort.Strings(sites)
		c.Check(len(sites) == 0, "R15.1", "no MemoryInstance.Buffer access under imports/", 0, fmt.Sprintf("%d packages under imports/ scanned", len(pkgs)),
			"host functions index the memory buffer directly instead of the bounds-checked api.Memory accessors: "+strings.Join(sites, "; "))
		// matcher self-test
		n := 0
		for _, fn := range moduleFns(c, "internal/wasm") {
			for _, b := range fn.Blocks {
				for _, in := range b.Instrs {
					if x, ok := in.(*ssa.FieldAddr); ok {
						if st, _ := derefStructT(x.X.Type()).Underlying().(*types.Struct); st != nil && st.Field(x.Field) == bufField {
							n++
						}
					}
				}
			}
		}
		if n == 0 || bufField == nil {
			c.Undecided("R15.1", "matcher self-test", 0, "the Buffer matcher found no access in internal/wasm")
		}
	}

	// ---- R15.2 / R15.3 / R15.4 per function
	reads := 0
	for _, fn := range fns {
		name := core.SSAFuncName(fn)
		var r2bad, r3bad, r4bad []string
		nReads := 0
		type readSite struct {
			call *ssa.Call
			buf  ssa.Value
			ok   ssa.Value
		}
		var sites []readSite
		for _, b := range fn.Blocks {
			for _, in := range b.Instrs {
				call, ok := in.(*ssa.Call)
				if !ok || !isMemoryRead(call) {
					continue
				}
				rs := readSite{call: call}
				for _, u := range *call.Referrers() {
					if ex, ok := u.(*ssa.Extract); ok {
						if ex.Index == 0 {
							rs.buf = ex
						} else {
							rs.ok = ex
						}
					}
				}
				sites = append(sites, rs)
			}
		}
		for _, rs := range sites {
			nReads++
			reads++
			if rs.buf == nil {
				continue
			}
			if rs.ok == nil {
				r2bad = append(r2bad, "the ok result of Memory.Read at "+c.Pos(rs.call.Pos())+" is discarded")
				continue
			}
			okVal := rs.ok
			for _, u := range *rs.buf.Referrers() {
				if _, dbg := u.(*ssa.DebugRef); dbg {
					continue
				}
				if call, isCall := u.(*ssa.Call); isCall {
					if bi, isB := call.Common().Value.(*ssa.Builtin); isB && bi.Name() == "clear" {
						continue // clear(nil) is a no-op
					}
				}
				guarded := guardedBy(u.Block(), func(cond ssa.Value) int {
					if cond == okVal {
						return 1
					}
					if un, ok := cond.(*ssa.UnOp); ok && un.Op == token.NOT && un.X == okVal {
						return -1
					}
					return 0
				})
				if phi, isPhi := u.(*ssa.Phi); isPhi {
					_ = phi
					guarded = true // merged with other values; its own uses are checked when they index
				}
				if !guarded {
					r2bad = append(r2bad, fmt.Sprintf("the buffer of the Memory.Read at %s is used at %s on a path where the read may have failed (nil slice): index out of range in the host", c.Pos(rs.call.Pos()), c.Pos(u.Pos())))
				}
			}
			// R15.3 wrap-prone length
			lenArg := rs.call.Common().Args[len(rs.call.Common().Args)-1]
			if bo, ok := lenArg.(*ssa.BinOp); ok && (bo.Op == token.MUL || bo.Op == token.SHL) && typeBits(bo.Type()) == 32 {
				var x ssa.Value
				if _, isK := bo.Y.(*ssa.Const); isK {
					x = bo.X
				} else if _, isK := bo.X.(*ssa.Const); isK && bo.Op == token.MUL {
					x = bo.Y
				}
				if x != nil && guestDerived(x, 0, map[ssa.Value]bool{}) {
					guarded := guardedBy(rs.call.Block(), func(cond ssa.Value) int {
						cb, ok := cond.(*ssa.BinOp)
						if !ok {
							return 0
						}
						_, ky := cb.Y.(*ssa.Const)
						if cb.X == x && ky {
							switch cb.Op {
							case token.GTR, token.GEQ:
								return -1 // x > C → reject; the read is on the false branch
							case token.LEQ, token.LSS:
								return 1
							}
						}
						return 0
					})
					if !guarded {
						// any loop bounded by the unwrapped value?
						for _, b := range fn.Blocks {
							if len(b.Instrs) == 0 {
								continue
							}
							iff, ok := b.Instrs[len(b.Instrs)-1].(*ssa.If)
							if !ok || !blockReaches(b, b) {
								continue
							}
							cb, ok := iff.Cond.(*ssa.BinOp)
							if !ok {
								continue
							}
							if (cb.Op == token.LSS || cb.Op == token.LEQ) && cb.Y == x || (cb.Op == token.GTR || cb.Op == token.GEQ) && cb.X == x {
								r3bad = append(r3bad, fmt.Sprintf("the buffer read at %s has the 32-bit length `%s %s const`, which wraps for large values, while the loop at %s runs to the unwrapped value: the buffer is indexed out of range in the host", c.Pos(rs.call.Pos()), x.Name(), bo.Op, c.Pos(iff.Pos())))
							}
						}
					}
					c.Count("wrap_prone_lengths", 1)
				}
			}
		}
		// R15.4 allocations sized by guest values
		for _, b := range fn.Blocks {
			for _, in := range b.Instrs {
				ms, ok := in.(*ssa.MakeSlice)
				if !ok {
					continue
				}
				for _, sz := range []ssa.Value{ms.Len, ms.Cap} {
					if _, isK := sz.(*ssa.Const); isK || !guestDerived(sz, 0, map[ssa.Value]bool{}) {
						continue
					}
					// accepted when a successful bounds-checked access of the same size dominates the allocation
					okDom := false
					for _, rs := range sites {
						if rs.ok == nil {
							continue
						}
						la := rs.call.Common().Args[len(rs.call.Common().Args)-1]
						same := la == sz
						if cv, isCv := sz.(*ssa.Convert); isCv && cv.X == la {
							same = true
						}
						if !same {
							continue
						}
						okv := rs.ok
						if guardedBy(b, func(cond ssa.Value) int {
							if cond == okv {
								return 1
							}
							if un, ok := cond.(*ssa.UnOp); ok && un.Op == token.NOT && un.X == okv {
								return -1
							}
							return 0
						}) {
							okDom = true
						}
					}
					if !okDom {
						r4bad = append(r4bad, fmt.Sprintf("make at %s is sized by a guest-controlled value before any bounds-checked access of that size succeeded: the host allocates up to 4GiB for a 64KiB guest", c.Pos(ms.Pos())))
					}
				}
			}
		}
		if nReads > 0 {
			c.Check(len(r2bad) == 0, "R15.2", "read results in "+name, fn.Pos(), fmt.Sprintf("%d Memory.Read site(s); every use of the slice is on the ok branch", nReads), strings.Join(r2bad, "; "))
			c.Check(len(r3bad) == 0, "R15.3", "length arithmetic in "+name, fn.Pos(), "no loop runs to an unwrapped guest count while the buffer length is a wrapped 32-bit product", strings.Join(r3bad, "; "))
		}
		if len(r4bad) > 0 {
			c.Violate("R15.4", "allocation in "+name, fn.Pos(), strings.Join(r4bad, "; "))
		}
	}
	c.Count("memory_read_sites", reads)
	c.Discharge("R15.4", "allocations in the WASI package", 0, fmt.Sprintf("%d functions scanned for make() sized by guest values", len(fns)))

	// R15.4 (callees): functions of the file-system context that receive a guest-derived count from a WASI function
	callees := map[*ssa.Function]bool{}
	for _, fn := range fns {
		for _, b := range fn.Blocks {
			for _, in := range b.Instrs {
				call, ok := in.(*ssa.Call)
				if !ok {
					continue
				}
				sc := call.Common().StaticCallee()
				if sc == nil || sc.Blocks == nil || sc.Pkg == nil {
					continue
				}
				pth := sc.Pkg.Pkg.Path()
				if !strings.HasSuffix(pth, "/internal/sys") && !strings.HasSuffix(pth, "/internal/sysfs") && !strings.HasSuffix(pth, "/internal/descriptor") {
					continue
				}
				for _, a := range call.Common().Args {
					if _, isK := a.(*ssa.Const); !isK && guestDerived(a, 0, map[ssa.Value]bool{}) {
						callees[sc] = true
					}
				}
			}
		}
	}
	var cl []*ssa.Function
	for f := range callees {
		cl = append(cl, f)
	}
	sort.Slice(cl, func(i, j int) bool { return cl[i].String() < cl[j].String() })
	for _, fn := range cl {
		var bad []string
		for _, b := range fn.Blocks {
			for _, in := range b.Instrs {
				var sizes []ssa.Value
				what := ""
				switch x := in.(type) {
				case *ssa.MakeSlice:
					sizes, what = []ssa.Value{x.Len, x.Cap}, "make"
				case *ssa.Call:
					if sc := x.Common().StaticCallee(); sc != nil {
						o := sc
						if sc.Origin() != nil {
							o = sc.Origin()
						}
						if o.Pkg != nil && o.Pkg.Pkg.Path() == "slices" && o.Name() == "Grow" && len(x.Common().Args) == 2 {
							sizes, what = []ssa.Value{x.Common().Args[1]}, "slices.Grow"
						}
					}
				}
				for _, sz := range sizes {
					if sz == nil {
						continue
					}
					if _, isK := sz.(*ssa.Const); isK || !guestDerived(sz, 0, map[ssa.Value]bool{}) {
						continue
					}
					// accepted under a dominating comparison of the size with a constant upper bound
					bounded := guardedBy(b, func(cond ssa.Value) int {
						bo, ok := cond.(*ssa.BinOp)
						if !ok {
							return 0
						}
						if _, isK := bo.Y.(*ssa.Const); isK && bo.X == sz {
							switch bo.Op {
							case token.LSS, token.LEQ:
								return 1
							case token.GTR, token.GEQ:
								return -1
							}
						}
						return 0
					})
					if !bounded {
						bad = append(bad, fmt.Sprintf("%s at %s is sized by a count that comes from the guest (a buffer length that was never checked against the guest's memory)", what, c.Pos(in.Pos())))
					}
				}
			}
		}
		c.Check(len(bad) == 0, "R15.4", "allocations in "+core.SSAFuncName(fn)+" (receives a guest-derived count)", fn.Pos(), "no allocation sized by the count", strings.Join(bad, "; ")+": the host allocates hundreds of megabytes for a guest with 64KiB of memory while the call still returns errno 0")
	}

	// ---- R15.4b / R15.7: descriptor-table keys chosen by the guest (internal/sys)
	checkTableKeys(c)

	// ---- R15.5 errno mapping
	checkErrnoMapping(c)
}

// failureConds: for a function returning bool (last result), the set of conditions under which it returns false,
// rendered as "param#i < 0" etc.; returns nil,false when a false return is not fully described by comparisons of
// parameters with constants.
func falseReturnConds(fn *ssa.Function) (conds []string, ok bool) {
	if fn == nil || fn.Blocks == nil {
		return nil, false
	}
	ok = true
	for _, b := range fn.Blocks {
		for _, in := range b.Instrs {
			r, isR := in.(*ssa.Return)
			if !isR || len(r.Results) == 0 {
				continue
			}
			last := r.Results[len(r.Results)-1]
			k, isK := last.(*ssa.Const)
			if !isK {
				// non-constant result: cannot describe
				if _, isPhi := last.(*ssa.Phi); isPhi {
					ok = false
				}
				continue
			}
			if k.Value == nil || k.Value.String() != "false" {
				continue
			}
			// describe the dominating branch conditions that involve parameters
			desc := ""
			for _, ib := range fn.Blocks {
				if len(ib.Instrs) == 0 {
					continue
				}
				iff, isIf := ib.Instrs[len(ib.Instrs)-1].(*ssa.If)
				if !isIf {
					continue
				}
				for si, s := range ib.Succs {
					if len(s.Preds) == 1 && (s == b || s.Dominates(b)) {
						if cb, isB := iff.Cond.(*ssa.BinOp); isB {
							if p, isP := cb.X.(*ssa.Parameter); isP {
								if kk, isKK := cb.Y.(*ssa.Const); isKK {
									pol := ""
									if si == 1 {
										pol = "!"
									}
									idx := -1
									for i, pp := range fn.Params {
										if pp == p {
											idx = i
										}
									}
									desc += fmt.Sprintf("%s(param#%d %s %s);", pol, idx, cb.Op, kk.Value)
								}
							}
						}
					}
				}
			}
			if desc == "" {
				ok = false
			}
			conds = append(conds, desc)
		}
	}
	return conds, ok
}

func checkTableKeys(c *core.Ctx) { checkTableKeysAs(c, "R15.4", "R15.7") }

func checkTableKeysAs(c *core.Ctx, r4, r7 string) {
	for _, fn := range moduleFns(c, "internal/sys") {
		if fn.Parent() != nil {
			continue
		}
		var deletes, inserts []ssa.CallInstruction
		for _, b := range fn.Blocks {
			for _, in := range b.Instrs {
				if ci, ok := in.(ssa.CallInstruction); ok {
					switch tableMethod(ci) {
					case "Delete":
						deletes = append(deletes, ci)
					case "InsertAt":
						inserts = append(inserts, ci)
					}
				}
			}
		}
		for _, ins := range inserts {
			args := ins.Common().Args
			key := args[len(args)-1]
			p, isParam := key.(*ssa.Parameter)
			if !isParam {
				continue
			}
			// R15.4b: upper bound on the guest-chosen key before it sizes the table
			upper := guardedBy(ins.Block(), func(cond ssa.Value) int {
				cb, ok := cond.(*ssa.BinOp)
				if !ok || cb.X != ssa.Value(p) {
					return 0
				}
				switch cb.Op {
				case token.GTR, token.GEQ:
					return -1
				case token.LSS, token.LEQ:
					if k, isK := cb.Y.(*ssa.Const); isK && k.Value != nil && k.Int64() == 0 {
						return 0 // `to < 0` is only a lower bound
					}
					return 1
				}
				return 0
			})
			calleeBounded := false
			if callee := ins.Common().StaticCallee(); callee != nil {
				if conds, ok := falseReturnConds(callee); ok {
					for _, cd := range conds {
						if strings.Contains(cd, ">") {
							calleeBounded = true
						}
					}
				}
			}
			c.Check(upper || calleeBounded, r4, "descriptor number bounded in "+core.SSAFuncName(fn), ins.Pos(), "the guest-chosen descriptor number has an upper bound before it sizes the table",
				"the descriptor number chosen by the guest (parameter "+p.Name()+") reaches Table.InsertAt with only a lower bound: the table grows to key/64 mask words plus key items (≈16GiB for 2^31-1) for a guest of any size")
			// R15.7: no other failing return between a Delete and this InsertAt either
			for _, del := range deletes {
				if !(del.Block() == ins.Block() || del.Block().Dominates(ins.Block())) {
					continue
				}
				for _, rb := range fn.Blocks {
					if len(rb.Instrs) == 0 {
						continue
					}
					ret, isRet := rb.Instrs[len(rb.Instrs)-1].(*ssa.Return)
					if !isRet || len(ret.Results) != 1 {
						continue
					}
					k, isK := ret.Results[0].(*ssa.Const)
					if !isK || k.Value == nil || k.Int64() == 0 {
						continue
					}
					// reachable after the delete and not after the insert
					afterDel := rb == del.Block() || del.Block().Dominates(rb)
					afterIns := rb == ins.Block() || ins.Block().Dominates(rb)
					if !afterDel || afterIns {
						continue
					}
					if rb == del.Block() {
						continue // same block: the return is the block's end, after the delete – but then InsertAt is not dominated; ignore
					}
					c.Violate(r7, "no failing return between removal and re-insertion in "+core.SSAFuncName(fn), ret.Pos(),
						"an entry is removed from the descriptor table at "+c.Pos(del.Pos())+" and the function can then return errno "+k.Value.String()+" at "+c.Pos(ret.Pos())+" before the entry is inserted again: the call reports an error, yet the source descriptor is gone and its file is never closed")
				}
			}
			// R15.7: a Delete before this InsertAt and a failing return after it
			for _, del := range deletes {
				if !(del.Block() == ins.Block() || del.Block().Dominates(ins.Block())) {
					continue
				}
				callee := ins.Common().StaticCallee()
				conds, ok := falseReturnConds(callee)
				feasible := ""
				if !ok {
					feasible = "the failure condition of InsertAt is not a comparison of its parameters with constants"
				} else {
					for _, cd := range conds {
						// each failure condition must be excluded by a dominating check in the caller: only `key < 0` is recognised
						excluded := false
						if cd == fmt.Sprintf("(param#%d < 0);", len(callee.Params)-1) {
							excluded = guardedBy(ins.Block(), func(cond ssa.Value) int {
								// to < 0 possibly or-ed with other tests: in SSA an `a || b` condition becomes a chain; accept the direct form
								isNeg := func(v ssa.Value) bool {
									cb, ok := v.(*ssa.BinOp)
									if ok && cb.X == ssa.Value(p) && cb.Op == token.LSS {
										if k, isK := cb.Y.(*ssa.Const); isK && k.Value != nil && k.Int64() == 0 {
											return true
										}
									}
									return false
								}
								if isNeg(cond) {
									return -1
								}
								// switch-form: `case !ok || to < 0:` is evaluated as a value, a phi of `true` and the last
								// disjunct; when the phi is false every disjunct that is one of its edges is false
								if ph, isPhi := cond.(*ssa.Phi); isPhi {
									has := false
									for _, e := range ph.Edges {
										if k, isK := e.(*ssa.Const); isK && k.Value != nil && k.Value.String() == "true" {
											continue
										}
										if isNeg(e) {
											has = true
											continue
										}
										return 0
									}
									if has {
										return -1
									}
								}
								return 0
							}) || orChainExcludes(fn, ins.Block(), p)
						}
						if !excluded {
							feasible = "InsertAt can fail when " + cd + " and the caller does not exclude that before removing the entry"
						}
					}
				}
				c.Check(feasible == "", r7, "no failure after removal in "+core.SSAFuncName(fn), ins.Pos(), "every failure condition of InsertAt is excluded before the entry is deleted",
					"an entry is removed from the descriptor table at "+c.Pos(del.Pos())+" and the re-insertion can then fail ("+feasible+"): the open file is lost to the guest (descriptor table corrupted)")
			}
		}
	}
}

// orChainExcludes: `!ok || to < 0` compiles to a chain of blocks; the InsertAt block is reached only when every
// disjunct is false. Accept when some If on `p < 0` has its true successor not reaching the block and dominates it.
func orChainExcludes(fn *ssa.Function, b *ssa.BasicBlock, p *ssa.Parameter) bool {
	for _, ib := range fn.Blocks {
		if len(ib.Instrs) == 0 {
			continue
		}
		iff, ok := ib.Instrs[len(ib.Instrs)-1].(*ssa.If)
		if !ok {
			continue
		}
		cb, ok := iff.Cond.(*ssa.BinOp)
		if !ok || cb.X != ssa.Value(p) || cb.Op != token.LSS {
			continue
		}
		if k, isK := cb.Y.(*ssa.Const); !isK || k.Value == nil || k.Int64() != 0 {
			continue
		}
		if ib.Dominates(b) && !(ib.Succs[0] == b || blockReaches(ib.Succs[0], b)) {
			return true
		}
	}
	return false
}

func checkErrnoMapping(c *core.Ctx) {
	sysP := c.Pkg("experimental/sys")
	wp := c.Pkg("internal/wasip1")
	if sysP == nil || wp == nil {
		c.Undecided("R15.5", "packages", 0, "experimental/sys or internal/wasip1 not loaded")
		return
	}
	errnoT := sysP.Types.Scope().Lookup("Errno").Type()
	consts := map[string]bool{}
	for _, n := range sysP.Types.Scope().Names() {
		if k, ok := sysP.Types.Scope().Lookup(n).(*types.Const); ok && types.Identical(k.Type(), errnoT) {
			consts[n] = true
		}
	}
	fd := core.FuncDecl(wp, "", "ToErrno")
	if fd == nil {
		c.Undecided("R15.5", "ToErrno", 0, "internal/wasip1.ToErrno not found")
		return
	}
	covered := map[string]bool{}
	ast.Inspect(fd.Body, func(n ast.Node) bool {
		if cc, ok := n.(*ast.CaseClause); ok {
			for _, l := range cc.List {
				if se, ok := ast.Unparen(l).(*ast.SelectorExpr); ok {
					covered[se.Sel.Name] = true
				}
			}
		}
		return true
	})
	var missing []string
	for k := range consts {
		if !covered[k] {
			missing = append(missing, k)
		}
	}
	sort.Strings(missing)
	c.Check(len(missing) == 0, "R15.5", "ToErrno covers every sys.Errno", fd.Pos(), fmt.Sprintf("%d constants, all mapped", len(consts)),
		"experimental/sys.Errno constants without a WASI errno: "+strings.Join(missing, ", ")+" – such an error from a file system is reported to the guest as a different (default) errno")
}
