package props

import (
	"fmt"
	"go/ast"
	"go/token"
	"go/types"
	"sort"
	"strings"

	"golang.org/x/tools/go/ssa"

	"verif/checker/core"
)

// C08 Values cross the host/guest boundary unchanged (Go marshalling code).

func init() {
	core.Register(&core.Property{
		ID:    "C08",
		Level: "other",
		Explanation: "Decided (representation discipline of the Go marshalling code, for every value): (R08.1) in the reflection call path every 32-bit result is stored zero-extended into its 64-bit stack slot and every integer kind goes through conversions of its own signedness only; " +
			"(R08.2) no float32 value takes a float64 round trip (which quiets signalling NaNs): the Float32 arms use only math.Float32bits/Float32frombits and reflect.Value.Convert; (R08.3) the engines' call paths size parameter/result slices only from the slot counts " +
			"(ParamNumInUint64/ResultNumInUint64, v128 = 2 slots), never from len(Params)/len(Results), and the slot counter adds 2 for v128; (R08.4) the kinds accepted by the signature parser equal the kinds handled by the parameter arm set and by the result arm set; " +
			"(R08.5) api.Encode*/Decode* are bit-preserving: 32-bit encoders zero-extend, float coders use math.Float*bits/frombits only. (R08.9) the compiler's Go side zero-extends the 32-bit slots which generated code wrote with 4-byte stores before a host function, a listener or the caller of Call/CallWithStack sees them (genuine defect found and fixed: raw slots carried stale upper halves). (R08.10) after a host function returned, its results are never masked by the parameter types. NOT decided: the amd64/arm64 trampolines and entry preambles as machine code, the stack-based GoFunction forms beyond slot arithmetic.",
		Rules: []core.Rule{
			{ID: "R08.1", Template: "T-REPR", Text: "reflection marshalling: per reflect.Kind arm, the value stored into the []uint64 slot has the representation of its wasm type (32-bit kinds zero-extended through uint32 or an unsigned getter)", Min: 8},
			{ID: "R08.2", Template: "T-REPR", Text: "Float32 arms never call SetFloat/Float and never convert between float32 and float64", Min: 2},
			{ID: "R08.3", Template: "T-SIBLING", Text: "slot arithmetic: engines never use len(FunctionType.Params/Results) for stack sizing; the slot counter counts v128 twice", Min: 3},
			{ID: "R08.4", Template: "T-EXHAUST", Text: "accepted signature kinds = parameter arm kinds = result arm kinds", Min: 1},
			{ID: "R08.5", Template: "T-REPR", Text: "api.Encode*/Decode* bit-preserving", Min: 10},
			{ID: "R08.6", Template: "T-WIDTH", Text: "in the backends' ABI code (entry preamble, Go-call trampolines, call-site argument/result moves) an arm labelled with a value type never emits a move narrower than that type", Min: 6},
			{ID: "R08.7", Template: "T-OWN", Text: "every exported-function lookup yields a freshly allocated call engine (value stack and execution context are per api.Function)", Min: 2},
			{ID: "R08.8", Template: "T-OWN", Text: "the reflection marshalling writes only the caller's stack or memory allocated in the same call", Min: 1},
			{ID: "R08.11", Template: "T-CONSULT", Text: "amd64: no argument register is overwritten after the arguments of a call were placed (genuine defect found and fixed: r11 in indirect tail calls)", Min: 1},
			{ID: "R08.12", Template: "T-CONSULT", Text: "a Go-callable function object is not built from a host module's (missing) entry preamble (known finding: re-exported host functions panic on the compiler)", Min: 1},
			{ID: "R08.10", Template: "T-MUSTPASS", Text: "results written by a host function are never masked by the parameter types", Min: 4},
			{ID: "R08.14", Template: "T-OWN", Text: "the functions yielding the types of a host call keep no state in the call engine", Min: 1},
			{ID: "R08.13", Template: "T-MUSTPASS", Text: "the compiler's Go side zero-extends the 32-bit results of a Go host function before the generated code reads them (genuine defect found and fixed)", Min: 4},
			{ID: "R08.9", Template: "T-MUSTPASS", Text: "the compiler's Go side zero-extends 32-bit slots before host functions, listeners and Call/CallWithStack callers see them (genuine defect found and fixed)", Min: 7},
		},
		Run: runC08,
		Controls: []core.Control{
			{Name: "tail-call-target-in-argument-register", File: "internal/engine/wazevo/backend/isa/amd64/machine.go", Old: "\t\t\tif arg := &calleeABI.Args[i]; arg.Kind == backend.ABIArgKindReg && arg.Reg.RealReg() == r11 {\n\t\t\t\tisAllRegs = false\n\t\t\t\tbreak\n\t\t\t}", New: "\t\t\t_ = i", Rule: "R08.11", Substr: "r11"},
			{Name: "int32-result-sign-extended", File: "internal/wasm/gofunc.go", Old: "\t\tcase reflect.Int32:\n\t\t\tstack[i] = uint64(uint32(ret.Int())) // i32 values are zero-extended on the stack.\n\t\tcase reflect.Int64:", New: "\t\tcase reflect.Int32, reflect.Int64:", Rule: "R08.1", Substr: "result Int32"},
			{Name: "float32-via-float64", File: "internal/wasm/gofunc.go", Old: "stack[i] = uint64(math.Float32bits(ret.Convert(float32Type).Interface().(float32)))", New: "stack[i] = uint64(math.Float32bits(float32(ret.Float())))", Rule: "R08.2", Substr: "result Float32"},
			{Name: "float32-param-setfloat", File: "internal/wasm/gofunc.go", Old: "val.Set(reflect.ValueOf(math.Float32frombits(uint32(raw))).Convert(next))", New: "val.SetFloat(float64(math.Float32frombits(uint32(raw))))", Rule: "R08.2", Substr: "param Float32"},
			{Name: "uint32-result-via-int", File: "internal/wasm/gofunc.go", Old: "\t\tcase reflect.Uint32, reflect.Uint64, reflect.Uintptr:\n\t\t\tstack[i] = ret.Uint()", New: "\t\tcase reflect.Uint32:\n\t\t\tstack[i] = uint64(int32(ret.Uint()))\n\t\tcase reflect.Uint64, reflect.Uintptr:\n\t\t\tstack[i] = ret.Uint()", Rule: "R08.1", Substr: "result Uint32"},
			{Name: "amd64-i64-stack-arg-32bit-load", File: "internal/engine/wazevo/backend/isa/amd64/abi_go_call.go", Old: "\t\t\tcase ssa.TypeI32:\n\t\t\t\tload.asMovzxRmR(extModeLQ, mem, v)\n\t\t\tcase ssa.TypeI64:\n\t\t\t\tload.asMov64MR(mem, v)\n", New: "\t\t\tcase ssa.TypeI32, ssa.TypeI64:\n\t\t\t\tload.asMovzxRmR(extModeLQ, mem, v)\n", Rule: "R08.6", Substr: "amd64"},
			{Name: "arm64-f64-result-32bit-load", File: "internal/engine/wazevo/backend/isa/arm64/abi_go_call.go", Old: "loadIntoReg.asFpuLoad(r.Reg, mode, 64)", New: "loadIntoReg.asFpuLoad(r.Reg, mode, 32)", Rule: "R08.6", Substr: "arm64"},
			{Name: "host-results-masked-by-param-types", File: "internal/engine/wazevo/call_engine.go", Old: "\t\t\t\tf.Call(ctx, callerModule, s)\n\t\t\t}()\n\t\t\tclearUpper32Bits(s, def.ResultTypes())\n", New: "\t\t\t\tf.Call(ctx, callerModule, s)\n\t\t\t}()\n\t\t\tclearUpper32Bits(s, def.ParamTypes())\n\t\t\tclearUpper32Bits(s, def.ResultTypes())\n", Rule: "R08.10", Substr: "GoModuleFunctionWithListener"},
			{Name: "host-results-not-zero-extended", File: "internal/engine/wazevo/call_engine.go", Old: "\t\t\tclearUpper32Bits(s, hostFunctionResultTypes(c.execCtx.goFunctionCallCalleeModuleContextOpaque, index))\n\t\t\t// Back to the native code.", New: "\t\t\t// Back to the native code.", Rule: "R08.13", Substr: "ExitCodeCallGoFunction"},
			{Name: "results-not-zero-extended", File: "internal/engine/wazevo/call_engine.go", Old: "\t\t\tclearUpper32Bits(paramResultStack, c.resultTypes)\n\t\t\treturn nil\n", New: "\t\t\treturn nil\n", Rule: "R08.9", Substr: "results handed back"},
			{Name: "host-args-not-zero-extended", File: "internal/engine/wazevo/call_engine.go", Old: "\t\t\tclearUpper32Bits(s, hostFunctionParamTypes(c.execCtx.goFunctionCallCalleeModuleContextOpaque, index))\n\t\t\tfunc() {\n\t\t\t\tif snapshotEnabled {\n\t\t\t\t\tdefer snapshotRecoverFn(c)\n\t\t\t\t}\n\t\t\t\tf.Call(ctx, s)", New: "\t\t\tfunc() {\n\t\t\t\tif snapshotEnabled {\n\t\t\t\t\tdefer snapshotRecoverFn(c)\n\t\t\t\t}\n\t\t\t\tf.Call(ctx, s)", Rule: "R08.9", Substr: "ExitCodeCallGoFunction "},
			{Name: "reflect-args-cached-on-function", File: "internal/wasm/gofunc.go", Old: "\tvar in []reflect.Value\n\tpLen := tp.NumIn()\n\tif pLen != 0 {\n\t\tin = make([]reflect.Value, pLen)\n", New: "\tin := sharedIn\n\tpLen := tp.NumIn()\n\tif pLen != 0 {\n", Rule: "R08.8", Substr: "callGoFunc", Old2: "var _ api.GoModuleFunction = (*reflectGoModuleFunction)(nil)", New2: "var _ api.GoModuleFunction = (*reflectGoModuleFunction)(nil)\n\nvar sharedIn = make([]reflect.Value, 16)"},
			{Name: "results-sized-by-len", File: "internal/engine/interpreter/interpreter.go", Old: "\tif results == nil && ft.ResultNumInUint64 > 0 {\n\t\tresults = make([]uint64, ft.ResultNumInUint64)", New: "\tif results == nil && len(ft.Results) > 0 {\n\t\tresults = make([]uint64, len(ft.Results))", Rule: "R08.3", Substr: "interpreter"},
			{Name: "v128-counted-once", File: "internal/wasm/module.go", Old: "\t\t\tf.ResultNumInUint64++\n\t\t\tif tp == ValueTypeV128 {\n\t\t\t\tf.ResultNumInUint64++\n\t\t\t}", New: "\t\t\tf.ResultNumInUint64++\n\t\t\t_ = tp", Rule: "R08.3", Substr: "ResultNumInUint64"},
			{Name: "kind-accepted-but-not-marshalled", File: "internal/wasm/gofunc.go", Old: "\tcase reflect.Int32, reflect.Uint32:\n\t\treturn ValueTypeI32, true", New: "\tcase reflect.Int32, reflect.Uint32, reflect.Int16:\n\t\treturn ValueTypeI32, true", Rule: "R08.4", Substr: "kinds"},
			{Name: "encode-i32-sign-extends", File: "api/wasm.go", Old: "func EncodeI32(input int32) uint64 {\n\treturn uint64(uint32(input))", New: "func EncodeI32(input int32) uint64 {\n\treturn uint64(input)", Rule: "R08.5", Substr: "EncodeI32"},
			{Name: "decode-f32-numeric", File: "api/wasm.go", Old: "func DecodeF32(input uint64) float32 {\n\treturn math.Float32frombits(uint32(input))", New: "func DecodeF32(input uint64) float32 {\n\treturn float32(math.Float64frombits(input))", Rule: "R08.5", Substr: "DecodeF32"},
		},
	})
}

func basicKind(t types.Type) types.BasicKind {
	if b, ok := t.Underlying().(*types.Basic); ok {
		return b.Kind()
	}
	return types.Invalid
}

func isUnsigned32OrLess(t types.Type) bool {
	switch basicKind(t) {
	case types.Uint32, types.Uint16, types.Uint8:
		return true
	}
	return false
}

func isSignedInt(t types.Type) bool {
	switch basicKind(t) {
	case types.Int, types.Int8, types.Int16, types.Int32, types.Int64:
		return true
	}
	return false
}

func isFloat(t types.Type, k types.BasicKind) bool { return basicKind(t) == k }

// convChain returns the chain of type conversions wrapping e, outermost first, and the innermost operand.
func convChain(info *types.Info, e ast.Expr) (chain []types.Type, inner ast.Expr) {
	for {
		e = ast.Unparen(e)
		call, ok := e.(*ast.CallExpr)
		if !ok || len(call.Args) != 1 {
			return chain, e
		}
		tv, ok := info.Types[call.Fun]
		if !ok || !tv.IsType() {
			return chain, e
		}
		chain = append(chain, tv.Type)
		e = call.Args[0]
	}
}

func calleeIs(info *types.Info, e ast.Expr, pkg, recv, name string) bool {
	call, ok := ast.Unparen(e).(*ast.CallExpr)
	if !ok {
		return false
	}
	f := core.Callee(info, call)
	if f == nil || f.Name() != name || f.Pkg() == nil || f.Pkg().Path() != pkg {
		return false
	}
	sig := f.Type().(*types.Signature)
	if recv == "" {
		return sig.Recv() == nil
	}
	return sig.Recv() != nil && core.NamedOf(sig.Recv().Type()) != nil && core.NamedOf(sig.Recv().Type()).Obj().Name() == recv
}

func containsCallTo(info *types.Info, n ast.Node, pkg, recv, name string) bool {
	found := false
	ast.Inspect(n, func(x ast.Node) bool {
		if e, ok := x.(ast.Expr); ok && calleeIs(info, e, pkg, recv, name) {
			found = true
		}
		return !found
	})
	return found
}

func containsFloatWidthConv(info *types.Info, n ast.Node) string {
	out := ""
	ast.Inspect(n, func(x ast.Node) bool {
		call, ok := x.(*ast.CallExpr)
		if !ok || len(call.Args) != 1 {
			return true
		}
		tv, ok := info.Types[call.Fun]
		if !ok || !tv.IsType() {
			return true
		}
		from := info.Types[call.Args[0]].Type
		if from == nil {
			return true
		}
		if (isFloat(tv.Type, types.Float64) && isFloat(from, types.Float32)) || (isFloat(tv.Type, types.Float32) && isFloat(from, types.Float64)) {
			out = core.ExprStr(call)
		}
		return true
	})
	return out
}

func runC08(c *core.Ctx) {
	wp := c.Pkg("internal/wasm")
	info := wp.TypesInfo
	reflectP := c.All["reflect"]
	if reflectP == nil {
		c.Undecided("R08.1", "reflect", 0, "package reflect not loaded")
		return
	}
	kindT := reflectP.Types.Scope().Lookup("Kind").Type()

	// anchor: the marshalling function = function of internal/wasm with a []uint64 parameter that calls (reflect.Value).Call
	var marsh *ast.FuncDecl
	var stackObj types.Object
	core.AllFuncDecls(wp, func(fd *ast.FuncDecl) {
		if !containsCallTo(info, fd.Body, "reflect", "Value", "Call") {
			return
		}
		for _, f := range fd.Type.Params.List {
			for _, n := range f.Names {
				if o := info.Defs[n]; o != nil {
					if sl, ok := o.Type().Underlying().(*types.Slice); ok && basicKind(sl.Elem()) == types.Uint64 {
						marsh, stackObj = fd, o
					}
				}
			}
		}
	})
	if marsh == nil {
		c.Undecided("R08.1", "marshalling function", 0, "no function of internal/wasm takes a []uint64 stack and calls reflect.Value.Call")
		return
	}
	// the two switches over reflect.Kind
	type arm struct {
		kinds []string
		cc    *ast.CaseClause
	}
	var paramArms, resultArms []arm
	callPos := token.NoPos
	ast.Inspect(marsh.Body, func(n ast.Node) bool {
		if e, ok := n.(ast.Expr); ok && calleeIs(info, e, "reflect", "Value", "Call") && callPos == token.NoPos {
			callPos = n.Pos()
		}
		return true
	})
	// the switches are in the marshalling function itself or in helpers it calls (one level); a helper called after the
	// reflect Call (or inside the loop over its results) converts results, one called before converts parameters
	type swScope struct {
		body     ast.Node
		inHelper bool
		isResult bool
	}
	scopes := []swScope{{marsh.Body, false, false}}
	helperArm := map[*ast.CaseClause]bool{}
	ast.Inspect(marsh.Body, func(n ast.Node) bool {
		if call, ok := n.(*ast.CallExpr); ok {
			if f := core.Callee(info, call); f != nil && f.Pkg() == wp.Types {
				if hd := declOf(wp, f); hd != nil && hd != marsh {
					scopes = append(scopes, swScope{hd.Body, true, call.Pos() > callPos})
				}
			}
		}
		return true
	})
	for _, sc := range scopes {
		sc := sc
		ast.Inspect(sc.body, func(n ast.Node) bool {
			sw, ok := n.(*ast.SwitchStmt)
			if !ok || sw.Tag == nil {
				return true
			}
			if tv, ok := info.Types[sw.Tag]; !ok || !types.Identical(tv.Type, kindT) {
				return true
			}
			for _, s := range sw.Body.List {
				cc := s.(*ast.CaseClause)
				var ks []string
				for _, l := range cc.List {
					if se, ok := ast.Unparen(l).(*ast.SelectorExpr); ok {
						ks = append(ks, se.Sel.Name)
					} else if id, ok := ast.Unparen(l).(*ast.Ident); ok {
						ks = append(ks, id.Name)
					}
				}
				if cc.List == nil {
					continue
				}
				// the result switch is the one lexically enclosing/after the reflect Call
				isRes := sw.Pos() > callPos || (sw.Pos() < callPos && callPos < sw.End())
				if sc.inHelper {
					isRes = sc.isResult
					helperArm[cc] = true
				}
				if isRes {
					resultArms = append(resultArms, arm{ks, cc})
				} else {
					paramArms = append(paramArms, arm{ks, cc})
				}
			}
			return true
		})
	}
	if len(paramArms) == 0 || len(resultArms) == 0 {
		c.Undecided("R08.1", "kind switches in "+core.FuncName(wp, marsh), marsh.Pos(), fmt.Sprintf("expected a parameter and a result switch over reflect.Kind, found %d/%d arms", len(paramArms), len(resultArms)))
		return
	}

	// ---- result arms: assignments stack[i] = E
	for _, a := range resultArms {
		var stores []ast.Expr
		ast.Inspect(a.cc, func(n ast.Node) bool {
			as, ok := n.(*ast.AssignStmt)
			if !ok || len(as.Lhs) != 1 || len(as.Rhs) != 1 {
				return true
			}
			if ix, ok := as.Lhs[0].(*ast.IndexExpr); ok {
				if id, ok := ix.X.(*ast.Ident); ok && info.Uses[id] == stackObj {
					stores = append(stores, as.Rhs[0])
				}
			}
			return true
		})
		if helperArm[a.cc] {
			// in a helper the slot value is what the arm returns
			ast.Inspect(a.cc, func(n ast.Node) bool {
				if rs, ok := n.(*ast.ReturnStmt); ok && len(rs.Results) == 1 {
					stores = append(stores, rs.Results[0])
				}
				return true
			})
		}
		for _, k := range a.kinds {
			key := "result " + k
			if len(stores) == 0 {
				c.Violate("R08.1", key, a.cc.Pos(), "arm stores nothing into the result slot")
				continue
			}
			var bad []string
			for _, e := range stores {
				chain, inner := convChain(info, e)
				switch k {
				case "Int32":
					// must be uint64(uint32(...)) : the conversion right below the outermost uint64 is unsigned 32
					ok := len(chain) >= 2 && basicKind(chain[0]) == types.Uint64 && isUnsigned32OrLess(chain[1])
					if calleeIs(info, e, core.Module+"/api", "", "EncodeI32") {
						ok = true
					}
					if !ok {
						bad = append(bad, fmt.Sprintf("`%s` does not zero-extend the int32 result (needs uint64(uint32(x))): a negative value is stored sign-extended", core.ExprStr(e)))
					}
				case "Uint32":
					for _, t := range chain {
						if isSignedInt(t) {
							bad = append(bad, fmt.Sprintf("`%s` takes a uint32 result through a signed conversion", core.ExprStr(e)))
						}
					}
					if !(calleeIs(info, inner, "reflect", "Value", "Uint") || (len(chain) >= 1 && isUnsigned32OrLess(chain[len(chain)-1]))) && len(chain) == 0 && !calleeIs(info, e, "reflect", "Value", "Uint") {
						bad = append(bad, fmt.Sprintf("`%s` is not an unsigned read of the result", core.ExprStr(e)))
					}
				case "Float32":
					if !(len(chain) >= 1 && basicKind(chain[0]) == types.Uint64 && calleeIs(info, inner, "math", "", "Float32bits")) && !calleeIs(info, e, core.Module+"/api", "", "EncodeF32") {
						bad = append(bad, fmt.Sprintf("`%s` is not uint64(math.Float32bits(x))", core.ExprStr(e)))
					}
				case "Float64":
					if !calleeIs(info, e, "math", "", "Float64bits") && !calleeIs(info, e, core.Module+"/api", "", "EncodeF64") {
						bad = append(bad, fmt.Sprintf("`%s` is not math.Float64bits(x)", core.ExprStr(e)))
					}
				case "Int64", "Uint64", "Uintptr":
					for _, t := range chain {
						if k := basicKind(t); k == types.Uint32 || k == types.Int32 || k == types.Uint16 || k == types.Int16 || k == types.Uint8 || k == types.Int8 {
							bad = append(bad, fmt.Sprintf("`%s` truncates a 64-bit result", core.ExprStr(e)))
						}
					}
				}
			}
			c.Check(len(bad) == 0, "R08.1", key, a.cc.Pos(), "slot representation matches the wasm type", strings.Join(bad, "; "))
			if k == "Float32" {
				b2 := ""
				if containsCallTo(info, a.cc, "reflect", "Value", "Float") {
					b2 = "calls reflect.Value.Float (float64 round trip quiets signalling NaNs)"
				}
				if cv := containsFloatWidthConv(info, a.cc); cv != "" {
					b2 += " converts between float32 and float64: " + cv
				}
				c.Check(b2 == "", "R08.2", key, a.cc.Pos(), "no float64 round trip", b2)
			}
		}
	}
	// ---- parameter arms
	for _, a := range paramArms {
		for _, k := range a.kinds {
			key := "param " + k
			bad := ""
			switch k {
			case "Float32":
				b2 := ""
				if containsCallTo(info, a.cc, "reflect", "Value", "SetFloat") {
					b2 = "calls reflect.Value.SetFloat (float64 round trip quiets signalling NaNs)"
				}
				if cv := containsFloatWidthConv(info, a.cc); cv != "" {
					b2 += " converts between float32 and float64: " + cv
				}
				if !containsCallTo(info, a.cc, "math", "", "Float32frombits") {
					b2 += " does not build the value with math.Float32frombits"
				}
				c.Check(b2 == "", "R08.2", key, a.cc.Pos(), "built with math.Float32frombits, no float64 round trip", b2)
			case "Float64":
				if !containsCallTo(info, a.cc, "math", "", "Float64frombits") {
					bad = "does not build the value with math.Float64frombits"
				}
			case "Int32", "Int64":
				if !containsCallTo(info, a.cc, "reflect", "Value", "SetInt") {
					bad = "does not set the value with SetInt"
				}
			case "Uint32", "Uint64", "Uintptr":
				if !containsCallTo(info, a.cc, "reflect", "Value", "SetUint") {
					bad = "does not set the value with SetUint"
				}
			}
			if k != "Float32" {
				c.Check(bad == "", "R08.1", key, a.cc.Pos(), "parameter built with the setter of its own kind (reflect truncates to the kind's width)", bad)
			}
		}
	}

	// ---- R08.4 kinds accepted by the signature parser
	accepted := map[string]bool{}
	var parser *ast.FuncDecl
	core.AllFuncDecls(wp, func(fd *ast.FuncDecl) {
		// func(reflect.Kind) (ValueType, bool)
		if fd.Recv != nil || fd.Type.Params.NumFields() != 1 || fd.Type.Results == nil || fd.Type.Results.NumFields() != 2 {
			return
		}
		if tv, ok := info.Types[fd.Type.Params.List[0].Type]; !ok || !types.Identical(tv.Type, kindT) {
			return
		}
		parser = fd
		ast.Inspect(fd.Body, func(n ast.Node) bool {
			if cc, ok := n.(*ast.CaseClause); ok {
				for _, l := range cc.List {
					if se, ok := ast.Unparen(l).(*ast.SelectorExpr); ok {
						accepted[se.Sel.Name] = true
					}
				}
			}
			return true
		})
	})
	if parser == nil {
		c.Undecided("R08.4", "signature kinds", 0, "no func(reflect.Kind) (ValueType, bool) found in internal/wasm")
	} else {
		set := func(arms []arm) map[string]bool {
			m := map[string]bool{}
			for _, a := range arms {
				for _, k := range a.kinds {
					m[k] = true
				}
			}
			return m
		}
		ps, rs := set(paramArms), set(resultArms)
		var diff []string
		for k := range accepted {
			if !ps[k] {
				diff = append(diff, k+" accepted in signatures but has no parameter arm")
			}
			if !rs[k] {
				diff = append(diff, k+" accepted in signatures but has no result arm")
			}
		}
		for k := range ps {
			if !accepted[k] {
				diff = append(diff, k+" has a parameter arm but is not an accepted signature kind")
			}
		}
		for k := range rs {
			if !accepted[k] {
				diff = append(diff, k+" has a result arm but is not an accepted signature kind")
			}
		}
		sort.Strings(diff)
		c.Check(len(diff) == 0, "R08.4", "signature kinds = param arms = result arms", parser.Pos(), fmt.Sprintf("%d kinds", len(accepted)), strings.Join(diff, "; ")+" (an accepted kind without an arm panics with BUG at call time)")
	}

	// ---- R08.3 slot arithmetic
	ftNamed, _ := wp.Types.Scope().Lookup("FunctionType").Type().(*types.Named)
	countLen := func(rel string) (n int, sites []string) {
		p := c.Pkg(rel)
		if p == nil {
			return 0, nil
		}
		core.AllFuncDecls(p, func(fd *ast.FuncDecl) {
			ast.Inspect(fd.Body, func(x ast.Node) bool {
				call, ok := x.(*ast.CallExpr)
				if !ok || !core.IsBuiltin(p.TypesInfo, call, "len") {
					return true
				}
				if f := core.FieldOf(p.TypesInfo, call.Args[0]); f != nil && (f.Name() == "Params" || f.Name() == "Results") {
					se := ast.Unparen(call.Args[0]).(*ast.SelectorExpr)
					if core.NamedOf(p.TypesInfo.Types[se.X].Type) == ftNamed {
						n++
						sites = append(sites, fmt.Sprintf("%s at %s", core.ExprStr(call), c.Pos(call.Pos())))
					}
				}
				return true
			})
		})
		return
	}
	for _, e := range []struct{ name, rel string }{{"interpreter", "internal/engine/interpreter"}, {"wazevo", "internal/engine/wazevo"}} {
		if c.Pkg(e.rel) == nil {
			continue
		}
		n, sites := countLen(e.rel)
		// the interpreter's compiler legitimately counts values for the validation-time stack model; only runtime files matter:
		var rt []string
		for _, s := range sites {
			if !strings.Contains(s, "compiler.go") && !strings.Contains(s, "signature.go") && !strings.Contains(s, "operations.go") {
				rt = append(rt, s)
			}
		}
		_ = n
		c.Check(len(rt) == 0, "R08.3", e.name+" call paths use slot counts", 0, "no len(FunctionType.Params/Results) in the engine's run-time files",
			"stack sized by the number of values instead of the number of 64-bit slots (v128 takes two): "+strings.Join(rt, "; "))
	}
	if n, _ := countLen("internal/wasm"); n == 0 {
		c.Undecided("R08.3", "matcher self-test", 0, "the len(FunctionType.Params) matcher found none of the known uses in internal/wasm")
	}
	// slot counter
	for _, fld := range []string{"ParamNumInUint64", "ResultNumInUint64"} {
		fv := structField(c, "internal/wasm", "FunctionType", fld)
		if fv == nil {
			c.Undecided("R08.3", fld, 0, "field not found")
			continue
		}
		v128 := wp.Types.Scope().Lookup("ValueTypeV128")
		ok := false
		var pos token.Pos
		core.AllFuncDecls(wp, func(fd *ast.FuncDecl) {
			ast.Inspect(fd.Body, func(n ast.Node) bool {
				rs, isRange := n.(*ast.RangeStmt)
				if !isRange {
					return true
				}
				incs, incsUnderV128 := 0, 0
				ast.Inspect(rs.Body, func(m ast.Node) bool {
					switch y := m.(type) {
					case *ast.IncDecStmt:
						if core.FieldOf(wp.TypesInfo, y.X) == fv && y.Tok == token.INC {
							incs++
						}
					case *ast.IfStmt:
						if core.RefsAny(wp.TypesInfo, y.Cond, map[types.Object]bool{v128: true}) {
							ast.Inspect(y.Body, func(z ast.Node) bool {
								if id, ok := z.(*ast.IncDecStmt); ok && core.FieldOf(wp.TypesInfo, id.X) == fv {
									incsUnderV128++
								}
								return true
							})
						}
					}
					return true
				})
				if incs >= 2 && incsUnderV128 >= 1 {
					ok = true
					pos = rs.Pos()
				}
				return true
			})
		})
		c.Check(ok, "R08.3", "slot counter "+fld, pos, "one slot per value plus one more for v128", "the slot counter does not count v128 values twice: vector parameters/results overlap their neighbours")
	}

	checkEmitterWidths(c)
	checkSlotNormalisation(c, "R08.9", "R08.10")
	checkHostCallTypesStateless(c)
	checkArgRegsNotClobbered(c)
	checkEntryPreambleForHostModules(c)
	checkFreshCallEngine(c)
	checkMarshalScratch(c)

	// ---- R08.5 api.Encode*/Decode*
	ap := c.SSAPkg("api")
	if ap == nil {
		c.Undecided("R08.5", "api", 0, "package api not loaded")
		return
	}
	var names []string
	for n := range ap.Members {
		if strings.HasPrefix(n, "Encode") || strings.HasPrefix(n, "Decode") {
			names = append(names, n)
		}
	}
	sort.Strings(names)
	for _, n := range names {
		fn, ok := ap.Members[n].(*ssa.Function)
		if !ok || fn.Blocks == nil || len(fn.Params) != 1 || fn.Signature.Results().Len() != 1 {
			continue
		}
		in, out := fn.Params[0].Type(), fn.Signature.Results().At(0).Type()
		var ret ssa.Value
		nret := 0
		for _, b := range fn.Blocks {
			for _, ins := range b.Instrs {
				if r, ok := ins.(*ssa.Return); ok {
					ret = r.Results[0]
					nret++
				}
			}
		}
		bad := ""
		if nret != 1 {
			bad = "not a single-expression coder"
		} else if strings.HasPrefix(n, "Encode") {
			switch {
			case isFloat(in, types.Float32):
				cv, ok := ret.(*ssa.Convert)
				if !ok || !isCallTo(cv.X, "math", "Float32bits") {
					bad = "float32 not encoded as uint64(math.Float32bits(x))"
				}
			case isFloat(in, types.Float64):
				if !isCallTo(ret, "math", "Float64bits") {
					bad = "float64 not encoded with math.Float64bits"
				}
			case basicKind(in) == types.Int32:
				cv, ok := ret.(*ssa.Convert)
				if !ok || !isUnsigned32OrLess(cv.X.Type()) {
					bad = "int32 not zero-extended (needs uint64(uint32(x)))"
				}
			case basicKind(in) == types.Uint32:
				cv, ok := ret.(*ssa.Convert)
				if !ok || cv.X != fn.Params[0] {
					bad = "uint32 not zero-extended directly"
				}
			default:
				if cv, ok := ret.(*ssa.Convert); !ok || cv.X != fn.Params[0] {
					if ret != fn.Params[0] {
						bad = "64-bit value not passed through unchanged"
					}
				}
			}
		} else {
			switch {
			case isFloat(out, types.Float32):
				call, ok := ret.(*ssa.Call)
				if !ok || !isCallTo(ret, "math", "Float32frombits") {
					bad = "float32 not decoded with math.Float32frombits"
				} else if cv, ok := call.Common().Args[0].(*ssa.Convert); !ok || cv.X != fn.Params[0] {
					bad = "float32 bits not taken from the low half of the slot"
				}
			case isFloat(out, types.Float64):
				if call, ok := ret.(*ssa.Call); !ok || !isCallTo(ret, "math", "Float64frombits") || call.Common().Args[0] != fn.Params[0] {
					bad = "float64 not decoded with math.Float64frombits(slot)"
				}
			default:
				if cv, ok := ret.(*ssa.Convert); !ok || cv.X != fn.Params[0] {
					bad = "integer not decoded by a plain conversion of the slot"
				}
			}
		}
		c.Check(bad == "", "R08.5", "api."+n, fn.Pos(), "bit-preserving", bad)
	}
}

func isCallTo(v ssa.Value, pkg, name string) bool {
	call, ok := v.(*ssa.Call)
	if !ok {
		return false
	}
	f := call.Common().StaticCallee()
	return f != nil && f.Name() == name && f.Pkg != nil && f.Pkg.Pkg.Path() == pkg
}

// ---- R08.6 emitter width in the ABI code of the backends ----

var typeBytes = map[string]int{"TypeI32": 4, "TypeF32": 4, "TypeI64": 8, "TypeF64": 8, "TypeV128": 16}

// emitterWidth returns the number of bytes a width-carrying emitter call moves, or 0 when it carries no width.
func emitterWidth(info *types.Info, call *ast.CallExpr) int {
	f := core.Callee(info, call)
	if f == nil {
		return 0
	}
	constArg := func(i int) (int64, bool) {
		if i < 0 {
			i = len(call.Args) + i
		}
		if i < 0 || i >= len(call.Args) {
			return 0, false
		}
		return core.ConstVal(info, call.Args[i])
	}
	identArg := func(i int) string {
		if i >= len(call.Args) {
			return ""
		}
		switch x := ast.Unparen(call.Args[i]).(type) {
		case *ast.Ident:
			return x.Name
		case *ast.SelectorExpr:
			return x.Sel.Name
		}
		return ""
	}
	switch f.Name() {
	case "asMov64MR", "asMove64":
		return 8
	case "asMove32":
		return 4
	case "asMovzxRmR", "asMovsxRmR":
		n := identArg(0)
		if strings.HasPrefix(n, "extMode") && len(n) == len("extMode")+2 {
			switch n[len("extMode")] {
			case 'B':
				return 1
			case 'W':
				return 2
			case 'L':
				return 4
			}
		}
	case "asMovRM":
		if v, ok := constArg(2); ok {
			return int(v)
		}
	case "asMovRR":
		if id := identArg(2); id == "true" {
			return 8
		} else if id == "false" {
			return 4
		}
	case "asXmmUnaryRmR", "asXmmMovRM":
		switch n := identArg(0); {
		case strings.HasSuffix(n, "Movss"):
			return 4
		case strings.HasSuffix(n, "Movsd"):
			return 8
		case strings.HasSuffix(n, "Movdqu"), strings.HasSuffix(n, "Movdqa"), strings.HasSuffix(n, "Movups"), strings.HasSuffix(n, "Movaps"):
			return 16
		}
	case "asULoad", "asSLoad", "asFpuLoad", "asStore":
		if v, ok := constArg(-1); ok && v%8 == 0 {
			return int(v / 8)
		}
	case "asFpuMov64":
		return 8
	case "asFpuMov128":
		return 16
	}
	return 0
}

func checkEmitterWidths(c *core.Ctx) {
	total := 0
	for _, rel := range []string{"internal/engine/wazevo/backend/isa/amd64", "internal/engine/wazevo/backend/isa/arm64"} {
		p := c.Pkg(rel)
		if p == nil {
			continue
		}
		isa := rel[strings.LastIndex(rel, "/")+1:]
		core.AllFuncDecls(p, func(fd *ast.FuncDecl) {
			file := c.Fset.Position(fd.Pos()).Filename
			if !strings.HasPrefix(file[strings.LastIndex(file, "/")+1:], "abi") {
				return
			}
			var bad []string
			n := 0
			ast.Inspect(fd.Body, func(x ast.Node) bool {
				sw, ok := x.(*ast.SwitchStmt)
				if !ok || sw.Tag == nil {
					return true
				}
				tv := p.TypesInfo.Types[sw.Tag]
				if nt := core.NamedOf(tv.Type); nt == nil || nt.Obj().Name() != "Type" || !strings.HasSuffix(nt.Obj().Pkg().Path(), "/wazevo/ssa") {
					return true
				}
				for _, s := range sw.Body.List {
					cc := s.(*ast.CaseClause)
					need := 0
					var labels []string
					for _, l := range cc.List {
						if se, ok := ast.Unparen(l).(*ast.SelectorExpr); ok {
							if b, ok := typeBytes[se.Sel.Name]; ok {
								labels = append(labels, se.Sel.Name)
								if b > need {
									need = b
								}
							}
						}
					}
					if need == 0 {
						continue
					}
					for _, st := range cc.Body {
						ast.Inspect(st, func(y ast.Node) bool {
							if _, nested := y.(*ast.SwitchStmt); nested {
								return false
							}
							call, ok := y.(*ast.CallExpr)
							if !ok {
								return true
							}
							if w := emitterWidth(p.TypesInfo, call); w > 0 {
								n++
								if w < need {
									bad = append(bad, fmt.Sprintf("arm %s emits a %d-byte move `%s` at %s but the type needs %d bytes: the upper part of the value is lost", strings.Join(labels, ","), w, core.ExprStr(call.Fun), c.Pos(call.Pos()), need))
								}
							}
							return true
						})
					}
				}
				return true
			})
			if n > 0 {
				total += n
				c.Check(len(bad) == 0, "R08.6", isa+" "+core.FuncName(p, fd), fd.Pos(), fmt.Sprintf("%d width-carrying emitter calls, none narrower than its type arm", n), strings.Join(bad, "; "))
			}
		})
	}
	c.Count("abi_emitter_sites", total)
}

// ---- R08.7 fresh call engine per lookup ----

func checkFreshCallEngine(c *core.Ctx) {
	wp := c.Pkg("internal/wasm")
	mi, _ := wp.Types.Scope().Lookup("ModuleInstance").Type().(*types.Named)
	if mi == nil {
		return
	}
	for _, name := range []string{"ExportedFunction"} {
		obj := core.ImplMethod(wp.Types, mi, name)
		fn := c.SSA().FuncValue(obj)
		if fn == nil {
			c.Undecided("R08.7", "ModuleInstance."+name, 0, "method not found")
			continue
		}
		bad := ""
		var check func(v ssa.Value, depth int) bool
		seen := map[ssa.Value]bool{}
		check = func(v ssa.Value, depth int) bool {
			if seen[v] || depth > 8 {
				return true
			}
			seen[v] = true
			switch x := v.(type) {
			case *ssa.Const:
				return true
			case *ssa.Phi:
				for _, e := range x.Edges {
					if !check(e, depth+1) {
						return false
					}
				}
				return true
			case *ssa.MakeInterface:
				return check(x.X, depth+1)
			case *ssa.ChangeInterface:
				return check(x.X, depth+1)
			case *ssa.Call:
				cc := x.Common()
				if cc.IsInvoke() && cc.Method.Name() == "NewFunction" {
					return true
				}
				if callee := cc.StaticCallee(); callee != nil && core.InModule(callee) && callee.Blocks != nil {
					for _, b := range callee.Blocks {
						for _, in := range b.Instrs {
							if r, ok := in.(*ssa.Return); ok && len(r.Results) > 0 {
								if !check(r.Results[0], depth+1) {
									return false
								}
							}
						}
					}
					return true
				}
			case *ssa.Alloc:
				return true
			}
			bad = fmt.Sprintf("returns a value that is not a fresh ModuleEngine.NewFunction result (%T at %s): a cached api.Function shares one call engine (value stack, execution context) between re-entrant or concurrent callers", v, c.Pos(v.Pos()))
			return false
		}
		ok := true
		for _, b := range fn.Blocks {
			for _, in := range b.Instrs {
				if r, isR := in.(*ssa.Return); isR && len(r.Results) > 0 {
					if !check(r.Results[0], 0) {
						ok = false
					}
				}
			}
		}
		c.Check(ok, "R08.7", "ModuleInstance."+name+" returns a fresh call engine", fn.Pos(), "every result is nil or a new ModuleEngine.NewFunction value", bad)
	}
	// each engine's NewFunction allocates
	_, me := lookupIface(c, "internal/wasm", "ModuleEngine")
	for _, rel := range []string{"internal/engine/interpreter", "internal/engine/wazevo"} {
		p := c.Pkg(rel)
		if p == nil || me == nil {
			continue
		}
		for _, n := range p.Types.Scope().Names() {
			tn, ok := p.Types.Scope().Lookup(n).(*types.TypeName)
			if !ok {
				continue
			}
			named, _ := tn.Type().(*types.Named)
			if named == nil || !types.Implements(types.NewPointer(named), me) {
				continue
			}
			fn := c.SSA().FuncValue(core.ImplMethod(p.Types, named, "NewFunction"))
			if fn == nil || fn.Blocks == nil {
				continue
			}
			ok2 := true
			why := ""
			for _, b := range fn.Blocks {
				for _, in := range b.Instrs {
					if r, isR := in.(*ssa.Return); isR && len(r.Results) > 0 {
						v := r.Results[0]
						for {
							if mi, isMI := v.(*ssa.MakeInterface); isMI {
								v = mi.X
								continue
							}
							break
						}
						switch x := v.(type) {
						case *ssa.Alloc:
						case *ssa.Call:
							if x.Common().IsInvoke() && x.Common().Method.Name() == "NewFunction" {
								continue // delegated to the exporting module's engine: fresh by the same rule
							}
							if sc := x.Common().StaticCallee(); sc != nil && sc == fn {
								continue // same, statically resolved (imported function of the same engine type)
							}
							callee := x.Common().StaticCallee()
							okc := false
							if callee != nil && callee.Blocks != nil {
								okc = true
								for _, bb := range callee.Blocks {
									for _, ii := range bb.Instrs {
										if rr, isRR := ii.(*ssa.Return); isRR && len(rr.Results) > 0 {
											if _, isAlloc := rr.Results[0].(*ssa.Alloc); !isAlloc {
												if rc, isCall := rr.Results[0].(*ssa.Call); !isCall || rc.Common().StaticCallee() != callee {
													okc = false
												}
											}
										}
									}
								}
							}
							if !okc {
								ok2 = false
								why = "NewFunction returns the result of a call that does not allocate a new call engine"
							}
						default:
							ok2 = false
							why = fmt.Sprintf("NewFunction returns a %T, not a newly allocated call engine", v)
						}
					}
				}
			}
			c.Check(ok2, "R08.7", rel[strings.LastIndex(rel, "/")+1:]+" NewFunction allocates a call engine", fn.Pos(), "every result is a fresh allocation", why)
		}
	}
}

// ---- R08.8 marshalling writes only per-call memory ----

func checkMarshalScratch(c *core.Ctx) {
	wp := c.SSAPkg("internal/wasm")
	if wp == nil {
		return
	}
	n := 0
	for _, fn := range moduleFns(c, "internal/wasm") {
		// functions of the reflection path: those that call reflect.Value.Call, and the Call methods of types holding a *reflect.Value
		uses := false
		for _, b := range fn.Blocks {
			for _, in := range b.Instrs {
				if call, ok := in.(ssa.CallInstruction); ok {
					if f := call.Common().StaticCallee(); f != nil && f.Name() == "Call" && f.Pkg != nil && f.Pkg.Pkg.Path() == "reflect" {
						uses = true
					}
				}
			}
		}
		if !uses {
			continue
		}
		n++
		var bad []string
		for _, b := range fn.Blocks {
			for _, in := range b.Instrs {
				st, ok := in.(*ssa.Store)
				if !ok {
					continue
				}
				ia, ok := st.Addr.(*ssa.IndexAddr)
				if !ok {
					continue
				}
				base := ia.X
				for {
					if sl, ok := base.(*ssa.Slice); ok {
						base = sl.X
						continue
					}
					break
				}
				switch x := base.(type) {
				case *ssa.MakeSlice, *ssa.Alloc:
				case *ssa.Parameter:
					// only the caller's []uint64 stack may be written; any other slice handed in is shared state
					if sl, isSl := x.Type().Underlying().(*types.Slice); !isSl || basicKind(sl.Elem()) != types.Uint64 {
						bad = append(bad, fmt.Sprintf("element store at %s into parameter %s (%s), which is not the caller's value stack: scratch memory passed in from a long-lived object is shared between concurrent or re-entrant host calls", c.Pos(st.Pos()), x.Name(), x.Type()))
					}
				case *ssa.Phi:
					okp := true
					for _, e := range x.Edges {
						switch ee := e.(type) {
						case *ssa.MakeSlice, *ssa.Alloc:
						case *ssa.Parameter:
							// as above: only the caller's []uint64 stack
							if sl, isSl := ee.Type().Underlying().(*types.Slice); !isSl || basicKind(sl.Elem()) != types.Uint64 {
								okp = false
							}
						case *ssa.Const:
							_ = ee
						default:
							okp = false
						}
					}
					if !okp {
						bad = append(bad, fmt.Sprintf("element store at %s into a slice that is neither the caller's stack nor allocated in this call", c.Pos(st.Pos())))
					}
				default:
					bad = append(bad, fmt.Sprintf("element store at %s into a slice loaded from shared state (%T): concurrent or re-entrant host calls overwrite each other's arguments", c.Pos(st.Pos()), base))
				}
			}
		}
		c.Check(len(bad) == 0, "R08.8", "per-call scratch in "+core.SSAFuncName(fn), fn.Pos(), "every element store targets the caller's stack or memory allocated in this call", strings.Join(bad, "; "))
	}
	if n == 0 {
		c.Undecided("R08.8", "marshalling function", 0, "no function of internal/wasm calls reflect.Value.Call")
	}
}

// ---- R08.9 32-bit slots are zero-extended before Go code sees them ----

func checkSlotNormalisation(c *core.Ctx, rule9, rule10 string) {
	p, api := c.Pkg(wzv), c.Pkg("internal/engine/wazevo/wazevoapi")
	if p == nil || api == nil {
		return
	}
	info := p.TypesInfo
	// the normaliser: a function with a []uint64 parameter that masks elements with 0xffffffff
	norm := map[*types.Func]bool{}
	core.AllFuncDecls(p, func(fd *ast.FuncDecl) {
		masks := false
		ast.Inspect(fd.Body, func(x ast.Node) bool {
			if as, ok := x.(*ast.AssignStmt); ok && as.Tok == token.AND_ASSIGN && len(as.Rhs) == 1 {
				if v, ok := core.ConstVal(info, as.Rhs[0]); ok && v == 0xffffffff {
					if _, isIdx := as.Lhs[0].(*ast.IndexExpr); isIdx {
						masks = true
					}
				}
			}
			return true
		})
		if masks {
			if f, ok := info.Defs[fd.Name].(*types.Func); ok {
				norm[f] = true
			}
		}
	})
	var sw *ast.SwitchStmt
	var loopFn *ast.FuncDecl
	for _, r := range core.FindCaseClauses(p, api.Types.Scope().Lookup("ExitCodeOK")) {
		if sw == nil || len(r.Switch.Body.List) > len(sw.Body.List) {
			sw, loopFn = r.Switch, r.Fn
		}
	}
	if sw == nil {
		c.Undecided(rule10, "Go-side exit loop", 0, "not found")
		return
	}
	// the caller's slot slice: the []uint64 parameter of the loop function
	var stackParam types.Object
	for _, f := range loopFn.Type.Params.List {
		for _, n := range f.Names {
			if o := info.Defs[n]; o != nil {
				if sl, ok := o.Type().Underlying().(*types.Slice); ok && basicKind(sl.Elem()) == types.Uint64 {
					stackParam = o
				}
			}
		}
	}
	wantKind := ""
	// typesKind: which type list the expression denotes ("param", "result" or ""), following a local to what it was bound to
	var typesKind func(e ast.Expr, scope []ast.Stmt, depth int) string
	typesKind = func(e ast.Expr, scope []ast.Stmt, depth int) string {
		txt := strings.ToLower(core.ExprStr(e))
		if id, ok := ast.Unparen(e).(*ast.Ident); ok && depth < 2 {
			if o := info.Uses[id]; o != nil {
				for _, st := range scope {
					var found ast.Expr
					ast.Inspect(st, func(y ast.Node) bool {
						if as, ok := y.(*ast.AssignStmt); ok && len(as.Lhs) == len(as.Rhs) {
							for i, l := range as.Lhs {
								if lid, ok := l.(*ast.Ident); ok && (info.Defs[lid] == o || info.Uses[lid] == o) {
									found = as.Rhs[i]
								}
							}
						}
						return true
					})
					if found != nil {
						return typesKind(found, scope, depth+1)
					}
				}
			}
		}
		switch {
		case strings.Contains(txt, "param"):
			return "param"
		case strings.Contains(txt, "result"):
			return "result"
		}
		return ""
	}
	wrongTypes := ""
	normalisedBefore := func(list []ast.Stmt, upto token.Pos, sliceText string) bool {
		ok := false
		for _, s := range list {
			if s.Pos() >= upto {
				break
			}
			ast.Inspect(s, func(x ast.Node) bool {
				if call, isC := x.(*ast.CallExpr); isC && call.Pos() < upto {
					if f := core.Callee(info, call); f != nil && norm[f] && len(call.Args) > 0 && core.ExprStr(call.Args[0]) == sliceText {
						ok = true
						// what is shown before the host function ran holds parameters: the type list must be the parameters'
						if len(call.Args) > 1 && wantKind != "" {
							if k := typesKind(call.Args[1], list, 0); k != "" && k != wantKind {
								ok = false
								wrongTypes = "the slots are normalised by `" + core.ExprStr(call.Args[1]) + "` (the " + k + " types) while they hold the " + wantKind + "s: "
							}
						}
					}
				}
				return true
			})
		}
		return ok
	}
	n := 0
	for _, cs := range sw.Body.List {
		cc := cs.(*ast.CaseClause)
		if len(cc.List) == 0 {
			continue
		}
		label := constNameOf(info, cc.List[0])
		if label == "ExitCodeOK" && stackParam != nil {
			n++
			wantKind = "result"
			c.Check(rule9 == "" || normalisedBefore(cc.Body, cc.End(), stackParam.Name()), rule9x(rule9), "results handed back to the caller of Call/CallWithStack are zero-extended", cc.Pos(),
				"the 32-bit result slots are masked before returning", "the ExitCodeOK arm returns the slot slice as generated code left it: generated code writes only the low 4 bytes of i32/f32 results, so the upper halves hold stale parameter bits (the interpreter and api.EncodeI32 give zero-extended slots)")
			continue
		}
		// Go-visible uses of slot slices
		for _, s := range cc.Body {
			ast.Inspect(s, func(x ast.Node) bool {
				call, ok := x.(*ast.CallExpr)
				if !ok {
					return true
				}
				idx := -1
				what := ""
				if isHost, si := hostBodyCall(info, call); isHost && si >= 0 {
					idx, what = si, "stack passed to the host function"
				}
				se, ok := call.Fun.(*ast.SelectorExpr)
				if !ok {
					if idx < 0 {
						return true
					}
					se = &ast.SelectorExpr{X: call.Fun, Sel: ast.NewIdent("")}
				}
				rt := info.Types[se.X].Type
				if rt == nil && idx < 0 {
					return true
				}
				rs := ""
				if rt != nil {
					rs = rt.String()
				}
				switch {
				case idx >= 0:
				case se.Sel.Name == "Before" && strings.Contains(rs, "FunctionListener"):
					idx, what = 3, "parameters shown to the listener"
				case se.Sel.Name == "After" && strings.Contains(rs, "FunctionListener") && label == "ExitCodeCallListenerAfter":
					idx, what = 3, "results shown to the listener"
				}
				if idx < 0 || idx >= len(call.Args) {
					return true
				}
				n++
				txt := core.ExprStr(call.Args[idx])
				wantKind, wrongTypes = "param", ""
				if se.Sel.Name == "After" {
					wantKind = "result"
				}
				okNorm := normalisedBefore(cc.Body, call.Pos(), txt)
				// a prefix s[:n] of a normalised slice is normalised, also when it was first bound to a local
				argE := ast.Unparen(call.Args[idx])
				if id, isId := argE.(*ast.Ident); isId && !okNorm {
					if o := info.Uses[id]; o != nil {
						ast.Inspect(cc, func(y ast.Node) bool {
							if as, ok := y.(*ast.AssignStmt); ok && len(as.Lhs) == len(as.Rhs) && as.Pos() < call.Pos() {
								for i, l := range as.Lhs {
									if lid, ok := l.(*ast.Ident); ok && (info.Defs[lid] == o || info.Uses[lid] == o) {
										argE = ast.Unparen(as.Rhs[i])
									}
								}
							}
							return true
						})
					}
				}
				if sl, isSl := argE.(*ast.SliceExpr); isSl && !okNorm && sl.Low == nil {
					okNorm = normalisedBefore(cc.Body, call.Pos(), core.ExprStr(sl.X))
				}
				c.Check(rule9 == "" || okNorm, rule9x(rule9), fmt.Sprintf("%s in arm %s (`%s`) is zero-extended first", what, label, core.ExprStr(call.Fun)), call.Pos(),
					"the 32-bit slots of `"+txt+"` are masked before the call", wrongTypes+"generated code stored only the low 4 bytes of the i32/f32 values into `"+txt+"`; it is handed to Go code without masking, so the host function / listener sees stale upper halves (e.g. 0xffffffff00000005 for i32 5) where the interpreter passes zero-extended slots")
				return true
			})
		}
	}
	c.Count("go_visible_slot_uses", n)
	// R08.10: after the host function has written its results, the slots are not normalised by the parameter types
	for _, cs := range sw.Body.List {
		cc := cs.(*ast.CaseClause)
		if len(cc.List) == 0 {
			continue
		}
		label := constNameOf(info, cc.List[0])
		var hostCall token.Pos
		ast.Inspect(cc, func(x ast.Node) bool {
			if call, ok := x.(*ast.CallExpr); ok {
				if isHost, _ := hostBodyCall(info, call); isHost {
					hostCall = call.End()
				}
			}
			return true
		})
		if hostCall == 0 {
			continue
		}
		var bad []string
		ast.Inspect(cc, func(x ast.Node) bool {
			if call, ok := x.(*ast.CallExpr); ok && call.Pos() > hostCall {
				if f := core.Callee(info, call); f != nil && norm[f] && len(call.Args) == 2 && strings.Contains(core.ExprStr(call.Args[1]), "Param") {
					bad = append(bad, core.ExprStr(call)+" at "+c.Pos(call.Pos()))
				}
			}
			return true
		})
		// R08.13: … and they are normalised by the result types before the generated code takes them back
		if rule10 == "R08.10" {
			after := false
			ast.Inspect(cc, func(x ast.Node) bool {
				if call, ok := x.(*ast.CallExpr); ok && call.Pos() > hostCall {
					if f := core.Callee(info, call); f != nil && norm[f] && len(call.Args) == 2 && strings.Contains(core.ExprStr(call.Args[1]), "Result") {
						after = true
					}
				}
				return true
			})
			c.Check(after, "R08.13", "arm "+label+": the 32-bit results of the host function are zero-extended before the generated code reads them", cc.Pos(),
				"the result slots are normalised by the result types after the host call",
				"the result slots go back to the generated code as the Go function left them: the amd64 trampoline reloads the first integer result with a 64-bit move whatever its type and an i32 is used as a 64-bit index as is, so a host function that leaves bits in the upper half of an i32 result slot makes the guest access memory 4GiB away from the address (the interpreter truncates)")
		}
		c.Check(len(bad) == 0, rule10, "arm "+label+": results written by the host function are not masked by the parameter types", cc.Pos(), "no parameter-typed normalisation after the host call",
			strings.Join(bad, "; ")+": after the host function returned, the slots hold its results; masking them by the parameter types clears the upper half of a 64-bit result that shares its slot with a 32-bit parameter")
	}
}

func rule9x(r string) string {
	if r == "" {
		return "R12.8" // obligations are trivially discharged when only the second rule is wanted; keep them under the caller's rule
	}
	return r
}

// ---- R08.11: after the arguments of a call have been placed in their ABI registers, no argument register is overwritten ----

// checkArgRegsNotClobbered: in the amd64 call lowerings, a move into a fixed register that is one of the integer argument
// registers, emitted after the arguments were placed, needs a guard that scans the callee ABI's argument registers for it.
func checkArgRegsNotClobbered(c *core.Ctx) {
	p := c.Pkg("internal/engine/wazevo/backend/isa/amd64")
	if p == nil {
		return
	}
	info := p.TypesInfo
	// the integer argument registers (composite literal of the ABI table) and the fixed virtual registers
	argRegs := map[types.Object]bool{}
	fixed := map[types.Object]types.Object{} // xVReg var → real register const
	for _, f := range p.Syntax {
		ast.Inspect(f, func(x ast.Node) bool {
			vs, ok := x.(*ast.ValueSpec)
			if !ok {
				return true
			}
			for i, nm := range vs.Names {
				if i >= len(vs.Values) {
					continue
				}
				if cl, ok := vs.Values[i].(*ast.CompositeLit); ok && strings.Contains(strings.ToLower(nm.Name), "intarg") {
					for _, e := range cl.Elts {
						if id, ok := e.(*ast.Ident); ok {
							if o := info.Uses[id]; o != nil {
								argRegs[o] = true
							}
						}
					}
				}
				if call, ok := vs.Values[i].(*ast.CallExpr); ok && len(call.Args) >= 1 {
					if f := core.Callee(info, call); f != nil && f.Name() == "FromRealReg" {
						if id, ok := call.Args[0].(*ast.Ident); ok {
							if o := info.Uses[id]; o != nil {
								fixed[info.Defs[nm]] = o
							}
						}
					}
				}
			}
			return true
		})
	}
	if len(argRegs) == 0 || len(fixed) == 0 {
		c.Undecided("R08.11", "amd64 integer argument registers / fixed virtual registers", 0, "tables not found")
		return
	}
	// functions that place the arguments: those calling the per-argument placer, and their direct callers
	places := map[string]bool{}
	core.AllFuncDecls(p, func(fd *ast.FuncDecl) {
		ast.Inspect(fd.Body, func(x ast.Node) bool {
			if call, ok := x.(*ast.CallExpr); ok {
				if f := core.Callee(info, call); f != nil && strings.Contains(f.Name(), "ToFunctionArg") {
					places[fd.Name.Name] = true
				}
			}
			return true
		})
	})
	n := 0
	core.AllFuncDecls(p, func(fd *ast.FuncDecl) {
		var placedAt token.Pos
		ast.Inspect(fd.Body, func(x ast.Node) bool {
			if call, ok := x.(*ast.CallExpr); ok && placedAt == 0 {
				if f := core.Callee(info, call); f != nil && places[f.Name()] {
					placedAt = call.End()
				}
			}
			return true
		})
		if placedAt == 0 {
			return
		}
		// guards: comparisons of an argument's register with a real register
		guarded := map[types.Object]bool{}
		ast.Inspect(fd.Body, func(x ast.Node) bool {
			if be, ok := x.(*ast.BinaryExpr); ok && (be.Op == token.EQL || be.Op == token.NEQ) {
				for _, pair := range [][2]ast.Expr{{be.X, be.Y}, {be.Y, be.X}} {
					if id, ok := pair[1].(*ast.Ident); ok && strings.Contains(core.ExprStr(pair[0]), "RealReg()") && strings.Contains(core.ExprStr(pair[0]), "Reg") {
						if o := info.Uses[id]; o != nil {
							guarded[o] = true
						}
					}
				}
			}
			return true
		})
		// … or a call of a one-level helper that makes that comparison with the register it is given
		ast.Inspect(fd.Body, func(x ast.Node) bool {
			call, ok := x.(*ast.CallExpr)
			if !ok {
				return true
			}
			f := core.Callee(info, call)
			if f == nil {
				return true
			}
			var helper *ast.FuncDecl
			core.AllFuncDecls(p, func(g *ast.FuncDecl) {
				if info.Defs[g.Name] == types.Object(f) {
					helper = g
				}
			})
			if helper == nil || helper == fd {
				return true
			}
			// parameters of the helper that it compares with an argument's real register
			cmpParams := map[types.Object]bool{}
			ast.Inspect(helper.Body, func(y ast.Node) bool {
				if be, ok := y.(*ast.BinaryExpr); ok && (be.Op == token.EQL || be.Op == token.NEQ) {
					for _, pair := range [][2]ast.Expr{{be.X, be.Y}, {be.Y, be.X}} {
						if id, ok := pair[1].(*ast.Ident); ok && strings.Contains(core.ExprStr(pair[0]), "RealReg()") {
							if o := info.Uses[id]; o != nil {
								cmpParams[o] = true
							}
						}
					}
				}
				return true
			})
			idx := 0
			for _, fl := range helper.Type.Params.List {
				for _, nm := range fl.Names {
					if cmpParams[info.Defs[nm]] && idx < len(call.Args) {
						if id, ok := call.Args[idx].(*ast.Ident); ok {
							if o := info.Uses[id]; o != nil {
								guarded[o] = true
							}
						}
					}
					idx++
				}
			}
			return true
		})
		// locals bound to a fixed register: tmp := r11VReg
		alias := map[types.Object]types.Object{}
		ast.Inspect(fd.Body, func(x ast.Node) bool {
			if as, ok := x.(*ast.AssignStmt); ok && len(as.Lhs) == 1 && len(as.Rhs) == 1 {
				if l, ok := as.Lhs[0].(*ast.Ident); ok {
					if r, ok := as.Rhs[0].(*ast.Ident); ok {
						if ro := info.Uses[r]; ro != nil && fixed[ro] != nil {
							lo := info.Defs[l]
							if lo == nil {
								lo = info.Uses[l]
							}
							alias[lo] = ro
						}
					}
				}
			}
			return true
		})
		ast.Inspect(fd.Body, func(x ast.Node) bool {
			call, ok := x.(*ast.CallExpr)
			if !ok || call.Pos() < placedAt || len(call.Args) < 2 {
				return true
			}
			f := core.Callee(info, call)
			if f == nil || f.Name() != "InsertMove" {
				return true
			}
			id, ok := call.Args[0].(*ast.Ident)
			if !ok {
				return true
			}
			o := info.Uses[id]
			if a := alias[o]; a != nil {
				o = a
			}
			real := fixed[o]
			if real == nil {
				return true
			}
			n++
			c.Check(!argRegs[real] || guarded[real], "R08.11", "amd64 "+fd.Name.Name+": move into "+real.Name()+" after the arguments were placed does not clobber an argument", call.Pos(),
				real.Name()+" is not an argument register, or the callee's argument registers are scanned for it first",
				real.Name()+" is an integer argument register and the move is emitted after the arguments were placed, with no scan of the callee ABI's argument registers: a callee that takes an argument there (the seventh integer parameter) receives the moved value instead (e.g. the code address of an indirect tail call)")
			return true
		})
	})
	c.Count("fixed_register_moves_after_arg_placement", n)
	if n == 0 {
		c.Undecided("R08.11", "fixed-register moves after argument placement", 0, "none found")
	}
}

// ---- R08.12: host modules have no entry preambles ----

// checkEntryPreambleForHostModules: compileHostModule builds no entry preambles, so creating a Go-callable function object must
// not index a compiled module's entryPreambles unless that module is known not to be a host module. A guest may re-export an
// imported host function, and a start function may be one: both reach NewFunction with the host module's engine.
func checkEntryPreambleForHostModules(c *core.Ctx) {
	p := c.Pkg(wzv)
	if p == nil {
		return
	}
	info := p.TypesInfo
	n := 0
	core.AllFuncDecls(p, func(fd *ast.FuncDecl) {
		ast.Inspect(fd.Body, func(x ast.Node) bool {
			ix, ok := x.(*ast.IndexExpr)
			if !ok {
				return true
			}
			se, ok := ast.Unparen(ix.X).(*ast.SelectorExpr)
			if !ok || se.Sel.Name != "entryPreambles" {
				return true
			}
			if _, isIdx := ix.Index.(*ast.BasicLit); isIdx {
				return true
			}
			// only readers (the compile functions assign the elements)
			n++
			guard := false
			ast.Inspect(fd.Body, func(y ast.Node) bool {
				if s2, ok := y.(*ast.SelectorExpr); ok && s2.Sel.Name == "IsHostModule" && s2.Pos() < ix.Pos() {
					guard = true
				}
				return true
			})
			// does the function hand over to the engine of another module (an imported function's)?
			delegates := false
			ast.Inspect(fd.Body, func(y ast.Node) bool {
				if call, ok := y.(*ast.CallExpr); ok {
					if f := core.Callee(info, call); f != nil && f.Name() == fd.Name.Name && call.Pos() < ix.Pos() {
						delegates = true
					}
				}
				return true
			})
			if !delegates {
				c.Discharge("R08.12", "entry preamble lookup in "+fd.Name.Name+" cannot see a host module", ix.Pos(), "the function does not hand over to another module's engine")
				return true
			}
			c.Check(guard, "R08.12", "entry preamble lookup in "+fd.Name.Name+" is guarded for host modules", ix.Pos(),
				"IsHostModule is consulted before the lookup",
				fd.Name.Name+" hands an imported function over to the defining module's engine and indexes that module's entryPreambles, which is empty for a host module (compileHostModule builds none): ExportedFunction of a guest's re-export of a host function, and the instantiation of a module whose start function is an imported host function, panic with 'index out of range [0] with length 0' on the compiler while the interpreter runs them")
			return true
		})
	})
	c.Count("entry_preamble_lookups", n)
	if n == 0 {
		c.Undecided("R08.12", "entry preamble lookups", 0, "none found")
	}
}
