package props

import (
	"fmt"
	"go/ast"
	"go/token"
	"go/types"
	"regexp"
	"sort"
	"strconv"
	"strings"

	"verif/checker/core"
)

// C05 Numeric instructions compute the specified function — only the clauses whose truth is in the shape of the code.

func init() {
	core.Register(&core.Property{
		ID:    "C05",
		Level: "other",
		Explanation: "NOT decided: the numerical result of any instruction (that quantifies over operand values; neither the interpreter's Go arithmetic nor the emitted machine code is evaluated). Decided – four structural necessary conditions of the statement's clauses: " +
			"(R05.1) *shift/rotate counts are taken modulo the width*: in the interpreter's scalar shift arms every Go shift has a count reduced by `% W` (or `& (W-1)`) with W the bit width of the shifted operand's static type, rotates go through math/bits.RotateLeft of the operand's width; in the vector shift arms each shape arm first reduces the popped count modulo the lane width; " +
			"(R05.2) the amd64 vector-shift lowerings mask the count with lane-bits − 1 in every lane arm; (R05.3) *trapping conversions and divisions*: the interpreter arm, the amd64 lowering and the arm64 lowering of signed/unsigned integer division each raise both divide-by-zero and overflow, and of trapping float-to-int truncation each raise both invalid-conversion and overflow (sibling agreement on the set of trap kinds, not on the boundary values); " +
			"(R05.4) *specified treatment of NaN, infinities and signed zero*: the interpreter's min/max/ceil/floor/trunc/nearest arms (scalar and vector) compute through the moremath.WasmCompat helper of the arm's float width and never call math.Min/Max/Ceil/Floor/Round* directly.",
		Rules: []core.Rule{
			{ID: "R05.1", Template: "T-WIDTH", Text: "interpreter shift/rotate counts are reduced modulo the operand / lane width", Min: 16},
			{ID: "R05.2", Template: "T-WIDTH", Text: "amd64 vector-shift lowerings mask the count with lane-bits − 1", Min: 3},
			{ID: "R05.3", Template: "T-SIBLING", Text: "integer division and trapping truncation raise the same set of trap kinds in the interpreter, amd64 and arm64", Min: 5},
			{ID: "R05.5", Template: "T-WIDTH", Text: "SSA passes apply a width-derived shift-count modulus to scalar shifts only", Min: 1},
			{ID: "R05.10", Template: "T-SIBLING", Text: "amd64: every memoised constant has its own slot (slot and data paired one to one)", Min: 1},
			{ID: "R05.9", Template: "T-SIBLING", Text: "amd64 encoder: every site that forces a REX prefix for a byte register uses the same register range", Min: 1},
			{ID: "R05.8", Template: "T-WIDTH", Text: "amd64 vector shifts: a count placed in the immediate of a packed shift is a literal or masked", Min: 1},
			{ID: "R05.6", Template: "T-SIBLING", Text: "condition-code mappings of the backends (negation, operand swap) are involutions", Min: 1},
			{ID: "R05.7", Template: "T-CONSULT", Text: "code looking inside an extension instruction consults its signedness", Min: 2},
			{ID: "R05.4", Template: "T-WHOCALLS", Text: "float rounding/min/max arms use the WasmCompat helper of their width, never the math package's versions", Min: 10},
		},
		Run: runC05,
		Controls: []core.Control{
			{Name: "const-label-slot-shared", File: "internal/engine/wazevo/backend/isa/amd64/machine_vec.go", Old: "m.getOrAllocateConstLabel(&m.constAllOnesI8x16Index, allOnesI8x16[:])", New: "m.getOrAllocateConstLabel(&m.constAllOnesI16x8Index, allOnesI8x16[:])", Rule: "R05.10", Substr: "own slot"},
			{Name: "rex-for-byte-register-misses-rsi", File: "internal/engine/wazevo/backend/isa/amd64/instr_encoding.go", Old: "\t\t\tsrc := regEncodings[op.reg().RealReg()]\n\t\t\tif ext == extModeBL || ext == extModeBQ {\n\t\t\t\t// Some destinations must be encoded with REX.R = 1.\n\t\t\t\tif e := src.encoding(); e >= 4 && e <= 7 {", New: "\t\t\tsrc := regEncodings[op.reg().RealReg()]\n\t\t\tif ext == extModeBL || ext == extModeBQ {\n\t\t\t\t// Some destinations must be encoded with REX.R = 1.\n\t\t\t\tif e := src.encoding(); e >= 4 && e <= 7 && e != 6 {", Rule: "R05.9", Substr: "REX"},
			{Name: "vector-shift-constant-count-unmasked", File: "internal/engine/wazevo/backend/isa/amd64/machine_vec.go", Old: "\t\tshiftOp = sseOpcodePsllq\n\tdefault:\n\t\tpanic(fmt.Sprintf(\"invalid lane type: %s\", lane))\n\t}\n\n\t_xx := m.getOperand_Reg(m.c.ValueDefinition(x))\n\txx := m.copyToTmp(_xx.reg())\n", New: "\t\tshiftOp = sseOpcodePsllq\n\tdefault:\n\t\tpanic(fmt.Sprintf(\"invalid lane type: %s\", lane))\n\t}\n\n\t_xx := m.getOperand_Reg(m.c.ValueDefinition(x))\n\txx := m.copyToTmp(_xx.reg())\n\tif amtDef := m.c.ValueDefinition(y); !isI8x16 && amtDef.IsFromInstr() && amtDef.Instr.Constant() {\n\t\tif amt := amtDef.Instr.ConstantVal(); amt <= 0xff {\n\t\t\tamtDef.Instr.MarkLowered()\n\t\t\tm.insert(m.allocateInstr().asXmmRmiReg(shiftOp, newOperandImm32(uint32(amt)), xx))\n\t\t\tm.copyTo(xx, m.c.VRegOf(ret))\n\t\t\treturn\n\t\t}\n\t}\n", Rule: "R05.8", Substr: "immediate count"},
			{Name: "cond-invert-entry-copied", File: "internal/engine/wazevo/backend/isa/amd64/cond.go", Old: "\tcase condNL:\n\t\treturn condL\n", New: "\tcase condNL:\n\t\treturn condLE\n", Rule: "R05.6", Substr: "involution"},
			{Name: "mask-of-any-extend-is-nop", File: "internal/engine/wazevo/ssa/pass.go", Old: "\t\t\t\t\tif v == 0 {\n\t\t\t\t\t\tb.alias(cur.Return(), x)\n\t\t\t\t\t}\n\t\t\t\t}\n", New: "\t\t\t\t\tif v == 0 {\n\t\t\t\t\t\tb.alias(cur.Return(), x)\n\t\t\t\t\t}\n\t\t\t\t}\n\t\t\tcase OpcodeBand:\n\t\t\t\tx, mask := cur.Arg2()\n\t\t\t\text, k := b.InstructionOfValue(x), b.InstructionOfValue(mask)\n\t\t\t\tif ext == nil || k == nil || !k.Constant() {\n\t\t\t\t\tcontinue\n\t\t\t\t}\n\t\t\t\tif op := ext.Opcode(); op == OpcodeUExtend || op == OpcodeSExtend {\n\t\t\t\t\tif from, _, _ := ext.ExtendData(); k.ConstantVal() == uint64(1)<<from-1 {\n\t\t\t\t\t\tb.alias(cur.Return(), x)\n\t\t\t\t\t}\n\t\t\t\t}\n", Rule: "R05.7", Substr: "signedness"},
			{Name: "i32-shl-without-modulo", File: "internal/engine/interpreter/interpreter.go", Old: "ce.pushValue(uint64(uint32(v1) << (uint32(v2) % 32)))", New: "ce.pushValue(uint64(uint32(v1) << uint32(v2)))", Rule: "R05.1", Substr: "operationKindShl"},
			{Name: "i64-shr-modulo-32", File: "internal/engine/interpreter/interpreter.go", Old: "ce.pushValue(v1 >> (v2 % 64))", New: "ce.pushValue(v1 >> (v2 % 32))", Rule: "R05.1", Substr: "operationKindShr"},
			{Name: "v128-shl-i16-modulo-8", File: "internal/engine/interpreter/interpreter.go", Old: "\t\t\tcase shapeI16x8:\n\t\t\t\ts = s % 16\n\t\t\t\tlo = uint64(uint16(lo<<s)) |", New: "\t\t\tcase shapeI16x8:\n\t\t\t\ts = s % 8\n\t\t\t\tlo = uint64(uint16(lo<<s)) |", Rule: "R05.1", Substr: "V128Shl"},
			{Name: "amd64-vishl-i32-mask-0xf", File: "internal/engine/wazevo/backend/isa/amd64/machine_vec.go", Old: "\tcase ssa.VecLaneI32x4:\n\t\tmodulo = 0x1f\n\t\tshiftOp = sseOpcodePslld", New: "\tcase ssa.VecLaneI32x4:\n\t\tmodulo = 0xf\n\t\tshiftOp = sseOpcodePslld", Rule: "R05.2", Substr: "lowerVIshl"},
			{Name: "nop-elimination-covers-vector-shifts", File: "internal/engine/wazevo/ssa/pass.go", Old: "\t\t\tcase OpcodeIshl, OpcodeSshr, OpcodeUshr:\n", New: "\t\t\tcase OpcodeIshl, OpcodeSshr, OpcodeUshr, OpcodeVIshl, OpcodeVSshr, OpcodeVUshr:\n", Rule: "R05.5", Substr: "passNopInstElimination"},
			{Name: "interp-div-without-overflow-trap", File: "internal/engine/interpreter/interpreter.go", Old: "\t\t\t\tif n == math.MinInt32 && d == -1 {\n\t\t\t\t\tpanic(wasmruntime.ErrRuntimeIntegerOverflow)\n\t\t\t\t}\n", New: "", Rule: "R05.3", Substr: "interpreter"},
			{Name: "interp-min-through-math", File: "internal/engine/interpreter/interpreter.go", Old: "moremath.WasmCompatMin32(", New: "minF32(", Old2: "func i32Abs(v uint32) uint32 {", New2: "func minF32(a, b float32) float32 { return float32(math.Min(float64(a), float64(b))) }\n\nfunc i32Abs(v uint32) uint32 {", Rule: "R05.4", Substr: "Min"},
		},
		Configs: []core.BuildCfg{{GOOS: "linux", GOARCH: "arm64"}},
	})
}

func runC05(c *core.Ctx) {
	checkCondMapsAreInvolutions(c)
	checkConstLabelSlotsPaired(c)
	checkRexByteRegisterSiblings(c)
	checkVectorShiftImmediateMasked(c)
	checkExtendSignednessConsulted(c)
	ip := c.Pkg("internal/engine/interpreter")
	if ip == nil {
		c.Undecided("R05.1", "interpreter", 0, "package not loaded")
		return
	}
	info := ip.TypesInfo
	var exec *ast.FuncDecl
	core.AllFuncDecls(ip, func(fd *ast.FuncDecl) {
		if fd.Name.Name == interpExecLoopName(ip) {
			exec = fd
		}
	})
	if exec == nil {
		c.Undecided("R05.1", "execution loop", 0, "callNativeFunc not found")
		return
	}
	arms := map[string]*ast.CaseClause{}
	ast.Inspect(exec.Body, func(x ast.Node) bool {
		if cc, ok := x.(*ast.CaseClause); ok {
			for _, l := range cc.List {
				if nm := constNameOf(info, l); strings.HasPrefix(nm, "operationKind") {
					arms[nm] = cc
				}
			}
		}
		return true
	})

	// ---- R05.1 scalar shifts
	widthOf := func(t types.Type) int {
		if b, ok := t.Underlying().(*types.Basic); ok {
			switch b.Kind() {
			case types.Uint8, types.Int8:
				return 8
			case types.Uint16, types.Int16:
				return 16
			case types.Uint32, types.Int32:
				return 32
			case types.Uint64, types.Int64:
				return 64
			}
		}
		return 0
	}
	moduloOf := func(e ast.Expr) int { // W if e is `X % W` or `X & (W-1)`, else 0
		e = ast.Unparen(e)
		if call, ok := e.(*ast.CallExpr); ok && len(call.Args) == 1 { // conversion
			if tv, ok := info.Types[call.Fun]; ok && tv.IsType() {
				e = ast.Unparen(call.Args[0])
			}
		}
		be, ok := e.(*ast.BinaryExpr)
		if !ok {
			return 0
		}
		v, ok := core.ConstVal(info, be.Y)
		if !ok {
			return 0
		}
		switch be.Op {
		case token.REM:
			return int(v)
		case token.AND:
			return int(v) + 1
		}
		return 0
	}
	for _, kind := range []string{"operationKindShl", "operationKindShr"} {
		cc := arms[kind]
		if cc == nil {
			c.Undecided("R05.1", "interpreter arm "+kind, 0, "arm not found")
			continue
		}
		n := 0
		ast.Inspect(cc, func(x ast.Node) bool {
			be, ok := x.(*ast.BinaryExpr)
			if !ok || (be.Op != token.SHL && be.Op != token.SHR) {
				return true
			}
			if _, isConst := core.ConstVal(info, be.Y); isConst {
				return true
			}
			n++
			w := widthOf(info.Types[be.X].Type)
			m := moduloOf(be.Y)
			construct := fmt.Sprintf("interpreter arm %s shift #%d of a %d-bit operand takes the count modulo %d", kind, n, w, w)
			c.Check(w > 0 && m == w, "R05.1", construct, be.Pos(), "count is `… % "+strconv.Itoa(w)+"`",
				fmt.Sprintf("`%s`: the count is reduced modulo %d (0 = not at all) but the operand is %d bits wide – Go shifts do not wrap the count, so a count ≥ %d yields 0 (or the sign fill) where the specification takes it modulo the width", core.ExprStr(be), m, w, w))
			return true
		})
		if n == 0 {
			c.Undecided("R05.1", "interpreter arm "+kind, cc.Pos(), "no variable-count shift found")
		}
	}
	for _, kind := range []string{"operationKindRotl", "operationKindRotr"} {
		cc := arms[kind]
		if cc == nil {
			c.Undecided("R05.1", "interpreter arm "+kind, 0, "arm not found")
			continue
		}
		n := 0
		ast.Inspect(cc, func(x ast.Node) bool {
			call, ok := x.(*ast.CallExpr)
			if !ok {
				return true
			}
			f := core.Callee(info, call)
			if f == nil || f.Pkg() == nil || f.Pkg().Path() != "math/bits" || !strings.HasPrefix(f.Name(), "RotateLeft") {
				return true
			}
			n++
			fw, _ := strconv.Atoi(strings.TrimPrefix(f.Name(), "RotateLeft"))
			aw := 0
			if len(call.Args) > 0 {
				aw = widthOf(info.Types[call.Args[0]].Type)
				if inner, ok := ast.Unparen(call.Args[0]).(*ast.CallExpr); ok && len(inner.Args) == 1 { // uint32(v1)
					aw = widthOf(info.Types[inner].Type)
				}
			}
			c.Check(fw > 0 && fw == aw, "R05.1", fmt.Sprintf("interpreter arm %s rotate #%d uses the rotate of its operand width (%d)", kind, n, fw), call.Pos(), "math/bits reduces the count modulo the width", "rotate function width and operand width disagree")
			return true
		})
		// no raw shifts in a rotate arm
		ast.Inspect(cc, func(x ast.Node) bool {
			if be, ok := x.(*ast.BinaryExpr); ok && (be.Op == token.SHL || be.Op == token.SHR) {
				if _, isConst := core.ConstVal(info, be.Y); !isConst {
					n++
					w := widthOf(info.Types[be.X].Type)
					c.Check(moduloOf(be.Y) == w && w > 0, "R05.1", fmt.Sprintf("interpreter arm %s hand-written rotate shift #%d takes the count modulo %d", kind, n, w), be.Pos(), "reduced", "`"+core.ExprStr(be)+"`: count not reduced modulo the width")
				}
			}
			return true
		})
		if n == 0 {
			c.Undecided("R05.1", "interpreter arm "+kind, cc.Pos(), "no rotate found")
		}
	}
	// vector shifts: each shape arm reduces the count variable first
	reShape := regexp.MustCompile(`^shape[IF](\d+)x\d+$`)
	for _, kind := range []string{"operationKindV128Shl", "operationKindV128Shr"} {
		cc := arms[kind]
		if cc == nil {
			c.Undecided("R05.1", "interpreter arm "+kind, 0, "arm not found")
			continue
		}
		n := 0
		ast.Inspect(cc, func(x ast.Node) bool {
			sc, ok := x.(*ast.CaseClause)
			if !ok || sc == cc {
				return true
			}
			for _, l := range sc.List {
				m := reShape.FindStringSubmatch(constNameOf(info, l))
				if m == nil {
					continue
				}
				lane, _ := strconv.Atoi(m[1])
				n++
				// the first assignment of the arm reduces a variable modulo the lane width: `s = s % lane`
				got := 0
				var cnt types.Object
				for _, st := range sc.Body {
					if as, ok := st.(*ast.AssignStmt); ok && len(as.Lhs) == 1 && len(as.Rhs) == 1 {
						if mm := moduloOf(as.Rhs[0]); mm > 0 {
							got = mm
							if id, ok := as.Lhs[0].(*ast.Ident); ok {
								cnt = info.Uses[id]
							}
						}
					}
					break
				}
				// every variable-count shift in the arm uses that variable
				okUse := true
				ast.Inspect(sc, func(y ast.Node) bool {
					if be, ok := y.(*ast.BinaryExpr); ok && (be.Op == token.SHL || be.Op == token.SHR) {
						if _, isConst := core.ConstVal(info, be.Y); !isConst {
							if id, ok := ast.Unparen(be.Y).(*ast.Ident); !ok || info.Uses[id] != cnt {
								okUse = false
							}
						}
					}
					return true
				})
				c.Check(got == lane && okUse, "R05.1", fmt.Sprintf("interpreter arm %s/%s reduces the count modulo %d", kind, constNameOf(info, l), lane), sc.Pos(), "first statement `s = s % "+strconv.Itoa(lane)+"`, all shifts use it",
					fmt.Sprintf("the count is reduced modulo %d (0 = not at all) in an arm for %d-bit lanes, or a shift uses another count", got, lane))
			}
			return true
		})
		if n == 0 {
			c.Undecided("R05.1", "interpreter arm "+kind, cc.Pos(), "no shape arm found")
		}
	}

	// ---- R05.2 amd64 vector shift masks
	if p := c.Pkg("internal/engine/wazevo/backend/isa/amd64"); p != nil {
		pinfo := p.TypesInfo
		// the per-lane helpers the vector-shift lowerings dispatch to (one level), whatever they are called
		vshiftHelpers := map[string]bool{}
		core.AllFuncDecls(p, func(fd *ast.FuncDecl) {
			if !regexp.MustCompile(`(?i)^lowerV.*(shl|shr)`).MatchString(fd.Name.Name) {
				return
			}
			ast.Inspect(fd.Body, func(x ast.Node) bool {
				if call, ok := x.(*ast.CallExpr); ok {
					if f := core.Callee(pinfo, call); f != nil && f.Pkg() == p.Types && strings.HasPrefix(f.Name(), "lower") {
						vshiftHelpers[f.Name()] = true
					}
				}
				return true
			})
		})
		core.AllFuncDecls(p, func(fd *ast.FuncDecl) {
			if !regexp.MustCompile(`(?i)^lowerV.*(shl|shr)`).MatchString(fd.Name.Name) && !vshiftHelpers[fd.Name.Name] {
				return
			}
			var bad []string
			n := 0
			ast.Inspect(fd.Body, func(x ast.Node) bool {
				cc, ok := x.(*ast.CaseClause)
				if !ok {
					return true
				}
				for _, l := range cc.List {
					lb, ok := laneBytes[constNameOf(pinfo, l)]
					if !ok {
						continue
					}
					for _, st := range cc.Body {
						if as, ok := st.(*ast.AssignStmt); ok && len(as.Rhs) == 1 {
							if v, ok := core.ConstVal(pinfo, as.Rhs[0]); ok && v > 0 && (v+1)&v == 0 && v >= 7 && v <= 63 {
								n++
								if int(v) != lb*8-1 {
									bad = append(bad, fmt.Sprintf("%s = %#x in arm %s at %s", core.ExprStr(as.Lhs[0]), v, constNameOf(pinfo, l), c.Pos(as.Pos())))
								}
							}
						}
					}
				}
				return true
			})
			// single-lane helpers (lowerVUshri8x16 …) carry the mask as an immediate: `newOperandImm32(0x7)` with AND
			if n == 0 {
				if m := regexp.MustCompile(`(?i)i(\d+)x\d+$`).FindStringSubmatch(fd.Name.Name); m != nil {
					lane, _ := strconv.Atoi(m[1])
					ast.Inspect(fd.Body, func(x ast.Node) bool {
						call, ok := x.(*ast.CallExpr)
						if !ok {
							return true
						}
						if f := core.Callee(pinfo, call); f != nil && (f.Name() == "lowerIconst" || f.Name() == "newOperandImm32") {
							for _, a := range call.Args {
								if v, ok := core.ConstVal(pinfo, a); ok && v >= 7 && v <= 63 && (v+1)&v == 0 {
									n++
									if int(v) != lane-1 {
										bad = append(bad, fmt.Sprintf("mask %#x at %s", v, c.Pos(call.Pos())))
									}
								}
							}
						}
						return true
					})
				}
			}
			if n > 0 {
				c.Check(len(bad) == 0, "R05.2", "amd64 "+fd.Name.Name+" masks the count with lane-bits − 1", fd.Pos(), fmt.Sprintf("%d mask constant(s)", n),
					strings.Join(bad, "; ")+": the vector shift uses the count modulo a different power of two than the lane width")
			}
		})
	}

	// ---- R05.5 SSA passes: a shift-count modulus taken from the scalar type is applied to scalar shifts only
	if sp := c.Pkg("internal/engine/wazevo/ssa"); sp != nil {
		sinfo := sp.TypesInfo
		n := 0
		core.AllFuncDecls(sp, func(fd *ast.FuncDecl) {
			if !strings.HasPrefix(fd.Name.Name, "pass") {
				return
			}
			ast.Inspect(fd.Body, func(x ast.Node) bool {
				cc, ok := x.(*ast.CaseClause)
				if !ok {
					return true
				}
				var scalar, vector []string
				for _, l := range cc.List {
					switch nm := constNameOf(sinfo, l); nm {
					case "OpcodeIshl", "OpcodeSshr", "OpcodeUshr", "OpcodeRotl", "OpcodeRotr":
						scalar = append(scalar, nm)
					case "OpcodeVIshl", "OpcodeVSshr", "OpcodeVUshr":
						vector = append(vector, nm)
					}
				}
				if len(scalar)+len(vector) == 0 {
					return true
				}
				// does the arm derive a modulus from the scalar bit width?
				usesBits := false
				ast.Inspect(cc, func(y ast.Node) bool {
					if call, ok := y.(*ast.CallExpr); ok {
						if se, ok := call.Fun.(*ast.SelectorExpr); ok && se.Sel.Name == "Bits" {
							usesBits = true
						}
					}
					return true
				})
				if !usesBits {
					return true
				}
				n++
				c.Check(len(vector) == 0, "R05.5", "SSA pass "+fd.Name.Name+": the width-derived shift modulus is applied to scalar shifts only", cc.Pos(), strings.Join(scalar, ", "),
					"the arm also covers "+strings.Join(vector, ", ")+" but takes the modulus from the operand type's bit width: for a vector shift the count is taken modulo the *lane* width, so e.g. an i64x2 shift by 32 is treated as a no-op and removed")
				return true
			})
		})
		if n == 0 {
			c.Discharge("R05.5", "no SSA pass reduces shift counts by the operand width", 0, "nothing to check")
		}
	}

	// ---- R05.3 trap kinds
	rt := c.Pkg("internal/wasmruntime")
	refsOf := func(p *types.Package, pinfo *types.Info, n ast.Node, prefix string) map[string]bool {
		out := map[string]bool{}
		ast.Inspect(n, func(x ast.Node) bool {
			if se, ok := x.(*ast.SelectorExpr); ok && strings.HasPrefix(se.Sel.Name, prefix) {
				out[se.Sel.Name] = true
			}
			return true
		})
		return out
	}
	need := func(rule, what string, pos token.Pos, have map[string]bool, wants ...string) {
		var miss []string
		for _, w := range wants {
			if !have[w] {
				miss = append(miss, w)
			}
		}
		sort.Strings(miss)
		c.Check(len(miss) == 0, rule, what, pos, "raises "+strings.Join(wants, " and "), "does not raise "+strings.Join(miss, ", ")+": the instruction returns a value (or crashes the host with a Go runtime panic / hardware fault) where the specification and the other engine trap")
	}
	if rt != nil {
		if cc := arms["operationKindDiv"]; cc != nil {
			n := 0
			ast.Inspect(cc, func(x ast.Node) bool {
				sc, ok := x.(*ast.CaseClause)
				if !ok || sc == cc {
					return true
				}
				for _, l := range sc.List {
					switch nm := constNameOf(info, l); nm {
					case "signedTypeInt32", "signedTypeInt64":
						if len(sc.Body) == 0 {
							continue
						}
						n++
						need("R05.3", "interpreter signed division traps on overflow ("+nm+")", sc.Pos(), refsOf(nil, info, sc, "ErrRuntime"), "ErrRuntimeIntegerOverflow")
					}
				}
				return true
			})
			need("R05.3", "interpreter integer division traps", cc.Pos(), refsOf(nil, info, cc, "ErrRuntime"), "ErrRuntimeIntegerDivideByZero", "ErrRuntimeIntegerOverflow")
			if n < 2 {
				c.Undecided("R05.3", "interpreter signed division tag arms", cc.Pos(), "signedTypeInt32/Int64 sub-arms not found")
			}
		}
		if cc := arms["operationKindRem"]; cc != nil {
			need("R05.3", "interpreter integer remainder traps", cc.Pos(), refsOf(nil, info, cc, "ErrRuntime"), "ErrRuntimeIntegerDivideByZero")
		}
		if cc := arms["operationKindITruncFromF"]; cc != nil {
			need("R05.3", "interpreter trapping truncation traps", cc.Pos(), refsOf(nil, info, cc, "ErrRuntime"), "ErrRuntimeInvalidConversionToInteger", "ErrRuntimeIntegerOverflow")
		}
	}
	for _, isa := range []string{"amd64", "arm64"} {
		p := c.Pkg("internal/engine/wazevo/backend/isa/" + isa)
		if p == nil {
			continue
		}
		pinfo := p.TypesInfo
		decls := map[string]*ast.FuncDecl{}
		core.AllFuncDecls(p, func(fd *ast.FuncDecl) { decls[fd.Name.Name] = fd })
		// exit codes referenced by the functions called from the arm of op (depth 2)
		codesFor := func(op string) (map[string]bool, token.Pos) {
			out := map[string]bool{}
			var pos token.Pos
			var lower *ast.FuncDecl = decls["LowerInstr"]
			if lower == nil {
				return out, 0
			}
			ast.Inspect(lower.Body, func(x ast.Node) bool {
				cc, ok := x.(*ast.CaseClause)
				if !ok {
					return true
				}
				hit := false
				for _, l := range cc.List {
					if constNameOf(pinfo, l) == op {
						hit = true
					}
				}
				if !hit {
					return true
				}
				pos = cc.Pos()
				seen := map[string]bool{}
				var visit func(n ast.Node, d int)
				visit = func(n ast.Node, d int) {
					for k := range refsOf(nil, pinfo, n, "ExitCode") {
						out[k] = true
					}
					if d >= 3 {
						return
					}
					ast.Inspect(n, func(y ast.Node) bool {
						if call, ok := y.(*ast.CallExpr); ok {
							if f := core.Callee(pinfo, call); f != nil && f.Pkg() == p.Types && !seen[f.Name()] {
								seen[f.Name()] = true
								if fd := decls[f.Name()]; fd != nil && (strings.HasPrefix(f.Name(), "lower") || strings.HasPrefix(f.Name(), "allocate")) {
									visit(fd.Body, d+1)
								}
								// a pseudo-instruction expanded after register allocation: follow its kind to the expander
								if fd := decls[f.Name()]; fd != nil && (strings.HasPrefix(f.Name(), "as") || strings.HasPrefix(f.Name(), "allocate")) {
									var kind types.Object
									ast.Inspect(fd.Body, func(z ast.Node) bool {
										if as, ok := z.(*ast.AssignStmt); ok && len(as.Lhs) == 1 && len(as.Rhs) == 1 {
											if fl := core.FieldOf(pinfo, as.Lhs[0]); fl != nil && fl.Name() == "kind" {
												kind = constObjOf(pinfo, as.Rhs[0])
											}
										}
										return true
									})
									if kind != nil {
										for _, g := range decls {
											ast.Inspect(g.Body, func(z ast.Node) bool {
												if cc2, ok := z.(*ast.CaseClause); ok {
													for _, l := range cc2.List {
														if constObjOf(pinfo, l) == kind {
															for _, st := range cc2.Body {
																ast.Inspect(st, func(w ast.Node) bool {
																	if c3, ok := w.(*ast.CallExpr); ok {
																		if h := core.Callee(pinfo, c3); h != nil && h.Pkg() == p.Types && strings.HasPrefix(h.Name(), "lower") && !seen[h.Name()] {
																			seen[h.Name()] = true
																			if hd := decls[h.Name()]; hd != nil {
																				visit(hd.Body, d+1)
																			}
																		}
																	}
																	return true
																})
															}
														}
													}
												}
												return true
											})
										}
									}
								}
							}
						}
						return true
					})
				}
				for _, st := range cc.Body {
					visit(st, 0)
				}
				return false
			})
			return out, pos
		}
		if codes, pos := codesFor("OpcodeSdiv"); pos != 0 {
			need("R05.3", isa+" integer division traps", pos, codes, "ExitCodeIntegerDivisionByZero", "ExitCodeIntegerOverflow")
		} else {
			c.Undecided("R05.3", isa+" integer division arm", 0, "arm not found")
		}
		if codes, pos := codesFor("OpcodeFcvtToSint"); pos != 0 {
			need("R05.3", isa+" trapping truncation traps", pos, codes, "ExitCodeInvalidConversionToInteger", "ExitCodeIntegerOverflow")
		} else {
			c.Undecided("R05.3", isa+" truncation arm", 0, "arm not found")
		}
	}

	// ---- R05.4 float helpers
	banned := map[string]bool{"Min": true, "Max": true, "Ceil": true, "Floor": true, "Round": true, "RoundToEven": true}
	var kinds []string
	for k := range arms {
		for _, w := range []string{"Min", "Max", "Ceil", "Floor", "Nearest"} {
			if strings.HasSuffix(k, w) || strings.Contains(k, "V128"+w) || strings.Contains(k, "V128P"+strings.ToLower(w)) {
				kinds = append(kinds, k)
			}
		}
		if k == "operationKindTrunc" || k == "operationKindV128Trunc" {
			kinds = append(kinds, k)
		}
	}
	sort.Strings(kinds)
	for _, k := range kinds {
		cc := arms[k]
		var direct []string
		helpers := 0
		var mismatch []string
		// width context: nearest enclosing f32 / f64 tag inside the arm
		var walk func(stmts []ast.Stmt, width int)
		walk = func(stmts []ast.Stmt, width int) {
			for _, st := range stmts {
				ast.Inspect(st, func(y ast.Node) bool {
					switch z := y.(type) {
					case *ast.CaseClause:
						w := width
						for _, l := range z.List {
							nm := constNameOf(info, l)
							switch {
							case nm == "f32" || strings.HasSuffix(nm, "F32") || strings.HasSuffix(nm, "Float32") || nm == "shapeF32x4":
								w = 32
							case nm == "f64" || strings.HasSuffix(nm, "F64") || strings.HasSuffix(nm, "Float64") || nm == "shapeF64x2":
								w = 64
							}
						}
						walk(z.Body, w)
						return false
					case *ast.CallExpr:
						f := core.Callee(info, z)
						if f == nil || f.Pkg() == nil {
							return true
						}
						if f.Pkg().Path() == "math" && banned[f.Name()] {
							direct = append(direct, "math."+f.Name()+" at "+c.Pos(z.Pos()))
						}
						if strings.HasSuffix(f.Pkg().Path(), "internal/moremath") && strings.HasPrefix(f.Name(), "WasmCompat") {
							helpers++
							hw := 0
							if strings.HasSuffix(f.Name(), "32") {
								hw = 32
							} else if strings.HasSuffix(f.Name(), "64") {
								hw = 64
							}
							if width != 0 && hw != 0 && hw != width {
								mismatch = append(mismatch, fmt.Sprintf("%s under a %d-bit tag at %s", f.Name(), width, c.Pos(z.Pos())))
							}
						}
					}
					return true
				})
			}
		}
		walk(cc.Body, 0)
		// calls of local helpers are followed (depth 3)
		seenH := map[string]bool{}
		var follow func(n ast.Node, d int)
		follow = func(n ast.Node, d int) {
			ast.Inspect(n, func(y ast.Node) bool {
				call, ok := y.(*ast.CallExpr)
				if !ok {
					return true
				}
				f := core.Callee(info, call)
				if f == nil || f.Pkg() == nil {
					return true
				}
				if d > 0 {
					if f.Pkg().Path() == "math" && banned[f.Name()] {
						direct = append(direct, "math."+f.Name()+" (through a local helper) at "+c.Pos(call.Pos()))
					}
					if strings.HasSuffix(f.Pkg().Path(), "internal/moremath") && strings.HasPrefix(f.Name(), "WasmCompat") {
						helpers++
					}
				}
				if f.Pkg() == ip.Types && d < 3 && !seenH[f.Name()] {
					seenH[f.Name()] = true
					if fd := core.FuncDecl(ip, "", f.Name()); fd != nil && fd != exec {
						follow(fd.Body, d+1)
					}
				}
				return true
			})
		}
		follow(cc, 0)
		if helpers == 0 && len(direct) == 0 {
			continue // integer min/max arms (V128 integer shapes only) use comparisons
		}
		c.Check(len(direct) == 0 && len(mismatch) == 0, "R05.4", "interpreter arm "+k+" computes through the WasmCompat helper of its width", cc.Pos(), fmt.Sprintf("%d helper call(s)", helpers),
			strings.Join(append(direct, mismatch...), "; ")+": the math package's version treats NaN payloads / signed zero / ties differently from the specification (or the helper of the other float width rounds twice)")
	}
}
