package props

import (
	"go/ast"
	"go/constant"
	"go/token"
	"go/types"
	"regexp"
	"strconv"
	"strings"

	"verif/checker/core"
)

// ---- spec width of a memory instruction, from the mnemonic carried by the wasm.Opcode* constant name ----

var (
	reVecShape  = regexp.MustCompile(`V128Load(\d+)x(\d+)[su]$`)
	reVecSplat  = regexp.MustCompile(`V128Load(\d+)Splat$`)
	reVecZero   = regexp.MustCompile(`V128Load(\d+)zero$`)
	reVecLane   = regexp.MustCompile(`V128(?:Load|Store)(\d+)Lane$`)
	reScalar    = regexp.MustCompile(`^(I32|I64|F32|F64)(Load|Store)(\d+)?[SU]?$`)
	reRmw       = regexp.MustCompile(`^(I32|I64)Rmw(\d+)?[A-Za-z]+$`)
	reWait      = regexp.MustCompile(`MemoryWait(\d+)$`)
	typeWidthOf = map[string]int{"I32": 4, "F32": 4, "I64": 8, "F64": 8}
)

// specWidth returns the number of bytes the instruction named by the constant accesses, 0 if it is not a
// load/store/atomic access with an immediate memarg.
func specWidth(name string) int {
	n := strings.TrimPrefix(name, "Opcode")
	n = strings.TrimPrefix(n, "Vec")
	n = strings.TrimPrefix(n, "Atomic")
	if strings.HasSuffix(n, "Name") {
		return 0
	}
	atoi := func(s string) int { v, _ := strconv.Atoi(s); return v }
	switch {
	case reVecShape.MatchString(n):
		return 8
	case reVecSplat.MatchString(n):
		return atoi(reVecSplat.FindStringSubmatch(n)[1]) / 8
	case reVecZero.MatchString(n):
		return atoi(reVecZero.FindStringSubmatch(n)[1]) / 8
	case reVecLane.MatchString(n):
		return atoi(reVecLane.FindStringSubmatch(n)[1]) / 8
	case n == "V128Load" || n == "V128Store":
		return 16
	case reWait.MatchString(n):
		return atoi(reWait.FindStringSubmatch(n)[1]) / 8
	case n == "MemoryNotify":
		return 4
	case reScalar.MatchString(n):
		m := reScalar.FindStringSubmatch(n)
		if m[3] != "" {
			return atoi(m[3]) / 8
		}
		return typeWidthOf[m[1]]
	case reRmw.MatchString(n):
		m := reRmw.FindStringSubmatch(n)
		if m[2] != "" {
			return atoi(m[2]) / 8
		}
		return typeWidthOf[m[1]]
	}
	return 0
}

// ---- a small evaluator of one dispatcher arm for one opcode label ----

type aval struct {
	val  constant.Value // nil: unknown
	name string         // name of the constant the value came from (e.g. TypeF32), if any
}

type armCall struct {
	call *ast.CallExpr
	args []aval
}

type armEval struct {
	info    *types.Info
	label   types.Object          // the opcode constant the tag variables are bound to
	tags    map[types.Object]bool // the dispatch variables (op, vecOp, atomicOp, miscOp)
	want    func(f *types.Func) bool
	sizeOf  map[string]int64 // X.Size() / X.Bits() for named constants
	calls   []armCall
	exited  bool
	maxStep int
	// helper, when set, resolves a function of the package to its declaration: a call that passes a dispatch variable on
	// (c.lowerStore(op)) is interpreted in place, with the parameter bound to the same label
	helper   func(f *types.Func) *ast.FuncDecl
	depth    int
	bareStmt bool
}

// inlineHelper interprets the body of a helper that is handed a dispatch variable; reports whether it did.
func (e *armEval) inlineHelper(call *ast.CallExpr, env map[types.Object]aval) bool {
	if e.helper == nil || e.depth >= 2 {
		return false
	}
	f := core.Callee(e.info, call)
	if f == nil {
		return false
	}
	var tagArgs []int
	for i, a := range call.Args {
		if id, ok := ast.Unparen(a).(*ast.Ident); ok && e.tags[e.info.Uses[id]] {
			tagArgs = append(tagArgs, i)
		}
	}
	if len(tagArgs) == 0 && !e.bareStmt {
		return false
	}
	hd := e.helper(f)
	if hd == nil || hd.Body == nil {
		return false
	}
	var params []types.Object
	for _, fl := range hd.Type.Params.List {
		for _, nm := range fl.Names {
			params = append(params, e.info.Defs[nm])
		}
	}
	henv := map[types.Object]aval{}
	for i, a := range call.Args {
		if i < len(params) && params[i] != nil {
			henv[params[i]] = e.eval(a, env)
		}
	}
	var added []types.Object
	for _, i := range tagArgs {
		if i < len(params) && params[i] != nil && !e.tags[params[i]] {
			e.tags[params[i]] = true
			added = append(added, params[i])
		}
	}
	e.depth++
	e.run(hd.Body.List, henv)
	e.depth--
	for _, o := range added {
		delete(e.tags, o)
	}
	return true
}

func (e *armEval) eval(x ast.Expr, env map[types.Object]aval) aval {
	x = ast.Unparen(x)
	if tv, ok := e.info.Types[x]; ok && tv.Value != nil {
		return aval{val: tv.Value, name: constNameOf(e.info, x)}
	}
	switch y := x.(type) {
	case *ast.Ident:
		if o := e.info.Uses[y]; o != nil {
			if v, ok := env[o]; ok {
				return v
			}
		}
	case *ast.CallExpr:
		// conversion T(x)
		if len(y.Args) == 1 {
			if tv, ok := e.info.Types[y.Fun]; ok && tv.IsType() {
				return e.eval(y.Args[0], env)
			}
		}
		// X.Size() / X.Bits() on a named constant
		if se, ok := y.Fun.(*ast.SelectorExpr); ok && len(y.Args) == 0 {
			recv := e.eval(se.X, env)
			if recv.name != "" {
				if b, ok := e.sizeOf[recv.name]; ok {
					switch se.Sel.Name {
					case "Size":
						return aval{val: constant.MakeInt64(b)}
					case "Bits":
						return aval{val: constant.MakeInt64(b * 8)}
					}
				}
			}
		}
	case *ast.BinaryExpr:
		l, r := e.eval(y.X, env), e.eval(y.Y, env)
		if l.val != nil && r.val != nil && l.val.Kind() == constant.Int && r.val.Kind() == constant.Int {
			switch y.Op {
			case token.ADD, token.SUB, token.MUL, token.QUO:
				if y.Op == token.QUO {
					if constant.Sign(r.val) == 0 {
						return aval{}
					}
					return aval{val: constant.BinaryOp(l.val, token.QUO_ASSIGN, r.val)}
				}
				return aval{val: constant.BinaryOp(l.val, y.Op, r.val)}
			}
		}
	}
	return aval{}
}

func copyEnv(env map[types.Object]aval) map[types.Object]aval {
	out := make(map[types.Object]aval, len(env))
	for k, v := range env {
		out[k] = v
	}
	return out
}

func mergeEnv(a, b map[types.Object]aval) map[types.Object]aval {
	out := map[types.Object]aval{}
	for k, v := range a {
		if w, ok := b[k]; ok && v.val != nil && w.val != nil && constant.Compare(v.val, token.EQL, w.val) && v.name == w.name {
			out[k] = v
		}
	}
	return out
}

func (e *armEval) scanCalls(n ast.Node, env map[types.Object]aval) {
	ast.Inspect(n, func(x ast.Node) bool {
		if _, isLit := x.(*ast.FuncLit); isLit {
			return false
		}
		call, ok := x.(*ast.CallExpr)
		if !ok {
			return true
		}
		if f := core.Callee(e.info, call); f != nil && e.want(f) {
			ac := armCall{call: call}
			for _, a := range call.Args {
				ac.args = append(ac.args, e.eval(a, env))
			}
			e.calls = append(e.calls, ac)
		}
		return true
	})
}

func (e *armEval) lhsObj(l ast.Expr) types.Object {
	if id, ok := ast.Unparen(l).(*ast.Ident); ok {
		if o := e.info.Defs[id]; o != nil {
			return o
		}
		return e.info.Uses[id]
	}
	return nil
}

// run interprets the statements; returns the environment after them.
func (e *armEval) run(stmts []ast.Stmt, env map[types.Object]aval) map[types.Object]aval {
	for _, s := range stmts {
		if e.exited {
			return env
		}
		switch x := s.(type) {
		case *ast.DeclStmt:
			if gd, ok := x.Decl.(*ast.GenDecl); ok {
				for _, sp := range gd.Specs {
					if vs, ok := sp.(*ast.ValueSpec); ok {
						for i, id := range vs.Names {
							o := e.info.Defs[id]
							if o == nil {
								continue
							}
							if i < len(vs.Values) {
								e.scanCalls(vs.Values[i], env)
								env[o] = e.eval(vs.Values[i], env)
							} else if b, ok := o.Type().Underlying().(*types.Basic); ok && b.Info()&types.IsInteger != 0 {
								env[o] = aval{val: constant.MakeInt64(0)}
							} else {
								delete(env, o)
							}
						}
					}
				}
			}
		case *ast.AssignStmt:
			for _, r := range x.Rhs {
				e.scanCalls(r, env)
			}
			if len(x.Lhs) == len(x.Rhs) {
				vals := make([]aval, len(x.Rhs))
				for i, r := range x.Rhs {
					vals[i] = e.eval(r, env)
				}
				for i, l := range x.Lhs {
					if o := e.lhsObj(l); o != nil {
						if x.Tok == token.ASSIGN || x.Tok == token.DEFINE {
							env[o] = vals[i]
						} else {
							delete(env, o)
						}
					}
				}
			} else {
				for _, l := range x.Lhs {
					if o := e.lhsObj(l); o != nil {
						delete(env, o)
					}
				}
			}
		case *ast.SwitchStmt:
			if x.Init != nil {
				env = e.run([]ast.Stmt{x.Init}, env)
			}
			tagObj := types.Object(nil)
			if id, ok := ast.Unparen(x.Tag).(*ast.Ident); ok && x.Tag != nil {
				tagObj = e.info.Uses[id]
			}
			if tagObj != nil && e.tags[tagObj] {
				// select the clause for the label, following fallthrough
				idx, dflt := -1, -1
				for i, cs := range x.Body.List {
					cc := cs.(*ast.CaseClause)
					if cc.List == nil {
						dflt = i
					}
					for _, l := range cc.List {
						if o := constObjOf(e.info, l); o != nil && o == e.label {
							idx = i
						}
					}
				}
				if idx < 0 {
					idx = dflt
				}
				for idx >= 0 && idx < len(x.Body.List) {
					cc := x.Body.List[idx].(*ast.CaseClause)
					env = e.run(cc.Body, env)
					if n := len(cc.Body); n > 0 {
						if br, ok := cc.Body[n-1].(*ast.BranchStmt); ok && br.Tok == token.FALLTHROUGH {
							idx++
							continue
						}
					}
					break
				}
				continue
			}
			if x.Tag != nil {
				e.scanCalls(x.Tag, env)
			}
			var merged map[types.Object]aval
			hasDefault := false
			for _, cs := range x.Body.List {
				cc := cs.(*ast.CaseClause)
				if cc.List == nil {
					hasDefault = true
				}
				out := e.run(cc.Body, copyEnv(env))
				if merged == nil {
					merged = out
				} else {
					merged = mergeEnv(merged, out)
				}
			}
			if merged == nil {
				merged = env
			} else if !hasDefault {
				merged = mergeEnv(merged, env)
			}
			env = merged
		case *ast.IfStmt:
			if x.Init != nil {
				env = e.run([]ast.Stmt{x.Init}, env)
			}
			e.scanCalls(x.Cond, env)
			// `if state.unreachable { break }` and similar early exits do not affect the reachable continuation
			thenEnv := e.run(x.Body.List, copyEnv(env))
			elseEnv := env
			if x.Else != nil {
				switch el := x.Else.(type) {
				case *ast.BlockStmt:
					elseEnv = e.run(el.List, copyEnv(env))
				case *ast.IfStmt:
					elseEnv = e.run([]ast.Stmt{el}, copyEnv(env))
				}
			}
			if endsWithJump(x.Body.List) {
				env = elseEnv
			} else {
				env = mergeEnv(thenEnv, elseEnv)
			}
		case *ast.BlockStmt:
			env = e.run(x.List, env)
		case *ast.ForStmt:
			e.scanCalls(x, env)
			for o := range assignedIn(e, x.Body) {
				delete(env, o)
			}
		case *ast.RangeStmt:
			e.scanCalls(x, env)
			for o := range assignedIn(e, x.Body) {
				delete(env, o)
			}
		case *ast.BranchStmt, *ast.ReturnStmt:
			return env
		default:
			if es, ok := s.(*ast.ExprStmt); ok {
				if call, ok := es.X.(*ast.CallExpr); ok && !(core.Callee(e.info, call) != nil && e.want(core.Callee(e.info, call))) {
					// a bare call statement of a method of the package is interpreted in place too: the arm may hand its
					// whole lowering to a method without arguments (c.lowerAtomicMemoryNotify())
					e.bareStmt = true
					done := e.inlineHelper(call, env)
					e.bareStmt = false
					if done {
						continue
					}
				}
			}
			e.scanCalls(s, env)
		}
	}
	return env
}

func endsWithJump(list []ast.Stmt) bool {
	if len(list) == 0 {
		return false
	}
	switch x := list[len(list)-1].(type) {
	case *ast.BranchStmt:
		return x.Tok == token.BREAK || x.Tok == token.CONTINUE || x.Tok == token.GOTO
	case *ast.ReturnStmt:
		return true
	case *ast.ExprStmt:
		if call, ok := x.X.(*ast.CallExpr); ok {
			if id, ok := call.Fun.(*ast.Ident); ok && id.Name == "panic" {
				return true
			}
		}
	}
	return false
}

func assignedIn(e *armEval, n ast.Node) map[types.Object]bool {
	out := map[types.Object]bool{}
	ast.Inspect(n, func(x ast.Node) bool {
		switch y := x.(type) {
		case *ast.AssignStmt:
			for _, l := range y.Lhs {
				if o := e.lhsObj(l); o != nil {
					out[o] = true
				}
			}
		case *ast.IncDecStmt:
			if o := e.lhsObj(y.X); o != nil {
				out[o] = true
			}
		}
		return true
	})
	return out
}

func constObjOf(info *types.Info, e ast.Expr) types.Object {
	switch x := ast.Unparen(e).(type) {
	case *ast.Ident:
		if k, ok := info.Uses[x].(*types.Const); ok {
			return k
		}
	case *ast.SelectorExpr:
		if k, ok := info.Uses[x.Sel].(*types.Const); ok {
			return k
		}
	}
	return nil
}

// enclosingTagVars: the identifiers used as tags of the switches enclosing (and including) sw.
func switchTagVars(info *types.Info, root ast.Node) map[types.Object]bool {
	out := map[types.Object]bool{}
	ast.Inspect(root, func(n ast.Node) bool {
		if sw, ok := n.(*ast.SwitchStmt); ok && sw.Tag != nil {
			if id, ok := ast.Unparen(sw.Tag).(*ast.Ident); ok {
				if o := info.Uses[id]; o != nil {
					// only dispatch variables: their switch has opcode-constant labels
					for _, cs := range sw.Body.List {
						for _, l := range cs.(*ast.CaseClause).List {
							if nm := constNameOf(info, l); nm != "" && opClass(nm) != "" {
								out[o] = true
							}
						}
					}
				}
			}
		}
		return true
	})
	return out
}
